"""C08 — Wasserstein embeddings depend only on the measure, not on its encoding.

Proof gate (Properties/C08.v and every Properties/C08_*.v: C08_isometry, C08_spherical) + correspondence of the per-row
pipeline of lot_vectors_dense_internal / lot_vectors_sparse_internal (euclidean and cosine / spherical branch) with
Model/K17_LOTglue.lot_pipeline and Model/K17_LOTspherical.lot_pipeline_sph executed on binary64 (PrimFloat,
vm_compute) with the implementation's own plan as input, of sinkhorn_vectors_sparse_internal with
K17_LOTspherical.sinkhorn_row given the implementation's own Sinkhorn scalings, and of
ApproximateWassersteinVectorizer.transform with Model/K17_ApproxW.approx_transform given the fitted SVD factors
+ property oracle on the implementation:
every distribution re-encoded by scale / zero-padding / permutation / splitting, memory_size from "1k" upward,
input formats, metrics, reference sizes, for the Wasserstein, Sinkhorn and ApproximateWasserstein vectorizers, and the
pairwise-distance isometry at full-rank n_components."""
import copy
import math

from . import common as C
from .c07 import run_child

REL = 1e-6            # oracle tolerance, relative to the magnitude of the compared rows
MARGIN = 1e-5         # rows whose optimal plan is not unique by this dual-slack margin are skipped (counted)
MODEL_TOL = 1e-9      # correspondence tolerance

HEADER = """From Coq Require Import ZArith List PrimFloat Uint63.
From VZ Require Import Model.K17_LOTglue.
Import ListNotations.
Open Scope float_scope.
Definition fz (f : float) : Z * Z :=
  let (m, e) := frshiftexp (abs f) in
  ((if PrimFloat.ltb f 0 then -1 else 1)%Z * Uint63.to_Z (normfr_mantissa m), Uint63.to_Z e)%Z.
"""

HEADER_SPH = HEADER.replace("Model.K17_LOTglue.", "Model.K17_LOTglue Model.K17_LOTspherical Model.K17_ApproxW.") + """
Definition images_F := images float 0 1 PrimFloat.add PrimFloat.mul PrimFloat.div.
Definition truncate_F := @truncate float PrimFloat.ltb (list float).
(* the spherical row of the model and, per reference point, the norm of the tangent vector before normalisation *)
Definition sph_case (maxsize m d : nat) (w : list float) (xs : list (list float)) (q : list float) (ys plan : list (list float)) :=
  let img := images_F m d q (combine (map snd (truncate_F maxsize (combine w xs))) plan) in
  (map fz (lot_pipeline_sph_F maxsize m d w xs q ys (fun _ => plan)),
   map2 (fun n c => [fz n; fz c; fz (tie_dist_F c)]) (tangent_norms_F m d img ys) (cosines_F m d img ys)).
Definition sink_images_F := sink_images float 0 PrimFloat.add PrimFloat.mul PrimFloat.eqb.
Definition sink_case (m d : nat) (us vs : list (list float)) (K xs ys : list (list float)) :=
  map2 (fun u v => let img := sink_images_F d u K v xs in
                   (map fz (sinkhorn_row_F m d u K v xs ys),
                    map2 (fun n c => [fz n; fz c; fz (tie_dist_F c)]) (tangent_norms_F m d img ys) (cosines_F m d img ys))) us vs.
Definition approx_case (pw : float -> float) (d : nat) (V comps : list (list float)) (svs : list float)
           (X : list (list (nat * float))) := map (map fz) (approx_transform_F pw d V comps svs X).
"""


# ---------------------------------------------------------------- data generation (parent; plain lists)
def gauss_vec(rng, d, centre=None, scale=1.0):
    return [(centre[k] if centre else 0.0) + scale * rng.gauss(0, 1) for k in range(d)]


def gen_base(rng, metric, equal_sizes=False, n_rows=None):
    d = rng.choice([2, 3, 3, 4])
    N = rng.randint(6, 12)
    n = n_rows or rng.randint(6, 11)
    centre = [rng.gauss(0, 1) for _ in range(d)] if metric == "cosine" else None
    vectors = [gauss_vec(rng, d, centre, 0.7 if metric == "cosine" else 1.0) for _ in range(N)]
    k_eq = rng.randint(2, 5)
    rows = []
    for i in range(n):
        k = k_eq if equal_sizes else rng.choice([1, 2, 3, 3, 4, 5, 6])
        if i == 0 and not equal_sizes:
            k = 1                      # every base holds a point mass (single-support distribution)
        k = min(k, N)
        cols = sorted(rng.sample(range(N), k))
        rows.append([[c, 0.05 + rng.random()] for c in cols])
    return {"n": n, "N": N, "dim": d, "vectors": vectors, "rows": rows, "fmt": "csr"}


def to_lists(data):
    return {"dists": [[v for _, v in row] for row in data["rows"]],
            "vecs": [[data["vectors"][c] for c, _ in row] for row in data["rows"]]}


def enc_scale(rng, data):
    out = copy.deepcopy(data)
    for row in out["rows"]:
        c = 10.0 ** rng.uniform(-3, 3)
        for e in row:
            e[1] = e[1] * c
    return out


def enc_pad(rng, data, explicit):
    """Extra support points of zero weight: new columns never used (structural) or stored zeros inside the rows."""
    out = copy.deepcopy(data)
    d = data["dim"]
    extra = rng.randint(1, 4)
    for _ in range(extra):
        out["vectors"].append(gauss_vec(rng, d))
    out["N"] = data["N"] + extra
    if explicit:
        for row in out["rows"]:
            used = {c for c, _ in row}
            for c in range(out["N"]):
                if c not in used and rng.random() < 0.4:
                    row.append([c, 0.0])
            row.sort()
    return out


def enc_stored_zeros(rng, data):
    """The same matrix over the same vector set, with explicit 0.0 entries stored at unused columns."""
    out = copy.deepcopy(data)
    for row in out["rows"]:
        used = {c for c, _ in row}
        for c in range(out["N"]):
            if c not in used and rng.random() < 0.6:
                row.append([c, 0.0])
        row.sort()
    return out


def enc_perm(rng, data):
    out = copy.deepcopy(data)
    N = data["N"]
    perm = list(range(N))
    rng.shuffle(perm)                      # old column j becomes column perm[j]
    vec = [None] * N
    for j in range(N):
        vec[perm[j]] = data["vectors"][j]
    out["vectors"] = vec
    out["rows"] = [sorted([[perm[c], v] for c, v in row]) for row in data["rows"]]
    return out


def enc_split(rng, data, extreme=False):
    """A column is duplicated; each row shares its weight between the two copies."""
    out = copy.deepcopy(data)
    used = sorted({c for row in data["rows"] for c, _ in row})
    j = rng.choice(used)
    out["vectors"].append(list(data["vectors"][j]))
    new = data["N"]
    out["N"] = new + 1
    for row in out["rows"]:
        for e in list(row):
            if e[0] == j:
                t = rng.choice([0.0, 1.0]) if extreme else rng.uniform(0.1, 0.9)
                w = e[1]
                e[1] = w * t
                row.append([new, w - w * t])
        row.sort()
    return out


def enc_dup_rows(rng, data):
    out = copy.deepcopy(data)
    out["rows"] = out["rows"] + copy.deepcopy(out["rows"][:3])
    out["n"] = len(out["rows"])
    return out


def lists_scale(rng, L):
    out = copy.deepcopy(L)
    out["dists"] = [[x * c for x in d] for d, c in ((d, 10.0 ** rng.uniform(-3, 3)) for d in out["dists"])]
    return out


def lists_pad(rng, L, dim, count):
    out = copy.deepcopy(L)
    for d, v in zip(out["dists"], out["vecs"]):
        for _ in range(count):
            pos = rng.randint(0, len(d))
            d.insert(pos, 0.0)
            v.insert(pos, gauss_vec(rng, dim))
    return out


def lists_perm(rng, L):
    out = copy.deepcopy(L)
    for i in range(len(out["dists"])):
        idx = list(range(len(out["dists"][i])))
        rng.shuffle(idx)
        out["dists"][i] = [L["dists"][i][k] for k in idx]
        out["vecs"][i] = [L["vecs"][i][k] for k in idx]
    return out


def lists_split(rng, L):
    out = copy.deepcopy(L)
    for d, v in zip(out["dists"], out["vecs"]):
        k = rng.randrange(len(d))
        t = rng.uniform(0.1, 0.9)
        w = d[k]
        d[k] = w * t
        pos = rng.randint(0, len(d))
        d.insert(pos, w - w * t)
        v.insert(pos, list(v[k if pos > k else k]))
    return out


MEMS = ["0.1k", "0.3k", "1k", "2k", "64k", "2G"]


def sc_wass_sparse(rng, metric, sid):
    base = gen_base(rng, metric)
    r = rng.choice([1, 2, 3, 5, None])
    sc = {"type": "scenario", "id": sid, "kind": "wass-sparse", "est": "wasserstein", "metric": metric,
          "input_method": "spmatrix", "reference_size": r, "n_components": rng.choice([2, 3]), "dim": base["dim"],
          "n_rows": base["n"], "random_state": rng.randint(0, 10 ** 6), "base": base, "calls": []}
    calls = sc["calls"]
    for mem in MEMS:
        calls.append({"name": "mem:" + mem, "data": base, "memory_size": mem, "cmp": "base"})
    for fmt in ("csc", "coo", "lil", "ndarray"):
        calls.append({"name": "fmt:" + fmt, "data": dict(base, fmt=fmt), "memory_size": rng.choice(MEMS), "cmp": "base"})
    calls.append({"name": "scale", "data": enc_scale(rng, base), "memory_size": rng.choice(MEMS), "cmp": "base"})
    calls.append({"name": "pad", "data": enc_pad(rng, base, False), "memory_size": rng.choice(MEMS), "cmp": "base"})
    calls.append({"name": "pad0", "data": enc_pad(rng, base, True), "memory_size": rng.choice(MEMS), "cmp": "base"})
    calls.append({"name": "perm", "data": enc_perm(rng, base), "memory_size": rng.choice(MEMS), "cmp": "base"})
    if metric in ("cosine", "euclidean"):
        # (L1 / L-infinity ground costs make the transport LP degenerate on open sets of inputs: optimal plans are then not
        # unique and the embedding of a whole refit cannot be compared row by row; the transform-level calls above skip
        # such rows by their dual-slack margin)
        # the measure decides the FITTED model too (default reference included): fit on another storage of the same matrix
        calls.append({"name": "refit:stored-zeros", "data": enc_stored_zeros(rng, base), "refit": True, "cmp": "fit"})
        calls.append({"name": "refit:scale", "data": enc_scale(rng, base), "refit": True, "cmp": "fit"})
        # ... and with the DEFAULT reference (reference_size=None: its size is the median support size of the rows)
        calls.append({"name": "refit:defref:base", "data": base, "refit": True, "default_ref": True, "cmp": None})
        calls.append({"name": "refit:defref:stored-zeros", "data": enc_stored_zeros(rng, base), "refit": True, "default_ref": True,
                      "cmp": "refit:defref:base"})
        calls.append({"name": "refit:defref:scale", "data": enc_scale(rng, base), "refit": True, "default_ref": True,
                      "cmp": "refit:defref:base"})
    calls.append({"name": "split", "data": enc_split(rng, base), "memory_size": rng.choice(MEMS), "cmp": "base"})
    calls.append({"name": "split01", "data": enc_split(rng, base, True), "memory_size": rng.choice(MEMS), "cmp": "base"})
    combo = enc_perm(rng, enc_split(rng, enc_pad(rng, enc_scale(rng, base), True)))
    calls.append({"name": "combo", "data": combo, "memory_size": "1k", "cmp": "base"})
    calls.append({"name": "duprows", "data": enc_dup_rows(rng, base), "memory_size": rng.choice(MEMS), "cmp": "dup"})
    return sc


def explicit_reference(rng, base, metric):
    r = rng.choice([1, 2, 3, 4, 6])
    d = base["dim"]
    centre = [sum(v[k] for v in base["vectors"]) / len(base["vectors"]) for k in range(d)]
    vecs = [gauss_vec(rng, d, centre, 0.3) for _ in range(r)]
    if metric == "cosine":
        vecs = [[x / math.sqrt(sum(t * t for t in v)) for x in v] for v in vecs]
    w = [0.2 + rng.random() for _ in range(r)]
    s = math.fsum(w)
    return {"vectors": vecs, "distribution": [x / s for x in w]}


def sc_wass_formats(rng, metric, sid):
    # the lil transform of this clone cannot take vector sets of different sizes unless metric == cosine (a defect
    # repaired by another builder, f7e2ca8 in /repo): equal support sizes and uniform re-encodings for the others
    equal = False           # (the ragged-lil defect is repaired in /repo: f7e2ca8)
    base = gen_base(rng, metric, equal_sizes=equal)
    L0 = to_lists(base)
    sc = {"type": "scenario", "id": sid, "kind": "wass-formats", "est": "wasserstein", "metric": metric,
          "input_methods": ["spmatrix", "lil", "generator"], "reference": explicit_reference(rng, base, metric),
          "n_components": rng.choice([2, 3]), "dim": base["dim"], "n_rows": base["n"],
          "random_state": rng.randint(0, 10 ** 6),
          "base": {"spmatrix": base, "lil": L0, "generator": L0}, "calls": []}
    calls = sc["calls"]
    calls.append({"name": "sp:base", "input_method": "spmatrix", "data": base, "memory_size": "2G", "cmp": None})
    for im in ("lil", "generator"):
        calls.append({"name": im + ":base", "input_method": im, "data": L0, "memory_size": "2G", "cmp": None})
        for mem in ("0.1k", "0.4k", "1k", "64k"):
            calls.append({"name": im + ":mem:" + mem, "input_method": im, "data": L0, "memory_size": mem, "cmp": im + ":base"})
        calls.append({"name": im + ":scale", "input_method": im, "data": lists_scale(rng, L0), "memory_size": rng.choice(MEMS), "cmp": im + ":base"})
        calls.append({"name": im + ":pad", "input_method": im, "data": lists_pad(rng, L0, base["dim"], rng.randint(1, 3)),
                      "memory_size": rng.choice(MEMS), "cmp": im + ":base"})
        calls.append({"name": im + ":perm", "input_method": im, "data": lists_perm(rng, L0), "memory_size": rng.choice(MEMS), "cmp": im + ":base"})
        calls.append({"name": im + ":split", "input_method": im, "data": lists_split(rng, L0), "memory_size": rng.choice(MEMS), "cmp": im + ":base"})
    calls.append({"name": "lil:tuple", "input_method": "lil", "container": "tuple", "data": L0, "memory_size": "2k", "cmp": "lil:base"})
    return sc


def sc_isometry(rng, metric, sid, multi_block):
    base = gen_base(rng, metric, n_rows=rng.randint(7, 12))
    r = rng.choice([1, 2, 3])
    k = min(base["n"], r * base["dim"])
    return {"type": "scenario", "id": sid, "kind": "isometry" + ("-blocks" if multi_block else ""), "est": "wasserstein",
            "metric": metric, "input_method": "spmatrix", "reference_size": r, "n_components": k, "dim": base["dim"],
            "n_rows": base["n"], "random_state": rng.randint(0, 10 ** 6), "fit_memory": "0.2k" if multi_block else "2G",
            "isometry": True, "base": base, "calls": []}


def sc_sinkhorn(rng, metric, sid, est):
    base = gen_base(rng, metric)
    sc = {"type": "scenario", "id": sid, "kind": "sinkhorn:" + est, "est": est, "metric": metric,
          "input_method": "spmatrix", "reference_size": rng.choice([2, 3, 5, 8]), "n_components": 2, "dim": base["dim"],
          "n_rows": base["n"], "random_state": rng.randint(0, 10 ** 6), "chunk_size": 32, "base": base, "calls": []}
    if est == "wasserstein":
        sc["method"] = "LOT_sinkhorn"
    calls = sc["calls"]
    for mem in ("0.1k", "0.3k", "1k", "2G"):
        calls.append({"name": "mem:" + mem, "data": base, "memory_size": mem, "cmp": "base"})
    for cs in (1, 2, 5):
        calls.append({"name": "chunk:%d" % cs, "data": base, "memory_size": rng.choice(MEMS), "chunk_size": cs, "cmp": "base"})
    calls.append({"name": "fmt:ndarray", "data": dict(base, fmt="ndarray"), "memory_size": "2G", "cmp": "base"})
    calls.append({"name": "fmt:csc", "data": dict(base, fmt="csc"), "memory_size": "2G", "cmp": "base"})
    calls.append({"name": "scale", "data": enc_scale(rng, base), "memory_size": rng.choice(MEMS), "cmp": "base"})
    calls.append({"name": "pad", "data": enc_pad(rng, base, False), "memory_size": rng.choice(MEMS), "cmp": "base"})
    calls.append({"name": "pad0", "data": enc_pad(rng, base, True), "memory_size": rng.choice(MEMS), "cmp": "base"})
    calls.append({"name": "perm", "data": enc_perm(rng, base), "memory_size": rng.choice(MEMS), "cmp": "base"})
    calls.append({"name": "split", "data": enc_split(rng, base), "memory_size": rng.choice(MEMS), "cmp": "base"})
    return sc


def sc_approx(rng, sid):
    base = gen_base(rng, "euclidean")
    sc = {"type": "scenario", "id": sid, "kind": "approx", "est": "approx", "metric": "euclidean", "input_method": "spmatrix",
          "n_components": rng.choice([None, 2]), "dim": base["dim"], "n_rows": base["n"],
          "random_state": rng.randint(0, 10 ** 6), "base": base, "calls": []}
    calls = sc["calls"]
    calls.append({"name": "transform", "data": base, "cmp": None})
    calls.append({"name": "scale", "data": enc_scale(rng, base), "cmp": "transform"})
    calls.append({"name": "fmt:ndarray", "data": dict(base, fmt="ndarray"), "cmp": "transform"})
    calls.append({"name": "fmt:csc", "data": dict(base, fmt="csc"), "cmp": "transform"})
    # the vector set is fixed at fit: encodings that change it are compared through fit_transform
    calls.append({"name": "refit:scale", "data": enc_scale(rng, base), "refit": True, "cmp": "fit"})
    calls.append({"name": "refit:pad", "data": enc_pad(rng, base, True), "refit": True, "cmp": "fit"})
    calls.append({"name": "refit:perm", "data": enc_perm(rng, base), "refit": True, "cmp": "fit"})
    calls.append({"name": "refit:split", "data": enc_split(rng, base), "refit": True, "cmp": "fit"})
    return sc


def gen_pipeline(rng):
    n = rng.choice([1, 2, 3, 4, 5, 6, 8])
    m = rng.choice([1, 2, 3, 4, 5])
    d = rng.choice([1, 2, 3])
    w = [round(0.05 + rng.random(), 6) * (i + 1) for i in range(n)]       # distinct positive weights
    rng.shuffle(w)
    scale = 10.0 ** rng.uniform(-2, 2)
    w = [x * scale for x in w]
    mds = rng.choice([256, 256, n, max(1, n - 1), max(1, n // 2), 1])
    if mds >= n and rng.random() < 0.3:                                    # zero weights only when nothing is truncated
        w[rng.randrange(n)] = 0.0
    if mds >= n and rng.random() < 0.05:
        w = [0.0] * n                                                      # an all-zero row is skipped
    q = [0.2 + rng.random() for _ in range(m)]
    s = math.fsum(q)
    return {"type": "pipeline", "kernel": rng.choice(["dense", "sparse"]), "w": w,
            "xs": [gauss_vec(rng, d) for _ in range(n)], "q": [x / s for x in q],
            "ys": [gauss_vec(rng, d) for _ in range(m)], "max_distribution_size": mds, "n": n, "m": m, "d": d}


def unit(v):
    n = math.sqrt(sum(t * t for t in v))
    return [t / n for t in v]


def gen_pipeline_sph(rng):
    """One row through lot_vectors_*_internal with the cosine metric and spherical_vectors=True.  The vectorizers hand
    the kernel L2-normalised vectors; the kernel itself does not require it, and a third of the cases keep the sample
    or the reference vectors un-normalised (so that the normalisations inside the kernel are exercised)."""
    case = gen_pipeline(rng)
    n, m = case["n"], case["m"]
    d = rng.choice([2, 3, 3, 4])
    centre = [rng.gauss(0, 1) for _ in range(d)]
    spread = rng.choice([0.3, 0.7, 1.5])
    xs = [gauss_vec(rng, d, centre, spread) for _ in range(n)]
    ys = [gauss_vec(rng, d, centre, spread) for _ in range(m)]
    mode = rng.choice(["unit", "unit", "raw-x", "raw-y"])
    if mode != "raw-x":
        xs = [unit(v) for v in xs]
    if mode != "raw-y":
        ys = [unit(v) for v in ys]
    if rng.random() < 0.2:
        xs[0] = list(ys[0])                      # a support point that IS a reference point (n = 1: zero tangent vector)
    case.update({"spherical": True, "d": d, "xs": xs, "ys": ys, "vec_mode": mode})
    return case


def gen_sinkrow(rng):
    b = rng.choice([1, 2, 3, 5])
    n = rng.choice([1, 2, 3, 4, 6])
    m = rng.choice([1, 2, 3, 5])
    d = rng.choice([2, 3, 4])
    centre = [rng.gauss(0, 1) for _ in range(d)]
    xs = [unit(gauss_vec(rng, d, centre, 0.7)) for _ in range(n)]
    ys = [unit(gauss_vec(rng, d, centre, 0.7)) for _ in range(m)]
    D = []
    for _ in range(b):
        w = [0.05 + rng.random() for _ in range(n)]
        if n >= 2:
            for j in rng.sample(range(n), rng.choice([0, 0, 1, n - 1])):
                w[j] = 0.0                        # zero entries of a row: v[j] == 0 is skipped by the image loop
        s = math.fsum(w)
        D.append([x / s for x in w])
    q = [0.2 + rng.random() for _ in range(m)]
    s = math.fsum(q)
    return {"type": "sinkrow", "b": b, "n": n, "m": m, "d": d, "distributions": D, "xs": xs, "ys": ys,
            "q": [x / s for x in q]}


def gen_approxrow(rng):
    d = rng.choice([2, 3, 4])
    N = rng.randint(d + 2, 9)
    nfit = rng.randint(d + 3, 10)
    vectors = [gauss_vec(rng, d) for _ in range(N)]

    def row(explicit_zero):
        k = rng.choice([1, 2, 3, 4, min(5, N)])
        cols = rng.sample(range(N), min(k, N))           # storage order as drawn (not sorted)
        r = [[c, round(0.05 + rng.random(), 6) * 10.0 ** rng.choice([-2, 0, 0, 3])] for c in cols]
        if explicit_zero and len(r) < N:
            free = [c for c in range(N) if c not in cols]
            r.insert(rng.randint(0, len(r)), [rng.choice(free), 0.0])
        return r
    fit_rows = [row(False) for _ in range(nfit)]
    fmt = rng.choice(["csr", "csr", "ndarray"])
    rows = [row(fmt == "csr" and rng.random() < 0.4) for _ in range(rng.randint(1, 5))]
    if fmt == "ndarray":
        rows = [sorted(r) for r in rows]                  # csr_matrix(ndarray) stores the non-zeros in column order
    return {"type": "approxrow", "d": d, "N": N, "vectors": vectors, "fit_rows": fit_rows, "rows": rows, "fmt": fmt,
            "n_components": rng.choice([None, None, 2, 1]), "power": rng.choice([1.0, 1.0, 0.5, 2.0, 0.0]),
            "random_state": rng.randint(0, 10 ** 6)}


# ---------------------------------------------------------------- Coq rendering of the pipeline model
def fl(x):
    h = float(x).hex()
    return "(%s)" % h if h.startswith("-") else h


def coq_pipeline(case, plan):
    fl1 = lambda v: C.coq_list(v, fl)
    fl2 = lambda v: C.coq_list2(v, fl)
    return "map fz (lot_pipeline_F %d%%nat %d%%nat %d%%nat %s %s %s %s (fun _ => %s))" % (
        case["max_distribution_size"], case["m"], case["d"], fl1(case["w"]), fl2(case["xs"]), fl1(case["q"]),
        fl2(case["ys"]), fl2(plan if plan is not None else []))


def coq_pipeline_sph(case, plan):
    fl1 = lambda v: C.coq_list(v, fl)
    fl2 = lambda v: C.coq_list2(v, fl)
    return "sph_case %d%%nat %d%%nat %d%%nat %s %s %s %s %s" % (
        case["max_distribution_size"], case["m"], case["d"], fl1(case["w"]), fl2(case["xs"]), fl1(case["q"]),
        fl2(case["ys"]), fl2(plan if plan is not None else []))


def coq_sinkrow(case, r):
    fl2 = lambda v: C.coq_list2(v, fl)
    return "sink_case %d%%nat %d%%nat %s %s %s %s %s" % (case["m"], case["d"], fl2(r["u"]), fl2(r["v"]), fl2(r["K"]),
                                                         fl2(case["xs"]), fl2(case["ys"]))


PW = {1.0: "pw_one", 0.5: "pw_half", 2.0: "pw_two", 0.0: "pw_zero"}


def coq_approx(case, r):
    fl1 = lambda v: C.coq_list(v, fl)
    fl2 = lambda v: C.coq_list2(v, fl)
    rows = C.coq_list(case["rows"], lambda row: C.coq_list(row, lambda e: "(%d%%nat, %s)" % (e[0], fl(e[1]))))
    return "approx_case %s %d%%nat %s %s %s %s" % (PW[case["power"]], case["d"], fl2(case["vectors"]), fl2(r["components"]),
                                                  fl1(r["singular_values"]), rows)


def model_expr(item, r):
    if item["type"] == "sinkrow":
        return coq_sinkrow(item, r)
    if item["type"] == "approxrow":
        return coq_approx(item, r)
    if item.get("spherical"):
        return coq_pipeline_sph(item, r["plan"])
    return coq_pipeline(item, r["plan"])


ROW_TYPES = ("pipeline", "sinkrow", "approxrow")


def child_and_model(key, items, gate_future):
    """Runs one implementation child and, as soon as it is back (and the proof gate has built the models), evaluates
    the Coq model on the row cases of that child — so that the vm_compute of a short child overlaps the long ones."""
    res, info = run_child("c08", items, key, {"NUMBA_NUM_THREADS": "2"})
    live = [(it, r) for it, r in zip(items, res or []) if it["type"] in ROW_TYPES and "err" not in r]
    model, err = [], None
    if live:
        gate_future.result()
        try:
            model = C.coq_eval_sharded("C08_" + "".join(ch if ch.isalnum() else "_" for ch in key), HEADER_SPH,
                                       [model_expr(it, r) for it, r in live], shard=20, jobs=6)
        except Exception as e:  # noqa  (a model that no longer builds / evaluates is reported by the parent)
            err = str(e)[-1500:]
    return res, info, live, model, err


SQRT_EXEMPT = [0]


F32_TIES = [0]


def sph_compare(impl, model, info, d, signed_sqrt):
    """Per reference point (block of d entries); info[j] = (tangent norm before normalisation, cosine distance, its
    distance to the nearest float32 rounding boundary), all from the model.  A block whose tangent vector is shorter
    than 1e-6 while its model output is not small is an antipodal image: the direction of the tangent vector is
    rounding noise there; skipped (counted).  A block whose cosine distance (> 1e-6) lies within 1e-13 of a float32
    rounding boundary is skipped (counted): a last-bit difference flips the float32 store.  Otherwise
    |impl - model| <= 1e-9, or — after the kernel's signed square root, which turns an absolute error e near 0 into
    sqrt(e) — equality of the signed squares to 1e-13.  Returns (ok, worst deviation, antipodal blocks skipped)."""
    if len(impl) != len(model):
        return False, float("inf"), 0
    worst, skipped = 0.0, 0
    for j in range(len(info)):
        a, b = impl[j * d:(j + 1) * d], model[j * d:(j + 1) * d]
        norm_j, cos_j, tie_j = (from_fz(t) for t in info[j])
        if any(x != x for x in a) or any(x != x for x in b):
            return False, float("nan"), skipped
        if norm_j < 1e-6 and max(abs(x) for x in b) > 1e-3:
            skipped += 1
            continue
        if abs(cos_j) > 1e-6 and tie_j < 1e-13:
            F32_TIES[0] += 1
            continue
        for x, y in zip(a, b):
            dev = abs(x - y)
            if dev > MODEL_TOL and signed_sqrt and abs(x * abs(x) - y * abs(y)) <= 1e-13:
                dev = 0.0
                SQRT_EXEMPT[0] += 1
            worst = max(worst, dev)
    return worst <= MODEL_TOL, worst, skipped


def from_fz(pair):
    mant, e = pair
    return math.ldexp(mant, e - 2101 - 53)


# ---------------------------------------------------------------- oracle
def row_close(a, b, rel):
    if len(a) != len(b):
        return False, float("inf")
    scale = max([abs(x) for x in a] + [abs(x) for x in b] + [1e-12])
    diff = max([abs(x - y) for x, y in zip(a, b)] + [0.0])
    if any(x != x for x in a) or any(y != y for y in b):
        return False, float("nan")
    return diff <= rel * scale, diff / scale


def compare(ctx, sc, name, got, want, margins, stats, what, rel=REL):
    """rows of `got` against rows of `want`; rows with a non-unique optimal plan (by margin) are skipped, counted."""
    if len(got) != len(want):
        return "%s: %d rows instead of %d" % (what, len(got), len(want))
    worst = 0.0
    for i, (a, b) in enumerate(zip(got, want)):
        if margins is not None and margins[i] < MARGIN:
            stats["skipped_near_tie_rows"] += 1
            continue
        ok, dev = row_close(a, b, rel)
        stats["rows_compared"] += 1
        worst = max(worst, dev if dev == dev else float("inf"))
        if not ok:
            return "%s: row %d differs by %.3g relative (tolerance %.0e): %s vs %s" % (
                what, i, dev, rel, [round(x, 9) for x in a[:4]], [round(x, 9) for x in b[:4]])
    stats["max_rel_dev"] = max(stats["max_rel_dev"], worst)
    return None


def check_scenario(ctx, sc, res, stats):
    """Returns a list of (message, call name) failures."""
    fails = []
    if "err" in res:
        return [("scenario raised %s: %s" % (res["err"], res.get("msg", "")), None)]
    calls = res["calls"]
    margins = res.get("margins")
    ok_of = lambda n: calls.get(n, {}).get("ok")
    for call in sc["calls"]:
        r = calls.get(call["name"], {"err": "missing"})
        if "err" in r:
            fails.append(("%s raised %s: %s" % (call["name"], r["err"], r.get("msg", "")), call["name"]))
            continue
        cmpto = call.get("cmp")
        if cmpto is None:
            continue
        if cmpto == "base":
            want = ok_of("mem:2G")
        elif cmpto == "fit":
            want = res["fit"]["spmatrix"]["embedding"]
        elif cmpto == "dup":
            base = ok_of("mem:2G")
            want = base + base[:3] if base else None
        else:
            want = ok_of(cmpto)
        if want is None:
            continue
        mg = margins
        if cmpto == "dup" and margins is not None:
            mg = margins + margins[:3]
        if sc["est"] != "wasserstein" or sc.get("method") == "LOT_sinkhorn":
            mg = None
        msg = compare(ctx, sc, call["name"], r["ok"], want, mg, stats, "%s[%s] %s vs %s" % (sc["kind"], sc["metric"], call["name"], cmpto))
        stats["comparisons"] += 1
        ctx.dist("oracle:" + sc["kind"] + ":" + call["name"])
        if msg:
            fails.append((msg, call["name"]))
    if sc["kind"] == "wass-formats" and res.get("sv_gap", 1.0) < 1e-6:
        stats["skipped_degenerate_svd"] = stats.get("skipped_degenerate_svd", 0) + 1
    elif sc["kind"] == "wass-formats":
        fit = res["fit"]
        for im in ("lil", "generator"):
            msg = compare(ctx, sc, "fit:" + im, fit[im]["embedding"], fit["spmatrix"]["embedding"], margins, stats,
                          "%s[%s] embedding_ %s vs spmatrix" % (sc["kind"], sc["metric"], im))
            stats["comparisons"] += 1
            if msg:
                fails.append((msg, "fit:" + im))
        a, b, g = ok_of("sp:base"), ok_of("lil:base"), ok_of("generator:base")
        if a and b:
            msg = compare(ctx, sc, "lil-vs-sp", b, a, margins, stats, "%s[%s] transform lil vs spmatrix" % (sc["kind"], sc["metric"]))
            stats["comparisons"] += 1
            if msg:
                fails.append((msg, "lil:base"))
        # D7 (transform ignores spherical_vectors=(metric == cosine) for spmatrix/lil, not for generators) is owned by
        # another builder: the generator output is compared with the others only for the cosine metric
        if a and g and sc["metric"] == "cosine":
            msg = compare(ctx, sc, "gen-vs-sp", g, a, margins, stats, "%s[%s] transform generator vs spmatrix" % (sc["kind"], sc["metric"]))
            stats["comparisons"] += 1
            if msg:
                fails.append((msg, "generator:base"))
    if "isometry" in res:
        iso = res["isometry"]
        stats["isometry_cases"] += 1
        full = iso["n_components"] >= iso["rank"]
        if not full:
            stats["isometry_not_full_rank"] += 1
        else:
            # multi-block fits keep the raw vectors in a float32 memmap: distances agree to float32 accuracy only
            rel = 2e-5 if sc.get("fit_memory") != "2G" else REL
            scale = max(max(max(r) for r in iso["raw_pdist"]), 1e-12)
            dev = max(abs(x - y) for ra, rb in zip(iso["raw_pdist"], iso["emb_pdist"]) for x, y in zip(ra, rb)) / scale
            stats["max_isometry_dev"] = max(stats["max_isometry_dev"], dev)
            if not dev <= rel:
                fails.append(("isometry[%s]: pairwise distances of embedding_ and of the raw LOT vectors differ by %.3g relative "
                              "(n_components=%d, rank=%d, |VV^T-I|=%.2g)" % (sc["metric"], dev, iso["n_components"], iso["rank"], iso["vvt_err"]), None))
            if iso["vvt_err"] > 1e-8:
                fails.append(("components_ do not have orthonormal rows: |VV^T - I| = %.3g" % iso["vvt_err"], None))
    return fails


def build_payloads(ctx, replay):
    if replay:
        case = replay["case"]
        return {"replay": [case]}
    rng = ctx.rng
    metrics = ["cosine", "euclidean"] + ([] if ctx.quick else ["manhattan", "chebyshev"])
    reps = 2 if ctx.quick else 30
    payloads = {}
    sid = 0
    for metric in metrics:
        items = []
        for _ in range(reps):
            items.append(sc_wass_sparse(rng, metric, sid)); sid += 1
            items.append(sc_wass_formats(rng, metric, sid)); sid += 1
            items.append(sc_isometry(rng, metric, sid, False)); sid += 1
        items.append(sc_isometry(rng, metric, sid, True)); sid += 1
        payloads[metric] = items
    items = []
    for _ in range(reps):
        for metric in ("cosine", "euclidean"):
            items.append(sc_sinkhorn(rng, metric, sid, "sinkhorn")); sid += 1
        items.append(sc_sinkhorn(rng, rng.choice(["cosine", "euclidean"]), sid, "wasserstein")); sid += 1
        items.append(sc_approx(rng, sid)); sid += 1
    payloads["sinkhorn+approx"] = items
    # every other scenario runs on estimator objects with a past (an earlier fit on other data and earlier transforms
    # with the same `vectors` object): see prehistory() in harness/impl/c08.py
    for items_ in payloads.values():
        for sc in items_:
            sc["prehistory"] = (sc["id"] % 2 == 0)
    pipeline = [gen_pipeline(rng) for _ in range(60 if ctx.quick else 800)]
    # (drawn after everything else, so that the streams above are those of the earlier versions of this check)
    pipeline_sph = [gen_pipeline_sph(rng) for _ in range(60 if ctx.quick else 800)]
    sinkrows = [gen_sinkrow(rng) for _ in range(24 if ctx.quick else 300)]
    approxrows = [gen_approxrow(rng) for _ in range(30 if ctx.quick else 400)]
    if ctx.quick:
        payloads["euclidean"] = payloads["euclidean"] + pipeline      # one process less to compile the kernels
    else:
        payloads["pipeline"] = pipeline
    # the spherical / Sinkhorn / approx row cases get a child of their own: it is short (no estimator is fitted but the
    # approx ones) and stays off the critical path of the quick tier
    payloads["rows"] = pipeline_sph + sinkrows + approxrows
    return payloads


def run(ctx, replay=None):
    import glob
    import os
    extra = sorted(os.path.basename(f)[:-2] for f in glob.glob(os.path.join(C.VERIF, "coq", "theories", "Properties", "C08_*.v")))
    payloads = build_payloads(ctx, replay)
    ctx.coverage["rule"] = ("scenarios = random distribution collection x vector set x metric x reference size; each transformed at "
                            "memory_size 1k..2G, in every input format, and re-encoded by scale / zero-padding (structural and stored "
                            "zeros) / permutation / splitting (+ a combination, + duplicated rows); non-trivial = every scenario; "
                            "pipeline cases = one row through lot_vectors_{dense,sparse}_internal vs the Coq model (euclidean "
                            "metric with spherical_vectors=False; cosine metric with spherical_vectors=True, unit and non-unit "
                            "vectors, a support point equal to a reference point); sinkrow cases = one chunk through "
                            "sinkhorn_vectors_sparse_internal vs the model given the chunk's own (u, v, K); approxrow cases = "
                            "ApproximateWassersteinVectorizer.transform (normalization_power 1, 0.5, 2, 0; csr with stored zeros "
                            "and unsorted columns, ndarray) vs the model given components_ and singular_values_")
    ctx.assumptions += [
        "the transport plan (network simplex) and the SVD are external: the theorems take the plan as input and V V^T = I as hypothesis; "
        "the harness checks |VV^T - I| and the rank on every isometry case",
        "generic random inputs: the optimal plan is unique almost surely; rows whose dual-slack margin is below 1e-5 are skipped and counted",
        "oracle tolerance 1e-6 relative to the row magnitude (2e-5 for the isometry of multi-block fits, whose raw vectors are stored as float32)",
        "max_distribution_size truncation changes the measure by design: re-encodings are tested below the truncation size; "
        "truncation is covered by the pipeline correspondence (distinct weights)",
        "ApproximateWassersteinVectorizer: normalization_power = 1 (other powers are scale dependent by design); encodings that change "
        "the vector set are compared through fit_transform because transform has no vectors argument",
        "spherical rows are compared entry by entry at 1e-9 absolute; after the kernel's signed square root an entry is also "
        "accepted when the signed squares agree to 1e-13 (sqrt turns an absolute rounding error e at 0 into sqrt(e)); a block whose "
        "model tangent vector is shorter than 1e-6 before normalisation while its output is not small (antipodal image: direction "
        "undefined) is skipped; both events are counted in coverage.correspondence",
        "the float32 store of the tangent scale is modelled as round-to-nearest-even on 24 bits (normal float32 range)",
        "work-arounds for defects owned elsewhere: D17 fresh copies of inputs per call; D18 private cachedir removed by the child; "
        "D7 generator-vs-matrix transform compared for cosine only; lil transform with ragged vector sets (non-cosine) avoided",
    ]
    from concurrent.futures import ThreadPoolExecutor
    keys = list(payloads)
    # the proof gate (make + Print Assumptions of Properties/C08.v and every Properties/C08_*.v) runs beside the
    # implementation children; the model evaluations wait for it
    with ThreadPoolExecutor(max_workers=len(keys) + 1) as ex:
        gate_future = ex.submit(C.run_gate, ctx, tuple(extra))
        futs = {k: ex.submit(child_and_model, k, payloads[k], gate_future) for k in keys}
        full = {k: f.result() for k, f in futs.items()}
        gate_future.result()
    results = {k: (v[0], v[1]) for k, v in full.items()}
    stats = {"comparisons": 0, "rows_compared": 0, "skipped_near_tie_rows": 0, "max_rel_dev": 0.0, "isometry_cases": 0,
             "isometry_not_full_rank": 0, "max_isometry_dev": 0.0, "scenarios": 0}
    pipe_todo, row_todo = [], []
    ctx.coverage["child_wall_s"] = {k: results[k][1]["wall_s"] for k in keys}
    ctx.coverage["gate_wall_s"] = (ctx.gate or {}).get("wall_s")
    for k in keys:
        res, info = results[k]
        res = res or []
        items = payloads[k]
        if len(res) != len(items):
            ctx.report("implementation child '%s' died (rc=%s) on item %d: %s" % (k, info["rc"], len(res), info["tail"][-500:]),
                       {"stage": "impl-crash", "case": items[len(res)] if len(res) < len(items) else None}, found_input=True)
        for item, r in zip(items, res):
            if item["type"] == "pipeline":
                pipe_todo.append((item, r))
                continue
            if item["type"] in ("sinkrow", "approxrow"):
                row_todo.append((item, r))
                continue
            stats["scenarios"] += 1
            ctx.count_case({"id": item["id"], "kind": item["kind"], "metric": item["metric"], "rs": item.get("random_state")},
                           nontrivial=True, kind=item["kind"] + ":" + item["metric"] + ":ref=" + str(item.get("reference_size", "explicit")))
            for msg, callname in check_scenario(ctx, item, r, stats):
                small = dict(item)
                if callname is not None and not callname.startswith("fit"):
                    keep = {callname, "mem:2G", "transform", "sp:base", "lil:base", "generator:base"}
                    small["calls"] = [c for c in item["calls"] if c["name"] in keep or c["name"] == next(
                        (c2.get("cmp") for c2 in item["calls"] if c2["name"] == callname), None)]
                ctx.report(msg, {"stage": "oracle", "case": small, "call": callname}, found_input=True)
    # ---- correspondence: the Coq model of the per-row pipeline, on binary64, with the implementation's plan
    live, model, model_errors = [], [], []
    for k in keys:
        live += full[k][2]
        model += full[k][3] if len(full[k][3]) == len(full[k][2]) else [None] * len(full[k][2])
        if full[k][4]:
            model_errors.append(full[k][4])
    for item, r in pipe_todo + row_todo:
        if item["type"] == "pipeline":
            ctx.count_case(item, nontrivial=item["n"] >= 2, kind="pipeline%s:%s:%s" % (
                "-sph:" + item["vec_mode"] if item.get("spherical") else "", item["kernel"],
                "truncating" if item["max_distribution_size"] < item["n"] else "full"))
        elif item["type"] == "sinkrow":
            ctx.count_case(item, nontrivial=item["n"] >= 2, kind="sinkrow:b=%d:n=%d" % (item["b"], min(item["n"], 3)))
        else:
            ctx.count_case(item, nontrivial=True, kind="approxrow:%s:power=%s" % (item["fmt"], item["power"]))
        if "err" in r:
            ctx.report("per-row %s raised %s: %s" % (item["type"], r["err"], r.get("msg", "")), {"stage": "oracle", "case": item}, found_input=True)
            continue
    if model_errors:
        ctx.report("the Coq models could not be evaluated: " + model_errors[0],
                   {"stage": "correspondence", "correspondence": "Model/K17_LOTglue.v, K17_LOTspherical.v, K17_ApproxW.v"}, found_input=False)
        live, model = [], []
    bad, worst = [], 0.0
    per = {"euclidean": [0, 0.0], "spherical": [0, 0.0], "sinkhorn-rows": [0, 0.0], "approx-rows": [0, 0.0]}
    antipodal = 0
    for (item, r), mv in zip(live, model):
        if item["type"] == "sinkrow":
            key, ok, dev, mrow = "sinkhorn-rows", True, 0.0, []
            for k, (mrow_k, norms_k) in enumerate(mv):
                mk = [from_fz(p) for p in mrow_k]
                ok_k, dev_k, sk = sph_compare(r["out"][k], mk, norms_k, item["d"], False)
                antipodal += sk
                ok, dev = ok and ok_k, max(dev, dev_k) if dev_k == dev_k else float("inf")
                mrow.append(mk)
            per[key][0] += len(mv)
        elif item["type"] == "approxrow":
            key, ok, dev = "approx-rows", True, 0.0
            mrow = [[from_fz(p) for p in row] for row in mv]
            for a, b in zip(r["out"], mrow):
                ok_k, dev_k = row_close(a, b, MODEL_TOL)
                ok, dev = ok and ok_k, max(dev, dev_k) if dev_k == dev_k else float("inf")
            ok = ok and len(mrow) == len(r["out"])
            per[key][0] += len(mrow)
        elif item.get("spherical"):
            key = "spherical"
            mrow = [from_fz(p) for p in mv[0]]
            ok, dev, sk = sph_compare(r["out"], mrow, mv[1], item["d"], True)
            antipodal += sk
            per[key][0] += 1
        else:
            key = "euclidean"
            mrow = [from_fz(p) for p in mv]
            ok, dev = row_close(r["out"], mrow, MODEL_TOL)
            per[key][0] += 1
        dev = dev if dev == dev else float("inf")
        per[key][1] = max(per[key][1], dev)
        worst = max(worst, dev)
        if not ok:
            bad.append((item, r, mrow, dev))
    ctx.coverage["correspondence"] = {"cases": len(live), "disagreements": len(bad), "max_rel_dev": worst,
                                      "rows_and_max_dev": {k: {"rows": v[0], "max_dev": v[1]} for k, v in per.items()},
                                      "antipodal_blocks_skipped": antipodal,
                                      "entries_accepted_on_signed_squares_only": SQRT_EXEMPT[0],
                                      "float32_tie_blocks_skipped": F32_TIES[0],
                                      "model": "Model/K17_LOTglue.lot_pipeline_F, Model/K17_LOTspherical.lot_pipeline_sph_F / "
                                               "sinkhorn_row_F, Model/K17_ApproxW.approx_transform_F (PrimFloat) via vm_compute, "
                                               "tolerance 1e-9"}
    ctx.coverage["traces_validated_against_impl"] = len(live) - len(bad)
    ctx.coverage["oracle"] = stats
    if bad and not any(v["found_input"] for v in ctx.violations):
        item, r, mrow, dev = bad[0]
        what = {"sinkrow": "K17_LOTspherical.sinkhorn_row and sinkhorn_vectors_sparse_internal",
                "approxrow": "K17_ApproxW.approx_transform and ApproximateWassersteinVectorizer.transform"}.get(
            item["type"], "K17 lot_pipeline%s and lot_vectors_%s_internal" % ("_sph" if item.get("spherical") else "", item.get("kernel")))
        ctx.report("model %s disagree by %.3g (no property-level failure found): impl %s, model %s" % (
                       what, dev, str(r["out"])[:160], str(mrow)[:160]),
                   {"stage": "correspondence", "correspondence": "Model/K17_LOTglue.v, K17_LOTspherical.v, K17_ApproxW.v <-> "
                    "lot_vectors_*_internal, sinkhorn_vectors_sparse_internal, ApproximateWassersteinVectorizer.transform",
                    "case": item, "model": mrow, "actual": r["out"]}, found_input=False)
    C.gate_violation(ctx)
    return ctx.finish("proof")
