"""C13 — calls are free of side effects, repeatable, and leave nothing behind.
Proof gate (Properties/C13.v: the alias-aware state machine Model/K20_History.v) + the before/after differential
check on the implementation (harness/impl/c13.py), which is the part that ties the property to the code:
for every public estimator and random small valid data, deep comparison of every caller-owned object after every call
of a random history (fit / fit_transform, transforms, poisoned inputs, fits made to raise in a later block), TMPDIR and
cachedir listings, every history output against a single call on a fresh fit, two fits against each other."""
import json
import os
import shutil
import subprocess
import tempfile
import time
from concurrent.futures import ThreadPoolExecutor

from . import common as C

# grouped so that the children take about the same time (numba compilation dominates)
GROUPS = [
    ["TokenCooccurrenceVectorizer", "SequentialDifferenceTransformer"],
    ["TimedTokenCooccurrenceVectorizer", "CategoricalColumnTransformer"],
    ["NgramCooccurrenceVectorizer", "HistogramVectorizer"],
    ["MultiSetCooccurrenceVectorizer", "KDEVectorizer"],
    ["SkipgramVectorizer", "EdgeListVectorizer", "SlidingWindowTransformer"],
    ["LZCompressionVectorizer", "BytePairEncodingVectorizer", "NgramVectorizer"],
    ["LabelledTreeCooccurrenceVectorizer", "DistributionVectorizer"],
    ["WassersteinVectorizer"],
    ["WassersteinVectorizer"],
    ["SinkhornVectorizer"],
    ["ApproximateWassersteinVectorizer", "CountFeatureCompressionTransformer"],
    ["InformationWeightTransformer", "RowDenoisingTransformer"],
]
ALL = sorted({n for g in GROUPS for n in g})
# exported but not runnable here / excluded from a claim (said in the manifest):
NOT_RUN = {"SignatureVectorizer": "needs the optional dependency iisignature, which is not installed"}


def run_child(jobs, timeout=1500):
    """Like common.run_impl, but safe for many concurrent children of one parent: C.run_impl names its files by
    (pid, millisecond) and shares one numba cache directory per parent pid, which it deletes when a child ends."""
    base = tempfile.mkdtemp(prefix="c13_", dir=C.os_makedirs(os.path.join(C.WORK, "c13")))
    tmp = C.os_makedirs(os.path.join(base, "tmp"))
    fin, fout = os.path.join(base, "in.json"), os.path.join(base, "out.json")
    json.dump({"jobs": jobs, "tmpdir": tmp}, open(fin, "w"))
    env = C.impl_env({"TMPDIR": tmp, "NUMBA_NUM_THREADS": "2", "NUMBA_CACHE_DIR": C.os_makedirs(os.path.join(base, "numba"))})
    t0 = time.time()
    try:
        p = subprocess.run(["timeout", "-k", "10", str(timeout), C.PY, os.path.join(C.VERIF, "harness", "impl", "c13.py"), fin, fout],
                           cwd=C.REPO, env=env, stdout=subprocess.PIPE, stderr=subprocess.STDOUT, text=True)
        info = {"rc": p.returncode, "wall_s": round(time.time() - t0, 2), "tail": p.stdout[-2000:]}
        res = None
        if os.path.exists(fout):
            try:
                res = json.load(open(fout))
            except Exception as e:
                info["parse_error"] = repr(e)
    finally:
        shutil.rmtree(base, ignore_errors=True)
    return jobs, res, info


def run(ctx, replay=None):
    C.run_gate(ctx)
    if replay:
        case = replay["case"]
        batches = [[[case["estimator"], case["seed"]]]]
    else:
        # seeds are drawn from ctx.rng; every estimator is covered in both tiers, the Wasserstein family (the only
        # one with temporary files and fault points) more densely
        per = 2 if ctx.quick else 24
        batches = []
        for g in GROUPS:
            jobs = []
            for name in g:
                k = per * (2 if name == "WassersteinVectorizer" else 1)     # two Wasserstein groups: 4x in total
                jobs += [[name, ctx.rng.randrange(10 ** 6)] for _ in range(k)]
            batches.append(jobs)
    ctx.coverage["rule"] = ("one scenario per (estimator, seed): random constructor parameters (incl. caller dictionaries / index "
                            "arrays), random small valid data (sparse inputs with unsorted indices and explicit zeros, lists of "
                            "arrays, generators, data frames), optional faulting fit, fit or fit_transform, a history of 3-6 "
                            "transform calls over persistent caller objects with an optional malformed input; non-trivial = "
                            "the scenario made >= 3 calls")
    ctx.assumptions += [
        "SignatureVectorizer is not run: " + NOT_RUN["SignatureVectorizer"],
        "repeatability of fits is claimed for an integer random_state only; excluded as documented-random without a seed: "
        "SlidingWindowTransformer(window_sample='random') (np.random.choice in fit, no seed parameter) and "
        "LZCompressionVectorizer in hashed mode with random_state=None (every LZ scenario passes an integer)",
        "the single-call reference is one transform on an untouched deep copy of the estimator taken right after fit (a fresh "
        "construct+fit when the estimator cannot be deep-copied: the numba-backed co-occurrence family)",
        "SVD based models whose requested components exceed the numerical rank (or with coinciding singular values) are counted "
        "(degenerate_svd) and their attributes not compared between two fits: the extra singular vectors are rounding noise",
        "outputs and fitted attributes are compared at rtol 1e-9 / atol 1e-12, exceptions by class; aliasing of a caller object "
        "by a fitted attribute is recorded (evidence), only a modification is a violation",
        "the faults of a blockwise fit are injected by making the k-th randomized_svd call raise (monkeypatch in the child), "
        "by an invalid reference distribution (natural ValueError in block 1) and by a generator that raises at item k",
        "Coq side: K20 is a model of which objects are shared and which operations mutate, not of the numerics",
    ]
    with ThreadPoolExecutor(max_workers=12) as ex:
        results = list(ex.map(run_child, batches))
    n_calls = n_raised = 0
    aliases, faults, per_est, errors = {}, {}, {}, []
    ctx.coverage["child_wall_s"] = {"+".join(sorted({j[0] for j in jobs})): info["wall_s"] for jobs, _, info in results}
    for jobs, res, info in results:
        done = len(res) if res else 0
        if res is None or done != len(jobs):
            ctx.report("implementation child died (rc=%s) in scenario %s: %s" % (info["rc"], jobs[min(done, len(jobs) - 1)], info["tail"][-400:]),
                       {"stage": "impl-crash", "case": {"estimator": jobs[min(done, len(jobs) - 1)][0], "seed": jobs[min(done, len(jobs) - 1)][1]}},
                       found_input=True)
        for r in res or []:
            case = {"estimator": r["est"], "seed": r["seed"], "scenario": r.get("desc", "")}
            nontrivial = r.get("calls", 0) >= 3
            ctx.count_case(case, nontrivial, r["est"])
            n_calls += r.get("calls", 0)
            n_raised += r.get("raised", 0)
            d = per_est.setdefault(r["est"], {"scenarios": 0, "calls": 0, "raised": 0, "history_calls": 0, "watched": 0})
            d["scenarios"] += 1
            d["calls"] += r.get("calls", 0)
            d["raised"] += r.get("raised", 0)
            d["history_calls"] += r.get("checks", {}).get("history", 0)
            d["watched"] += r.get("watched", 0)
            for a in r.get("aliases", []):
                aliases["%s.%s" % (r["est"], a)] = aliases.get("%s.%s" % (r["est"], a), 0) + 1
            for k, v in r.get("checks", {}).items():
                if k.startswith("fault_") or k in ("reference", "degenerate_svd"):
                    faults["%s:%s" % (k, v)] = faults.get("%s:%s" % (k, v), 0) + 1
            if r.get("error"):
                errors.append("%s/%s: %s" % (r["est"], r["seed"], r["error"]))
            for v in r["violations"]:
                key = "%s:%s" % (r["est"], v["kind"])
                ctx.report("%s [%s, seed %d]: %s: %s" % (r["est"], r.get("desc", "")[:160], r["seed"], v["kind"], v["detail"]),
                           {"stage": "oracle", "case": case, "kind": v["kind"], "detail": v["detail"]},
                           found_input=True, finding_key=key)
    ctx.coverage["oracle"] = {"calls": n_calls, "calls_that_raised": n_raised, "estimators": len(per_est), "fault_and_reference_outcomes": faults}
    ctx.coverage["per_estimator"] = per_est
    ctx.coverage["aliases_observed"] = aliases
    ctx.coverage["correspondence"] = {"model": "Model/K20_History.v (sharing/mutation structure); validated by the before/after "
                                               "comparison of %d calls" % n_calls, "cases": n_calls, "disagreements": len(ctx.violations)}
    ctx.coverage["traces_validated_against_impl"] = n_calls
    ctx.coverage["scenario_errors"] = errors[:20]
    missing = [n for n in ALL if n not in per_est] if not replay else []
    harness_errors = [e for e in errors if ": harness:" in e]
    if (missing or harness_errors) and not ctx.violations:
        ctx.report("scenarios did not run: missing %s; errors %s" % (missing, harness_errors[:3]),
                   {"stage": "harness", "missing": missing, "errors": harness_errors[:5]}, found_input=False)
    C.gate_violation(ctx)
    return ctx.finish("proof")
