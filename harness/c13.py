"""C13 — calls are free of side effects, repeatable, and leave nothing behind.
Proof gate (Properties/C13.v: the alias-aware state machine Model/K20_History.v, incl. K20c, a private cache that
transform consults) + the before/after differential check on the implementation (harness/impl/c13.py), which is the
part that ties the property to the code.

The implementation side is SYSTEMATIC: every estimator has a table of sensitive configurations (impl/c13.py,
cells_<name>) whose primary dimensions are fully crossed and whose secondary dimensions are rotated from the seed; the
quick tier walks every cell of every table once, the thorough tier walks them for several seeds.  What one cell does
(fault fit, fit, history A B A B-raising A malformed ... with B of the same shape as A and other contents, refit) is
described at the top of impl/c13.py."""
import json
import os
import shutil
import subprocess
import tempfile
import time
from concurrent.futures import ThreadPoolExecutor

from . import common as C

# One child per group: numba compilation dominates, so the scenarios of one estimator stay in one child and the
# groups are cut so that the children take about the same time.  WassersteinVectorizer is cut by code path (each path
# compiles its own kernels).  {"est": ..., "where": {dimension: [values]}} restricts a job to part of a table.
W = "WassersteinVectorizer"
GROUPS = [
    [{"est": "TokenCooccurrenceVectorizer"}],
    [{"est": "TimedTokenCooccurrenceVectorizer"}],
    [{"est": "MultiSetCooccurrenceVectorizer"}],
    [{"est": "NgramCooccurrenceVectorizer"}],
    [{"est": "SkipgramVectorizer"}, {"est": "NgramVectorizer"}, {"est": "EdgeListVectorizer"}, {"est": "HistogramVectorizer"}],
    [{"est": "LabelledTreeCooccurrenceVectorizer"}, {"est": "DistributionVectorizer"}, {"est": "KDEVectorizer"}],
    [{"est": "LZCompressionVectorizer"}],
    [{"est": "BytePairEncodingVectorizer"}, {"est": "CategoricalColumnTransformer"}],
    [{"est": W, "where": {"path": ["spmatrix/LOT_exact", "spmatrix/HeuristicLinearAlgebra"]}}],
    [{"est": W, "where": {"path": ["spmatrix/LOT_sinkhorn"]}}, {"est": "SinkhornVectorizer"}],
    [{"est": W, "where": {"path": ["lil/LOT_exact"]}}],
    [{"est": W, "where": {"path": ["generator/LOT_exact"]}}],
    [{"est": "ApproximateWassersteinVectorizer"}, {"est": "InformationWeightTransformer"}, {"est": "RowDenoisingTransformer"},
     {"est": "CountFeatureCompressionTransformer"}],
    [{"est": "SlidingWindowTransformer"}],
    [{"est": "SequentialDifferenceTransformer"}],
]
ALL = sorted({j["est"] for g in GROUPS for j in g})
# exported but not runnable here / excluded from a claim (said in the manifest):
NOT_RUN = {"SignatureVectorizer": "needs the optional dependency iisignature, which is not installed"}
# what every run must have covered for the estimators that have the dimension (checked after the run)
MUST_COVER = {
    "LabelledTreeCooccurrenceVectorizer": {"prune": ["off", "min_occ", "dict", "ignored"], "mask": ["off", "on"], "outer": ["list", "tuple", "ndarray_obj"]},
    W: {"path": ["spmatrix/LOT_exact", "spmatrix/LOT_sinkhorn", "spmatrix/HeuristicLinearAlgebra", "lil/LOT_exact", "generator/LOT_exact"],
        "memory": ["small", "2G"], "cachedir": ["None", "CACHEDIR"], "lilx": ["list", "tuple", "typedlist"], "size": ["tiny", "big"],
        "fmt": ["csr", "csc", "coo", "lil", "dok", "dia", "bsr", "csr_unsorted", "csc_unsorted", "csr_zeros", "csc_zeros", "ndarray"]},
    "SinkhornVectorizer": {"memory": ["small", "2G"], "cachedir": ["None", "CACHEDIR"], "size": ["tiny", "big"]},
    "ApproximateWassersteinVectorizer": {"size": ["tiny", "big"]},
    "CountFeatureCompressionTransformer": {"size": ["tiny", "big"], "algorithm": ["randomized", "arpack"]},
    "DistributionVectorizer": {"size": ["tiny", "big"]},
    "TokenCooccurrenceVectorizer": {"prune": ["off", "min_occ", "dict", "excluded"], "mask": ["off", "on", "nullify"],
                                    "outer": ["list", "tuple", "ndarray_obj", "series"], "inner": ["mixed", "ndarray_str"]},
}
# every code path with a randomised SVD inside: in the big cells (rows, rank > n_components + 10 oversamples) at least
# one call of randomized_svd must have been NOT exact, in one block and in several - otherwise "two fits with the same
# integer random_state agree" would be checked only where no random number matters
SEEDED_SVD = [(W, {"path": p, "memory": m}) for p in MUST_COVER[W]["path"] for m in ("small", "2G") if not (p.endswith("Algebra") and m == "small")] + \
             [("SinkhornVectorizer", {"memory": "small"}), ("SinkhornVectorizer", {"memory": "2G"}), ("ApproximateWassersteinVectorizer", {}),
              ("CountFeatureCompressionTransformer", {"algorithm": "randomized"})]
# transform takes **kwargs and / or y (read from the signatures in the child): the keyword phase must have run
KEYWORD_PHASE = [W, "SinkhornVectorizer", "ApproximateWassersteinVectorizer", "CountFeatureCompressionTransformer", "RowDenoisingTransformer",
                 "SlidingWindowTransformer", "SequentialDifferenceTransformer", "LZCompressionVectorizer", "BytePairEncodingVectorizer"]


def run_child(jobs, timeout=1500):
    """Like common.run_impl, but safe for many concurrent children of one parent: C.run_impl names its files by
    (pid, millisecond) and shares one numba cache directory per parent pid, which it deletes when a child ends."""
    base = tempfile.mkdtemp(prefix="c13_", dir=C.os_makedirs(os.path.join(C.WORK, "c13")))
    tmp = C.os_makedirs(os.path.join(base, "tmp"))
    fin, fout = os.path.join(base, "in.json"), os.path.join(base, "out.json")
    json.dump({"jobs": jobs, "tmpdir": tmp}, open(fin, "w"))
    env = C.impl_env({"TMPDIR": tmp, "NUMBA_NUM_THREADS": "2", "NUMBA_CACHE_DIR": C.os_makedirs(os.path.join(base, "numba"))})
    t0 = time.time()
    try:
        p = subprocess.run(["timeout", "-k", "10", str(timeout), C.PY, os.path.join(C.VERIF, "harness", "impl", "c13.py"), fin, fout],
                           cwd=C.REPO, env=env, stdout=subprocess.PIPE, stderr=subprocess.STDOUT, text=True)
        info = {"rc": p.returncode, "wall_s": round(time.time() - t0, 2), "tail": p.stdout[-2000:]}
        res = None
        if os.path.exists(fout):
            try:
                res = json.load(open(fout))
            except Exception as e:
                info["parse_error"] = repr(e)
    finally:
        shutil.rmtree(base, ignore_errors=True)
    return jobs, res, info


def run(ctx, replay=None):
    C.run_gate(ctx)
    if replay:
        case = replay["case"]
        batches = [[{"est": case["estimator"], "seed": case["seed"], "only": case["cell_index"]}]]
    else:
        # the data seeds are drawn from ctx.rng; the quick tier walks every table once, the thorough tier several times
        # (other data, other pairing of the secondary dimensions)
        seeds = [ctx.rng.randrange(10 ** 6) for _ in range(1 if ctx.quick else 8)]
        batches = [[dict(j, seed=s) for s in seeds for j in g] for g in GROUPS]
    ctx.coverage["rule"] = ("one scenario per cell of the table (estimator x sensitive configuration) and seed: constructor parameters incl. "
                            "caller dictionaries / sets / index arrays / cachedir, tiny valid data in the cell's containers and formats, "
                            "faulting fit, fit or fit_transform, the history A B A B!fault A malformed <other pool inputs> B A [S+kw A A+kw S B] over persistent "
                            "caller objects (B: same shape as A, other contents; S: the shortest input; +kw: keywords describing that input), refit on "
                            "other data of the same shape, B A; constructor parameters compared after every call; "
                            "non-trivial = the scenario made >= 3 calls")
    ctx.assumptions += [
        "SignatureVectorizer is not run: " + NOT_RUN["SignatureVectorizer"],
        "repeatability of fits is claimed for an integer random_state only; excluded as documented-random without a seed: "
        "SlidingWindowTransformer(window_sample='random') (np.random.choice in fit, no seed parameter; its refit stage is skipped too) and "
        "LZCompressionVectorizer in hashed mode with random_state=None (every LZ scenario passes an integer)",
        "the single-call reference is one transform on an untouched deep copy of the estimator taken right after fit (a fresh "
        "construct+fit when the estimator cannot be deep-copied: the numba-backed co-occurrence family and LZ)",
        "sizes: beside the tiny cells every seeded SVD / mixture estimator has big cells (40-60 rows, n_components 2-3, LOT / vector dimension "
        "> n_components + 10, memory_size giving >= 2 full blocks of >= n_components + 12 rows) where sklearn's randomized_svd is not exact; the "
        "child counts exact / non-exact randomized_svd calls per cell, and in every big cell makes one more fit in which the FIRST randomized_svd call "
        "gets a generator of the harness (evidence seed_sensitive: the model then differs by more than the tolerance); the run fails "
        "(no-failing-input-found) if a seeded path had no such cell; n_svd_iter / n_iter is 0 or 1 in the big cells (with the default 7-10 power "
        "iterations - with 2 on Sinkhorn vectors - the SVD of such small matrices converges to ~1e-9 whatever the start); numpy's and "
        "Python's global generators are seeded per cell and advanced by unrelated draws before EVERY call",
        "constructor parameters: get_params(deep=False) (the constructor-named attributes where it raises) compared by value after every call "
        "with the values right after construction (functions / generator objects by identity)",
        "keyword phase: for a transform taking **kwargs or y the keywords n_distributions / generator_n_distributions = rows of that input, "
        "vector_dim / generator_vector_dim = its vector dimension, y = one entry per row are passed; the single-call reference gets the same keywords",
        "SVD based models whose requested components exceed the numerical rank (or with coinciding singular values) are counted "
        "(degenerate_svd) and their attributes not compared between two fits: the extra singular vectors are rounding noise",
        "outputs and fitted attributes are compared 'to 1e-9': max|a-b| <= 1e-9 * max(1, max|b|) per array, exceptions by class; aliasing "
        "of a caller object by a fitted attribute is recorded (evidence) and a violation only for token_dictionary, which the library "
        "documents to copy; a modification of any caller object (values, dtypes, sparse internals, identity of container elements) is a violation",
        "refit comparison: every attribute that a fresh fit on the same data defines has the same value on the refitted estimator "
        "(attributes assigned by earlier transform calls, e.g. RowDenoisingTransformer.mix_weights_, are not part of a fit)",
        "faults: the k-th call of randomized_svd or of the per-block kernel (lot_vectors_sparse_internal, lot_vectors_dense_internal, "
        "sinkhorn_vectors_sparse_internal) is made to raise by replacing the module attribute in the child (fit AND transform); an "
        "invalid reference distribution (natural ValueError in block 1); a generator that raises at item k; a malformed input",
        "speed shim in the child: utils.make_tuple_converter is memoised per ngram_size (NgramCooccurrenceVectorizer asks for a new numba "
        "closure in every fit, which recompiles the kernel, ~3 s per fit); the closure depends on ngram_size only",
        "container/format lists are the ones the unchanged library accepts (probed once by hand): np.matrix / sparse *arrays* are rejected "
        "by the library, CountFeatureCompressionTransformer.fit reads X.data (no lil/dok), float32 vectors are not run (extra numba "
        "specialisations), a list of pd.Series makes HistogramVectorizer.fit raise",
        "Coq side: K20 is a model of which objects are shared and which operations mutate (incl. a consulted cache), not of the numerics",
    ]
    with ThreadPoolExecutor(max_workers=len(batches)) as ex:
        results = list(ex.map(run_child, batches))
    n_calls = n_raised = 0
    aliases, faults, per_est, errors, seen, walls = {}, {}, {}, [], {}, {}
    svd_seen, sens_seen, kw_seen, params_via, big_fits = {}, {}, {}, {}, {"compared": 0, "degenerate_svd": 0}
    ctx.coverage["child_wall_s"] = {"+".join(sorted({j["est"] + ("[%s]" % ",".join(v[0] for v in j["where"].values()) if j.get("where") else "")
                                                     for j in jobs})): info["wall_s"] for jobs, _, info in results}
    for jobs, res, info in results:
        if res is None or info["rc"] != 0:
            last = (res or [{}])[-1]
            j = jobs[0]
            ctx.report("implementation child died (rc=%s) after scenario %s/%s cell %s: %s" % (info["rc"], last.get("est", j["est"]), last.get("seed", j["seed"]),
                                                                                        last.get("cell_index"), info["tail"][-400:]),
                       {"stage": "impl-crash", "case": {"estimator": last.get("est", j["est"]), "seed": last.get("seed", j["seed"]),
                                                        "cell_index": (last.get("cell_index", -1) + 1)}}, found_input=True)
        for r in res or []:
            case = {"estimator": r["est"], "seed": r["seed"], "cell_index": r.get("cell_index"), "cell": r.get("cell"), "scenario": r.get("desc", ""),
                    "history": r.get("history")}
            nontrivial = r.get("calls", 0) >= 3
            ctx.count_case({k: case[k] for k in ("estimator", "seed", "cell_index", "scenario")}, nontrivial, r["est"])
            n_calls += r.get("calls", 0)
            n_raised += r.get("raised", 0)
            d = per_est.setdefault(r["est"], {"cells": r.get("n_cells"), "scenarios": 0, "calls": 0, "raised": 0, "history_calls": 0, "watched": 0,
                                              "wall_s": 0.0, "dimensions": {}})
            d["scenarios"] += 1
            d["calls"] += r.get("calls", 0)
            d["raised"] += r.get("raised", 0)
            d["history_calls"] += r.get("checks", {}).get("history", 0) + r.get("checks", {}).get("refit_history", 0)
            d["watched"] += r.get("watched", 0)
            d["wall_s"] = round(d["wall_s"] + (r.get("wall_s") or 0), 2)
            ok = not r.get("error")
            for k, v in (r.get("svd") or {}).items():
                d.setdefault("svd_calls", {})[k] = d.setdefault("svd_calls", {}).get(k, 0) + v
            if r.get("params_via"):
                params_via[r["est"]] = r["params_via"]
            d["params_compared"] = d.get("params_compared", 0) + r.get("checks", {}).get("params_compared", 0)
            if r.get("checks", {}).get("keyword_phase"):
                kw_seen[r["est"]] = kw_seen.get(r["est"], 0) + 1
            if ok and (r.get("cell") or {}).get("size") == "big":
                big_fits["degenerate_svd" if r["checks"].get("degenerate_svd") else "compared"] += 1
                for j, (n2, cond) in enumerate(SEEDED_SVD):
                    if n2 == r["est"] and all(str(r["cell"].get(k)) == v for k, v in cond.items()) and not r["checks"].get("degenerate_svd"):
                        svd_seen[j] = svd_seen.get(j, 0) + (r.get("svd") or {}).get("randomized_non_exact", 0)
                        sens_seen[j] = sens_seen.get(j, 0) + (r["checks"].get("seed_sensitive") == "yes")
            if ok:
                seen.setdefault((r["est"], r["seed"]), set()).add(r.get("cell_index"))
                for k, v in (r.get("cell") or {}).items():
                    vals = d["dimensions"].setdefault(k, [])
                    if str(v) not in vals:
                        vals.append(str(v))
            for a in r.get("aliases", []):
                aliases["%s.%s" % (r["est"], a)] = aliases.get("%s.%s" % (r["est"], a), 0) + 1
            for k, v in r.get("checks", {}).items():
                if k.startswith("fault_") or k in ("reference", "degenerate_svd", "degenerate_svd_refit", "poison", "seed_sensitive"):
                    faults["%s:%s" % (k, v)] = faults.get("%s:%s" % (k, v), 0) + 1
            if r.get("error"):
                errors.append("%s/%s cell %s %s: %s" % (r["est"], r["seed"], r.get("cell_index"), json.dumps(r.get("cell")), r["error"]))
            for v in r["violations"]:
                key = "%s:%s" % (r["est"], v["kind"])
                ctx.report("%s [cell %s of %s, seed %d: %s; history %s]: %s: %s"
                           % (r["est"], r.get("cell_index"), r.get("n_cells"), r["seed"], r.get("desc", "")[:260], " ".join(r.get("history") or []), v["kind"], v["detail"]),
                           {"stage": "oracle", "case": case, "kind": v["kind"], "detail": v["detail"]},
                           found_input=True, finding_key=key)
    ctx.coverage["oracle"] = {"calls": n_calls, "calls_that_raised": n_raised, "estimators": len(per_est), "fault_and_reference_outcomes": faults}
    ctx.coverage["per_estimator"] = per_est
    ctx.coverage["aliases_observed"] = aliases
    ctx.coverage["correspondence"] = {"model": "Model/K20_History.v (sharing/mutation structure, consulted cache); validated by the before/after "
                                               "comparison of %d calls" % n_calls, "cases": n_calls, "disagreements": len(ctx.violations)}
    ctx.coverage["traces_validated_against_impl"] = n_calls
    ctx.coverage["scenario_errors"] = errors[:20]
    ctx.coverage["seeded_fits_at_non_exact_sizes"] = dict(big_fits, non_exact_randomized_svd_calls={
        "%s %s" % (n2, json.dumps(cond, sort_keys=True)): svd_seen.get(j, 0) for j, (n2, cond) in enumerate(SEEDED_SVD)},
        cells_that_see_one_reseeded_svd_call={"%s %s" % (n2, json.dumps(cond, sort_keys=True)): sens_seen.get(j, 0) for j, (n2, cond) in enumerate(SEEDED_SVD)})
    ctx.coverage["keyword_phase_cells"] = kw_seen
    ctx.coverage["constructor_parameters_read_via"] = params_via
    # completeness of the walk: every cell of every table ran to the end, for every seed; the named values were covered
    problems = []
    if not replay:
        for name in ALL:
            d = per_est.get(name)
            if d is None:
                problems.append("%s: no scenario ran" % name)
                continue
            for (n2, s), cells in seen.items():
                if n2 == name and len(cells) != d["cells"]:
                    problems.append("%s seed %d: %d of %d cells completed" % (name, s, len(cells), d["cells"]))
            if not any(n2 == name for n2, _ in seen):
                problems.append("%s: no cell completed" % name)
            for dim, vals in MUST_COVER.get(name, {}).items():
                miss = [v for v in vals if v not in d["dimensions"].get(dim, [])]
                if miss:
                    problems.append("%s: %s never took the value(s) %s" % (name, dim, miss))
        for j, (n2, cond) in enumerate(SEEDED_SVD):
            if not svd_seen.get(j) or not sens_seen.get(j):
                problems.append("%s %s: no big cell compared between two fits had a non-exact randomized_svd (%d calls) whose generator matters "
                                "(%d cells told a reseeded first call from the seeded one)" % (n2, cond, svd_seen.get(j, 0), sens_seen.get(j, 0)))
        for n2 in KEYWORD_PHASE:
            if not kw_seen.get(n2):
                problems.append("%s: the keyword phase never ran" % n2)
    problems += [e for e in errors if ": harness:" in e][:3]
    if problems and not ctx.violations:
        ctx.report("the table was not walked completely: %s; errors: %s" % (problems[:6], errors[:3]),
                   {"stage": "harness", "problems": problems[:20], "errors": errors[:5]}, found_input=False)
    C.gate_violation(ctx)
    return ctx.finish("proof")
