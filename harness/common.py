"""Shared machinery of the /verif checks: proof gate, in-Coq model evaluation, implementation child
processes, verdict logic, known findings, evidence.  Run with /venv/bin/python."""
import fcntl
import hashlib
import json
import os
import random
import re
import subprocess
import sys
import time

VERIF = os.path.dirname(os.path.dirname(os.path.abspath(__file__)))
REPO = os.environ.get("VERIF_REPO", "/repo")
COQ = os.path.join(VERIF, "coq")
WORK = os.path.join(VERIF, ".work")
PY = "/venv/bin/python"
COQ_WARN = ("-notation-overridden,-deprecated-hint-without-locality,-deprecated-instance-without-locality,"
            "-ambiguous-paths,-redundant-canonical-projection")

# axioms that the Coq standard library (or an installed library) itself declares and that DESIGN.md §6 names
AXIOM_ALLOW = {
    "ClassicalDedekindReals.sig_forall_dec", "ClassicalDedekindReals.sig_not_dec",
    "FunctionalExtensionality.functional_extensionality_dep", "Classical_Prop.classic",
    "Eqdep.Eq_rect_eq.eq_rect_eq", "JMeq.JMeq_eq", "ProofIrrelevance.proof_irrelevance",
    "PropExtensionality.propositional_extensionality",
}
FORBIDDEN = re.compile(r"\b(Admitted|admit|Axiom|Axioms|Parameter|Parameters|Conjecture|Conjectures|Hypothesis|"
                       r"Hypotheses|Variable|Variables|Admit Obligations)\b|Unset\s+Guard|bypass_check|type-in-type|"
                       r"impredicative-set|Unset\s+Positivity|Unset\s+Universe")


def os_makedirs(p):
    os.makedirs(p, exist_ok=True)
    return p


def strip_coq_comments(text):
    out, depth, i = [], 0, 0
    while i < len(text):
        if text.startswith("(*", i):
            depth += 1
            i += 2
        elif text.startswith("*)", i) and depth:
            depth -= 1
            i += 2
        else:
            if not depth:
                out.append(text[i])
            i += 1
    return "".join(out)


def coq_sources():
    res = []
    for root, _, files in os.walk(os.path.join(COQ, "theories")):
        for f in files:
            if f.endswith(".v"):
                res.append(os.path.join(root, f))
    return sorted(res)


def hygiene():
    """No Admitted/admit/Axiom/Parameter/... anywhere in the development.  `Variable`/`Hypothesis`/`Context` are
    allowed only inside a Section (checked by tracking Section/End nesting)."""
    problems = []
    for path in coq_sources():
        text = strip_coq_comments(open(path).read())
        depth = 0
        for ln, line in enumerate(text.split("\n"), 1):
            if re.match(r"\s*(Section|Module Type)\s+\w+", line):
                depth += 1
            elif re.match(r"\s*End\s+\w+\s*\.", line) and depth:
                depth -= 1
            for m in FORBIDDEN.finditer(line):
                w = m.group(0)
                if w.split()[0] in ("Variable", "Variables", "Hypothesis", "Hypotheses") and depth > 0:
                    continue
                problems.append("%s:%d: %s" % (os.path.relpath(path, VERIF), ln, w))
    return problems


class Lock:
    def __init__(self, name):
        os_makedirs(WORK)
        self.path = os.path.join(WORK, name)

    def __enter__(self):
        self.f = open(self.path, "w")
        fcntl.flock(self.f, fcntl.LOCK_EX)

    def __exit__(self, *a):
        fcntl.flock(self.f, fcntl.LOCK_UN)
        self.f.close()


def regen_coq_project():
    files = [os.path.relpath(p, COQ) for p in coq_sources()]
    text = "-Q theories VZ\n-arg -w -arg %s\n%s\n" % (COQ_WARN, "\n".join(files))
    proj = os.path.join(COQ, "_CoqProject")
    old = open(proj).read() if os.path.exists(proj) else None
    if old != text or not os.path.exists(os.path.join(COQ, "Makefile")):
        open(proj, "w").write(text)
        subprocess.run(["coq_makefile", "-f", "_CoqProject", "-o", "Makefile"], cwd=COQ, check=True,
                       stdout=subprocess.DEVNULL, stderr=subprocess.DEVNULL)


def coq_make(targets=None, timeout=1500, jobs=8):
    """Full .vo build (never -vos/-vok) of the given targets (default: all), serialised by a file lock."""
    with Lock("coq.lock"):
        regen_coq_project()
        cmd = ["timeout", str(timeout), "make", "-j%d" % jobs] + (targets or [])
        p = subprocess.run(cmd, cwd=COQ, stdout=subprocess.PIPE, stderr=subprocess.STDOUT, text=True)
    return p.returncode, p.stdout


def parse_assumptions(out):
    """Split coqc output of a Properties file into one assumption block per Print Assumptions."""
    blocks, cur = [], None
    for line in out.split("\n"):
        if line.startswith("Closed under the global context"):
            blocks.append([])
            cur = None
        elif line.startswith("Axioms:"):
            cur = []
            blocks.append(cur)
        elif cur is not None:
            m = re.match(r"^([A-Za-z_][\w.']*)\s*(:|$)", line)
            if m:
                cur.append(m.group(1))
            elif line and not line.startswith(" "):
                cur = None
    return blocks


def proof_gate(pid, extra_props=()):
    """Build Properties/<pid>.vo (and what it depends on) from source, re-run coqc on the property file to capture
    the Print Assumptions output, check hygiene and the axiom allow-list."""
    t0 = time.time()
    res = {"ok": True, "errors": [], "theorems": [], "axioms": {}, "files": []}
    names = [pid] + list(extra_props)
    rc, out = coq_make(["theories/Properties/%s.vo" % n for n in names])
    if rc != 0:
        res["ok"] = False
        res["errors"].append("coq build failed:\n" + out[-3000:])
        res["wall_s"] = time.time() - t0
        return res
    for n in names:
        path = os.path.join(COQ, "theories", "Properties", n + ".v")
        src = strip_coq_comments(open(path).read())
        thms = re.findall(r"^\s*Theorem\s+([\w']+)", src, re.M)
        prints = re.findall(r"^\s*Print Assumptions\s+([\w']+)\s*\.", src, re.M)
        scratch = os_makedirs(os.path.join(WORK, "gate"))
        p = subprocess.run(["timeout", "600", "coqc", "-Q", "theories", "VZ", "-w", COQ_WARN,
                            "-o", os.path.join(scratch, n + ".vo"), path],
                           cwd=COQ, stdout=subprocess.PIPE, stderr=subprocess.STDOUT, text=True)
        if p.returncode != 0:
            res["ok"] = False
            res["errors"].append("coqc %s failed:\n%s" % (n, p.stdout[-3000:]))
            continue
        blocks = parse_assumptions(p.stdout)
        if len(blocks) != len(prints):
            res["ok"] = False
            res["errors"].append("%s: %d Print Assumptions but %d blocks parsed" % (n, len(prints), len(blocks)))
            continue
        missing = [t for t in thms if t not in prints]
        if missing:
            res["ok"] = False
            res["errors"].append("%s: theorems without Print Assumptions: %s" % (n, missing))
        for name, ax in zip(prints, blocks):
            res["axioms"][name] = ax
            bad = [a for a in ax if a not in AXIOM_ALLOW]
            if bad:
                res["ok"] = False
                res["errors"].append("%s depends on axioms outside the allow-list: %s" % (name, bad))
        res["theorems"] += thms
        res["files"].append(os.path.relpath(path, VERIF))
    hyg = hygiene()
    if hyg:
        res["ok"] = False
        res["errors"].append("hygiene: " + "; ".join(hyg[:20]))
    res["wall_s"] = round(time.time() - t0, 2)
    return res


# ---------------------------------------------------------------- Coq value syntax <-> Python

def z(n):
    n = int(n)
    return "(%d)" % n if n < 0 else str(n)


def coq_list(xs, f=z):
    return "[" + "; ".join(f(x) for x in xs) + "]"


def coq_list2(xss, f=z):
    return coq_list(xss, lambda xs: coq_list(xs, f))


def coq_list3(xsss, f=z):
    return coq_list(xsss, lambda xss: coq_list2(xss, f))


def coq_bool(b):
    return "true" if b else "false"


def coq_opt(x, f):
    return "None" if x is None else "(Some %s)" % f(x)


_TOK = re.compile(r"\s*(\[|\]|\(|\)|;|,|-?\d+|[A-Za-z_][\w.']*|%[a-zA-Z_]+)")


def parse_coq_value(text):
    """Parse the printed form of a Coq value built from lists, tuples, numbers, bools, options and constructors."""
    toks = [t for t in _TOK.findall(text) if not t.startswith("%")]
    pos = [0]

    def peek():
        return toks[pos[0]] if pos[0] < len(toks) else None

    def nxt():
        t = toks[pos[0]]
        pos[0] += 1
        return t

    def atom():
        t = nxt()
        if t == "[":
            items = []
            if peek() == "]":
                nxt()
                return items
            while True:
                items.append(expr())
                t2 = nxt()
                if t2 == "]":
                    return items
                assert t2 == ";", (t2, text[:200])
        if t == "(":
            items = [expr()]
            while peek() == ",":
                nxt()
                items.append(expr())
            assert nxt() == ")"
            return items[0] if len(items) == 1 else tuple(items)
        if re.match(r"-?\d+$", t):
            return int(t)
        if t == "true":
            return True
        if t == "false":
            return False
        if t == "None":
            return None
        return ("ctor", t)

    def expr():
        a = atom()
        if isinstance(a, tuple) and len(a) == 2 and a[0] == "ctor":
            args = []
            while peek() not in (None, "]", ")", ";", ","):
                args.append(atom())
            if a[1] == "Some" and len(args) == 1:
                return ("Some", args[0])
            return (a[1],) + tuple(args) if args else (a[1],)
        return a

    v = expr()
    assert pos[0] == len(toks), ("trailing tokens", toks[pos[0]:pos[0] + 5])
    return v


_BUILT = set()


def ensure_built(header):
    """Make sure every VZ module a generated cases file requires is compiled (the proof gate only builds what the
    property files depend on; executable-only model files are otherwise built by setup.sh alone)."""
    mods = []
    for m in re.finditer(r"From\s+VZ\s+Require\s+(.*?)\.\s*(?:\n|$)", header, flags=re.S):
        for tok in m.group(1).split():
            if tok not in ("Import", "Export") and re.match(r"[A-Za-z_][\w']*(\.[A-Za-z_][\w']*)*$", tok):
                mods.append(tok)
    targets = ["theories/%s.vo" % x.replace(".", "/") for x in mods]
    targets = [t for t in targets if t not in _BUILT and os.path.exists(os.path.join(COQ, t[:-1]))]
    missing = [t for t in targets if not os.path.exists(os.path.join(COQ, t))
               or os.path.getmtime(os.path.join(COQ, t)) < os.path.getmtime(os.path.join(COQ, t[:-1]))]
    if missing:
        rc, out = coq_make(missing)
        if rc != 0:
            raise RuntimeError("could not build %s:\n%s" % (missing, out[-2000:]))
    _BUILT.update(targets)


def coq_eval(tag, header, exprs, timeout=900):
    """Evaluate each Coq expression with vm_compute inside one coqc run; returns the parsed values.
    `header` holds the Require/Import lines and any local definitions."""
    ensure_built(header)
    d = os_makedirs(os.path.join(WORK, "cases"))
    name = re.sub(r"\W", "_", "cases_%s_%d" % (tag, os.getpid()))
    path = os.path.join(d, name + ".v")
    with open(path, "w") as f:
        f.write(header + "\n")
        for i, e in enumerate(exprs):
            f.write("Definition case_%d := %s.\nEval vm_compute in case_%d.\n" % (i, e, i))
    p = subprocess.run(["timeout", str(timeout), "coqc", "-Q", os.path.join(COQ, "theories"), "VZ", "-w", COQ_WARN, path],
                       cwd=d, stdout=subprocess.PIPE, stderr=subprocess.STDOUT, text=True)
    for ext in (".vo", ".glob", ".vok", ".vos"):
        try:
            os.remove(os.path.join(d, name + ext))
        except OSError:
            pass
    try:
        os.remove(os.path.join(d, "." + name + ".aux"))
    except OSError:
        pass
    if p.returncode != 0:
        raise RuntimeError("coqc failed on generated cases (%s):\n%s" % (path, p.stdout[-3000:]))
    os.remove(path)
    chunks = re.split(r"^\s*= ", p.stdout, flags=re.M)[1:]
    vals = []
    for c in chunks:
        body = re.split(r"^\s*: ", c, flags=re.M)[0]
        vals.append(parse_coq_value(body))
    if len(vals) != len(exprs):
        raise RuntimeError("expected %d values from coqc, got %d\n%s" % (len(exprs), len(vals), p.stdout[-2000:]))
    return vals


def coq_eval_sharded(tag, header, exprs, shard=250, jobs=8, timeout=900):
    """coq_eval over shards run in parallel processes."""
    from concurrent.futures import ThreadPoolExecutor
    shards = [exprs[i:i + shard] for i in range(0, len(exprs), shard)]
    if not shards:
        return []
    with ThreadPoolExecutor(max_workers=jobs) as ex:
        futs = [ex.submit(coq_eval, "%s_s%d" % (tag, k), header, sh, timeout) for k, sh in enumerate(shards)]
        out = []
        for f in futs:
            out += f.result()
    return out


# ---------------------------------------------------------------- implementation side

def impl_env(extra=None):
    env = dict(os.environ)
    env["PYTHONPATH"] = REPO
    env["PYTHONHASHSEED"] = "0"
    env["VECTORIZERS_VERIF"] = "1"
    env.setdefault("NUMBA_NUM_THREADS", "4")
    # BLAS / OpenMP pools multiply with numba's and with the parallel children of a check: keep them at one thread
    for k in ("OMP_NUM_THREADS", "OPENBLAS_NUM_THREADS", "MKL_NUM_THREADS"):
        env.setdefault(k, "1")
    env["PIP_NO_INDEX"] = "1"
    # numba's on-disk cache must never serve code compiled from an older working tree
    import tempfile
    env["NUMBA_CACHE_DIR"] = tempfile.mkdtemp(prefix="numba_cache_", dir=os_makedirs(WORK))
    if extra:
        env.update(extra)
    return env


def run_impl(script, payload, env_extra=None, timeout=1800):
    """Run harness/impl/<script>.py in a child /venv/bin/python against /repo; JSON in, JSON out.
    Returns (results | None, info).  A crash/abort/timeout of the child is an observation."""
    d = os_makedirs(os.path.join(WORK, "impl"))
    tag = "%s_%d_%s" % (script, os.getpid(), hashlib.sha1(os.urandom(8)).hexdigest()[:10])
    fin, fout = os.path.join(d, tag + ".in.json"), os.path.join(d, tag + ".out.json")
    json.dump(payload, open(fin, "w"))
    env = impl_env(env_extra)
    t0 = time.time()
    try:
        p = subprocess.run(["timeout", "-k", "10", str(timeout), PY, os.path.join(VERIF, "harness", "impl", script + ".py"),
                            fin, fout], cwd=REPO, env=env, stdout=subprocess.PIPE, stderr=subprocess.STDOUT, text=True)
        rc, out = p.returncode, p.stdout
    finally:
        subprocess.run(["rm", "-rf", env["NUMBA_CACHE_DIR"]])
    info = {"rc": rc, "wall_s": round(time.time() - t0, 2), "tail": out[-2000:]}
    res = None
    if os.path.exists(fout):
        try:
            res = json.load(open(fout))
        except Exception as e:  # truncated output of a crashed child
            info["parse_error"] = repr(e)
        os.remove(fout)
    os.remove(fin)
    return res, info


# ---------------------------------------------------------------- context, verdict, evidence

def load_known():
    """known_findings.json plus the per-property fragments known_findings.d/*.json (all committed; read-only)."""
    out = {"known": [], "fixed": []}
    paths = [os.path.join(VERIF, "known_findings.json")]
    d = os.path.join(VERIF, "known_findings.d")
    if os.path.isdir(d):
        paths += [os.path.join(d, f) for f in sorted(os.listdir(d)) if f.endswith(".json")]
    for p in paths:
        if os.path.exists(p):
            j = json.load(open(p))
            out["known"] += j.get("known", [])
            out["fixed"] += j.get("fixed", [])
    return out


class Ctx:
    def __init__(self, pid, tier, seed):
        self.pid, self.tier, self.seed = pid, tier, seed
        self.rng = random.Random("%s/%d" % (pid, seed))
        self.t0 = time.time()
        self.violations = []      # dicts {what, replay, found_input}
        self.known_hits = []
        self.coverage = {"samples": [], "evaluations": 0, "distinct_nontrivial": 0, "rule": "",
                         "input_distribution": {}, "correspondence": {}, "oracle": {}}
        self.assumptions = []
        self.gate = None
        self._distinct = set()
        self.known = [k for k in load_known().get("known", []) if k.get("property") == pid]

    quick = property(lambda self: self.tier == "quick")

    def count_case(self, case, nontrivial=True, kind=None):
        self.coverage["evaluations"] += 1
        if nontrivial:
            h = hashlib.sha1(json.dumps(case, sort_keys=True, default=str).encode()).hexdigest()
            self._distinct.add(h)
        if kind is not None:
            d = self.coverage["input_distribution"]
            d[kind] = d.get(kind, 0) + 1
        if len(self.coverage["samples"]) < 6 and self.rng.random() < 0.2:
            self.coverage["samples"].append(case)

    def dist(self, key, n=1):
        d = self.coverage["input_distribution"]
        d[key] = d.get(key, 0) + n

    def match_known(self, finding_key):
        for k in self.known:
            if k.get("key") == finding_key:
                return k
        return None

    def report(self, what, replay, found_input=True, finding_key=None):
        """A property-level failure (found_input) or a broken proof/correspondence without one."""
        k = self.match_known(finding_key) if finding_key else None
        if k is not None:
            if k["key"] not in [h["key"] for h in self.known_hits]:
                self.known_hits.append(k)
            return
        if len(self.violations) >= 5:       # enough replays; keep counting
            self.suppressed = getattr(self, "suppressed", 0) + 1
            return
        rd = os_makedirs(os.path.join(VERIF, "replays"))
        body = dict(replay)
        body.update({"property": self.pid, "what": what, "seed": self.seed, "tier": self.tier,
                     "found_failing_input": found_input,
                     "how_to_rerun": "./check %s --replay <this file>" % self.pid})
        h = hashlib.sha1(json.dumps(body, sort_keys=True, default=str).encode()).hexdigest()[:10]
        path = os.path.join(rd, "%s-%s.json" % (self.pid, h))
        json.dump(body, open(path, "w"), indent=1, default=str)
        self.violations.append({"what": what, "replay": path, "found_input": found_input})

    def finish(self, level="proof"):
        if level not in ("exploration", "fault_enumeration", "model_checking", "proof", "translation_validation", "other"):
            level = "proof"
        # the evidence level follows the category claimed in the manifest fragment of the property
        frag = os.path.join(VERIF, "manifest.d", self.pid + ".json")
        if os.path.exists(frag):
            level = json.load(open(frag)).get("category", level)
        gate = self.gate or {"ok": False, "theorems": [], "axioms": {}, "errors": ["proof gate not run"]}
        cov = self.coverage
        cov["distinct_nontrivial"] = len(self._distinct)
        if not cov["samples"]:
            cov["samples"] = ["(no sample drawn)"]
        cov["obligations"] = len(gate["theorems"])
        cov["discharged"] = len([t for t in gate["theorems"] if t in gate["axioms"]]) if gate["ok"] else 0
        cov["checker_cmd"] = ("make -C coq theories/Properties/%s.vo && coqc -Q theories VZ theories/Properties/%s.v"
                              " (Print Assumptions per theorem; hygiene grep)" % (self.pid, self.pid))
        axioms = sorted({a for ax in gate["axioms"].values() for a in ax})
        cov["trusted_base"] = ["Coq 8.16.1 kernel (coqc, vm_compute; no native_compute)",
                               "axioms used: " + (", ".join(axioms) if axioms else "none (closed under the global context)"),
                               "hand-written Gallina model tied to /repo by the differential correspondence of this run",
                               "harness/ (generators, runners, comparators)"]
        cov["theorems"] = gate["theorems"]
        cov["axioms_per_theorem"] = gate["axioms"]
        ev = {"property_id": self.pid, "tier": self.tier, "seed": self.seed, "level": level, "coverage": cov,
              "assumptions": self.assumptions, "wall_s": round(time.time() - self.t0, 2),
              "violations": len(self.violations) + getattr(self, "suppressed", 0),
              "known_findings_hit": [k["key"] for k in self.known_hits]}
        os_makedirs(os.path.join(VERIF, "evidence"))
        json.dump(ev, open(os.path.join(VERIF, "evidence", self.pid + ".json"), "w"), indent=1, default=str)
        for k in self.known_hits:
            print("KNOWN-FINDING: property=%s %s" % (self.pid, k["what"]))
        for v in self.violations:
            print("VIOLATION property=%s replay=%s%s" % (self.pid, v["replay"],
                                                        "" if v["found_input"] else " no-failing-input-found"))
            print("  " + v["what"][:600].replace("\n", "\n  "))
        print("%s %s: %d evaluations, %d/%d obligations discharged, %d violation(s), %d known finding(s), %.1fs"
              % (self.pid, self.tier, cov["evaluations"], cov["discharged"], cov["obligations"],
                 len(self.violations), len(self.known_hits), time.time() - self.t0))
        return 1 if self.violations else 0


def run_gate(ctx, extra_props=()):
    ctx.gate = proof_gate(ctx.pid, extra_props)
    if not ctx.gate["ok"]:
        ctx.gate_failed = True
    return ctx.gate


def gate_violation(ctx):
    """Called after the search stage when the proof gate is red and no failing input was found."""
    if ctx.gate and not ctx.gate["ok"] and not any(v["found_input"] for v in ctx.violations):
        ctx.report("proof gate failed: " + " | ".join(ctx.gate["errors"])[:1500],
                   {"stage": "proof", "errors": ctx.gate["errors"]}, found_input=False)
