"""C06 — N-gram, skip-gram and edge-list matrices hold exact counts; '+' merges models.
Proof gate (Properties/C06.v + Properties/C01_ngram_skip_edge.v) + correspondence of Model/K7_Ngrams.v and
Model/K10_Assembly.v with ngram_vectorizer.py / skip_gram_vectorizer.py / edge_list_vectorizer.py + property oracle
(the counts of the property text computed directly from the raw input, position by position).

'+' is a pure function in the model (Model/K7_AddHistory.v: a history appends to a store), so its purity on the
implementation is checked here: kind "hist" = a pool of models fitted ONCE and a history of merges / transform calls on
those shared objects; every result is compared with direct token counts of the concatenated corpora and with
run_history in Coq, every operand with its state at creation after every merge.  Kinds ngram / skip / edge may carry
`prefit` (the estimator object was fitted before on other data) and `pretransform` (earlier transform calls): expected
values are those of a fresh estimator.

`c01_cases_and_check(ctx)` runs the C01 checks (one row per item, fitted width, column indices in range, no exception,
unseen vocabulary ignored) for the three vectorizers on a transform-focused stream; a future harness/c01.py can call it.
"""
import math
from fractions import Fraction
from . import common as C

HEADER = """From Coq Require Import ZArith List.
From VZ Require Import Model.K10_Assembly Model.K7_Ngrams Model.K7_AddHistory.
Import ListNotations.
Open Scope Z_scope.
"""

KNOWN_SUBGRAMS = "ngram-subgrams-unigram-dropped"
FLOAT_TOL = 1e-9          # skip-gram weights of the harmonic / geometric kernels are float64 sums of <= ~100 terms


def nat(n):
    return "%d%%nat" % n


# ---------------------------------------------------------------- rendering

def coq_dict(d):
    return "[" + "; ".join("(%s, %s)" % (C.z(k), C.z(v)) for k, v in d) + "]"


def coq_optdict(d):
    return "None" if d is None else "(Some %s)" % coq_dict(d)


def coq_gkey(g):
    return "Tup %s" % C.coq_list(g) if isinstance(g, list) else "Bare %s" % C.z(g)


def coq_gdict(d):
    return "[" + "; ".join("(%s, %s)" % (coq_gkey(g), C.z(i)) for g, i in d) + "]"


def coq_triples(ts):
    return "[" + "; ".join("(%s, %s, %s)" % (C.z(a), C.z(b), C.z(c)) for a, b, c in ts) + "]"


def coq_beh(b):
    return "Exact" if b == "exact" else "Subgrams"


def skip_scale(case, radii):
    """(L, Coq weight function): kernel weights in units of 1/L."""
    maxlen = max([len(d) for d in case["docs"] + case["X2"]] + [1])
    rmax = max(1, min(max(list(radii) + [1]), maxlen))
    if case["kernel"] == "flat":
        return 1, "w_flat", rmax
    if case["kernel"] == "harmonic":
        L = 1
        for d in range(1, rmax + 1):
            L = L * d // math.gcd(L, d)
        return L, "(w_harmonic %d)" % L, rmax
    return 10 ** rmax, "(w_geometric 9 10 %s)" % nat(rmax), rmax


def coq_case(c, impl):
    """Coq expression of the model run of a case.  `impl` supplies what the model treats as fit-time data (pruned
    dictionaries, 'variable' window radii, the iteration order of a python set)."""
    k = c["kind"]
    if k == "ngram":
        td, nd = c.get("td"), c.get("nd")
        if c.get("prune"):                      # pruning (K5 / C05) is not modelled here: dictionaries are data
            td, nd = impl["tokdict"], impl["cold"]
        return ("let '(M, tr) := ng_fit %s %s %s %s %s in (ng_tokdict M, ng_cold M, tr, ng_transform M %s)"
                % (coq_optdict(td), "None" if nd is None else "(Some %s)" % coq_gdict(nd), nat(c["n"]),
                   coq_beh(c["beh"]), C.coq_list2(c["docs"]), C.coq_list2(c["X2"])))
    if k == "add":
        e = "bind (ng_add %s (uni_fit %s) (uni_fit %s)) (fun c => " % (
            C.coq_list(c["_ord"][0]), C.coq_list2(c["Xa"]), C.coq_list2(c["Xb"]))
        if c.get("Xc") is not None:
            e += "bind (ng_add %s c (uni_fit %s)) (fun c => " % (C.coq_list(c["_ord"][1]), C.coq_list2(c["Xc"]))
        e += "Ok (u_idx c, u_train c, ng_transform (uni_as_ng c Exact) %s))" % C.coq_list2(c["X2"])
        if c.get("Xc") is not None:
            e += ")"
        return e
    if k == "hist":
        ops = "; ".join("Merge %s %s %s" % (nat(i), nat(j), C.coq_list(o)) for (i, j), o in zip(hist_merges(c), c["_ord"]))
        return "bind (run_history (map uni_fit [%s]) [%s]) (fun st => Ok (store_view %s st))" % (
            "; ".join(C.coq_list2(X) for X in c["pool"]), ops, C.coq_list2(c["X2"]))
    if k == "skip":
        td = "(learn_tokdict %s)" % C.coq_list2(c["docs"])
        if c.get("td") is not None:
            td = coq_dict(c["td"])
        if c.get("prune"):
            td = coq_dict(impl["tokdict"])
        radii = c["_radii"]
        _, w, _ = skip_scale(c, radii)
        return ("bind (sg_fit %s %s %s %s) (fun '(M, tr) => Ok (sg_tokdict M, sg_mask M, sg_labels M, tr, "
                "sg_transform M %s %s, sg_transform_unrepaired M %s %s))"
                % (td, C.coq_list(radii), w, C.coq_list2(c["docs"]), w, C.coq_list2(c["X2"]), w, C.coq_list2(c["X2"])))
    if k == "edge":
        return ("bind (el_fit %s %s %s %s) (fun '(M, tr) => Ok (fst M, snd M, tr, el_transform M %s, "
                "el_transform_unrepaired M %s))"
                % (coq_optdict(c.get("rd")), coq_optdict(c.get("cd")), C.coq_bool(c["joint"]), coq_triples(c["edges"]),
                   coq_triples(c["X2"]), coq_triples(c["X2"])))
    raise ValueError(k)


# ---------------------------------------------------------------- canonical forms

def canon(m, scale=1):
    """model matrix (nrows, ncols, triples) -> {"shape", "triples"}: duplicates summed, zeros dropped, sorted."""
    h, w, ts = m
    acc = {}
    for r, cc, v in ts:
        acc[(r, cc)] = acc.get((r, cc), 0) + v
    tr = sorted((r, cc, v) for (r, cc), v in acc.items() if v != 0)
    if scale != 1:
        tr = [(r, cc, Fraction(v, scale)) for r, cc, v in tr]
    return {"shape": [h, w], "triples": [list(t) for t in tr]}


def canon_res(r, scale=1):
    if r[0] == "Raise":
        return {"err": r[1][0]}
    return canon(r[1], scale)


def same_matrix(a, b, exact=True):
    """a: model canonical (values int / Fraction), b: implementation {"shape","triples"} | {"err"}."""
    if "err" in a or "err" in b:
        return a.get("err") == b.get("err")
    if list(a["shape"]) != list(b["shape"]) or len(a["triples"]) != len(b["triples"]):
        return False
    for (r1, c1, v1), (r2, c2, v2) in zip(a["triples"], b["triples"]):
        if (r1, c1) != (r2, c2):
            return False
        if exact:
            if v1 != v2:
                return False
        elif abs(float(v1) - v2) > FLOAT_TOL * max(1.0, abs(v2)):
            return False
    return True


def dense(m):
    return {(r, c): v for r, c, v in m["triples"]}


# ---------------------------------------------------------------- the property, computed directly

def runs_equal(s, g):
    """number of positions p with s[p : p + len(g)] = g, position by position"""
    n = len(g)
    return sum(1 for p in range(len(s) - n + 1) if all(s[p + j] == g[j] for j in range(n)))


def spec_ngram(c, tokdict, cold, docs):
    """expected cells {(i, col): count} for every column label of the fitted dictionary"""
    vocab = {l for l, _ in tokdict}
    n, exp = c["n"], {}
    for i, d in enumerate(docs):
        s = [t for t in d if t in vocab]
        for g, col in cold:
            gl = g if isinstance(g, list) else [g]
            ok = (len(gl) == n) if c["beh"] == "exact" else (1 <= len(gl) <= n)
            v = runs_equal(s, gl) if ok else 0
            exp[(i, col)] = exp.get((i, col), 0) + v
    return exp


def spec_skip(c, tokdict, radii, labels, docs):
    """expected cells: sum over positions p of a and positions q in the window after p holding b of weight(q - p)"""
    idx = dict((l, i) for l, i in tokdict)
    vocab = set(idx)

    def wt(d):
        if c["kernel"] == "flat":
            return Fraction(1)
        if c["kernel"] == "harmonic":
            return Fraction(1, d)
        return Fraction(9, 10) ** d
    exp, other = {}, {}
    col_of = {(a, b): j for j, (a, b) in enumerate(labels)}
    for i, doc in enumerate(docs):
        s = [t for t in doc if t in vocab]
        for p in range(len(s)):
            R = radii[idx[s[p]]]
            for q in range(len(s)):
                if p < q <= p + R:
                    key = (s[p], s[q])
                    if key in col_of:
                        exp[(i, col_of[key])] = exp.get((i, col_of[key]), 0) + wt(q - p)
                    else:
                        other[(i, key)] = other.get((i, key), 0) + wt(q - p)
    return exp, other


def spec_edge(rowdict, coldict, edges):
    ri, ci = dict(rowdict), dict(coldict)
    exp = {}
    for r, cc, v in edges:
        if r in ri and cc in ci:
            exp[(ri[r], ci[cc])] = exp.get((ri[r], ci[cc]), 0) + v
    return exp


def cells_differ(exp, got, exact=True):
    """list of coordinates where the expected cells (missing = 0) and the matrix differ"""
    bad = []
    for k in set(exp) | set(got):
        e, g = exp.get(k, 0), got.get(k, 0)
        if (e != g) if exact else (abs(float(e) - g) > FLOAT_TOL * max(1.0, abs(g))):
            bad.append(k)
    return sorted(bad)


# ---------------------------------------------------------------- generators

def gen_doc(rng, vocab, n):
    L = rng.choice([0, 1, max(n - 1, 0), n, n + 1, n + 2, rng.randint(0, 9), rng.randint(3, 12)])
    return [rng.choice(vocab) for _ in range(L)]


def gen_docs(rng, vocab, n, lo=1, hi=5):
    docs = [gen_doc(rng, vocab, n) for _ in range(rng.randint(lo, hi))]
    if not any(docs):
        docs.append([rng.choice(vocab) for _ in range(n + 1)])
    return docs


def gen_X2(rng, vocab, unseen, n, train=None):
    """transform input: unseen tokens, empty documents, documents shorter than n, documents of unseen tokens only,
    documents that avoid the highest fitted tokens.  Never the empty collection: utils.flatten([]) raises IndexError
    (shared code outside this property) — reported, not exercised."""
    docs = []
    for _ in range(rng.randint(1, 4)):
        r = rng.random()
        if r < 0.15:
            docs.append([])
        elif r < 0.25:
            docs.append([rng.choice(unseen) for _ in range(rng.randint(1, 3))])
        elif r < 0.45:
            low = sorted(vocab)[:max(1, len(vocab) // 2)]
            docs.append([rng.choice(low) for _ in range(rng.randint(1, 6))])
        elif r < 0.6 and train:
            docs.append(list(rng.choice(train)))
        else:
            pool = vocab + (unseen if rng.random() < 0.7 else [])
            docs.append([rng.choice(pool) for _ in range(rng.choice([1, max(n - 1, 1), n, n + 1, rng.randint(2, 10)]))])
    return docs


def shuffled_dict(rng, labels, gappy=False):
    idx = list(range(len(labels)))
    rng.shuffle(idx)
    if gappy:
        idx = [i * 2 + rng.randint(0, 1) for i in idx]
    return [[l, i] for l, i in zip(labels, idx)]


def add_pruning(rng, docs, vocab, n):
    """A pruning setting under which at least one n-gram survives: a token t is made the strictly most frequent one and
    given two runs of length >= n in two documents, so that t and the gram (t, ..., t) pass min_occurrences=2,
    min_document_occurrences=2 and max_unique_tokens.  (When nothing survives prune_token_dictionary divides by the zero
    total of n-grams: shared pruning code, not this property's subject — reported.)"""
    t = rng.choice(vocab)
    most = max([sum(d.count(v) for d in docs) for v in vocab] + [0])
    docs += [[t] * max(n + 1, most + 1), [t] * n]
    return rng.choice([{"min_occurrences": 2}, {"max_unique_tokens": rng.randint(1, 3)}, {"min_document_occurrences": 2}])


def gen_ngram(rng):
    n = rng.choice([1, 1, 2, 2, 3, 4])
    beh = rng.choice(["exact", "exact", "subgrams"])
    V = rng.randint(1, 5)
    vocab = list(range(1, 2 * V, 2))               # odd labels seen in training; even ones are unseen
    unseen = [0] + list(range(2, 2 * V + 3, 2))
    docs = gen_docs(rng, vocab, n)
    c = {"kind": "ngram", "n": n, "beh": beh, "docs": docs, "int_labels": rng.random() < 0.15}
    r = rng.random()
    if r < 0.15:
        labels = sorted(set(rng.sample(vocab, rng.randint(1, len(vocab))) + rng.sample(unseen, rng.randint(0, 2))))
        c["td"] = shuffled_dict(rng, labels)
    elif r < 0.3:
        grams = []
        pool = vocab + unseen[:1]
        for _ in range(rng.randint(1, 6)):
            L = n if beh == "exact" else rng.randint(1, n)
            g = [rng.choice(pool) for _ in range(L)]
            if L == 1 and (n == 1 or rng.random() < 0.5):
                g = g[0]                            # a bare token key: what a length-1 gram is looked up as
            if g not in grams:
                grams.append(g)
        c["nd"] = [[g, i] for g, i in zip(grams, rng.sample(range(len(grams)), len(grams)))]
    elif r < 0.42:
        # pruning settings: the kept vocabulary itself is C05's subject; here the fitted dictionaries are taken from the
        # implementation and the counts are checked against them.
        c["prune"] = add_pruning(rng, docs, vocab, n)
    c["X2"] = gen_X2(rng, vocab, unseen, n, docs)
    add_prior(rng, c, lambda: gen_docs(rng, vocab[:max(1, len(vocab) - 1)] + unseen[:2], n),
              lambda: gen_X2(rng, vocab, unseen, n, docs), refit=not c.get("prune"))
    return c


def add_prior(rng, c, other_training, other_X2, refit=True):
    """The estimator object / the fitted model has a past (the property speaks of what fit and transform return, whatever
    the object was used for before): `prefit` = an earlier fit of the same object on other data with another
    vocabulary, `pretransform` = earlier transform calls on other inputs.  The expected values do not depend on them."""
    if refit and rng.random() < 0.3:
        c["prefit"] = other_training()
    if rng.random() < 0.3:
        c["pretransform"] = [other_X2() for _ in range(rng.randint(1, 2))]


def gen_skip(rng):
    V = rng.randint(1, 5)
    vocab = list(range(1, 2 * V, 2))
    unseen = [0] + list(range(2, 2 * V + 3, 2))
    docs = gen_docs(rng, vocab, 2)
    c = {"kind": "skip", "radius": rng.choice([1, 1, 2, 2, 3, 5]), "docs": docs,
         "wf": "variable" if rng.random() < 0.2 else "fixed",
         "kernel": rng.choice(["flat", "flat", "flat", "harmonic", "geometric"]),
         "int_labels": rng.random() < 0.15}
    r = rng.random()
    present = sorted({t for d in docs for t in d})
    if r < 0.15:
        labels = sorted(set(present[:rng.randint(1, len(present))] + rng.sample(unseen, rng.randint(0, 2))))
        d = shuffled_dict(rng, labels)
        # RESTRICTION (defect outside this builder's list, reported): with a fixed token_dictionary whose highest index
        # does not occur in the training data, np.bincount in preprocessing gives a shorter frequency vector, the
        # column code uses n' < n and the fitted column labels are decoded wrongly.  The highest index is therefore
        # given to a token that occurs in the training data.
        top = max(i for _, i in d)
        occurring = [p for p in d if p[0] in present]
        holder = [p for p in d if p[1] == top][0]
        if holder[0] not in present:
            o = occurring[0]
            holder[1], o[1] = o[1], holder[1]
        c["td"] = d
    elif r < 0.25:
        c["prune"] = add_pruning(rng, docs, vocab, 2)
    c["X2"] = gen_X2(rng, vocab, unseen, 2, docs)
    # an earlier fit only where the dictionary is learned (a fixed one needs its highest index in the data, see above;
    # a pruning that keeps nothing divides by zero)
    add_prior(rng, c, lambda: gen_docs(rng, vocab[:max(1, len(vocab) - 1)] + unseen[:2], 2),
              lambda: gen_X2(rng, vocab, unseen, 2, docs), refit=c.get("td") is None and not c.get("prune"))
    return c


def gen_edges(rng, rows, cols, lo, hi):
    E = []
    for _ in range(rng.randint(lo, hi)):
        if E and rng.random() < 0.35:
            r, cc, _ = rng.choice(E)                 # a duplicate edge
        else:
            r, cc = rng.choice(rows), rng.choice(cols)
        E.append([r, cc, rng.choice([1, 1, 1, 2, 3, 5, -1, -2, 0])])
    return E


def gen_edge(rng):
    joint = rng.random() < 0.3
    nr, nc = rng.randint(1, 5), rng.randint(1, 5)
    rows = list(range(1, 2 * nr, 2))
    cols = rows if joint else list(range(101, 101 + 2 * nc, 2))
    unseen_r = [0] + list(range(2, 2 * nr + 3, 2))
    unseen_c = unseen_r if joint else [100] + list(range(102, 102 + 2 * nc + 1, 2))
    c = {"kind": "edge", "joint": joint, "edges": gen_edges(rng, rows, cols, 1, 12),
         "int_labels": rng.random() < 0.15, "as_columns": rng.random() < 0.1}
    gap = rng.random() < 0.2
    if rng.random() < 0.3:
        labels = sorted(set(rng.sample(rows, rng.randint(1, len(rows))) + rng.sample(unseen_r, rng.randint(0, 2))))
        c["rd"] = shuffled_dict(rng, labels, gap)
    if rng.random() < 0.3 and not (joint and c.get("rd") is not None):
        labels = sorted(set(rng.sample(cols, rng.randint(1, len(cols))) + rng.sample(unseen_c, rng.randint(0, 2))))
        c["cd"] = shuffled_dict(rng, labels, gap)
    # X': unseen labels, duplicates, the highest fitted row / column missing, possibly no known edge at all
    r = rng.random()
    if r < 0.15:
        X2 = gen_edges(rng, unseen_r[:2], unseen_c[:2], 1, 3)
    elif r < 0.45:
        X2 = gen_edges(rng, rows[:max(1, len(rows) - 1)], cols[:max(1, len(cols) - 1)], 1, 6)
    else:
        X2 = gen_edges(rng, rows + unseen_r[:2], cols + unseen_c[:2], 1, 8)
    c["X2"] = X2
    add_prior(rng, c, lambda: gen_edges(rng, rows[:max(1, len(rows) - 1)] + unseen_r[:2], cols[:max(1, len(cols) - 1)] + unseen_c[:2], 1, 8),
              lambda: gen_edges(rng, rows + unseen_r[:2], cols + unseen_c[:2], 1, 6))
    return c


def gen_add(rng, pool=None):
    def corpus():
        V = rng.randint(1, 4)
        vocab = rng.sample(range(1, 9), V)
        return gen_docs(rng, vocab, 1, 1, 3)
    if pool is not None:
        Xa, Xb = pool
    else:
        Xa, Xb = corpus(), corpus()
        r = rng.random()
        if r < 0.1:
            Xb = [list(d) for d in Xa]
        elif r < 0.2:
            Xb = [[t + 10 for t in d] for d in Xb]      # disjoint vocabularies
    c = {"kind": "add", "Xa": Xa, "Xb": Xb, "int_labels": rng.random() < 0.15}
    if rng.random() < 0.3:
        c["Xc"] = corpus()
    allv = sorted({t for X in (Xa, Xb, c.get("Xc") or []) for d in X for t in d})
    c["X2"] = gen_X2(rng, allv, [0, 9, 20, 21], 1, Xa + Xb)
    return c


# histories of '+' on shared models: a = store[0], b = store[1], c = store[2 or 1]; results are appended to the store
def hist_templates(n):
    """a, b, c = the first pool models (c = b in a pool of two), rK = the result of the K-th merge"""
    a, b, c = 0, 1, (2 if n > 2 else 1)
    r0, r1, r2 = n, n + 1, n + 2
    return [
        [["merge", a, b], ["merge", a, c]],                                      # a+b, then a+c : left operand reused
        [["merge", a, b], ["merge", c, b], ["merge", a, b]],                     # right operand reused, a+b twice
        [["merge", a, b], ["merge", b, a]],                                      # a+b, b+a
        [["merge", a, b], ["merge", r0, c], ["merge", b, c], ["merge", a, r2]],   # (a+b)+c and a+(b+c)
        [["merge", a, a], ["merge", a, b], ["merge", r0, a]],                    # a+a, a+b, (a+a)+a
        [["transform", a], ["merge", a, b], ["transform", a], ["transform", b], ["merge", b, a], ["merge", a, c]],
        [["merge", a, b], ["merge", r0, a], ["merge", r0, r0], ["merge", a, r0]],  # results merged again, with operands
        [["merge", c, a], ["merge", c, b], ["merge", b, c], ["merge", a, c]],
    ]


def hist_merges(c):
    return [(op[1], op[2]) for op in c["ops"] if op[0] == "merge"]


def hist_corpora(c):
    """the corpus every entry of the store stands for (rows of the left operand first)"""
    cs = [list(X) for X in c["pool"]]
    for i, j in hist_merges(c):
        cs.append(cs[i] + cs[j])
    return cs


def hist_name(c, k):
    """store[k] as an expression in the pool models s0, s1, ..."""
    n = len(c["pool"])
    if k < n:
        return "s%d" % k
    i, j = hist_merges(c)[k - n]
    return "(%s+%s)" % (hist_name(c, i), hist_name(c, j))


def gen_hist(rng, pool=None, ops=None):
    def corpus():
        V = rng.randint(1, 4)
        return gen_docs(rng, rng.sample(range(1, 9), V), 1, 1, 3)
    if pool is None:
        pool = [corpus() for _ in range(rng.randint(2, 4))]
        r = rng.random()
        if r < 0.1:
            pool[1] = [list(d) for d in pool[0]]
        elif r < 0.2:
            pool[1] = [[t + 10 for t in d] for d in pool[1]]        # disjoint vocabularies
        elif r < 0.3:
            pool[0] = [[t for t in d if t in {x for e in pool[1] for x in e}] for d in pool[0]]   # a's vocabulary inside b's
            if not any(pool[0]):
                pool[0] = [list(pool[1][0]) or [1]]
    n = len(pool)
    if ops is None:
        ops = [list(o) for o in rng.choice(hist_templates(n))] if rng.random() < 0.6 else []
        rows = [len(X) for X in pool]
        for op in ops:
            if op[0] == "merge":
                rows.append(rows[op[1]] + rows[op[2]])
        for _ in range(rng.randint(1 if ops else 2, 4)):
            if rng.random() < 0.25:
                ops.append(["transform", rng.randrange(len(rows))])
                continue
            pick = lambda: rng.randrange(n) if rng.random() < 0.6 else rng.randrange(len(rows))
            i, j = pick(), pick()
            if rows[i] + rows[j] > 16 or len(rows) >= 10:
                continue
            ops.append(["merge", i, j])
            rows.append(rows[i] + rows[j])
    c = {"kind": "hist", "pool": pool, "ops": ops, "int_labels": rng.random() < 0.15}
    allv = sorted({t for X in pool for d in X for t in d})
    c["X2"] = gen_X2(rng, allv, [0, 9, 20, 21], 1, [d for X in pool for d in X])
    return c


ADD_POOL = [[[1, 2, 1]], [[2, 3], [3]], [[4], [], [4, 4]], [[1], [2], [3], [4]], [[5, 1, 5, 1, 5]], [[3, 2, 1], [1, 2, 3]]]

CORPUS = [
    # seeded C06-1: the left operand's column_index_dictionary_ written by the merge, seen when it is an operand again
    {"kind": "hist", "pool": [[[1, 2, 1], [2, 3]], [[4, 1], [4, 4, 5]], [[3, 6], [1, 6, 6, 2]], [[1, 4], [4]]],
     "ops": [["merge", 0, 1], ["merge", 0, 2], ["merge", 0, 3], ["merge", 1, 0], ["merge", 4, 2], ["merge", 3, 1]],
     "X2": [[1, 4, 4, 6, 9], [], [5, 3, 3, 2, 6, 6, 6]]},
    # D13: merged model's transform
    {"kind": "add", "Xa": [[1, 2], [2, 3]], "Xb": [[3, 4]], "X2": [[1, 4, 4], [9], []]},
    # D2: X' lacking the last fitted row and column; X' without any known edge
    {"kind": "edge", "joint": False, "edges": [[1, 101, 1], [3, 103, 2], [5, 105, 3], [1, 101, 4]], "X2": [[1, 101, 1]]},
    {"kind": "edge", "joint": False, "edges": [[1, 101, 1], [3, 103, 2]], "X2": [[0, 101, 1]]},
    # the two joint_space defects
    {"kind": "edge", "joint": True, "edges": [[1, 3, 1], [3, 5, 2], [5, 1, 1]], "rd": [[1, 0], [3, 1], [5, 2]], "X2": [[1, 3, 1]]},
    {"kind": "edge", "joint": True, "edges": [[1, 3, 1], [3, 5, 2], [5, 1, 1]], "cd": [[1, 0], [3, 1]], "X2": [[5, 3, 1], [3, 1, 2]]},
    # D3: X' narrower than the training data; X' with a pair whose code is beyond the fitted width
    {"kind": "skip", "radius": 2, "wf": "fixed", "kernel": "flat", "docs": [[1, 3, 5, 1, 3], [5, 3, 1]], "X2": [[1, 3]]},
    {"kind": "skip", "radius": 2, "wf": "fixed", "kernel": "flat", "docs": [[1, 3, 5, 1, 3], [5, 3, 1]], "X2": [[5, 5], [], [0]]},
    {"kind": "skip", "radius": 3, "wf": "fixed", "kernel": "harmonic", "docs": [[1, 3, 1, 5, 1], [3], []], "X2": [[1, 1, 1, 1]]},
    # document of length exactly n, shorter than n; subgrams (known finding)
    {"kind": "ngram", "n": 2, "beh": "exact", "docs": [[1, 3], [1], [], [1, 3, 1, 3]], "X2": [[3, 1], [1]]},
    {"kind": "ngram", "n": 2, "beh": "subgrams", "docs": [[1, 3, 1, 3], [3], []], "X2": [[1, 3, 0, 1]]},
    {"kind": "ngram", "n": 3, "beh": "subgrams", "docs": [[1, 1, 1, 1]], "nd": [[1, 0], [[1, 1], 1], [[1, 1, 1], 2], [[1], 3]],
     "X2": [[1, 1, 1]]},
]


def gen_case(rng, weights=(0.35, 0.25, 0.25, 0.15), hist=0.7):
    r = rng.random()
    a, b, cc, _ = weights
    if r < a:
        return gen_ngram(rng)
    if r < a + b:
        return gen_skip(rng)
    if r < a + b + cc:
        return gen_edge(rng)
    return gen_hist(rng) if rng.random() < hist else gen_add(rng)


# ---------------------------------------------------------------- evaluation

def evaluate(cases, tag="C06"):
    """implementation results, then model results (the model run may need fit-time data from the implementation)."""
    impl, info = C.run_impl("c06", cases)
    if impl is None:
        impl = []
    n_done = len(impl)
    exprs, idx = [], []
    for i, (c, r) in enumerate(zip(cases, impl)):
        if "err" in r and "train" not in r and "add" not in r:
            continue                                  # the child failed on this case as a whole: reported by the caller
        if c["kind"] == "hist":
            h = r["hist"]
            if any(x is None for x in h["created"]):
                continue                              # a merge raised: the oracle reports it, nothing to compare
            # iteration order of the python set of each merge = labels of the result beyond the left operand's
            n = len(c["pool"])
            c["_ord"] = [[l for l, _ in h["created"][n + k]["label_dict"]][len(h["created"][i]["label_dict"]):]
                         for k, (i, j) in enumerate(hist_merges(c))]
        if c["kind"] == "skip":
            n = None
            if "tokdict" in r:
                n = len(r["tokdict"])
            if c["wf"] == "fixed" and n is not None:
                c["_radii"] = [c["radius"]] * n + [0]
            elif "radii" in r:
                c["_radii"] = r["radii"]
            else:
                continue
        if c["kind"] == "add":
            if "label_dict" not in r:
                continue
            labels = [l for l, _ in r["label_dict"]]
            nl = len(r["left_labels"])
            if c.get("Xc") is None:
                c["_ord"] = [labels[nl:]]
            else:
                # order of the first merge = labels of a+b beyond a's; of the second = the rest
                ab = set(t for X in (c["Xa"], c["Xb"]) for d in X for t in d)
                c["_ord"] = [labels[nl:len(ab)], labels[len(ab):]]
        if c["kind"] == "ngram" and c.get("prune") and "tokdict" not in r:
            continue
        exprs.append(coq_case(c, r))
        idx.append(i)
    vals = C.coq_eval_sharded(tag, HEADER, exprs, shard=120)
    model = [None] * len(cases)
    for i, v in zip(idx, vals):
        model[i] = v
    return impl, info, n_done, model


def model_parts(c, mv, impl):
    """canonical form of the model's value: dict of comparable components"""
    k = c["kind"]
    if k == "ngram":
        tokdict, cold, tr, tf = mv
        return {"tokdict": sorted(([a, b] for a, b in tokdict), key=lambda p: p[1]),
                "cold": [[(g[1] if g[0] == "Bare" else list(g[1])), i] for g, i in cold],
                "train": canon(tr), "transform": canon(tf)}
    if mv[0] == "Raise":
        return {"train": {"err": mv[1][0]}}
    v = mv[1]
    if k == "add":
        idx, tr, tf = v
        return {"label_dict": [[l, i] for i, l in idx], "train": canon(tr), "transform": canon(tf)}
    if k == "skip":
        L, _, _ = skip_scale(c, c["_radii"])
        tokdict, mask, labels, tr, tf, tfu = v
        return {"tokdict": sorted(([a, b] for a, b in tokdict), key=lambda p: p[1]), "mask": list(mask),
                "label_idx": [list(p) for p in labels], "train": canon(tr, L), "transform": canon_res(tf, L),
                "unrepaired": canon_res(tfu, L)}
    if k == "edge":
        rd, cd, tr, tf, tfu = v
        return {"rowdict": [list(p) for p in rd], "coldict": [list(p) for p in cd], "train": canon(tr),
                "transform": canon_res(tf), "unrepaired": canon_res(tfu)}


def correspondence(c, mp, r):
    """None if model and implementation agree on every compared component, else a description"""
    k = c["kind"]
    exact = not (k == "skip" and c["kernel"] != "flat")
    if k == "add" and "add" in r:
        return None if mp["train"].get("err") == r["add"]["err"] else "add raised %s" % r["add"]["err"]
    if "err" in r["train"] or "err" in mp["train"]:
        return None if mp["train"].get("err") == r["train"].get("err") else \
            "fit: model %s, implementation %s" % (str(mp["train"])[:150], str(r["train"])[:150])
    if not same_matrix(mp["train"], r["train"], exact):
        return "training matrix: model %s, implementation %s" % (str(mp["train"])[:300], str(r["train"])[:300])
    if not same_matrix(mp["transform"], r["transform"], exact):
        return "transform: model %s, implementation %s" % (str(mp["transform"])[:300], str(r["transform"])[:300])
    if k == "ngram":
        if mp["tokdict"] != r["tokdict"]:
            return "token dictionary: model %s, implementation %s" % (mp["tokdict"], r["tokdict"])
        if sorted(map(str, mp["cold"])) != sorted(map(str, r["cold"])):
            return "column dictionary: model %s, implementation %s" % (mp["cold"], r["cold"])
    if k == "add" and mp["label_dict"] != r["label_dict"]:
        return "merged column dictionary: model %s, implementation %s" % (mp["label_dict"], r["label_dict"])
    if k == "skip":
        if mp["tokdict"] != r["tokdict"]:
            return "token dictionary: model %s, implementation %s" % (mp["tokdict"], r["tokdict"])
        n = len(r["tokdict"])
        if len(r["radii"]) - 1 != n or n == 0 or any(not (0 <= i < n) for _, i in r["tokdict"]):
            return ("hypothesis sg_wf of C06_skipgram / C01_skipgram is not met by the fitted estimator: %d window sizes, "
                    "token dictionary %s" % (len(r["radii"]), r["tokdict"]))
        if c["_radii"] != r["radii"]:
            return "window radii: expected %s, implementation %s" % (c["_radii"], r["radii"])
        if mp["mask"] != r["mask"]:
            return "_column_is_kept: model %s, implementation %s" % (mp["mask"], r["mask"])
        inv = {i: l for l, i in r["tokdict"]}
        lab = [[inv.get(a), inv.get(b)] for a, b in mp["label_idx"]]
        if lab != r["labels"]:
            return "column labels: model %s, implementation %s" % (lab, r["labels"])
    if k == "edge":
        if sorted(mp["rowdict"]) != sorted(r["rowdict"]) or sorted(mp["coldict"]) != sorted(r["coldict"]):
            return "label dictionaries: model %s / %s, implementation %s / %s" % (
                mp["rowdict"], mp["coldict"], r["rowdict"], r["coldict"])
    return None


def oracle(c, r):
    """The property text evaluated on the implementation's output.  Returns (violations, known) where each is a list of
    messages; `known` collects the cells covered by the known finding."""
    k, bad, known = c["kind"], [], []
    if k == "add":
        if "add" in r:
            return ["'+' raised %s: %s" % (r["add"]["err"], r["add"]["msg"])], []
        for key in ("train", "transform"):
            if "err" in r[key]:
                return ["merged model: %s raised %s" % (key, r[key]["err"])], []
        corp = c["Xa"] + c["Xb"] + (c.get("Xc") or [])
        vocab = sorted({t for d in corp for t in d})
        ld = r["label_dict"]
        if sorted(l for l, _ in ld) != vocab or sorted(i for _, i in ld) != list(range(len(vocab))):
            bad.append("columns of the merged model %s are not the union vocabulary %s" % (ld, vocab))
            return bad, known
        col = dict(ld)
        for key, docs in (("train", corp), ("transform", c["X2"])):
            exp = {}
            for i, d in enumerate(docs):
                for t in d:
                    if t in col:
                        exp[(i, col[t])] = exp.get((i, col[t]), 0) + 1
            if r[key]["shape"] != [len(docs), len(vocab)]:
                bad.append("merged %s has shape %s, expected %s" % (key, r[key]["shape"], [len(docs), len(vocab)]))
            d_ = cells_differ(exp, dense(r[key]))
            if d_:
                bad.append("merged %s differs from the token counts over both vocabularies at (row, col) %s: got %s expected %s"
                           % (key, d_[:5], [dense(r[key]).get(x, 0) for x in d_[:5]], [exp.get(x, 0) for x in d_[:5]]))
        return bad, known
    if "err" in r["train"]:
        return ["fit raised %s: %s" % (r["train"]["err"], r["train"].get("msg"))], []
    if k == "skip" and r.get("labels") is None:
        return ["the fitted column_index_dictionary_ is not an enumeration 0 .. n-1 of the columns of the training matrix"], []
    streams = [("train", c["docs"] if k != "edge" else c["edges"]), ("transform", c["X2"])]
    if "fit_then_transform" in r:                       # transform of the training data by the fitted model
        streams.append(("fit_then_transform", streams[0][1]))
    core = lambda m: {"err": m["err"]} if isinstance(m, dict) and "err" in m else m
    if "transform_again" in r and "err" not in r["transform"] and core(r["transform_again"]) != core(r["transform"]):
        bad.append("two transform calls of the same fitted model on the same X' differ: %s then %s"
                   % (str(r["transform"])[:200], str(r["transform_again"])[:200]))
    for key, data in streams:
        m = r[key]
        if "err" in m:
            bad.append("%s raised %s: %s" % (key, m["err"], m.get("msg")))
            continue
        got = dense(m)
        if k == "ngram":
            exp = spec_ngram(c, r["tokdict"], r["cold"], data)
            diff = cells_differ(exp, got)
            unigram_cols = {col for g, col in r["cold"] if isinstance(g, list) and len(g) == 1}
            kn = [x for x in diff if c["beh"] == "subgrams" and c["n"] >= 2 and x[1] in unigram_cols and got.get(x, 0) == 0]
            diff = [x for x in diff if x not in kn]
            if kn:
                known.append("%s cells %s" % (key, kn[:4]))
        elif k == "skip":
            exp, other = spec_skip(c, r["tokdict"], r["radii"], r["labels"], data)
            diff = cells_differ(exp, got, c["kernel"] == "flat")
            if key == "train" and any(v > 0 for v in other.values()):
                bad.append("skip-gram pairs with positive weight have no fitted column: %s" % sorted(other)[:4])
        else:
            exp = spec_edge(r["rowdict"], r["coldict"], data)
            diff = cells_differ(exp, got)
        if diff:
            bad.append("%s differs from the definition at (row, col) %s: got %s expected %s"
                       % (key, diff[:5], [got.get(x, 0) for x in diff[:5]], [str(exp.get(x, 0)) for x in diff[:5]]))
    return bad, known


def c01_check(c, r):
    """C01 for one case: transform returns one row per item (EdgeList: per fitted row label) with the fitted width, all
    column indices in range, no exception, and unseen vocabulary is ignored."""
    k, bad = c["kind"], []
    if k == "hist":
        return bad
    if k == "add":
        if "add" in r or "err" in r.get("train", {}):
            return bad
        width, n_items = len(r["label_dict"]), len(c["X2"])
    else:
        if "err" in r["train"]:
            return bad                                  # fit problems are not C01's subject
        width = r["train"]["shape"][1]
        n_items = r["train"]["shape"][0] if k == "edge" else len(c["X2"])
    t = r["transform"]
    if "err" in t:
        return ["transform raised %s: %s" % (t["err"], t.get("msg"))]
    if t["shape"] != [n_items, width]:
        bad.append("transform returned shape %s, expected %s rows x %s fitted columns" % (t["shape"], n_items, width))
    if any(not (0 <= cc < width and 0 <= rr < n_items) for rr, cc, _ in t["triples"]):
        bad.append("transform returned an index outside %s x %s" % (n_items, width))
    s = r.get("transform_stripped")
    if s is not None:
        if "err" in s:
            bad.append("transform of X' without its unseen vocabulary raised %s" % s["err"])
        elif s != t:
            bad.append("unseen vocabulary is not ignored: transform(X') = %s but transform(strip_unseen X') = %s"
                       % (str(t)[:200], str(s)[:200]))
    return bad


def kind_of(c):
    k = c["kind"]
    if k == "ngram":
        mode = "td" if c.get("td") else "nd" if c.get("nd") else "prune" if c.get("prune") else "learned"
        return "ngram:n=%d:%s:%s" % (c["n"], c["beh"], mode)
    if k == "skip":
        mode = "td" if c.get("td") else "prune" if c.get("prune") else "learned"
        return "skip:%s:%s:%s" % (c["wf"], c["kernel"], mode)
    if k == "edge":
        return "edge:%s:%s%s" % ("joint" if c["joint"] else "sep", "rd" if c.get("rd") else "-", "cd" if c.get("cd") else "-")
    if k == "hist":
        return "hist:pool=%d:merges=%d" % (len(c["pool"]), len(hist_merges(c)))
    return "add:%s" % ("3" if c.get("Xc") else "2")


def clean(c):
    return {k: v for k, v in c.items() if not k.startswith("_")}


def boundary_stats(ctx, c, r):
    """how often the boundaries named in the property were hit"""
    if c["kind"] in ("ngram", "skip"):
        n = c.get("n", 2)
        for d in c["docs"] + c["X2"]:
            ctx.dist("doc:empty" if not d else "doc:shorter-than-n" if len(d) < n else "doc:length-n" if len(d) == n else "doc:longer")
        if "tokdict" in r:
            vocab = {l for l, _ in r["tokdict"]}
            if any(t not in vocab for d in c["X2"] for t in d):
                ctx.dist("X':has-unseen-token")
    if c["kind"] == "edge":
        seen = set()
        for e in c["edges"]:
            if (e[0], e[1]) in seen:
                ctx.dist("edge:duplicate")
                break
            seen.add((e[0], e[1]))
    t, tr = r.get("transform"), r.get("train")
    if isinstance(t, dict) and isinstance(tr, dict) and "shape" in t and "shape" in tr and tr["shape"][1] > 0:
        top = max([cc for _, cc, _ in t["triples"]] + [-1])
        ctx.dist("X':highest-fitted-column-" + ("present" if top == tr["shape"][1] - 1 else "missing"))


def process(ctx, cases, replay, tag, do_oracle=True, do_c01=True):
    impl, info, n_done, model = evaluate(cases, tag)
    if n_done != len(cases):
        ctx.report("implementation child died (rc=%s) on case %d: %s" % (info["rc"], n_done, info["tail"][-400:]),
                   {"stage": "impl-crash", "case": clean(cases[n_done]) if n_done < len(cases) else None}, found_input=True)
    stats = {"corr": 0, "corr_bad": [], "oracle": 0, "c01": 0}
    for c, r, mv in zip(cases, impl, model):
        if "err" in r and "train" not in r and "add" not in r:
            ctx.report("harness child failed on a case: %s %s" % (r["err"], r.get("tb", "")[-300:]),
                       {"stage": "impl", "case": clean(c)}, found_input=False)
            continue
        if c["kind"] == "hist":
            process_hist(ctx, c, r["hist"], mv, stats, do_oracle)
            continue
        nontrivial = bool(isinstance(r.get("transform"), dict) and r["transform"].get("triples")) or \
            bool(isinstance(r.get("train"), dict) and r["train"].get("triples"))
        ctx.count_case(clean(c), nontrivial=nontrivial, kind=kind_of(c))
        boundary_stats(ctx, c, r)
        if c.get("prefit") is not None:
            ctx.dist("%s:estimator-fitted-before-on-other-data" % c["kind"])
        if c.get("pretransform"):
            ctx.dist("%s:model-used-for-earlier-transforms" % c["kind"])
        failed = False
        if do_oracle:
            stats["oracle"] += 1
            bad, known = oracle(c, r)
            if known:
                ctx.report("subgrams mode never counts unigrams: " + "; ".join(known), {"stage": "oracle", "case": clean(c)},
                           finding_key=KNOWN_SUBGRAMS)
            for b in bad[:1]:
                failed = True
                ctx.report("C06 fails on the implementation: " + b, {"stage": "oracle", "case": clean(c), "actual": r})
        if do_c01:
            stats["c01"] += 1
            for b in c01_check(c, r)[:1]:
                failed = True
                ctx.report("C01 fails on the implementation: " + b, {"stage": "oracle-C01", "case": clean(c), "actual": r})
        if mv is None:
            if not failed:
                stats["corr_bad"].append((c, r, "no model value (fit-time data missing from the implementation's result)"))
            continue
        stats["corr"] += 1
        mp = model_parts(c, mv, r)
        why = correspondence(c, mp, r)
        if why is None and "unrepaired" in mp and "transform" in mp:
            # the model of the pre-repair code predicts where D2 / D3 showed: evidence only
            if mp["unrepaired"] != mp["transform"]:
                ctx.dist("%s:unrepaired-transform-would-differ" % c["kind"])
        if why is not None and not failed:
            stats["corr_bad"].append((c, r, why))
    return stats


# ---------------------------------------------------------------- histories of '+'

def hist_expect(c, k, snap, X2):
    """the property for store[k] given the state `snap` the implementation reports: columns = the vocabulary of the
    concatenated corpora (both public dictionaries, inverse of each other), training matrix and transform(X2) = token
    counts, column by label.  Returns the first discrepancy or None."""
    corp = hist_corpora(c)[k]
    vocab = sorted({t for d in corp for t in d})
    ld, idd = snap["label_dict"], snap["index_dict"]
    if sorted(l for l, _ in ld) != vocab or sorted(i for _, i in ld) != list(range(len(vocab))):
        return "column_label_dictionary_ %s is not an enumeration of the vocabulary %s of its corpora" % (ld, vocab)
    if sorted([i, l] for l, i in ld) != idd:
        return "column_index_dictionary_ %s is not the inverse of column_label_dictionary_ %s (vocabulary %s)" % (idd, ld, vocab)
    col = dict(ld)
    for key, docs in (("train", corp), ("transform", X2)):
        m = snap.get(key)
        if m is None:
            continue
        if "err" in m:
            return "%s raised %s: %s" % (key, m["err"], m.get("msg"))
        exp = {}
        for i, d in enumerate(docs):
            for t in d:
                if t in col:
                    exp[(i, col[t])] = exp.get((i, col[t]), 0) + 1
        if m["shape"] != [len(docs), len(vocab)]:
            return "%s has shape %s, expected %s" % (key, m["shape"], [len(docs), len(vocab)])
        d_ = cells_differ(exp, dense(m))
        if d_:
            return "%s differs from the token counts of the concatenated corpora at (row, col) %s: got %s expected %s" % (
                key, d_[:5], [dense(m).get(x, 0) for x in d_[:5]], [exp.get(x, 0) for x in d_[:5]])
    return None


def state_diff(before, after):
    for key in ("label_dict", "index_dict", "tok_dict", "inv_dict", "train", "transform"):
        if key in before and key in after and before[key] != after[key]:
            return "%s was %s, now %s" % (key, str(before[key])[:200], str(after[key])[:200])
    return None


def hist_oracle(c, h):
    """(message, number of ops of the shortest prefix of the history that shows it) or None.  A wrong RESULT (a merge
    that raises, wrong columns / training matrix / transform of a merged model) is reported in preference to the change
    of an operand's state that caused it; an operand change alone is reported when no result of the history is wrong."""
    n = len(c["pool"])
    created, k, seen_tf, changed = h["created"], n, {}, None
    for e in range(n):
        why = hist_expect(c, e, created[e], c["X2"])
        if why:
            return "fitted model s%d: %s" % (e, why), 0

    def because():
        return "" if changed is None else "  [earlier in this history: %s]" % changed[0]
    for t, (op, st) in enumerate(zip(c["ops"], h["steps"])):
        if op[0] == "transform":
            e = op[1]
            if st["out"] is None:
                continue
            why = hist_expect(c, e, dict(created[e], train=None, transform=st["out"]), c["X2"])
            if why:
                return "%s.transform(X2) in step %d: %s%s" % (hist_name(c, e), t, why, because()), t + 1
            seen_tf.setdefault(e, st["out"])
            continue
        i, j = op[1], op[2]
        if st.get("skipped"):
            k += 1
            continue
        name = "%s = %s + %s (step %d)" % (hist_name(c, k), hist_name(c, i), hist_name(c, j), t)
        if "err" in st:
            return "%s raised %s: %s%s" % (name, st["err"], st["msg"], because()), t + 1
        why = hist_expect(c, k, created[k], c["X2"])
        if why:
            return "%s: %s%s" % (name, why, because()), t + 1
        for e, sn in zip((i, j), st["operands"]):
            d = state_diff(created[e], sn)
            if d and changed is None:
                changed = ("%s changed its %s operand %s: %s" % (name, "left" if e == i else "right", hist_name(c, e), d), t + 1)
        k += 1
    for e, f in enumerate(h["final"]):
        if f is None:
            continue
        why = hist_expect(c, e, dict(f, label_dict=created[e]["label_dict"], index_dict=created[e]["index_dict"]), c["X2"])
        if why:
            return "at the end of the history %s: %s%s" % (hist_name(c, e), why, because()), len(c["ops"])
        if e in seen_tf and seen_tf[e] != f["transform"]:
            return "%s.transform(X2) gave %s earlier in the history and %s at its end%s" % (
                hist_name(c, e), str(seen_tf[e])[:200], str(f["transform"])[:200], because()), len(c["ops"])
    if changed is not None:
        return changed
    for e, f in enumerate(h["final"]):
        d = state_diff(created[e], f) if f is not None else None
        if d:
            return "at the end of the history %s is not what it was when created: %s" % (hist_name(c, e), d), len(c["ops"])
    return None


def hist_correspondence(c, h, mv):
    if mv[0] == "Raise":
        return "run_history raises %s, the implementation completed the history" % (mv[1],)
    if len(mv[1]) != len(h["final"]):
        return "store sizes differ: model %d, implementation %d" % (len(mv[1]), len(h["final"]))
    for e, ((idx, labd, tr, tf), f) in enumerate(zip(mv[1], h["final"])):
        if sorted([i, l] for i, l in idx) != f["index_dict"]:
            return "%s column_index_dictionary_: model %s, implementation %s" % (hist_name(c, e), idx, f["index_dict"])
        if sorted(([l, i] for l, i in labd), key=lambda p: (p[1], p[0])) != f["label_dict"]:
            return "%s column_label_dictionary_: model %s, implementation %s" % (hist_name(c, e), labd, f["label_dict"])
        if not same_matrix(canon(tr), f["train"]):
            return "%s training matrix: model %s, implementation %s" % (hist_name(c, e), str(canon(tr))[:300], str(f["train"])[:300])
        if not same_matrix(canon(tf), f["transform"]):
            return "%s transform: model %s, implementation %s" % (hist_name(c, e), str(canon(tf))[:300], str(f["transform"])[:300])
    return None


def hist_features(ctx, c):
    ms = hist_merges(c)
    n, left, right, used = len(c["pool"]), [i for i, _ in ms], [j for _, j in ms], set()
    if len(set(left)) < len(left):
        ctx.dist("hist:left-operand-reused-as-left")
    if len(set(right)) < len(right):
        ctx.dist("hist:right-operand-reused-as-right")
    if set(left) & set(right):
        ctx.dist("hist:operand-on-both-sides")
    if any(i == j for i, j in ms):
        ctx.dist("hist:self-merge")
    if any(i >= n or j >= n for i, j in ms):
        ctx.dist("hist:result-merged-again")
    for op in c["ops"]:
        if op[0] == "transform":
            used.add(op[1])
        elif op[1] in used or op[2] in used:
            ctx.dist("hist:merge-after-transform")
            break
    if any(i < n and i in left[:t] for t, i in enumerate(left)):
        ctx.dist("hist:pool-model-left-twice")


def process_hist(ctx, c, h, mv, stats, do_oracle):
    nontrivial = any(f and isinstance(f.get("train"), dict) and f["train"].get("triples") for f in h["final"])
    ctx.count_case(clean(c), nontrivial=nontrivial, kind=kind_of(c))
    hist_features(ctx, c)
    failed = False
    if do_oracle:
        stats["oracle"] += 1
        bad = hist_oracle(c, h)
        if bad:
            failed = True
            msg, nops = bad
            short = dict(clean(c), ops=c["ops"][:nops])
            ctx.report("C06 fails on the implementation for the history [%s] on shared fitted unigram models: %s"
                       % ("; ".join("%s" % (op,) for op in short["ops"]), msg),
                       {"stage": "oracle", "case": short, "actual": h})
    if mv is None:
        if not failed:
            stats["corr_bad"].append((c, h, "no model value for the history (a merge did not complete)"))
        return
    stats["corr"] += 1
    why = hist_correspondence(c, h, mv)
    if why is not None and not failed:
        stats["corr_bad"].append((c, {"hist": h}, why))


def c01_cases_and_check(ctx, n=None, replay_case=None):
    """The C01 stream for NgramVectorizer / SkipgramVectorizer / EdgeListVectorizer (and merged unigram models):
    random fitted models, X' with unseen tokens / labels, empty items, items shorter than n, X' missing the highest fitted
    column / row.  Reports through ctx; returns the statistics."""
    if n is None:
        n = 300 if ctx.quick else 8000
    cases = [replay_case] if replay_case else [gen_case(ctx.rng, (0.3, 0.35, 0.3, 0.05), hist=0.0) for _ in range(n)]
    st = process(ctx, cases, None, "C01nse", do_oracle=False, do_c01=True)
    ctx.coverage["c01_ngram_skip_edge"] = {"cases": st["c01"], "correspondence_cases": st["corr"],
                                           "disagreements": len(st["corr_bad"])}
    return st


def run(ctx, replay=None):
    C.run_gate(ctx, extra_props=("C01_ngram_skip_edge",))
    n = 800 if ctx.quick else 19000
    if replay:
        cases = [replay["case"]]
    else:
        pairs = [gen_add(ctx.rng, (a, b)) for a in ADD_POOL for b in ADD_POOL]
        if ctx.quick:
            pairs = pairs[::2]
        # the same pool fitted ONCE and every ordered pair merged on those shared objects (in a shuffled order), and every
        # template history on every rotation of a 3-model sub-pool
        allp = [["merge", i, j] for i in range(len(ADD_POOL)) for j in range(len(ADD_POOL))]
        ctx.rng.shuffle(allp)
        hists = [gen_hist(ctx.rng, [list(X) for X in ADD_POOL], allp[:18]), gen_hist(ctx.rng, [list(X) for X in ADD_POOL], allp[18:])]
        for r_ in range(3):
            sub = [ADD_POOL[(r_ + 2 * k) % len(ADD_POOL)] for k in range(3)]
            hists += [gen_hist(ctx.rng, [list(X) for X in sub], [list(o) for o in t]) for t in hist_templates(3)]
        cases = [dict(c) for c in CORPUS] + pairs + hists + [gen_case(ctx.rng) for _ in range(n)]
    st = process(ctx, cases, replay, "C06")
    st2 = {"corr_bad": []} if replay else c01_cases_and_check(ctx)
    ctx.coverage["rule"] = ("random (vectorizer, parameters, training corpus / edge list, X') cases + corpus of past failures + all ordered "
                            "pairs of a pool of fitted unigram models, fresh AND as histories of merges / transforms on shared model objects "
                            "(operands reused on either side, results merged again, self-merge; every operand compared with its state "
                            "at creation after every merge); estimators with an earlier fit / earlier transform calls; non-trivial = a non-empty matrix; distinct by case hash")
    ctx.assumptions += [
        "tokens / labels are strings or ints; counts and edge values are integers (exact in float32 / float64)",
        "skip-gram: kernel_args = {} (flat / harmonic / geometric(0.9) as the code calls them: no mask, no offset, no "
        "normalisation); harmonic and geometric weights compared under relative tolerance %g; 'variable' window radii "
        "and every pruned dictionary are read from the fitted estimator (pruning is C05's subject)" % FLOAT_TOL,
        "mask_string / nullify_mask are not exercised (D10 belongs to another property)",
        "X' is a non-empty collection (utils.flatten([]) raises IndexError in shared code); fixed skip-gram token "
        "dictionaries give their highest index to a token of the training data (np.bincount without minlength)",
        "head / tail indices < 2^24 (float32 packing in build_skip_grams), column codes < 2^31",
    ]
    ctx.coverage["correspondence"] = {"cases": st["corr"], "disagreements": len(st["corr_bad"]),
                                      "model": "Model/K7_Ngrams.v + Model/K10_Assembly.v via vm_compute"}
    ctx.coverage["oracle"] = {"cases": st["oracle"], "c01_checks": st["c01"]}
    ctx.coverage["traces_validated_against_impl"] = st["corr"]
    bad = st["corr_bad"] + st2["corr_bad"]
    if bad and not any(v["found_input"] for v in ctx.violations):
        c, r, why = bad[0]
        ctx.report("models K7_Ngrams / K10_Assembly and the implementation disagree (no property-level failure found): " + why,
                   {"stage": "correspondence", "correspondence": "Model/K7_Ngrams.v, Model/K10_Assembly.v <-> vectorizers",
                    "case": clean(c), "actual": r}, found_input=False)
    C.gate_violation(ctx)
    return ctx.finish("proof")
