"""Parent-side helpers shared by the zoo-based aggregate checks (C01, C10)."""
from concurrent.futures import ThreadPoolExecutor
from . import common as C

GROUPS = [["TokenCooccurrenceVectorizer"], ["TimedTokenCooccurrenceVectorizer"], ["MultiSetCooccurrenceVectorizer"],
          ["NgramCooccurrenceVectorizer"], ["LabelledTreeCooccurrenceVectorizer", "EdgeListVectorizer", "HistogramVectorizer"],
          ["NgramVectorizer", "SkipgramVectorizer", "KDEVectorizer", "DistributionVectorizer"],
          ["LZCompressionVectorizer", "BytePairEncodingVectorizer", "InformationWeightTransformer", "RowDenoisingTransformer"],
          ["WassersteinVectorizer"], ["SinkhornVectorizer", "ApproximateWassersteinVectorizer"],
          ["CountFeatureCompressionTransformer", "SlidingWindowTransformer", "SequentialDifferenceTransformer", "distances"]]


HEAVY = {"TokenCooccurrenceVectorizer", "TimedTokenCooccurrenceVectorizer", "MultiSetCooccurrenceVectorizer",
         "NgramCooccurrenceVectorizer", "DistributionVectorizer"}


def make_groups(ctx, per, only=None, light_factor=1):
    out = []
    for g in GROUPS:
        names = [n for n in g if only is None or n in only]
        if names:
            # consecutive seeds: zoo.grid() walks through the discrete parameter grid of each estimator
            out.append([(n, base + i) for n in names for base in [1000 * ctx.rng.randrange(1000)]
                        for i in range(6 * per if n == "distances" else per if n in HEAVY else light_factor * per)])
    return out


def run_groups(groups, env_extra=None, timeout=2400, workers=10, script="zoo_run"):
    with ThreadPoolExecutor(max_workers=workers) as ex:
        futs = [ex.submit(C.run_impl, script, [list(c) for c in g], env_extra, timeout) for g in groups]
        return [f.result() for f in futs]


def is_err(v):
    return isinstance(v, dict) and "err" in v and "kind" not in v


def diff(a, b, exact, rtol, atol=1e-9):
    """Parent-side copy of zoo.diff (canonical outputs)."""
    if is_err(a) or is_err(b):
        if is_err(a) and is_err(b):
            return None if a["err"] == b["err"] else "exception %s vs %s" % (a["err"], b["err"])
        return "exception vs value: %s / %s" % (str(a)[:150], str(b)[:150])
    if a["kind"] != b["kind"]:
        return "kind %s vs %s" % (a["kind"], b["kind"])
    if a["kind"] == "sparse":
        if a["shape"] != b["shape"]:
            return "shape %s vs %s" % (a["shape"], b["shape"])
        da = {(i, j): v for i, j, v in a["triples"]}
        db = {(i, j): v for i, j, v in b["triples"]}
        for k in set(da) | set(db):
            x, y = da.get(k, 0.0), db.get(k, 0.0)
            if (x != y) if exact else (abs(x - y) > atol + rtol * max(abs(x), abs(y))):
                return "cell %s: %r vs %r" % (k, x, y)
        return None
    if a["kind"] == "dense":
        if a["shape"] != b["shape"]:
            return "shape %s vs %s" % (a["shape"], b["shape"])
        scale = max([abs(x) for x in a["data"] if x == x] + [1e-300])
        for idx, (x, y) in enumerate(zip(a["data"], b["data"])):
            if (x != x and y != y) or x == y:
                continue
            if (x != y) if exact else not (abs(x - y) <= atol + rtol * max(abs(x), abs(y), scale)):
                return "entry %d: %r vs %r" % (idx, x, y)
        return None
    if a["kind"] == "list":
        if len(a["items"]) != len(b["items"]):
            return "length %d vs %d" % (len(a["items"]), len(b["items"]))
        for i, (x, y) in enumerate(zip(a["items"], b["items"])):
            d = diff(x, y, exact, rtol, atol)
            if d:
                return "item %d: %s" % (i, d)
        return None
    return None if a["v"] == b["v"] else "%r vs %r" % (a["v"], b["v"])
