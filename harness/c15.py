"""C15 — labelled-tree co-occurrence counts kernel-weighted walks between labels.
Proof gate (Properties/C15.v) + correspondence of Model/K18_Tree.v (`vectorize`, evaluated by vm_compute) with
LabelledTreeCooccurrenceVectorizer.fit_transform / transform + property oracle: an independent walk count written
directly from the property text (explicit successor recursion, nearest-kept-ancestor contraction, exact fractions),
and TokenCooccurrenceVectorizer on path graphs."""
from fractions import Fraction
from math import lcm

from . import common as C

HEADER = """From Coq Require Import ZArith List.
From VZ Require Import Model.K18_Tree Proofs.K18_Tree_proofs.
Import ListNotations.
Open Scope nat_scope.
"""
TOL = 1e-9          # float64 products/sums of <= a few hundred terms against exact rationals
TOL32 = 2e-5        # TokenCooccurrenceVectorizer accumulates in float32
ORIENT = {"before": "Before", "after": "After", "symmetric": "Symmetric", "directional": "Directional"}


# ------------------------------------------------------------------ kernel weights (exact)
def weights(case):
    R, k = case["R"], case["kargs"]
    if case["kernel"] == "flat":
        w = [Fraction(1)] * R
    elif case["kernel"] == "harmonic":
        w = [Fraction(1, i) for i in range(1, R + 1)]
    else:
        p = Fraction(*k["power"]) if k.get("power") else Fraction(9, 10)
        w = [p ** i for i in range(1, R + 1)]
    for i in range(min(k.get("offset", 0), R)):
        w[i] = Fraction(0)
    if k.get("normalize") and sum(w) > 0:
        s = sum(w)
        w = [x / s for x in w]
    return w


# ------------------------------------------------------------------ expected vocabulary (independent of the repo)
def expected_dict(case):
    """label id -> column; the mask (id -1) is appended last."""
    p = case["prune"]
    if p.get("dict") is not None:
        d = {l: i for l, i in p["dict"]}
    else:
        flat = [l for t in case["trees"] for l in t["labels"]]
        cnt = {l: flat.count(l) for l in set(flat)}
        tcnt = {l: sum(1 for t in case["trees"] if l in t["labels"]) for l in cnt}
        kept = [l for l in sorted(cnt)
                if l not in (p.get("ignored") or [])
                and (p.get("min_occ") is None or cnt[l] >= p["min_occ"])
                and (p.get("max_occ") is None or cnt[l] <= p["max_occ"])
                and (p.get("min_tree_occ") is None or tcnt[l] >= p["min_tree_occ"])]
        d = {l: i for i, l in enumerate(kept)}
    if case["mask"]:
        d[-1] = len(d)
    return d


# ------------------------------------------------------------------ the property, evaluated directly
def contracted(succ, keep):
    """successor lists among kept nodes: u -> v iff there is a path u -> x1 -> ... -> xm -> v whose inner nodes
    are all removed (m >= 0); one entry per such path."""
    def through(x):
        out = []
        for y in succ[x]:
            if keep[y]:
                out.append(y)
            else:
                out += through(y)
        return out
    return [through(u) if keep[u] else [] for u in range(len(succ))]


def walk_counts(succ, R):
    """W[k][u][v] = number of directed walks of exactly k steps, by recursion over the successor lists."""
    n = len(succ)
    W = [[[1 if u == v else 0 for v in range(n)] for u in range(n)]]
    for _ in range(R):
        prev = W[-1]
        W.append([[sum(prev[x][v] for x in succ[u]) for v in range(n)] for u in range(n)])
    return W


def oracle(case, trees, d):
    nt = len(d)
    w = weights(case)
    M = [[Fraction(0)] * nt for _ in range(nt)]
    for t in trees:
        labels = list(t["labels"])
        if case["mask"]:
            labels = [l if l in d else -1 for l in labels]
            succ = t["succ"]
        else:
            succ = contracted(t["succ"], [l in d for l in labels])
        W = walk_counts(succ, case["R"])
        for u in range(len(labels)):
            for v in range(len(labels)):
                if labels[u] in d and labels[v] in d:
                    M[d[labels[u]]][d[labels[v]]] += sum(w[k - 1] * W[k][u][v] for k in range(1, case["R"] + 1))
    if case["nullify"]:
        mi = d[-1]
        M = [[Fraction(0) if (a == mi or b == mi) else M[a][b] for b in range(nt)] for a in range(nt)]
    return orient_py(M, case["orient"])


def orient_py(M, o):
    nt = len(M)
    T = [[M[b][a] for b in range(nt)] for a in range(nt)]
    if o == "after":
        return M
    if o == "before":
        return T
    if o == "symmetric":
        return [[M[a][b] + T[a][b] for b in range(nt)] for a in range(nt)]
    return [T[a] + M[a] for a in range(nt)]


def token_window_counts(case, docs, d):
    """'after' co-occurrence of token sequences, pointwise over position pairs (pruned tokens deleted / masked)."""
    nt, w, R = len(d), weights(case), case["R"]
    M = [[Fraction(0)] * nt for _ in range(nt)]
    for s in docs:
        s = [l if l in d else -1 for l in s] if case["mask"] else [l for l in s if l in d]
        for p in range(len(s)):
            for q in range(len(s)):
                if p < q <= p + R:
                    M[d[s[p]]][d[s[q]]] += w[q - p - 1]
    if case["nullify"]:
        mi = d[-1]
        M = [[Fraction(0) if (a == mi or b == mi) else M[a][b] for b in range(nt)] for a in range(nt)]
    return orient_py(M, case["orient"])


# ------------------------------------------------------------------ Coq rendering
def nl(xs):
    return "[" + "; ".join("%d" % x for x in xs) + "]"


def coq_trees(trees):
    return "[" + "; ".join("([%s], %s)" % ("; ".join(nl(r) for r in t["succ"]), nl(t["labels"])) for t in trees) + "]"


def coq_case(case, trees, d):
    w = weights(case)
    D = lcm(*[x.denominator for x in w])
    ws = "[" + "; ".join("(%d)%%Z" % int(x * D) for x in w) + "]"
    maxlab = max([l for t in case["trees"] + (case.get("trees2") or []) for l in t["labels"]] + [l for l in d if l >= 0] + [0])
    mask_id = maxlab + 1
    dl = ["None"] * (mask_id + 1)
    for l, i in d.items():
        dl[mask_id if l == -1 else l] = "(Some %d)" % i
    mask = "(Some %d)" % mask_id if case["mask"] else "None"
    mi = "(Some %d)" % d[-1] if case["nullify"] else "None"
    return ("vectorize %s %d [%s] %s %s %s %s" % (ws, len(d), "; ".join(dl), mask, mi, ORIENT[case["orient"]],
                                                 coq_trees(trees)), D)


# ------------------------------------------------------------------ generators
def gen_tree(rng, nlab_universe, inward):
    n = rng.choice([1, 1, 2, 3, 4, 5, 6, 7, 8])
    parent = [None] * n
    shape = rng.random()
    for v in range(1, n):
        if shape < 0.15:
            parent[v] = v - 1                       # a path
        elif shape < 0.3:
            parent[v] = 0                           # a star
        elif rng.random() < 0.85:
            parent[v] = rng.randrange(v)            # isolated nodes / several roots otherwise
    perm = list(range(n))
    rng.shuffle(perm)
    succ = [[] for _ in range(n)]
    for v in range(n):
        if parent[v] is not None:
            a, b = perm[parent[v]], perm[v]
            if inward:
                a, b = b, a
            succ[a].append(b)
    succ = [sorted(r) for r in succ]
    k = rng.choice([1, 2, len(nlab_universe), len(nlab_universe)])
    sub = rng.sample(nlab_universe, min(k, len(nlab_universe)))
    return {"succ": succ, "labels": [rng.choice(sub) for _ in range(n)]}


def gen_path(rng, universe):
    n = rng.choice([1, 2, 3, 4, 5, 6, 8, 10])
    return {"succ": [[i + 1] if i + 1 < n else [] for i in range(n)], "labels": [rng.choice(universe) for _ in range(n)]}


def gen_case(rng):
    kind = "path" if rng.random() < 0.2 else "forest"
    nlab = rng.choice([1, 2, 2, 3, 4, 5])
    universe = list(range(nlab))
    inward = rng.random() < 0.2
    mk = (lambda u: gen_path(rng, u)) if kind == "path" else (lambda u: gen_tree(rng, u, inward))
    trees = [mk(universe) for _ in range(rng.randint(1, 4))]
    case = {"kind": kind, "trees": trees, "inward": inward, "R": rng.choice([1, 1, 2, 3, 4, 5]),
            "kernel": rng.choice(["flat", "harmonic", "geometric"]),
            "orient": rng.choice(["before", "after", "symmetric", "directional"]),
            "fmt": rng.choice(["csr", "csr", "csc", "coo", "lil", "lil"]), "trees2": None, "prehistory": rng.random() < 0.5}
    kargs = {"offset": rng.choice([0, 0, 0, 0, 1, 2])}
    if kind == "forest" and rng.random() < 0.2:
        kargs["normalize"] = True                  # (per-window normalisation differs for the token vectorizer)
    if case["kernel"] == "geometric":
        kargs["power"] = rng.choice([None, [1, 2], [1, 4], [3, 4]])
    case["kargs"] = kargs
    present = sorted({l for t in trees for l in t["labels"]})
    r = rng.random()
    prune = {}
    if r < 0.35:
        pass
    elif r < 0.55:
        prune["ignored"] = rng.sample(present, min(len(present), rng.choice([1, 1, 2])))
    elif r < 0.7:
        prune["min_occ"] = rng.choice([2, 2, 3])
    elif r < 0.8:
        prune["max_occ"] = rng.choice([1, 2, 3, 4])
    elif r < 0.85:
        prune["min_tree_occ"] = 2
    else:
        sub = rng.sample(universe + [nlab], rng.randint(1, nlab + 1))   # may hold a label that never occurs
        if kind == "path":
            # NOT OWNED (reported): with a user token_dictionary whose highest-index token never occurs, the token
            # vectorizer's frequency vector is shorter than the dictionary and fixed_window_radii()[mask_index] reads
            # out of bounds (radius 0 for masked tokens).  The tree/token equality is therefore generated only with
            # dictionaries whose tokens all occur; the tree side itself keeps the general dictionaries (forest cases).
            sub = [l for l in sub if l in present] or present[:1]
        idx = list(range(len(sub)))
        rng.shuffle(idx)
        prune["dict"] = [[l, i] for l, i in zip(sub, idx)]
    case["prune"] = prune
    case["mask"] = rng.random() < 0.4
    case["nullify"] = False
    if not expected_dict(dict(case, mask=False)):
        # an empty vocabulary is not a valid configuration (0 x 0 matrices): fall back to no pruning
        case["prune"] = {}
    # nullify_mask needs mask_string; with a user token_dictionary the code takes the mask index from the length of
    # the observed frequency vector (C14's territory, reported separately), so it is generated with learned
    # vocabularies only
    if case["mask"] and case["prune"].get("dict") is None and rng.random() < 0.5:
        case["nullify"] = True
    if rng.random() < 0.5:
        u2 = universe + [nlab]                     # one label the fit never saw
        case["trees2"] = [mk(u2) for _ in range(rng.randint(1, 3))]
    return case


# ------------------------------------------------------------------ structured families (in every run)
# The random forests above rarely prune two nodes that end up in the same adjacency row.  These families do it
# systematically: complete binary / ternary trees, stars and caterpillars, numbered breadth-first, depth-first (pre- and
# post-order) or in reverse, with labels arranged so that whole levels, all children of some parents (sibling groups),
# alternating nodes, first / last children or all inner nodes are pruned -- by ignored_tokens, min_occurrences,
# max_occurrences, min_tree_occurrences, a given dictionary, or labels unknown at transform time; with and without mask.
SHAPES = ["bin2", "bin3", "tern2", "star", "caterpillar"]
NUMBERINGS = ["bfs", "dfs", "post", "rbfs"]
PATTERNS = ["level", "siblings", "alternate", "inner", "first-child", "last-child", "two-levels"]
MECHANISMS = ["ignored", "min_occ", "max_occ", "min_tree_occ", "dict", "unseen"]


def shape_parents(rng, shape):
    """parent pointers in breadth-first order (node 0 is the root; children of a node are consecutive)"""
    if shape in ("bin2", "bin3", "tern2"):
        k, depth = (2, 2) if shape == "bin2" else ((2, 3) if shape == "bin3" else (3, 2))
        n = sum(k ** i for i in range(depth + 1))
        return [None] + [(v - 1) // k for v in range(1, n)]
    if shape == "star":
        return [None] + [0] * rng.choice([3, 4, 6])
    # caterpillar: a spine, every spine node with 1-2 legs (listed in breadth-first order)
    spine = rng.choice([3, 4, 5])
    legs = [rng.choice([1, 2]) for _ in range(spine)]
    par, ids, nxt = [None], [0], 1          # ids[i] = node of spine position i
    for i in range(spine):
        kids = legs[i] + (1 if i + 1 < spine else 0)
        for j in range(kids):
            par.append(ids[i])
            if j == 0 and i + 1 < spine:
                ids.append(nxt)
            nxt += 1
    # the list above is not breadth-first when legs precede deeper spine nodes; renumber breadth-first
    return bfs_renumber(par)


def bfs_renumber(par):
    n = len(par)
    kids = [[] for _ in range(n)]
    for v in range(1, n):
        kids[par[v]].append(v)
    order, q = [], [0]
    while q:
        u = q.pop(0)
        order.append(u)
        q += kids[u]
    pos = {u: i for i, u in enumerate(order)}
    out = [None] * n
    for v in range(1, n):
        out[pos[v]] = pos[par[v]]
    return out


def numbering(par, how):
    n = len(par)
    kids = [[] for _ in range(n)]
    for v in range(1, n):
        kids[par[v]].append(v)
    if how == "bfs":
        return list(range(n))
    if how == "rbfs":
        return [n - 1 - v for v in range(n)]
    pre, post = [], []

    def go(u):
        pre.append(u)
        for c in kids[u]:
            go(c)
        post.append(u)
    go(0)
    order = pre if how == "dfs" else post
    perm = [0] * n
    for i, u in enumerate(order):
        perm[u] = i
    return perm


def pruned_set(rng, par, pattern):
    n = len(par)
    depth = [0] * n
    kids = [[] for _ in range(n)]
    for v in range(1, n):
        depth[v] = depth[par[v]] + 1
        kids[par[v]].append(v)
    D = max(depth)
    inner = [v for v in range(1, n) if kids[v]]
    if pattern == "level":
        d = rng.choice([1] * 3 + list(range(1, D + 1)) + [0])
        P = [v for v in range(n) if depth[v] == d]
    elif pattern == "two-levels":
        d = rng.choice(list(range(0, D)))
        P = [v for v in range(n) if depth[v] in (d, d + 1)]
    elif pattern == "siblings":
        parents = [v for v in range(n) if len(kids[v]) >= 2]
        chosen = rng.sample(parents, rng.randint(1, min(2, len(parents))))
        P = [c for u in chosen for c in kids[u]]
    elif pattern == "alternate":
        r = rng.choice([0, 1])
        P = [v for v in range(n) if v % 2 == r]
    elif pattern == "inner":
        P = inner or [1]
    elif pattern == "first-child":
        P = [kids[v][0] for v in range(n) if kids[v]]
    else:
        P = [kids[v][-1] for v in range(n) if kids[v]]
    P = sorted(set(P))
    if len(P) >= n:
        P = P[1:]
    return P, depth


def structured_tree(rng, shape, how, pattern, K, pruned_labels, distinct, inward):
    """one tree of the family; kept nodes get labels 0..K-1, pruned nodes the labels of `pruned_labels` (one distinct
    label per pruned node when `distinct`)"""
    par = shape_parents(rng, shape)
    n = len(par)
    perm = numbering(par, how)
    P, depth = pruned_set(rng, par, pattern)
    style = rng.choice(["depth", "index", "random", "same"])
    lab_c = []
    k = 0
    for v in range(n):
        if v in P:
            lab_c.append(pruned_labels[k % len(pruned_labels)] if distinct else rng.choice(pruned_labels[:2]))
            k += 1
        else:
            lab_c.append({"depth": depth[v] % K, "index": v % K, "random": rng.randrange(K), "same": 0}[style])
    succ = [[] for _ in range(n)]
    labels = [0] * n
    for v in range(n):
        labels[perm[v]] = lab_c[v]
        if par[v] is not None:
            a, b = perm[par[v]], perm[v]
            if inward:
                a, b = b, a
            succ[a].append(b)
    return {"succ": [sorted(r) for r in succ], "labels": labels}, len(P)


def gen_structured(rng, shape, how, pattern, mech=None, mask=None):
    mech = mech or rng.choice(MECHANISMS)
    K = rng.choice([1, 2, 2, 3])
    inward = rng.random() < 0.15
    npl = 16 if mech == "min_occ" else rng.choice([1, 1, 2])
    pruned_labels = list(range(K, K + npl))
    t, _ = structured_tree(rng, shape, how, pattern, K, pruned_labels, mech == "min_occ", inward)
    trees = [t]
    if rng.random() < 0.3 and mech != "min_occ":
        s2, h2 = rng.choice(SHAPES), rng.choice(NUMBERINGS)
        trees.append(structured_tree(rng, s2, h2, rng.choice(PATTERNS), K, pruned_labels, False, inward)[0])
    case = {"kind": "forest", "family": "%s/%s/%s/%s" % (shape, how, pattern, mech), "inward": inward,
            "R": rng.choice([1, 2, 2, 3, 4]), "kernel": rng.choice(["flat", "flat", "harmonic", "geometric"]),
            "orient": rng.choice(["before", "after", "after", "symmetric", "directional"]),
            "fmt": rng.choice(["csr", "csr", "csc", "coo", "lil", "lil"]), "trees2": None, "prehistory": rng.random() < 0.3}
    kargs = {"offset": rng.choice([0, 0, 0, 1])}
    if case["kernel"] == "geometric":
        kargs["power"] = rng.choice([None, [1, 2], [3, 4]])
    case["kargs"] = kargs
    kept_labels = list(range(K))
    pad = {"succ": [[] for _ in range(2 * K)], "labels": kept_labels * 2}       # isolated nodes: every kept label twice
    prune = {}
    if mech == "ignored":
        prune["ignored"] = sorted({l for t_ in trees for l in t_["labels"] if l >= K})
    elif mech == "min_occ":
        trees.append(pad)
        prune["min_occ"] = 2
    elif mech == "min_tree_occ":
        trees.append(pad)
        prune["min_tree_occ"] = len(trees)
    elif mech == "dict":
        idx = list(range(K))
        rng.shuffle(idx)
        prune["dict"] = [[l, i] for l, i in zip(kept_labels, idx)]
    elif mech == "unseen":
        # fitted on trees without the pruned labels; the family tree comes at transform time
        case["trees2"] = trees
        trees = [{"succ": t_["succ"], "labels": [l if l < K else rng.randrange(K) for l in t_["labels"]]} for t_ in trees[:1]] + [pad]
    case["trees"] = trees
    if mech == "max_occ":
        flat = [l for t_ in trees for l in t_["labels"]]
        cnt = {l: flat.count(l) for l in set(flat)}
        keep_max = max([cnt[l] for l in cnt if l < K] + [0])
        prune_min = min([cnt[l] for l in cnt if l >= K] + [10 ** 6])
        if 0 < keep_max < prune_min < 10 ** 6:
            prune["max_occ"] = keep_max
        else:
            prune["ignored"] = sorted(l for l in cnt if l >= K)
            case["family"] = case["family"].replace("max_occ", "ignored")
    case["prune"] = prune
    case["mask"] = (rng.random() < 0.3) if mask is None else mask
    case["nullify"] = bool(case["mask"] and prune.get("dict") is None and rng.random() < 0.4)
    d = expected_dict(dict(case, mask=False))
    want = set(kept_labels) & {l for t_ in trees for l in t_["labels"]}
    if set(d) != want or not d:
        # (cannot happen by construction; never emit a case whose pruning is not the intended one)
        case["prune"] = {"ignored": sorted({l for t_ in trees for l in t_["labels"] if l >= K})}
        if not expected_dict(dict(case, mask=False)):
            case["prune"] = {}
    if case["trees2"] is None and rng.random() < 0.4:
        # a later transform of another member of the family, one label never seen by fit
        s2, h2 = rng.choice(SHAPES), rng.choice(NUMBERINGS)
        case["trees2"] = [structured_tree(rng, s2, h2, rng.choice(PATTERNS), K, pruned_labels[:2] + [K + 20], False, inward)[0]]
    return case


def structured_cases(rng, n):
    """n cases: first the breadth-first complete trees with a whole level / sibling groups pruned by every mechanism
    (no mask), then a stratified sweep of shape x numbering x pattern with random mechanism / mask / kernel settings"""
    out = []
    for shape in ("bin2", "tern2", "bin3"):
        for pattern, mech in (("level", "ignored"), ("siblings", "min_occ"), ("level", "unseen"), ("siblings", "dict"),
                              ("two-levels", "min_tree_occ"), ("alternate", "max_occ")):
            out.append(gen_structured(rng, shape, "bfs", pattern, mech, mask=False))
    combos = [(s_, h, p) for s_ in SHAPES for h in NUMBERINGS for p in PATTERNS]
    rng.shuffle(combos)
    i = 0
    while len(out) < n:
        s_, h, p = combos[i % len(combos)]
        out.append(gen_structured(rng, s_, h, p))
        i += 1
    return out[:n]


def T(succ, labels):
    return {"succ": succ, "labels": labels}


def base(**kw):
    c = {"kind": "forest", "inward": False, "R": 2, "kernel": "flat", "kargs": {"offset": 0}, "orient": "after",
         "fmt": "csr", "trees2": None, "prune": {}, "mask": False, "nullify": False}
    c.update(kw)
    return c


CORPUS = [
    base(trees=[T([[]], [0])]),                                                     # one isolated node
    base(trees=[T([[1, 2], [3], [], []], [0, 0, 0, 0])], R=3, orient="directional"),  # single label (1-class binariser)
    base(trees=[T([[1, 2], [3], [], []], [0, 1, 1, 0])], R=3, orient="symmetric"),    # two labels (2-class binariser)
    base(trees=[T([[1], [2], [3], []], [0, 1, 2, 0]), T([[1], []], [1, 1])], R=2, kernel="harmonic",
         prune={"ignored": [1]}),                                                   # removal bridges 0 -> 2
    base(trees=[T([[1], [2], [3], []], [0, 1, 1, 0])], R=1, prune={"ignored": [1]}),  # two consecutive removals
    base(trees=[T([[1], [2], [3], []], [0, 1, 2, 0])], R=2, prune={"ignored": [1]}, mask=True, nullify=True,
         trees2=[T([[1], [2], []], [0, 3, 0])]),
    base(kind="path", trees=[T([[1], [2], [3], []], [0, 1, 0, 2]), T([[1], []], [2, 1])], R=3, kernel="geometric",
         kargs={"offset": 0, "power": [1, 2]}, orient="before"),
    base(trees=[T([[], [0], [0], [1]], [0, 1, 1, 0])], inward=True, R=3, prune={"ignored": [1]}),   # child -> parent edges
]


# ------------------------------------------------------------------ comparison
def close(got, exp, D, tol):
    """got: float matrix; exp: integer matrix scaled by D (or Fractions when D == 1)."""
    if got is None or len(got) != len(exp) or any(len(g) != len(e) for g, e in zip(got, exp)):
        return False
    for g, e in zip(got, exp):
        for x, y in zip(g, e):
            y = float(Fraction(y) / D)
            if abs(x - y) > tol * max(1.0, abs(y)):
                return False
    return True


def kind_of(case):
    p = case["prune"]
    pk = "dict" if p.get("dict") is not None else (next(iter(p)) if p else "none")
    fam = case.get("family")
    if fam:
        return "family:%s%s%s" % (fam, "-in" if case.get("inward") else "", ":mask" + ("+null" if case["nullify"] else "") if case["mask"] else "")
    return "%s:%s:%s:%s%s" % (case["kind"] + ("-in" if case.get("inward") else ""), case["kernel"], case["orient"], pk,
                              ":mask" + ("+null" if case["nullify"] else "") if case["mask"] else "")


def run(ctx, replay=None):
    C.run_gate(ctx)
    n = 350 if ctx.quick else 5000
    n_struct = 160 if ctx.quick else 1500
    cases = [replay["case"]] if replay else CORPUS + structured_cases(ctx.rng, n_struct) + [gen_case(ctx.rng) for _ in range(n)]
    ctx.coverage["rule"] = ("random forests (1-4 trees of 1-8 nodes: paths, stars, random parents, isolated nodes, random node "
                            "numbering, parent->child or child->parent edges; 1-5 labels, single/two-label trees) x radius 1-5 x "
                            "flat/harmonic/geometric (+offset, normalize, power) x 4 orientations x pruning (ignored / min / max / "
                            "tree occurrences / given dictionary) x mask / nullify x sparse format, fit_transform and transform "
                            "on a second forest with an unseen label; in every run also structured families: complete binary "
                            "(depth 2, 3) / ternary (depth 2) trees, stars, caterpillars x numbering breadth-first / pre-order / "
                            "post-order / reverse breadth-first x pruned set = a whole level / two levels / all children of 1-2 "
                            "parents / alternating nodes / all inner nodes / first / last children x pruning by ignored_tokens / "
                            "min_occurrences / max_occurrences / min_tree_occurrences / given dictionary / labels unknown at "
                            "transform x mask / no mask (removed nodes are contracted); non-trivial = at least one non-zero entry")
    ctx.coverage["structured_families"] = {}
    for c in cases:
        if c.get("family"):
            k = "/".join(c["family"].split("/")[1:3]) + ("/mask" if c["mask"] else "/contract")
            ctx.coverage["structured_families"][k] = ctx.coverage["structured_families"].get(k, 0) + 1
    ctx.assumptions += ["adjacency matrices are 0/1 scipy sparse matrices of forests (dense ndarrays are rejected by the code)",
                        "kernel weights are exact rationals scaled to integers for the Z model; float64 results compared at 1e-9 "
                        "(relative to max(1,|x|)); the float32 TokenCooccurrenceVectorizer at 2e-5",
                        "vocabulary learning itself is C05's; the expected vocabulary is recomputed independently and compared",
                        "nullify_mask is generated only with a learned vocabulary and a mask_string"]
    # ---- expected vocabulary, model expressions
    exprs, meta = [], []
    for i, c in enumerate(cases):
        d = expected_dict(c)
        for which in ("trees", "trees2"):
            if c.get(which) is not None:
                e, D = coq_case(c, c[which], d)
                exprs.append(e)
                meta.append((i, which, D))
    from concurrent.futures import ThreadPoolExecutor
    with ThreadPoolExecutor(max_workers=2) as ex:
        f_impl = ex.submit(C.run_impl, "c15", cases)
        f_model = ex.submit(C.coq_eval_sharded, "C15", HEADER, exprs, 200)
        (impl, info), model = f_impl.result(), f_model.result()
    if impl is None or len(impl) != len(cases):
        done = len(impl) if impl else 0
        ctx.report("implementation child died (rc=%s) on case %d: %s" % (info["rc"], done, info["tail"][-400:]),
                   {"stage": "impl-crash", "case": cases[done] if done < len(cases) else None}, found_input=True)
        impl = (impl or []) + [{"err": "crash"}] * (len(cases) - done)
    models = {}
    for (i, which, D), m in zip(meta, model):
        models[(i, which)] = (m, D)
    n_corr = n_or = n_tok = 0
    corr_bad = []
    for i, (c, r) in enumerate(zip(cases, impl)):
        d = expected_dict(c)
        nontrivial = False
        if "err" in r:
            m, _ = models[(i, "trees")]
            if not (m[0] and r["err"] == "KeyError"):
                ctx.report("valid input raised %s: %s" % (r["err"], r.get("msg", "")[:300]),
                           {"stage": "oracle", "case": c, "actual": r})
            ctx.count_case(c, False, kind_of(c))
            continue
        ok = r["ok"]
        exp_d = sorted([[l, i2] for l, i2 in d.items()])
        if ok["dict"] != exp_d or ok.get("dict_after", exp_d) != exp_d:
            corr_bad.append((c, "vocabulary: impl %s (after transform %s), expected %s"
                             % (ok["dict"], ok.get("dict_after"), exp_d)))
            ctx.count_case(c, False, kind_of(c))
            continue
        for which, key in (("trees", "fit"), ("trees2", "transform")):
            if c.get(which) is None:
                continue
            got = ok[key]
            spec = oracle(c, c[which], d)
            n_or += 1
            nontrivial = nontrivial or any(x != 0 for row in spec for x in row)
            if not close(got, spec, 1, TOL):
                ctx.report("%s output differs from the kernel-weighted walk count: got %s, expected %s"
                           % (key, str(got)[:300], str([[float(x) for x in row] for row in spec])[:300]),
                           {"stage": "oracle", "case": c, "call": key,
                            "expected": [[float(x) for x in row] for row in spec], "actual": got})
                continue
            (kerr, mm), D = models[(i, which)]
            n_corr += 1
            if kerr or not close(got, mm, D, TOL):
                corr_bad.append((c, "%s: impl %s, model (scaled by %d) keyerror=%s %s" % (key, str(got)[:200], D, kerr, str(mm)[:200])))
        if c["kind"] == "path":
            n_tok += 1
            docs = [t["labels"] for t in c["trees"]]
            tw = token_window_counts(c, docs, d)
            if "token_fit" not in ok:
                if not close(ok["fit"], tw, 1, TOL):
                    ctx.report("tree counts on path graphs differ from the windowed token counts: got %s, expected %s"
                               % (str(ok["fit"])[:300], str([[float(x) for x in row] for row in tw])[:300]),
                               {"stage": "oracle", "case": c, "call": "fit (path = token window spec)",
                                "expected": [[float(x) for x in row] for row in tw], "actual": ok["fit"]})
            elif ok["token_dict"] != exp_d:
                corr_bad.append((c, "token vocabulary: impl %s expected %s" % (ok["token_dict"], exp_d)))
            elif not close(ok["fit"], tw, 1, TOL):
                ctx.report("tree counts on path graphs differ from the windowed token counts: got %s, expected %s"
                           % (str(ok["fit"])[:300], str([[float(x) for x in row] for row in tw])[:300]),
                           {"stage": "oracle", "case": c, "call": "fit (path = token window spec)",
                            "expected": [[float(x) for x in row] for row in tw], "actual": ok["fit"]})
            elif not close(ok["token_fit"], ok["fit"], 1, TOL32):
                ctx.report("LabelledTreeCooccurrenceVectorizer on path graphs differs from TokenCooccurrenceVectorizer: "
                           "tree %s, token %s" % (str(ok["fit"])[:300], str(ok["token_fit"])[:300]),
                           {"stage": "oracle", "case": c, "call": "tree vs token", "tree": ok["fit"], "token": ok["token_fit"]})
        ctx.count_case(c, nontrivial, kind_of(c))
    ctx.coverage["correspondence"] = {"cases": n_corr, "disagreements": len(corr_bad),
                                      "model": "Model/K18_Tree.v vectorize via vm_compute"}
    ctx.coverage["oracle"] = {"cases": n_or, "path_vs_token": n_tok}
    ctx.coverage["traces_validated_against_impl"] = n_corr
    if corr_bad and not any(v["found_input"] for v in ctx.violations):
        c, what = corr_bad[0]
        ctx.report("model K18_Tree and implementation disagree (no property-level failure found): " + what,
                   {"stage": "correspondence", "correspondence": "Model/K18_Tree.v <-> tree_token_cooccurrence.py / "
                    "preprocessing.py / utils.sparse_collapse", "case": c, "detail": what}, found_input=False)
    C.gate_violation(ctx)
    return ctx.finish("proof")
