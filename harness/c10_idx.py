"""C10, index-level part: correspondence of the checked-access models Model/K04_EM_idx.v and Model/K02_Windows_idx.v
(theorems: Properties/C10_idx.v) with the code.  The real em_update_matrix, window_at_index, flat / harmonic /
geometric_kernel and fixed / variable_window_radii are called directly on generated inputs in the three execution
modes (compiled, NUMBA_BOUNDSCHECK=1, NUMBA_DISABLE_JIT=1); the same inputs are evaluated by the models inside Coq
(vm_compute, exact rationals).  Compared: the verdict (model `Ok`  <->  no exception in any mode, in particular no
IndexError in the checked modes) and the value (integers exactly, floats within 1e-12 of the model's rational).
A separate malformed stream (kernels shorter than their windows, mask index beyond the radius table, empty frequency
table) is run in the two checked modes only — compiled code would write outside the array — and asserts
model `OOB site`  <->  the implementation raises."""
from fractions import Fraction as F
from . import common as C

MODES = [("compiled", {}), ("boundscheck", {"NUMBA_BOUNDSCHECK": "1"}), ("interpreted", {"NUMBA_DISABLE_JIT": "1"})]
CHECKED = ("boundscheck", "interpreted")
TOL = 1e-12

HEADER = """From Coq Require Import List Arith Bool ZArith QArith Qcanon.
From VZ Require Import Model.K02_Windows Model.K03_Cooc Model.K03_Exec Model.K04_EM.
From VZ Require Model.K04_EM_idx Model.K02_Windows_idx Model.K03_Driver_idx.
Import ListNotations.
Open Scope nat_scope.
Definition em_seq (post : list Qc) (indices indptr : list nat) (prior : list Qc) (n : nat)
           (occs : list (nat * list (list nat) * list (list Qc))) : K04_EM_idx.res (list Qc) :=
  fold_left (fun r o => match r with
                        | K04_EM_idx.Ok p => @K04_EM_idx.em_update_idx QcK p indices indptr prior n
                                                                       (fst (fst o)) (snd (fst o)) (snd o)
                        | e => e
                        end) occs (K04_EM_idx.Ok post).
Definition show_wk (wk : list nat * list Qc) := (fst wk, map show (snd wk)).
Definition show_keyed (l : list (event QcK * nat)) :=
  map (fun ek : event QcK * nat => (e_blk (fst ek), e_row (fst ek), e_col (fst ek), show (e_val (fst ek) : Qc), snd ek)) l.
"""

# where the model says the access leaves its array -> the source line the interpreter's traceback must end in
SITE_SOURCE = {"E_kernel": "kernels[w][i]", "W_radii_mask": "radii[mask_index] = 0.0", "W_radii_min": "min(radii)",
               "D_win W_radii_col": "window_size_array[i, target_word]"}

# ------------------------------------------------------------------ generators

def dy(rng, nums, den):
    return rng.choice(nums) / float(den)


def gen_em(rng, malformed=False):
    """A CSR prior with sorted unique columns per row (empty rows, full rows, the D9 shape: the looked-up column is
    larger than every stored column of the target row and the next row starts with it), dyadic values, and 1-3
    occurrences whose windows have length 0 / 1 / more, mention present and absent columns, with zero kernel weights."""
    n = rng.randint(1, 4)
    nblocks = rng.choice([1, 1, 2, 3])
    width = n * nblocks
    nrows = rng.randint(1, 4)
    rows = []
    for _ in range(nrows):
        k = rng.choice([0, 0, 1, 1, 2, 3, width])
        rows.append(sorted(rng.sample(range(width), min(k, width))))
    d9 = nrows >= 2 and rng.random() < 0.5
    if d9:
        r = rng.randrange(nrows - 1)
        c = rng.randrange(width)
        rows[r] = [x for x in rows[r] if x < c]
        rows[r + 1] = [c] + [x for x in rows[r + 1] if x > c]
    indptr, indices = [0], []
    for cols in rows:
        indices += cols
        indptr.append(len(indices))
    prior = [dy(rng, [1, 2, 3, 4, 8], 8) for _ in indices]
    post = [dy(rng, [0, 0, 1, 2], 4) for _ in indices]
    occs = []
    for _ in range(rng.randint(1, 3)):
        tgt = rng.choice([rng.randrange(nrows), nrows - 1, 0])
        if d9 and rng.random() < 0.6:
            tgt = r
        windows, kernels = [], []
        for w in range(nblocks):
            L = rng.choice([0, 0, 1, 1, 2, 3, 4])
            win = [rng.randrange(n + 1) for _ in range(L)]          # n itself = the mask id
            if rows[tgt] and rng.random() < 0.6:
                win += [cc - w * n for cc in rows[tgt] if w * n <= cc < (w + 1) * n][:2]
            if d9 and tgt == r and w * n <= c < (w + 1) * n:
                win.append(c - w * n)
            rng.shuffle(win)
            windows.append(win)
            zero = rng.random() < 0.15
            kernels.append([0.0 if zero else dy(rng, [0, 1, 1, 2, 4], 4) for _ in win])
        occs.append({"target": tgt, "windows": windows, "kernels": kernels})
    case = {"kind": "em", "n": n, "indptr": indptr, "indices": indices, "prior": prior, "post": post, "occs": occs}
    if malformed:
        # one kernel array is one entry shorter than its window: kernels[w][i] leaves the array
        cand = [(oi, w) for oi, o in enumerate(occs) for w, win in enumerate(o["windows"]) if win]
        if not cand:
            occs[0]["windows"][0].append(0)
            occs[0]["kernels"][0].append(1.0)
            cand = [(0, 0)]
        oi, w = rng.choice(cand)
        occs[oi]["kernels"][w] = occs[oi]["kernels"][w][:-1]
        del occs[oi + 1:]
        case["malformed"] = "kernel-short"
    return case


def gen_seq(rng):
    L = rng.choice([1, 1, 2, 3, 5, 8])
    s = [rng.randrange(6) for _ in range(L)]
    p = rng.choice([0, L - 1, rng.randrange(L)])
    R = rng.choice([0, 1, 2, max(L - 1, 0), L, L + 1, p, p + 1, L - 1 - p, 2 ** 31 - 1, 2 ** 40])
    return s, R, p


def gen_kargs(rng, win_len, present):
    kernel = rng.choice(["flat", "harmonic", "geometric"])
    mask = rng.choice([None, None, 6] + list(present[:2]))
    args = {"kernel": kernel, "mask": mask, "normalize": rng.random() < 0.5,
            "offset": rng.choice([0, 0, 1, 2, win_len, win_len + 1, 5])}
    if kernel == "geometric":
        args["power"] = rng.choice([0.5, 0.25, 1.0, 2.0])
    return args


def gen_win(rng):
    s, R, p = gen_seq(rng)
    return {"kind": "win", "s": s, "R": R, "p": p, "reverse": rng.random() < 0.5}


def gen_wk(rng):
    s, R, p = gen_seq(rng)
    case = {"kind": "wk", "s": s, "R": R, "p": p, "reverse": rng.random() < 0.5}
    case.update(gen_kargs(rng, min(R, len(s)), s))
    return case


def gen_ker(rng):
    win = [rng.randrange(6) for _ in range(rng.choice([0, 1, 1, 2, 4]))]
    case = {"kind": "ker", "win": win}
    case.update(gen_kargs(rng, len(win), win))
    if rng.random() < 0.15:
        case["offset"] = -rng.choice([1, 2, len(win) + 1])     # python: result[0:negative] counts from the end
    return case


def gen_radii(rng, malformed=False):
    nf = rng.choice([1, 2, 3, 5])
    w = [rng.choice([1, 1, 2, 4, 8]) for _ in range(nf)]
    freq = [x / float(sum(w)) for x in w]
    fn = rng.choice(["fixed", "variable"])
    case = {"kind": "radii", "fn": fn, "R": rng.choice([0, 1, 3, 40]), "freq": freq,
            "mask": rng.choice([None, nf, nf, rng.randrange(nf + 1)]), "power": rng.choice([0.75, 0.5])}
    if fn == "variable" and case["mask"] is not None:
        # the model takes the per-token values as data and they are read off the output: with a mask index inside the
        # table the masked entry's own value (which enters min(radii) before it is zeroed) is not observable.  The
        # library only ever passes mask_index = len(token_frequency) (_set_mask_indices).
        case["mask"] = nf
    if malformed:
        if fn == "variable" and rng.random() < 0.3:
            case["freq"], case["mask"], case["malformed"] = [], None, "empty-frequency-table"
        else:
            case["mask"], case["malformed"] = nf + rng.choice([1, 3]), "mask-beyond-table"
    return case


def gen_drv(rng, jit=False, malformed=False):
    """numba_build_skip_grams called directly.  The compiled modes need one compilation per type of the
    (kernel_functions, kernel_args) tuples, so only the `jit` family (two harmonic/flat blocks with masking, or one
    geometric block without) runs compiled; the interpreted mode runs every shape."""
    n = rng.randint(2, 4)
    if jit:
        fam = rng.choice(["A", "A", "B"])
        nb, masking = (2, True) if fam == "A" else (1, False)
        kernel = rng.choice(["flat", "harmonic"]) if fam == "A" else "geometric"
    else:
        nb, masking = rng.choice([1, 2, 3]), rng.random() < 0.5
        kernel = rng.choice(["flat", "harmonic", "geometric"])
    blocks = []
    for _ in range(nb):
        if rng.random() < 0.6:
            R = rng.choice([0, 1, 2, 5, 100])
            radii = [R] * n + [0 if masking else R]                      # fixed_window_radii
        else:
            radii = [rng.choice([0, 1, 2, 3]) for _ in range(n)] + [0]    # variable_window_radii (min entry or mask)
        blocks.append({"radii": radii, "rev": rng.random() < 0.5, "mask": n if masking else None,
                       "normalize": rng.random() < 0.4, "offset": rng.choice([0, 0, 1, 3]),
                       "mix": rng.choice([1.0, 1.0, 0.5, 2.0])})
    docs = []
    for _ in range(rng.choice([1, 2, 3])):
        L = rng.choice([0, 1, 2, 5, 6])
        docs.append([n if (masking and rng.random() < 0.2) else rng.randrange(n) for _ in range(L)])
    if not any(docs):
        docs.append([0, n - 1])
    case = {"kind": "drv", "n": n, "blocks": blocks, "kernel": kernel, "nw": rng.random() < 0.5, "docs": docs,
            "array_lengths": [64] * nb, "jit": jit}
    if kernel == "geometric":
        case["power"] = rng.choice([0.5, 0.25])
    if malformed:
        d = rng.choice([x for x in docs if x])
        d[rng.randrange(len(d))] = n + rng.choice([1, 2])
        case["malformed"] = "token-beyond-radius-table"
    return case


CORPUS = [
    # D9: row 0 = {0}, the occurrence looks column 1 up: searchsorted = len(col_ind), and row 1 starts with column 1
    {"kind": "em", "n": 2, "indptr": [0, 1, 2], "indices": [0, 1], "prior": [0.5, 0.25], "post": [0.0, 0.0],
     "occs": [{"target": 0, "windows": [[1]], "kernels": [[1.0]]}]},
    {"kind": "em", "n": 3, "indptr": [0, 0, 0], "indices": [], "prior": [], "post": [],
     "occs": [{"target": 1, "windows": [[0, 2], []], "kernels": [[1.0, 0.5], []]}]},
    {"kind": "em", "n": 1, "indptr": [0, 1], "indices": [0], "prior": [0.5], "post": [0.25],
     "occs": [{"target": 0, "windows": [[]], "kernels": [[]]}, {"target": 0, "windows": [[0, 0, 1]], "kernels": [[1.0, 0.5, 1.0]]}]},
    {"kind": "win", "s": [3], "R": 0, "p": 0, "reverse": True},
    {"kind": "win", "s": [3], "R": 2 ** 40, "p": 0, "reverse": False},
    {"kind": "win", "s": [0, 1, 2, 3, 4], "R": 3, "p": 1, "reverse": True},      # max(ind - R, 0): no wrap-around
    {"kind": "wk", "s": [0, 1, 2, 3, 4], "R": 9, "p": 4, "reverse": True, "kernel": "harmonic", "mask": 2, "normalize": True, "offset": 1},
    {"kind": "wk", "s": [0, 1, 2, 3, 4], "R": 2, "p": 0, "reverse": False, "kernel": "geometric", "power": 0.5, "mask": None,
     "normalize": False, "offset": 2},
    {"kind": "ker", "win": [], "kernel": "flat", "mask": 0, "normalize": True, "offset": 3},
    {"kind": "radii", "fn": "fixed", "R": 3, "freq": [0.5, 0.25, 0.25], "mask": 3, "power": 0.75},
    {"kind": "radii", "fn": "variable", "R": 3, "freq": [0.5, 0.25, 0.25], "mask": 3, "power": 0.75},
]
CORPUS += [
    {"kind": "drv", "n": 3, "kernel": "harmonic", "nw": True, "docs": [[0, 1, 3, 2], [1], []], "array_lengths": [64, 64], "jit": True,
     "blocks": [{"radii": [2, 2, 2, 0], "rev": False, "mask": 3, "normalize": False, "offset": 0, "mix": 1.0},
                {"radii": [1, 1, 1, 0], "rev": True, "mask": 3, "normalize": True, "offset": 0, "mix": 0.5}]},
    {"kind": "drv", "n": 3, "kernel": "geometric", "power": 0.5, "nw": False, "docs": [[0, 1, 2, 2]], "array_lengths": [64], "jit": True,
     "blocks": [{"radii": [2, 2, 2, 2], "rev": False, "mask": None, "normalize": False, "offset": 0, "mix": 1.0}]},
]
CORPUS_MALFORMED = [
    {"kind": "radii", "fn": "fixed", "R": 3, "freq": [0.5, 0.25, 0.25], "mask": 4, "power": 0.75, "malformed": "mask-beyond-table"},
    {"kind": "radii", "fn": "variable", "R": 3, "freq": [], "mask": None, "power": 0.75, "malformed": "empty-frequency-table"},
    {"kind": "em", "n": 2, "indptr": [0, 1, 2], "indices": [0, 1], "prior": [0.5, 0.25], "post": [0.0, 0.0],
     "occs": [{"target": 0, "windows": [[1, 0]], "kernels": [[1.0]]}], "malformed": "kernel-short"},
]

# ------------------------------------------------------------------ Coq rendering

def qc(x):
    x = F(x)
    return "(qc %s %d)" % (C.z(x.numerator), x.denominator)


def nl(xs):
    return "[" + "; ".join(str(int(x)) for x in xs) + "]"


def zz(x):
    return "(%s)%%Z" % C.z(x)


def ql(xs):
    return "[" + "; ".join(qc(x) for x in xs) + "]"


def kf_expr(case):
    if case["kernel"] == "flat":
        return "kf_flat"
    if case["kernel"] == "harmonic":
        return "kf_harmonic"
    return "(kf_geometric %s)" % qc(case["power"])


def kargs_expr(case):
    return "%s %s %s %s" % (kf_expr(case), C.coq_opt(case["mask"], lambda m: str(int(m))), C.coq_bool(case["normalize"]),
                            zz(case["offset"]))


def coq_expr(case, vals=None):
    k = case["kind"]
    if k == "em":
        occs = "[" + "; ".join("(%d, [%s], [%s])" % (o["target"], "; ".join(nl(w) for w in o["windows"]),
                                                     "; ".join(ql(kk) for kk in o["kernels"])) for o in case["occs"]) + "]"
        return "@K04_EM_idx.show_res QcK _ show (em_seq %s %s %s %s %d %s)" % (
            ql(case["post"]), nl(case["indices"]), nl(case["indptr"]), ql(case["prior"]), case["n"], occs)
    if k == "drv":
        kf = kf_expr(case)
        blocks = "[" + "; ".join("mkblock %s %s %s %s %s %d %s" % (
            C.coq_bool(b["rev"]), nl(b["radii"]), kf, C.coq_opt(b["mask"], lambda m: str(int(m))), C.coq_bool(b["normalize"]),
            b["offset"], qc(b["mix"])) for b in case["blocks"]) + "]"
        return "K03_Driver_idx.show_dres show_keyed (K03_Driver_idx.build_skip_grams_idx (K03_Driver_idx.tables_of %s) %s %d %s %s)" % (
            blocks, C.coq_bool(case["nw"]), case["n"], nl(case["array_lengths"]), "[" + "; ".join(nl(d) for d in case["docs"]) + "]")
    W = "K02_Windows_idx."
    if k == "win":
        return W + "show_res id (%swindow_at_index_idx %s %s %s %s)" % (W, nl(case["s"]), zz(case["R"]), zz(case["p"]),
                                                                        C.coq_bool(case["reverse"]))
    if k == "wk":
        return W + "show_res show_wk (@%swindow_kernel_idx QcK %s %s %s %s %s)" % (
            W, kargs_expr(case), nl(case["s"]), zz(case["R"]), zz(case["p"]), C.coq_bool(case["reverse"]))
    if k == "ker":
        return W + "show_res (map show) (@%skernel_idx QcK %s %s (@%swhole nat %s))" % (W, kargs_expr(case), nl(case["win"]), W,
                                                                                nl(case["win"]))
    if k == "radii":
        mask = C.coq_opt(case["mask"], zz)
        if case["fn"] == "fixed":
            return W + "show_res id (%sfixed_window_radii_idx %d %d %s)" % (W, case["R"], len(case["freq"]), mask)
        return W + "show_res id (%svariable_window_radii_idx %s %s)" % (W, nl(vals if vals is not None else []), mask)
    raise ValueError(k)


def model_verdict(v):
    """parsed show_res -> ("ok", value) | ("oob", site)"""
    val, site = v
    if val is not None:
        return "ok", val[1]
    def flat(x):
        if isinstance(x, tuple):
            return " ".join(flat(y) for y in x if y != "ctor")
        return str(x).split(".")[-1]
    return "oob", flat(site[1])


def frac(p):
    return F(p[0], p[1])

# ------------------------------------------------------------------ comparison

def close(x, q):
    return abs(F(x) - q) <= F(TOL) * max(1, abs(q))


def diff_drv(case, impl, model):
    """The appended tuples in call order (interpreted mode: recorded coo_append calls, incl. the key) and the
    accumulators the driver returns (every mode: per block, summed by key, sorted by key)."""
    events = [(blk, row, col, frac(q), key) for blk, row, col, q, key in model]
    if "log" in impl:
        if len(impl["log"]) != len(events):
            return "coo_append calls: %d vs model %d" % (len(impl["log"]), len(events))
        for k, ((blk, row, col, q, key), (r, c, v, ky)) in enumerate(zip(events, impl["log"])):
            if (r, c, ky) != (row, col, key) or abs(v - float(q)) > 1e-6 * max(1.0, float(q)):
                return "coo_append call %d: (row, col, val, key) = %r vs model %r" % (k, (r, c, v, ky), (row, col, float(q), key))
    if len(impl["coo"]) != len(case["blocks"]):
        return "%d accumulators vs %d blocks" % (len(impl["coo"]), len(case["blocks"]))
    for b in range(len(case["blocks"])):
        agg = {}
        for blk, row, col, q, key in events:
            if blk == b:
                agg[key] = (row, col, agg.get(key, (0, 0, F(0)))[2] + q)
        want = [(agg[k][0], agg[k][1], agg[k][2], k) for k in sorted(agg)]
        got = impl["coo"][b]
        if len(got) != len(want):
            return "accumulator %d holds %d entries vs model %d: %r" % (b, len(got), len(want), got[:6])
        for (row, col, q, key), (r, c, v, ky) in zip(want, got):
            if (r, c, ky) != (row, col, key) or abs(v - float(q)) > 1e-5 * max(1.0, float(q)):
                return "accumulator %d: entry %r vs model %r" % (b, (r, c, v, ky), (row, col, float(q), key))
    return None


def diff_value(case, impl, model):
    """None when the implementation's value equals the model's."""
    k = case["kind"]
    if k == "drv":
        return diff_drv(case, impl, model)
    if k in ("win", "radii"):
        return None if list(impl) == list(model) else "%r vs model %r" % (impl, model)
    if k == "wk":
        if list(impl["window"]) != list(model[0]):
            return "window %r vs model %r" % (impl["window"], model[0])
        impl, model = impl["kernel"], model[1]
    if len(impl) != len(model):
        return "length %d vs model %d" % (len(impl), len(model))
    for j, (x, q) in enumerate(zip(impl, model)):
        if not close(x, frac(q)):
            return "entry %d: %r vs model %s" % (j, x, frac(q))
    return None


def same_across_modes(a, b):
    if isinstance(a, dict) and "coo" in a:
        return len(a["coo"]) == len(b["coo"]) and all(
            len(x) == len(y) and all(p[:2] == q[:2] and p[3] == q[3] and abs(p[2] - q[2]) <= 1e-5 * max(1.0, abs(p[2]))
                                     for p, q in zip(x, y)) for x, y in zip(a["coo"], b["coo"]))
    if isinstance(a, dict):
        return a["window"] == b["window"] and same_across_modes(a["kernel"], b["kernel"])
    if len(a) != len(b):
        return False
    return all(x == y or abs(x - y) <= TOL * max(1.0, abs(x), abs(y)) for x, y in zip(a, b))


def nontrivial(case):
    k = case["kind"]
    if k == "em":
        return any(any(kk > 0 for ker in o["kernels"] for kk in ker) for o in case["occs"]) and bool(case["indices"])
    if k in ("win", "wk"):
        return case["R"] > 0 and len(case["s"]) > 1
    if k == "ker":
        return bool(case["win"])
    if k == "drv":
        return any(len(d) >= 2 for d in case["docs"])
    return True


def label(case):
    k = case["kind"]
    if case.get("malformed"):
        return "idx:malformed:" + case["malformed"]
    if k == "drv":
        return "idx:drv:%s%s%s" % (case["kernel"], ":mask" if case["blocks"][0]["mask"] is not None else "",
                                   ":all-modes" if case.get("jit") else ":interpreted-only")
    if k == "em":
        empty = any(case["indptr"][o["target"]] == case["indptr"][o["target"] + 1] for o in case["occs"])
        return "idx:em" + (":empty-row" if empty else "")
    if k in ("win", "wk"):
        L = len(case["s"])
        rr = "R=0" if case["R"] == 0 else ("R>len" if case["R"] > L else "R<=len")
        return "idx:%s:%s:%s" % (k, "before" if case["reverse"] else "after", rr)
    if k == "ker":
        return "idx:ker:len=%d%s" % (len(case["win"]), ":offset>=len" if case["offset"] >= len(case["win"]) else
                                     (":offset<0" if case["offset"] < 0 else ""))
    return "idx:radii:%s:%s" % (case["fn"], "mask" if case["mask"] is not None else "nomask")

# ------------------------------------------------------------------ stages

def make_cases(ctx, replay=None):
    if replay is not None:
        c = replay["case"]
        return ([c], []) if not c.get("malformed") else ([], [c])
    rng = ctx.rng
    m = 1 if ctx.quick else 5
    valid = list(CORPUS)
    valid += [gen_em(rng) for _ in range(60 * m)]
    valid += [gen_win(rng) for _ in range(50 * m)]
    valid += [gen_wk(rng) for _ in range(80 * m)]
    valid += [gen_ker(rng) for _ in range(40 * m)]
    valid += [gen_radii(rng) for _ in range(30 * m)]
    valid += [gen_drv(rng, jit=True) for _ in range(25 * m)]
    valid += [gen_drv(rng) for _ in range(35 * m)]
    bad = list(CORPUS_MALFORMED)
    bad += [gen_em(rng, malformed=True) for _ in range(10 * m)]
    bad += [gen_radii(rng, malformed=True) for _ in range(10 * m)]
    bad += [gen_drv(rng, jit=True, malformed=True) for _ in range(6 * m)]
    return valid, bad


def start(ctx, ex, replay=None):
    """Submit the implementation runs (one child per mode) and the model evaluation to the executor `ex`."""
    valid, bad = make_cases(ctx, replay)
    st = {"valid": valid, "bad": bad, "impl": {}}
    for m, env in MODES:
        payload = valid + (bad if m in CHECKED else [])
        st["impl"][m] = ex.submit(C.run_impl, "c10_idx", payload, env, 900)
    early = [c for c in valid + bad if not (c["kind"] == "radii" and c["fn"] == "variable" and not c.get("malformed") == "empty-frequency-table")]
    st["early"] = early
    st["model"] = ex.submit(C.coq_eval_sharded, "c10idx", HEADER, [coq_expr(c) for c in early], 150, 4, 600)
    return st


def finish(ctx, st):
    valid, bad = st["valid"], st["bad"]
    res = {}
    for m, _ in MODES:
        out, info = st["impl"][m].result()
        out = out or []
        n_expected = len(valid) + (len(bad) if m in CHECKED else 0)
        if len(out) != n_expected:
            inflight = (valid + bad)[len(out)] if len(out) < len(valid + bad) else None
            ctx.report("index-level %s child died (rc=%s) on case %s: %s" % (m, info["rc"], inflight, info["tail"][-400:]),
                       {"stage": "idx-impl-crash", "mode": m, "case": inflight}, found_input=True)
        res[m] = [None if (r and isinstance(r.get("ok"), dict) and r["ok"].get("skip")) else r
                  for r in out + [None] * (n_expected - len(out))]
    model = {}
    for c, v in zip(st["early"], st["model"].result()):
        model[id(c)] = model_verdict(v)
    # variable_window_radii: the per-token values are data of the model (taken from the compiled run); the model then
    # fixes the shape of the table: one more entry (= their minimum), the mask entry zero
    late = [(i, c) for i, c in enumerate(valid + bad) if id(c) not in model]
    if late:
        exprs = []
        for i, c in late:
            r = next((res[m][i] for m, _ in MODES if i < len(res[m]) and res[m][i] and "ok" in res[m][i]), None)
            exprs.append(coq_expr(c, r["ok"][:len(c["freq"])] if r else [1] * len(c["freq"])))
        for (i, c), v in zip(late, C.coq_eval_sharded("c10idx2", HEADER, exprs, 150, 4, 600)):
            model[id(c)] = model_verdict(v)
    n_cmp = n_verdict = n_site = 0
    for i, c in enumerate(valid):
        ctx.count_case(c, nontrivial=nontrivial(c), kind=label(c))
        if "kernel" in c and "normalize" in c:
            ctx.dist("idx:kernel:%s%s%s" % (c["kernel"], ":mask" if c.get("mask") is not None else "",
                                            ":normalize" if c["normalize"] else ""))
        verdict, mval = model[id(c)]
        if verdict != "ok":
            ctx.report("model %s returns OOB %s on a valid input (contradicts Properties/C10_idx.v)" % (c["kind"], mval),
                       {"stage": "idx-correspondence", "case": c, "model": [verdict, str(mval)]}, found_input=False)
            continue
        for m, _ in MODES:
            r = res[m][i]
            if r is None:
                continue
            n_verdict += 1
            if "err" in r:
                ctx.report("%s raised %s in %s mode on a valid input (model: Ok): %s" % (c["kind"], r["err"], m, r.get("msg", "")),
                           {"stage": "idx", "mode": m, "case": c, "result": r}, found_input=True)
                continue
            d = diff_value(c, r["ok"], mval)
            n_cmp += 1
            if d:
                ctx.report("%s in %s mode differs from the index-level model: %s" % (c["kind"], m, d),
                           {"stage": "idx-correspondence", "mode": m, "case": c, "impl": r["ok"], "model": str(mval)[:600]},
                           found_input=False)
        base = res["compiled"][i]
        if base is not None and "ok" in base:
            for m in CHECKED:
                r = res[m][i]
                if r is not None and "ok" in r and not same_across_modes(base["ok"], r["ok"]):
                    ctx.report("%s: compiled and %s results differ: %r vs %r" % (c["kind"], m, base["ok"], r["ok"]),
                               {"stage": "idx", "mode": m, "case": c, "compiled": base["ok"], m: r["ok"]}, found_input=True)
    for j, c in enumerate(bad):
        i = len(valid) + j
        ctx.count_case(c, nontrivial=True, kind=label(c))
        verdict, mval = model[id(c)]
        for m in CHECKED:
            r = res[m][i]
            if r is None:
                continue
            n_verdict += 1
            raised = "err" in r
            if (verdict == "oob") != raised or (raised and c["malformed"] != "empty-frequency-table" and r["err"] != "IndexError"):
                ctx.report("malformed %s (%s): model verdict %s %s but %s mode %s" % (
                    c["kind"], c["malformed"], verdict, mval if verdict == "oob" else "",
                    m, ("raised " + r["err"]) if raised else "returned a value"),
                    {"stage": "idx-correspondence", "mode": m, "case": c, "model": [verdict, str(mval)[:200]], "result": r},
                    found_input=False)
            elif m == "interpreted" and raised and SITE_SOURCE.get(mval, "\0") not in r.get("tb", ""):
                ctx.report("malformed %s (%s): the model leaves its array at %s (source `%s`) but the interpreter's traceback ends "
                           "elsewhere: %s" % (c["kind"], c["malformed"], mval, SITE_SOURCE.get(mval), r.get("tb", "")[-300:]),
                           {"stage": "idx-correspondence", "mode": m, "case": c, "model": [verdict, str(mval)[:200]], "result": r},
                           found_input=False)
            elif raised:
                n_site += m == "interpreted"
    ctx.coverage["correspondence"]["index_level"] = {
        "valid_cases": len(valid), "malformed_cases_checked_modes_only": len(bad),
        "verdict_comparisons": n_verdict, "value_comparisons": n_cmp,
        "error_site_vs_traceback_line_comparisons": n_site, "float_tolerance": TOL,
        "models": ["K04_EM_idx.em_update_idx", "K02_Windows_idx.window_at_index_idx", "window_kernel_idx", "kernel_idx",
                   "fixed_window_radii_idx", "variable_window_radii_idx", "K03_Driver_idx.build_skip_grams_idx"]}
