#!/bin/bash
# Run once after a fresh restore (offline): full .vo build of the Coq development from clean,
# then an independent coqchk pass over the property library (axiom list stored in evidence/coqchk.txt).
set -e
cd "$(dirname "$0")"
export PIP_NO_INDEX=1
rm -rf .work
mkdir -p .work evidence replays
cd coq
find theories \( -name '*.vo' -o -name '*.vok' -o -name '*.vos' -o -name '*.glob' -o -name '.*.aux' \) -delete
( echo "-Q theories VZ"
  echo "-arg -w -arg -notation-overridden,-deprecated-hint-without-locality,-deprecated-instance-without-locality,-ambiguous-paths,-redundant-canonical-projection"
  find theories -name '*.v' | sort ) > _CoqProject
coq_makefile -f _CoqProject -o Makefile > /dev/null
timeout 3000 make -j16 > ../.work/setup_make.log 2>&1 || { tail -40 ../.work/setup_make.log; exit 1; }
cd ..
if [ -x tools/build_ocaml.sh ]; then tools/build_ocaml.sh; fi
if [ "${VERIF_SKIP_COQCHK:-0}" != "1" ]; then
  mods=$(cd coq/theories/Properties && ls *.v | sed 's/\.v$//; s/^/VZ.Properties./' | tr '\n' ' ')
  ( cd coq && timeout 3000 coqchk -silent -o -Q theories VZ $mods > ../evidence/coqchk.txt 2>&1 ) || { tail -20 evidence/coqchk.txt; exit 1; }
fi
echo "setup ok"
