#!/bin/bash
# tools/new_builder.sh <name>: scratch copies for one builder: /tmp/w/<name>/verif (git worktree, branch b-<name>)
# and /tmp/w/<name>/repo (clone of /repo).  Remove with tools/rm_builder.sh <name>.
set -e
n=$1
mkdir -p /tmp/w/$n
git -C /verif worktree add -q -b b-$n /tmp/w/$n/verif HEAD
git clone -q /repo /tmp/w/$n/repo
git -C /tmp/w/$n/repo config user.name builder; git -C /tmp/w/$n/repo config user.email builder@example.invalid
( cd /tmp/w/$n/verif && VERIF_SKIP_COQCHK=1 ./setup.sh )
echo "ready: /tmp/w/$n"
