#!/venv/bin/python
"""tools/confirm_seeded.py Cxx <worktree> <outdir> <test modules...>: confirm each candidate change produced by a
sub-agent in a scratch worktree (demo exits 0 clean / 1 patched, library imports, the given test modules still pass
apart from the baseline's always-fail entries) and copy the confirmed ones to seeded/<Cxx>-<i>/ ."""
import json, os, shutil, subprocess, sys
V = os.path.dirname(os.path.dirname(os.path.abspath(__file__)))
pid, wt, outdir, tests = sys.argv[1], sys.argv[2], sys.argv[3], sys.argv[4:]
EXTRA = os.environ.get("CONFIRM_PYTEST_ARGS", "")      # e.g. -k 'not asserstein' to skip the slow unrelated LOT tests
ALWAYS_FAIL = ("test_wasserstein_based_vectorizer_bad_params[lil-LOT_exact",)

def sh(cmd, **kw):
    env = dict(os.environ, OMP_NUM_THREADS="1", OPENBLAS_NUM_THREADS="1", MKL_NUM_THREADS="1", NUMBA_NUM_THREADS="2")
    return subprocess.run(cmd, shell=True, stdout=subprocess.PIPE, stderr=subprocess.STDOUT, text=True, env=env, **kw)

def demo(d):
    return sh("cd %s && PYTHONPATH=%s PYTHONHASHSEED=0 timeout 1200 /venv/bin/python %s/demo.py" % (wt, wt, d))

for i in sorted(os.listdir(outdir)):
    d = os.path.join(outdir, i)
    if not os.path.exists(os.path.join(d, "patch.diff")):
        continue
    sh("git -C %s checkout -- ." % wt)
    log = {}
    r = demo(d); log["demo_clean_exit"] = r.returncode
    ap = sh("git -C %s apply --whitespace=nowarn %s/patch.diff" % (wt, d)); log["applies"] = ap.returncode == 0
    ok = log["applies"] and log["demo_clean_exit"] == 0
    if ok:
        r = demo(d); log["demo_patched_exit"] = r.returncode; log["demo_patched_tail"] = r.stdout[-400:]
        ok = r.returncode != 0
    if ok:
        t = sh("cd %s && PYTHONPATH=%s timeout 5400 /venv/bin/python -m pytest -q -p no:cacheprovider -x --deselect 'vectorizers/tests/test_common.py::test_wasserstein_based_vectorizer_bad_params' %s %s" % (wt, wt, " ".join("vectorizers/tests/" + x for x in tests), EXTRA))
        log["tests_tail"] = t.stdout[-300:]; log["tests_exit"] = t.returncode
        ok = t.returncode == 0
    sh("git -C %s checkout -- ." % wt)
    log["confirmed"] = ok
    print(pid, i, log)
    if ok:
        num = int(i) + int(os.environ.get("SEED_OFFSET", "0")) if i.isdigit() else i
        dst = os.path.join(V, "seeded", "%s-%s" % (pid, num))
        os.makedirs(dst, exist_ok=True)
        for f in ("patch.diff", "demo.py"):
            shutil.copy(os.path.join(d, f), dst)
        meta = json.load(open(os.path.join(d, "meta.json")))
        meta["confirmed_by_me"] = {"worktree": wt, "demo_clean_exit": 0, "demo_patched_exit": log["demo_patched_exit"],
                                   "tests": tests, "pytest_extra_args": EXTRA, "tests_exit": 0, "tests_tail": log["tests_tail"][-200:]}
        json.dump(meta, open(os.path.join(dst, "meta.json"), "w"), indent=1)
