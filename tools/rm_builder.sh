#!/bin/bash
n=$1
git -C /verif worktree remove --force /tmp/w/$n/verif || true
rm -rf /tmp/w/$n
