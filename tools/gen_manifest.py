#!/usr/bin/env python3
"""Regenerates MANIFEST.json from the table below (kept in one place so that it is always valid)."""
import json, os
HERE = os.path.dirname(os.path.dirname(os.path.abspath(__file__)))
ALL = ["C%02d" % i for i in range(1, 21)]
CHECKS = {}
for f in sorted(os.listdir(os.path.join(HERE, "manifest.d"))):
    if f.endswith(".json"):
        CHECKS[f[:-5]] = json.load(open(os.path.join(HERE, "manifest.d", f)))
REASONS = {}
if os.path.exists(os.path.join(HERE, "manifest.d", "not_applicable.txt")):
    for line in open(os.path.join(HERE, "manifest.d", "not_applicable.txt")):
        if line.strip():
            k, v = line.split(None, 1)
            REASONS[k] = v.strip()

def main():
    checks, na = [], []
    for pid in ALL:
        c = CHECKS.get(pid)
        if not c:
            na.append({"property_id": pid, "reason": REASONS.get(pid, "check not built yet in this round (planned: see DESIGN.md §5 %s); no claim is made" % pid)})
            continue
        checks.append({
            "property_id": pid,
            "quick_cmd": "./check %s --tier quick" % pid,
            "thorough_cmd": "./check %s --tier thorough" % pid,
            "evidence_file": "/verif/evidence/%s.json" % pid,
            "replay_cmd_template": "./check %s --replay {path}" % pid,
            "engine": "coq-model-correspondence",
            "level_claimed": {"category": c.get("category", "proof"), "text": c["text"], "design_ref": c["ref"]},
            "level_note": c["note"],
            "technique": c["technique"],
        })
    m = {"version": 1,
         "setup_cmd": "./setup.sh",
         "hooks": {"guard": "VECTORIZERS_VERIF", "enable": "no source hooks exist; checks set VECTORIZERS_VERIF=1 and drive /repo through its public API and module globals (PYTHONPATH=/repo)",
                   "baseline_off_cmd": "cd /repo && /venv/bin/python -m pytest -ra -q -p no:cacheprovider --timeout=900 --continue-on-collection-errors",
                   "source_commits": [], "add_only": True},
         "engines": [{"name": "coq-model-correspondence", "path": "/verif/check",
                      "serves_properties": [c["property_id"] for c in checks],
                      "kind_free_text": "Coq 8.16 theorems about hand-written Gallina models (coq/theories), proof gate with Print Assumptions + hygiene, "
                                        "per-run differential correspondence of the model (vm_compute inside Coq) with /repo, property oracle as failing-input search"}],
         "checks": checks,
         "notes": "See DESIGN.md. Repairs of genuine defects are 'fix:' commits in /repo listed in known_findings.json.",
         "not_applicable": na}
    json.dump(m, open(os.path.join(HERE, "MANIFEST.json"), "w"), indent=1)
main()
