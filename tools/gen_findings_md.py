#!/usr/bin/env python3
"""Rewrites the block between <!-- FINDINGS:BEGIN --> and <!-- FINDINGS:END --> of DESIGN.md from known_findings*.json."""
import json, os, re, sys
V = os.path.dirname(os.path.dirname(os.path.abspath(__file__)))
sys.path.insert(0, V)
paths = [os.path.join(V, "known_findings.json")] + sorted(os.path.join(V, "known_findings.d", f) for f in os.listdir(os.path.join(V, "known_findings.d")) if f.endswith(".json"))
known, fixed = [], []
for p in paths:
    j = json.load(open(p))
    known += j.get("known", []); fixed += j.get("fixed", [])
lines = ["### 8.1 Dispositions as implemented (generated from `known_findings.json` and `known_findings.d/*.json`)", "",
         "Repaired by `fix:` commits in /repo (%d):" % len(fixed), ""]
for e in fixed:
    m = re.match(r"fixed: property=(\S+) (\S+) (.*)", e)
    lines.append("* `%s` **%s** — %s" % (m.group(2), m.group(1), m.group(3)) if m else "* " + e)
lines += ["", "Recorded as known findings (%d; the check prints `KNOWN-FINDING:` and exits 0; any other failure of the same property is still a violation):" % len(known), ""]
for k in known:
    lines.append("* **%s** `%s` — %s" % (k["property"], k["key"], k["what"]))
block = "<!-- FINDINGS:BEGIN -->\n" + "\n".join(lines) + "\n<!-- FINDINGS:END -->"
p = os.path.join(V, "DESIGN.md")
s = open(p).read()
if "<!-- FINDINGS:BEGIN -->" in s:
    s = re.sub(r"<!-- FINDINGS:BEGIN -->.*<!-- FINDINGS:END -->", lambda m: block, s, flags=re.S)
else:
    s = s.replace("\n## 9. Costs, bounds, build order", "\n" + block + "\n\n\n## 9. Costs, bounds, build order")
open(p, "w").write(s)
print(len(fixed), "fixed,", len(known), "known")
