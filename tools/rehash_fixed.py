#!/usr/bin/env python3
"""tools/rehash_fixed.py <builder repo> <known_findings.d/file.json>: after cherry-picking a builder's fix commits into
/repo, replace the builder-clone hashes in the 'fixed' entries by the hashes of the commits with the same subject in /repo."""
import json, re, subprocess, sys
src, f = sys.argv[1], sys.argv[2]
def git(repo, *a):
    return subprocess.run(["git", "-C", repo] + list(a), stdout=subprocess.PIPE, text=True).stdout
subj = {}
for line in git("/repo", "log", "--format=%h\t%s").split("\n"):
    if "\t" in line:
        h, s = line.split("\t", 1); subj.setdefault(s, h)
j = json.load(open(f))
out = []
for e in j.get("fixed", []):
    m = re.match(r"(fixed: property=\S+ )([0-9a-f]{7,40})( .*)", e)
    if m:
        s = git(src, "log", "-1", "--format=%s", m.group(2)).strip()
        if s in subj:
            e = m.group(1) + subj[s] + m.group(3)
        else:
            print("no commit in /repo with subject:", s, file=sys.stderr)
    out.append(e)
j["fixed"] = out
json.dump(j, open(f, "w"), indent=1)
