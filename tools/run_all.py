#!/usr/bin/env python3
"""tools/run_all.py [quick|thorough] [ids...]: runs every registered check (sequentially, as `vp check` does), validates
each evidence file against the schema (python3-vt has jsonschema) and prints a summary table."""
import json, os, subprocess, sys, time
V = os.path.dirname(os.path.dirname(os.path.abspath(__file__)))
tier = sys.argv[1] if len(sys.argv) > 1 and sys.argv[1] in ("quick", "thorough") else "quick"
ids = [a for a in sys.argv[1:] if a.startswith("C")]
m = json.load(open(os.path.join(V, "MANIFEST.json")))
rows = []
for c in m["checks"]:
    pid = c["property_id"]
    if ids and pid not in ids:
        continue
    cmd = c["quick_cmd"] if tier == "quick" else c.get("thorough_cmd", c["quick_cmd"])
    ev = os.path.join(V, "evidence", os.path.basename(c["evidence_file"]))   # this copy's evidence dir (vp run snapshots)
    if os.path.exists(ev):
        os.remove(ev)
    t0 = time.time()
    env = dict(os.environ, VERIF_SEED=os.environ.get("VERIF_SEED", "1"), VERIF_TIER=tier)
    p = subprocess.run(cmd, shell=True, cwd=V, env=env, stdout=subprocess.PIPE, stderr=subprocess.STDOUT, text=True)
    wall = time.time() - t0
    open(os.path.join(V, ".work", "runall_%s.log" % pid), "w").write(p.stdout)
    v = subprocess.run(["python3-vt", "-c", "import json,jsonschema,sys; jsonschema.validate(json.load(open(sys.argv[1])), json.load(open('/root/.vp/EVIDENCE.schema.json')))", ev],
                       stdout=subprocess.PIPE, stderr=subprocess.STDOUT, text=True)
    viol = [l for l in p.stdout.split("\n") if l.startswith("VIOLATION")]
    known = [l for l in p.stdout.split("\n") if l.startswith("KNOWN-FINDING")]
    rows.append((pid, p.returncode, len(viol), len(known), "ok" if v.returncode == 0 else "INVALID", round(wall)))
    print("%s exit=%d violations=%d known=%d evidence=%s %ds" % rows[-1], flush=True)
    for l in viol[:3]:
        print("   ", l[:200])
print("\nall green" if all(r[1] == 0 and r[4] == "ok" for r in rows) else "\nNOT all green")
