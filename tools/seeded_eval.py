#!/venv/bin/python
"""tools/seeded_eval.py [ids...]: apply each seeded change (seeded/<id>/patch.diff) to /repo, run the quick check of the
property it breaks (meta.json: property, optionally also_checks), record whether a VIOLATION was reported, and undo the
change straight afterwards.  Evidence files are saved and restored so that committed evidence always comes from the
unchanged tree.  Results: seeded/RESULTS.json and seeded/RESULTS.md."""
import json, os, shutil, subprocess, sys, time
V = os.path.dirname(os.path.dirname(os.path.abspath(__file__)))
REPO = "/repo"

def sh(cmd, **kw):
    return subprocess.run(cmd, shell=True, stdout=subprocess.PIPE, stderr=subprocess.STDOUT, text=True, **kw)

def main():
    use_wt = "--worktree" in sys.argv
    if use_wt:
        sys.argv.remove("--worktree")
    ids = sys.argv[1:] or sorted(d for d in os.listdir(os.path.join(V, "seeded")) if os.path.isdir(os.path.join(V, "seeded", d)))
    assert sh("git -C %s status --porcelain --untracked-files=no" % REPO).stdout.strip() == "", "/repo has local changes"
    resp = os.path.join(V, "seeded", "RESULTS.json")
    results = json.load(open(resp)) if os.path.exists(resp) else {}
    for sid in ids:
        d = os.path.join(V, "seeded", sid)
        meta = json.load(open(os.path.join(d, "meta.json")))
        props = [meta["property"]] + meta.get("also_checks", [])
        repo = REPO
        if use_wt:
            repo = "/tmp/se/%s" % sid
            sh("rm -rf %s; git -C %s worktree prune; mkdir -p /tmp/se; git -C %s worktree add -q --detach %s HEAD" % (repo, REPO, REPO, repo))
        ap = sh("git -C %s apply --whitespace=nowarn %s" % (repo, os.path.join(d, "patch.diff")))
        if ap.returncode != 0:
            results[sid] = {"property": meta["property"], "applied": False, "note": ap.stdout[-300:]}
            if use_wt:
                sh("git -C %s worktree remove --force %s" % (REPO, repo))
            json.dump(results, open(resp, "w"), indent=1)
            print(sid, "PATCH DOES NOT APPLY", flush=True)
            continue
        try:
            out = {}
            for p in props:
                ev = os.path.join(V, "evidence", p + ".json")
                bak = ev + ".bak_" + sid
                if os.path.exists(ev):
                    shutil.copy(ev, bak)
                t0 = time.time()
                r = sh("cd %s && VERIF_REPO=%s timeout 2400 ./check %s --tier quick" % (V, repo, p))
                lines = [l for l in r.stdout.split("\n") if l.startswith("VIOLATION")]
                out[p] = {"exit": r.returncode, "violations": len(lines), "first": (lines[0] if lines else ""),
                          "found_input": any("no-failing-input-found" not in l for l in lines), "wall_s": round(time.time() - t0)}
                if os.path.exists(bak):
                    shutil.move(bak, ev)
            results = json.load(open(resp)) if os.path.exists(resp) else results
            results[sid] = {"property": meta["property"], "applied": True, "checks": out,
                            "caught": any(v["exit"] == 1 and v["violations"] > 0 for v in out.values()),
                            "summary": meta.get("summary", "")[:200]}
        finally:
            if use_wt:
                sh("git -C %s worktree remove --force %s" % (REPO, repo))
            else:
                sh("git -C %s checkout -- ." % REPO)
        json.dump(results, open(resp, "w"), indent=1)
        print(sid, results[sid].get("caught"), results[sid].get("checks"), flush=True)
    results = json.load(open(resp)) if os.path.exists(resp) else results
    with open(os.path.join(V, "seeded", "RESULTS.md"), "w") as f:
        f.write("| seeded change | property | caught | by | with failing input | summary |\n|---|---|---|---|---|---|\n")
        for sid in sorted(results):
            r = results[sid]
            by = ", ".join(p for p, v in r.get("checks", {}).items() if v["violations"]) or "-"
            fi = any(v["found_input"] for v in r.get("checks", {}).values())
            f.write("| %s | %s | %s | %s | %s | %s |\n" % (sid, r["property"], "yes" if r.get("caught") else "NO", by, "yes" if fi else "-", r.get("summary", "").replace("|", "/")))
main()
