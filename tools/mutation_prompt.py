#!/usr/bin/env python3
"""tools/mutation_prompt.py Cxx <n> <tests...>: prints the prompt for a seeded-change sub-agent (property text only)."""
import json, sys
pid, n = sys.argv[1], int(sys.argv[2])
tests = sys.argv[3:]
for l in open('/verif/properties.jsonl'):
    d = json.loads(l)
    if d['id'] == pid:
        break
wt = "/tmp/m/%s" % pid.lower()
out = "/tmp/m/out_%s" % pid.lower()
if tests and tests[0].startswith("RAW:"):
    targs = " ".join(tests)[4:]
else:
    targs = " ".join("vectorizers/tests/" + t for t in tests)
testcmd = "cd %s && /venv/bin/python -m pytest -q -p no:cacheprovider %s" % (wt, targs)
print(f"""You are testing the robustness of a Python library's behaviour. Work ONLY inside the git worktree `{wt}` (a checkout of the library TutteInstitute/vectorizers; run Python as `cd {wt} && PYTHONPATH={wt} PYTHONHASHSEED=0 /venv/bin/python ...`). Do not look at or touch `/repo` or `/verif`, and do not read anything outside `{wt}` and `{out}`.

The library is supposed to satisfy this property:

"{d['title']}. {d['statement']}"
(quantified over: {d['quantifier']['text']}). Relevant code: {', '.join(d['anchors']['files'])}.

Your job: produce {n} different, independent, realistic code changes ("seeded bugs") to the library, each of which (a) breaks the property, (b) still imports/compiles, (c) still passes the library's existing tests for this area: `{testcmd}` (these pass on the unmodified checkout except for `test_wasserstein_based_vectorizer_bad_params[lil-LOT_exact-*]`, which fails in the baseline too; the machine is busy, so a test module can take 10+ minutes — run it once per change, in the background while you prepare the next one if you like), and (d) needs something specific to manifest — a particular input shape or boundary, a multi-step sequence of calls, an unusual but valid parameter combination, a size on one side of an internal threshold, or two cooperating edits that each look fine alone — NOT something any ordinary call would expose at once. Prefer the kinds of mistakes a maintainer could plausibly make in a refactor or an optimisation (off-by-one in a bound, a wrong comparison at a boundary, a dropped update on one branch, a stale variable, a fast path with a slightly wrong guard, a cache not invalidated, an index computed from the wrong array ...). Each change should be small (a few lines), and the changes should differ in kind and location.

For each change i = 1..{n} create a directory `{out}/<i>/` containing: `patch.diff` (output of `git -C {wt} diff` for that change alone, relative to the clean checkout), `demo.py` (a small standalone program, run as `PYTHONPATH=<checkout> /venv/bin/python demo.py`, that exits 0 on the clean code and exits 1 — printing what went wrong — with the change applied; it must check the property directly against an independent straightforward computation, not against stored outputs of the library), and `meta.json` with keys `property` ("{pid}"), `summary`, `needs_to_manifest` (what specific input / configuration / call sequence triggers it), `tests_run` (the pytest command and its result with the change applied). Verify yourself for each change: demo exits 0 on the clean checkout, exits 1 with the patch, the test module(s) still pass with the patch. Always return the worktree to the clean state between changes (`git -C {wt} checkout -- .`) and leave it clean at the end. Final answer: a short list of the changes with one line each.""")
