import warnings; warnings.filterwarnings("ignore")
import numpy as np, time
import vectorizers as V
from vectorizers.transformers import *
def t(name, f):
    t0=time.time()
    try:
        r = f(); print("OK  ", name, round(time.time()-t0,1), "->", str(r)[:120])
    except Exception as e:
        print("EXC ", name, "->", type(e).__name__, str(e)[:160])
X=[["a","b","c","a","b"],["c","b","a","d"]]
t("token", lambda: V.TokenCooccurrenceVectorizer(window_radii=2).fit_transform(X).toarray().sum())
t("token em", lambda: V.TokenCooccurrenceVectorizer(window_radii=2,n_iter=1).fit_transform(X).toarray().sum())
t("timed", lambda: V.TimedTokenCooccurrenceVectorizer(window_radii=2).fit_transform([[(t,i) for i,t in enumerate(d)] for d in X]).toarray().sum())
t("multi", lambda: V.MultiSetCooccurrenceVectorizer(window_radii=1).fit_transform([[["a","b"],["c"],["a"]]]).toarray().sum())
t("ngramcooc", lambda: V.NgramCooccurrenceVectorizer(window_radii=1,ngram_size=2).fit_transform(X).toarray().sum())
t("ngram", lambda: V.NgramVectorizer(ngram_size=2).fit_transform(X).toarray().sum())
t("skip", lambda: V.SkipgramVectorizer(window_radius=2).fit_transform(X).toarray().sum())
t("bpe", lambda: V.BytePairEncodingVectorizer(max_vocab_size=5,return_type="sequences").fit_transform(["ababab abab","bababa ab"]))
t("lz", lambda: V.LZCompressionVectorizer(max_columns=None).fit_transform(["ababab abab","bababa ab"]).toarray().sum())
t("lz hashed", lambda: V.LZCompressionVectorizer(max_columns=16, random_state=0).fit_transform(["ababab abab","bababa ab"]).toarray().sum())
t("sliding", lambda: SlidingWindowTransformer(window_width=3).fit([np.arange(6.)]).transform([np.arange(6.)])[0].shape)
t("infoweight", lambda: InformationWeightTransformer(approx_prior=False).fit_transform(np.array([[1,0,2],[0,3,1.]])).sum())
from vectorizers.distances import hellinger, sparse_hellinger
t("hellinger", lambda: hellinger(np.array([1.,2,3]),np.array([3.,2,1])))
