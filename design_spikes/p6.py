import warnings; warnings.filterwarnings("ignore")
import numpy as np
from fractions import Fraction as F
from vectorizers.linear_optimal_transport import transport_plan
rng=np.random.RandomState(0)
def cert(p,q,C,X):
    n,m=C.shape
    # Bellman-Ford potentials on residual graph: nodes 0..n-1 sources, n..n+m-1 sinks
    # want u_i+v_j<=C_ij with equality on support. Let d be shortest dist with arcs i->j cost C_ij, j->i cost -C_ij if X_ij>0
    INF=float('inf'); d=[0.0]*(n+m)
    for it in range(n+m+1):
        ch=False
        for i in range(n):
            for j in range(m):
                if d[i]+C[i,j]<d[n+j]-1e-15: d[n+j]=d[i]+C[i,j]; ch=True
                if X[i,j]>0 and d[n+j]-C[i,j]<d[i]-1e-15: d[i]=d[n+j]-C[i,j]; ch=True
        if not ch: break
    u=[-d[i] for i in range(n)]; v=[d[n+j] for j in range(m)]
    # exact rational check
    Fu=[F(x) for x in u]; Fv=[F(x) for x in v]
    viol=max(Fu[i]+Fv[j]-F(float(C[i,j])) for i in range(n) for j in range(m))
    if viol>0: Fu=[x-viol for x in Fu]
    D=sum(Fu[i]*F(float(p[i])) for i in range(n))+sum(Fv[j]*F(float(q[j])) for j in range(m))
    cost=sum(F(float(X[i,j]))*F(float(C[i,j])) for i in range(n) for j in range(m))
    rerr=max(abs(sum(F(float(X[i,j])) for j in range(m))-F(float(p[i]))) for i in range(n))
    cerr=max(abs(sum(F(float(X[i,j])) for i in range(n))-F(float(q[j]))) for j in range(m))
    return float(cost), float(D), float(cost-D), float(rerr), float(cerr), float(viol), it
for trial in range(8):
    n=rng.randint(1,9); m=rng.randint(1,9)
    p=rng.rand(n); 
    if n>2 and trial%2==0: p[rng.randint(n)]=0.0
    p/=p.sum(); q=rng.rand(m); q/=q.sum()
    C=rng.rand(n,m) if trial%3 else np.round(rng.rand(n,m)*3)
    try:
        X=transport_plan(p,q,C)
        print(n,m,"min",X.min(), "cost,D,gap,rerr,cerr,viol,it", cert(p,q,C,X))
    except Exception as e:
        print(n,m,"EXC",type(e).__name__,e)
