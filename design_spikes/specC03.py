# Pointwise spec prototype for C03/C14 (token vectorizer), mirrors the planned Gallina cooc_spec
import warnings; warnings.filterwarnings("ignore")
import numpy as np, random, itertools
from fractions import Fraction as F
import vectorizers as V
def kernel_w(kind, dist, power=F(9,10)):
    if kind=="flat": return F(1)
    if kind=="harmonic": return F(1,dist)
    if kind=="geometric": return power**dist
def spec(docs, n, blocks, radii, kind, mix, normalize_windows, offset=0, knorm=False, mask=None):
    # docs: list of index lists (already re-indexed); blocks: list of bool rev; radii[i][tok]
    M={}
    for d in docs:
        L=len(d)
        for p in range(L):
            r=d[p]
            ws=[]
            for i,rev in enumerate(blocks):
                R=radii[i][r]
                w=[]
                for q in range(L):
                    inw = (p-R<=q<p) if rev else (p<q<=p+R)
                    if not inw: continue
                    dist=abs(q-p)
                    val=kernel_w(kind,dist)
                    if mask is not None and d[q]==mask: val=F(0)
                    if dist<=offset: val=F(0)
                    w.append((q,val))
                if knorm:
                    s=sum(v for _,v in w)
                    if s>0: w=[(q,v/s) for q,v in w]
                w=[(q,mix[i]*v) for q,v in w]
                ws.append(w)
            tot=F(1)
            if normalize_windows:
                t=sum(v for w in ws for _,v in w)
                if t>0: tot=t
            for i,w in enumerate(ws):
                for q,v in w:
                    if v/tot>0:
                        M[(r,d[q]+i*n)]=M.get((r,d[q]+i*n),F(0))+v/tot
    return M
rng=random.Random(3); bad=0; tot=0
for trial in range(150):
    nd=rng.randint(1,4); alpha="abcd"[:rng.randint(1,4)]
    docs=[[rng.choice(alpha) for _ in range(rng.randint(0,8))] for _ in range(nd)]
    if not any(docs): continue
    if any(len(d)==0 for d in docs) and rng.random()<0.5: pass
    orient=rng.choice(["before","after","directional"]); R=rng.randint(0,5); kind=rng.choice(["flat","harmonic","geometric"])
    nw=rng.random()<0.5; off=rng.choice([0,0,1,2]); kn=rng.random()<0.3
    kw=dict(window_radii=R, window_orientations=orient, kernel_functions=kind, normalize_windows=nw, kernel_args={"offset":off,"normalize":kn})
    try:
        m=V.TokenCooccurrenceVectorizer(**kw); A=m.fit_transform(docs).toarray()
    except Exception as e:
        print("EXC",type(e).__name__,str(e)[:80],docs,kw); continue
    tot+=1
    td=m.token_label_dictionary_; n=len(td)
    idocs=[[td[t] for t in d] for d in docs]
    blocks={"before":[True],"after":[False],"directional":[True,False]}[orient]
    radii=[[R]*(n+1) for _ in blocks]
    S=spec(idocs,n,blocks,radii,kind,[F(1)]*len(blocks),nw,off,kn)
    B=np.zeros_like(A,dtype=float)
    for (r,c),v in S.items(): B[r,c]=float(v)
    if not np.allclose(A,B,rtol=2e-5,atol=1e-7):
        bad+=1
        if bad<=4: print("MISMATCH",docs,kw,"\nimpl\n",A,"\nspec\n",B)
print("cases",tot,"mismatch",bad)
