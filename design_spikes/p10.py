import time; t0=time.time()
import warnings; warnings.filterwarnings("ignore")
import vectorizers as V
t1=time.time(); print("import", round(t1-t0,1))
X=[["a","b","c","a"],["b","c"]]
for cls,kw in [(V.TokenCooccurrenceVectorizer,{}),(V.TokenCooccurrenceVectorizer,{"kernel_functions":"harmonic"}),(V.TokenCooccurrenceVectorizer,{"n_iter":1}),(V.NgramVectorizer,{}),(V.BytePairEncodingVectorizer,{}),(V.LZCompressionVectorizer,{})]:
    t=time.time()
    try:
        if cls in (V.BytePairEncodingVectorizer,V.LZCompressionVectorizer): cls(**kw).fit_transform(["abcabcabc","bcbcbc aa"])
        else: cls(**kw).fit_transform(X)
    except Exception as e: print("exc",e)
    print(cls.__name__,kw,round(time.time()-t,1))
t=time.time(); V.TokenCooccurrenceVectorizer().fit_transform(X); print("second call", round(time.time()-t,3))
