import warnings; warnings.filterwarnings("ignore")
import numpy as np, sys, os
import vectorizers.coo_utils as cu
L=int(sys.argv[1]); N=int(sys.argv[2])
cu.COO_QUICKSORT_LIMIT = L
from vectorizers.coo_utils import CooArray, coo_append, coo_sum_duplicates, merge_all_sum_duplicates
def mk(n):
    return CooArray(np.zeros(n,np.int32),np.zeros(n,np.int32),np.zeros(n,np.float32),np.zeros(n,np.int64),np.zeros(1,np.int64),np.zeros(2*int(np.ceil(np.log2(n))),np.int64),np.zeros(1,np.int64))
coo=mk(N)
rng=np.random.RandomState(0)
evs=[]
for t in range(int(sys.argv[3])):
    r=int(rng.randint(0,3)); c=int(rng.randint(0,3)); k=c+7*r
    evs.append((r,c,1.0,k))
    coo=coo_append(coo,(np.int32(r),np.int32(c),np.float32(1.0),np.int64(k)))
    if t<12: print(t, coo.ind[0], coo.key[:coo.ind[0]].tolist(), coo.min.tolist(), coo.depth[0], coo.key.shape[0])
coo_sum_duplicates(coo); merge_all_sum_duplicates(coo)
print("final", coo.ind[0], dict(zip(coo.key[:coo.ind[0]].tolist(), coo.val[:coo.ind[0]].tolist())), coo.min.tolist(), coo.depth[0], coo.key.shape)
from collections import Counter
c=Counter()
for r,cc,v,k in evs: c[k]+=v
print("expect", dict(sorted(c.items())))
