import warnings; warnings.filterwarnings("ignore")
import numpy as np, random
import vectorizers as V
def lz(s, base, cap):
    d=dict(base); size=len(d); start=0
    for end in range(len(s)):
        g=s[start:end]
        if g in d: d[g]+=1
        elif size>=cap: start=end
        else: d[g]=1; size+=1; start=end
    return d
rng=random.Random(2); bad=0; tot=0
for trial in range(200):
    alpha="abé中"[:rng.randint(1,4)]
    X=["".join(rng.choice(alpha) for _ in range(rng.randint(0,14))) for _ in range(rng.randint(1,5))]
    cap=rng.choice([2,3,5,1<<16])
    m=V.LZCompressionVectorizer(max_dict_size=cap, max_columns=None)
    try: A=m.fit_transform(X).toarray()
    except Exception as e: print("EXC",type(e).__name__,str(e)[:80],X,cap); continue
    tot+=1
    cols=dict(m.column_label_dictionary_)
    ok=True
    for i,s in enumerate(X):
        d=lz(s,{},cap)
        row={cols[g]:c for g,c in d.items()}
        exp=np.zeros(A.shape[1]); 
        for c,v in row.items(): exp[c]=v
        if not np.array_equal(A[i],exp): ok=False
        if cap==1<<16 and A[i].sum()!=len(s): ok=False
    if not ok:
        bad+=1
        if bad<=3: print("MISMATCH",X,cap,A)
print("cases",tot,"mismatch",bad)
