import warnings; warnings.filterwarnings("ignore")
import numpy as np, itertools
import vectorizers as V
m=V.TokenCooccurrenceVectorizer(window_radii=1, n_threads=16, normalize_windows=False).fit([['a','b','c']])
print("coo sizes", m._coo_sizes)
m.n_threads=1
big=[[x,y] for x in 'abc' for y in 'abc']*3
r=m.transform(big)
print(r.toarray())
m2=V.TokenCooccurrenceVectorizer(window_radii=1, normalize_windows=False).fit(big)
print(m2.transform(big).toarray())
