let () = let r = Gen.tv (+.) ( *. ) (-.) 0.0 0.5 abs_float [0.25;0.75] [0.5;0.5] in Printf.printf "%h\n" r
