import warnings; warnings.filterwarnings("ignore")
import numpy as np
from vectorizers.transformers import SlidingWindowTransformer
m=SlidingWindowTransformer(window_width=3, window_sample=[2,1,0]).fit([np.arange(6.)])
print(m.transform([np.arange(6.)])[0][:2])
m=SlidingWindowTransformer(window_width=3, window_sample=[2,0]).fit([np.arange(6.)])
print(m.transform([np.arange(6.)])[0][:2])
