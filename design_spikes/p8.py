import warnings; warnings.filterwarnings("ignore")
import numpy as np
import vectorizers as V
doc=[[["a","b"],["c"],["d","a"]]]
for off in (0,1):
    m=V.MultiSetCooccurrenceVectorizer(window_radii=1, window_orientations="after", normalize_windows=False, kernel_args={"offset":off})
    r=m.fit_transform(doc).toarray()
    print("offset",off, m.token_label_dictionary_); print(r)
# variable window radius
doc2=[[["a"],["b"],["a"],["c"],["a"],["b"],["a"]]]
m=V.MultiSetCooccurrenceVectorizer(window_radii=3, window_functions="variable", window_orientations="after", normalize_windows=False)
r=m.fit_transform(doc2).toarray(); print(m._window_len_array); print(r)
