From Coq Require Import ZArith Reals Lia Lra.
From Flocq Require Import Core Double_rounding.
Open Scope R_scope.
#[local] Instance p24 : Prec_gt_0 24 := eq_refl.
#[local] Instance p53 : Prec_gt_0 53 := eq_refl.
Definition fexp32 := FLT_exp (-149) 24.
Definition fexp64 := FLT_exp (-1074) 53.
Definition rnd32 := round radix2 fexp32 (Znearest (fun x => negb (Z.even x))).
Definition rnd64 := round radix2 fexp64 (Znearest (fun x => negb (Z.even x))).
Lemma nat_f32 : forall c : Z, (Z.abs c <= 2^24)%Z -> FLT_format radix2 (-149) 24 (IZR c).
Proof.
intros c Hc.
apply FLT_format_generic; [reflexivity|].
apply generic_format_FLT.
destruct (Z.eq_dec (Z.abs c) (2^24)) as [E|NE].
- exists (Float radix2 (c / 2^24 * 1) 24).
  + unfold F2R; simpl. 
    assert (c = 2^24 \/ c = - 2^24)%Z as [->| ->] by lia; simpl; lra.
  + simpl. assert (c = 2^24 \/ c = - 2^24)%Z as [->| ->] by lia; simpl; lia.
  + simpl; lia.
- exists (Float radix2 c 0).
  + unfold F2R; simpl; lra.
  + simpl; lia.
  + simpl; lia.
Qed.
Theorem freq_double_round : forall c n : Z, (0 < n <= 2^24)%Z -> (0 <= c <= 2^24)%Z ->
  rnd32 (rnd64 (IZR c / IZR n)) = rnd32 (IZR c / IZR n).
Proof.
intros c n Hn Hc.
unfold rnd32, rnd64, fexp32, fexp64.
apply (round_round_div_FLT radix2 (-149) 24 (-1074) 53).
- exists 1%Z; reflexivity.
- lia.
- lia.
- apply IZR_neq; lia.
- apply nat_f32; lia.
- apply nat_f32; lia.
Qed.
Print Assumptions freq_double_round.
