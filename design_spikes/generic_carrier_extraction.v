From Coq Require Import List Reals Lra.
Import ListNotations.
Section Gen.
  Variable T : Type.
  Variables (add mul sub : T -> T -> T) (zero half : T) (abs : T -> T).
  Fixpoint tv_aux (xs ys : list T) (acc : T) : T :=
    match xs, ys with
    | x :: xs', y :: ys' => tv_aux xs' ys' (add acc (mul half (abs (sub x y))))
    | _, _ => acc
    end.
  Definition tv xs ys := tv_aux xs ys zero.
End Gen.
Open Scope R_scope.
Definition tvR := tv R Rplus Rmult Rminus 0 (1/2) Rabs.
Lemma tv_aux_sym : forall xs ys acc, tv_aux R Rplus Rmult Rminus (1/2) Rabs xs ys acc = tv_aux R Rplus Rmult Rminus (1/2) Rabs ys xs acc.
Proof. induction xs as [|x xs IH]; destruct ys as [|y ys]; simpl; intros; auto.
  rewrite (Rabs_minus_sym x y). apply IH. Qed.
Theorem tv_sym xs ys : tvR xs ys = tvR ys xs.
Proof. apply tv_aux_sym. Qed.
Require Extraction. Require Import ExtrOcamlBasic.
Extraction "gen.ml" tv.
