import warnings; warnings.filterwarnings("ignore")
import numpy as np, random, scipy.sparse as sp
import vectorizers as V
def walks(adj,k):  # adj: list of successor lists; returns matrix W[u][v] = # walks of k steps
    n=len(adj); W=[[1 if u==v else 0 for v in range(n)] for u in range(n)]
    for _ in range(k):
        W2=[[0]*n for _ in range(n)]
        for u in range(n):
            for x in adj[u]:
                for v in range(n): W2[u][v]+=W[x][v]
        W=W2
    return W
def spec(trees, labels_dict, R, kind, orient):
    n=len(labels_dict); M=np.zeros((n,n))
    for adj,labs in trees:
        for k in range(1,R+1):
            w={"flat":1.0,"harmonic":1.0/k,"geometric":0.9**k}[kind]
            W=walks(adj,k)
            for u in range(len(labs)):
                for v in range(len(labs)):
                    if W[u][v] and labs[u] in labels_dict and labs[v] in labels_dict:
                        M[labels_dict[labs[u]],labels_dict[labs[v]]]+=w*W[u][v]
    if orient=="after": return M
    if orient=="before": return M.T
    if orient=="symmetric": return M+M.T
    return np.hstack([M.T,M])
rng=random.Random(1); bad=0; tot=0
for trial in range(120):
    trees=[]
    for _ in range(rng.randint(1,3)):
        n=rng.randint(1,7); adj=[[] for _ in range(n)]
        for v in range(1,n):
            if rng.random()<0.85: adj[rng.randrange(v)].append(v)   # forest: parent has smaller index
        labs=[rng.choice("abc"[:rng.randint(1,3)]) for _ in range(n)]
        trees.append((adj,labs))
    R=rng.randint(1,4); kind=rng.choice(["flat","harmonic","geometric"]); orient=rng.choice(["before","after","symmetric","directional"])
    X=[]
    for adj,labs in trees:
        n=len(labs); A=np.zeros((n,n))
        for u in range(n):
            for v in adj[u]: A[u,v]=1
        X.append((sp.csr_matrix(A), np.array(labs)))
    try:
        m=V.LabelledTreeCooccurrenceVectorizer(window_radius=R, kernel_function=kind, window_orientation=orient)
        got=m.fit_transform(X).toarray()
    except Exception as e:
        print("EXC",type(e).__name__,str(e)[:100],[t[1] for t in trees],R,kind,orient); continue
    tot+=1
    S=spec(trees,m.token_label_dictionary_,R,kind,orient)
    if got.shape!=S.shape or not np.allclose(got,S,atol=1e-6):
        bad+=1
        if bad<=3: print("MISMATCH",trees,R,kind,orient,"\n",got,"\n",S)
print("cases",tot,"mismatch",bad)
