import warnings; warnings.filterwarnings("ignore")
import numpy as np
from vectorizers.mixed_gram_vectorizer import contract_pair, bpe_encode
import numba
try:
    print("contract len1:", contract_pair(np.array([97],dtype=np.int64),(97,98),99))
except Exception as e: print("EXC", type(e).__name__, e)
try:
    print("contract len0:", contract_pair(np.zeros(0,dtype=np.int64),(97,98),99))
except Exception as e: print("EXC", type(e).__name__, e)
from vectorizers.coo_utils import em_update_matrix
# row 0 has cols [0,1]; row1 has cols [2]; context col 2 for row 0 -> searchsorted = 2 == len -> reads indices[2] = 2 (row 1's) 
indices=np.array([0,1,2],dtype=np.int32); indptr=np.array([0,2,3],dtype=np.int32); data=np.array([.5,.5,1.0],dtype=np.float32)
post=np.zeros(3,dtype=np.float32)
try:
    windows=numba.typed.List([np.array([2],dtype=np.int32)]); kernels=numba.typed.List([np.array([1.0])])
    print("em:", em_update_matrix(post, indices, indptr, data, 3, 0, windows, kernels))
except Exception as e: print("EXC", type(e).__name__, e)
