import warnings; warnings.filterwarnings("ignore")
import numpy as np, sys, math, random
import os; sys.path.insert(0, os.path.dirname(os.path.abspath(__file__)))
import coomodel as M
import vectorizers.coo_utils as cu
L=int(sys.argv[1]); cu.COO_QUICKSORT_LIMIT=L
from vectorizers.coo_utils import CooArray, coo_append, coo_sum_duplicates, merge_all_sum_duplicates
def mk(n):
    return CooArray(np.zeros(n,np.int32),np.zeros(n,np.int32),np.zeros(n,np.float32),np.zeros(n,np.int64),np.zeros(1,np.int64),np.zeros(2*int(np.ceil(np.log2(n))),np.int64),np.zeros(1,np.int64))
def st(c): return (c.row.tolist(),c.col.tolist(),[int(x) for x in c.val.tolist()],c.key.tolist(),int(c.ind[0]),c.min.tolist(),int(c.depth[0]))
rng=random.Random(int(sys.argv[2]))
ntr=int(sys.argv[3]); bad=0; oob=0; lost=0
for tr in range(ntr):
    N=rng.choice([2,3,4,5,6,8,12,16,33]); nk=rng.choice([1,2,3,6,20]); nev=rng.randint(0,120)
    c=mk(N); m=M.Coo(N); evs=[]; ok=True
    try:
        for t in range(nev):
            r=rng.randrange(nk); cc=rng.randrange(nk); k=cc+(nk+1)*r
            evs.append((r,cc,1,k))
            M.append(m,(r,cc,1,k),L,1.5)
    except M.OOB as e:
        oob+=1; ok=False
        if oob<=5: print("model OOB", N,nk,nev,len(evs),e.args, "depth",m.depth,"minlen",len(m.min))
    if not ok: continue
    for (r,cc,v,k) in evs:
        c=coo_append(c,(np.int32(r),np.int32(cc),np.float32(v),np.int64(k)))
    if st(c)!=tuple(m.state()):
        bad+=1
        if bad<=3: print("STATE DIFF",N,nk,nev,"\n impl",st(c),"\n modl",m.state())
        continue
    try:
        M.finish(m)
    except M.OOB as e:
        oob+=1; print("model OOB in finish",N,nk,nev,e.args); continue
    coo_sum_duplicates(c); merge_all_sum_duplicates(c)
    if st(c)!=tuple(m.state()):
        bad+=1
        if bad<=3: print("FINAL DIFF",N,nk,nev,"\n impl",st(c),"\n modl",m.state())
    exp={}
    for (r,cc,v,k) in evs: exp[k]=exp.get(k,0)+v
    if M.denote(m)!=exp:
        lost+=1
        if lost<=5: print("LOSS",N,nk,nev,"got",M.denote(m),"exp",exp)
print("trials",ntr,"statediff",bad,"modelOOB",oob,"loss",lost)
