import warnings; warnings.filterwarnings("ignore")
import numpy as np, scipy.sparse as sp, traceback
import vectorizers as V
from vectorizers.transformers import *
def t(name, f):
    try:
        r = f(); print("OK  ", name, "->", r)
    except Exception as e:
        print("EXC ", name, "->", type(e).__name__, str(e)[:150])

# C01 EdgeList transform width
def edge():
    m = V.EdgeListVectorizer().fit([("a","x",1),("b","y",2),("c","z",3)])
    return m.transform([("a","x",1)]).shape, m._train_matrix.shape
t("edgelist transform shape", edge)
# C01 skipgram transform
def skip():
    X=[["a","b","c","a","b"],["c","b","a"]]
    m=V.SkipgramVectorizer(window_radius=2).fit(X)
    return m._train_matrix.shape, m.transform([["a","b"]]).shape
t("skipgram transform", skip)
def skip2():
    X=[["a","b","c","a","b"],["c","b","a"]]
    m=V.SkipgramVectorizer(window_radius=2).fit(X)
    return abs(m._train_matrix - m.transform(X)).sum()
t("skipgram fit vs transform", skip2)
# C01 LZ transform unseen phrase
def lz():
    m=V.LZCompressionVectorizer(max_columns=None).fit(["abababab","abcabc"])
    r=m.transform(["xyzxyz","abab"]); return r.shape, r.toarray().sum(axis=1)
t("LZ transform unseen", lz)
# BPE
def bpe1():
    X=["abababab abab","bababa ab ab"]
    m=V.BytePairEncodingVectorizer(max_vocab_size=3, return_type="sequences")
    ft=m.fit_transform(X); tr=m.transform(X)
    return [list(a) for a in ft],[list(a) for a in tr], m.tokens_, m.code_list_
t("bpe ft vs t vocab3", bpe1)
def bpe2():
    X=["abababab abab","bababa ab ab"]
    m=V.BytePairEncodingVectorizer(max_vocab_size=50, return_type="sequences").fit(X)
    return [list(a) for a in m.transform(["a","","ab","zq"])]
t("bpe short strings", bpe2)
def bpe3():
    X=["abababab abab","bababa ab ab"]
    m=V.BytePairEncodingVectorizer(max_vocab_size=50, return_type="matrix").fit(X)
    return m.transform(["zzz ab"]).shape
t("bpe matrix unseen", bpe3)
# C02 DistributionVectorizer.fit returns
def dv():
    rng=np.random.RandomState(0)
    X=[rng.normal(size=(10,2)) for _ in range(5)]
    return V.DistributionVectorizer(n_components=2,random_state=0).fit(X)
t("DistributionVectorizer.fit return", dv)
# C06 ngram add
def add():
    a=V.NgramVectorizer().fit([["x","y"],["y","z"]]); b=V.NgramVectorizer().fit([["z","w"]])
    c=a+b
    return c.transform([["x","w","w"]]).toarray(), c.column_label_dictionary_
t("ngram add transform", add)
# C18 hellinger proportional
def hel():
    from vectorizers.distances import hellinger
    x=np.array([0.1,0.2,0.7]); return hellinger(x, 3*x), hellinger(np.array([1.,2,3,4,5,6,7]), 0.1*np.array([1.,2,3,4,5,6,7]))
t("hellinger prop", hel)
def ssum():
    from vectorizers.distances import sparse_sum
    return sparse_sum(np.array([0,5],dtype=np.int32),np.array([1,1],dtype=np.float32),np.array([0,7,9],dtype=np.int32),np.array([1,1,1],dtype=np.float32))
t("sparse_sum tails", ssum)
# C19 sliding window integer sample
def sw():
    m=SlidingWindowTransformer(window_width=4, window_sample=2).fit([np.arange(10.)])
    return m.window_sample_, m.transform([np.arange(10.)])[0][:2]
t("sliding int sample", sw)
def sd():
    m=SequentialDifferenceTransformer(stride=2).fit([np.arange(10.)**2])
    return m.transform([np.arange(10.)**2])[0].ravel()
t("seqdiff stride2", sd)
def sd3():
    m=SequentialDifferenceTransformer(stride=3).fit([np.arange(10.)**2])
    return m.transform([np.arange(10.)**2])[0].ravel()
t("seqdiff stride3", sd3)
# C13 dict mutation
def dm():
    d={"a":0,"b":1,"MASK":2}
    m=V.TokenCooccurrenceVectorizer(token_dictionary=d, mask_string="MASK").fit([["a","b","c","a"]])
    return d, m.token_label_dictionary_ is d
t("dict mutation", dm)
# C20 hist
def hist():
    X=[[1,2,3,4,5,5.0],[1.0,1.0,2.5]]
    m=V.HistogramVectorizer(n_components=4).fit(X)
    return m.bin_intervals_, m.transform(X+[[0,10,-5,5]]).tolist()
t("hist", hist)
def hist2():
    X=[[1,2,3,4,5,5.0],[1.0,1.0,2.5]]
    m=V.HistogramVectorizer(n_components=4, absolute_range=(0,10), append_outlier_bins=True).fit(X)
    return m.bin_intervals_, m.transform(X+[[0,10,-5,5,0.5,7]]).tolist()
t("hist outlier", hist2)
