import warnings; warnings.filterwarnings("ignore")
import numpy as np, scipy.sparse as sp
import vectorizers as V
from vectorizers.transformers import *
def t(name, f):
    try:
        r = f(); print("OK  ", name, "->", r)
    except Exception as e:
        print("EXC ", name, "->", type(e).__name__, str(e)[:150])
def ngm():
    X=[["a","b","c","a","b","d"],["c","b","a","e"]]
    m=V.NgramVectorizer(ngram_size=1,min_occurrences=2,mask_string="M")
    ft=m.fit_transform(X).toarray(); tr=m.transform(X).toarray()
    return ft.tolist(), tr.tolist(), m.column_label_dictionary_
t("ngram mask ft vs t", ngm)
def ngm2():
    X=[["a","b","c","a","b","d"],["c","b","a","e"]]
    m=V.NgramVectorizer(ngram_size=2,min_occurrences=2)
    ft=m.fit_transform(X).toarray(); tr=m.transform(X).toarray()
    return ft.tolist(), tr.tolist(), m.column_label_dictionary_
t("ngram2 prune ft vs t", ngm2)
def timed():
    base=1.6e9
    X=[[("a",base+0.0),("b",base+1.0),("a",base+3.0),("c",base+4.0)]]
    X0=[[("a",0.0),("b",1.0),("a",3.0),("c",4.0)]]
    kw=dict(window_radii=2, kernel_functions="geometric", normalize_windows=False)
    a=V.TimedTokenCooccurrenceVectorizer(**kw).fit_transform(X).toarray()
    b=V.TimedTokenCooccurrenceVectorizer(**kw).fit_transform(X0).toarray()
    return np.abs(a-b).max(), a.tolist(), b.tolist()
t("timed shift", timed)
def hel():
    from vectorizers.distances import hellinger
    rng=np.random.RandomState(1); bad=0
    for _ in range(2000):
        x=rng.rand(rng.randint(1,8)); 
        d=hellinger(x, x*rng.rand()*10)
        if not (d==d) or d>1e-6: bad+=1; last=(x,d)
    return bad, (last if bad else None)
t("hellinger nan search", hel)
def iw():
    from vectorizers.transformers.info_weight import information_weight
    rng=np.random.RandomState(0); worst=0
    for _ in range(200):
        M=sp.random(6,5,density=0.5,random_state=rng,format="csr"); M.data=np.ceil(M.data*5)
        if M.sum()==0: continue
        w=information_weight(M, 0.1)
        worst=min(worst, np.nanmin(w)); 
        if np.isnan(w).any(): return "nan", M.toarray()
    return worst
t("info weight min", iw)
def em_oob():
    X=[["a","b","c","a","b","d","a","c"],["c","b","a","e","a","d"]]*3
    m=V.TokenCooccurrenceVectorizer(window_radii=2,n_iter=2,epsilon=0.2)
    r=m.fit_transform(X); return r.shape, float(r.sum())
t("em eps", em_oob)
