From Coq Require Import ZArith List Lia Sorting.Sorted Permutation.
Import ListNotations. Open Scope Z_scope.
(* abstract layer spike for K1: assoc lists key -> value (Z values; the real one is over a commutative monoid) *)
Definition ev := (Z * Z)%type.
Fixpoint sumby (l : list ev) (k : Z) : Z :=
  match l with [] => 0 | (k',v)::t => (if k' =? k then v else 0) + sumby t k end.
Lemma sumby_app a b k : sumby (a ++ b) k = sumby a k + sumby b k.
Proof. induction a as [|[k' v] a IH]; simpl; [lia|rewrite IH; lia]. Qed.
Lemma sumby_perm a b k : Permutation a b -> sumby a k = sumby b k.
Proof. induction 1 as [| [k1 v1] | [k1 v1] [k2 v2] | ]; simpl; lia. Qed.

(* run-length compression of a key-sorted list: sums adjacent equal keys *)
Fixpoint compress (l : list ev) : list ev :=
  match l with
  | [] => []
  | (k,v) :: t => match compress t with
                  | (k',v') :: t' => if k =? k' then (k, v+v') :: t' else (k,v) :: (k',v') :: t'
                  | [] => [(k,v)]
                  end
  end.
Lemma compress_sumby l k : sumby (compress l) k = sumby l k.
Proof. induction l as [|[k0 v0] t IH]; simpl; [reflexivity|].
  destruct (compress t) as [|[k' v'] t'] eqn:E; simpl in *; [lia|].
  destruct (k0 =? k') eqn:Ek; simpl; rewrite <- IH.
  - apply Z.eqb_eq in Ek; subst k'. destruct (k0 =? k); lia.
  - destruct (k0 =? k); destruct (k' =? k); lia. Qed.

Definition keys (l : list ev) := map fst l.
Definition ssorted l := StronglySorted Z.lt (keys l).
Definition wsorted l := StronglySorted Z.le (keys l).

Lemma compress_head l k v t : compress l = (k,v)::t -> exists v0 t0, l = (k,v0)::t0.
Proof. destruct l as [|[k0 v0] l0]; simpl; [discriminate|].
  destruct (compress l0) as [|[k' v'] t']; [intros [= <- <- <-]; eauto|].
  destruct (k0 =? k'); intros [= <- <- <-]; eauto. Qed.

Lemma compress_keys_incl l : incl (keys (compress l)) (keys l).
Proof. induction l as [|[k0 v0] t IH]; simpl; [apply incl_refl|].
  destruct (compress t) as [|[k' v'] t'] eqn:E; simpl in *.
  - intros x [<-|[]]; left; reflexivity.
  - destruct (k0 =? k'); simpl; intros x Hx.
    + destruct Hx as [<-|Hx]; [left; reflexivity|right; apply IH; right; exact Hx].
    + destruct Hx as [<-|Hx]; [left; reflexivity|right; apply IH; exact Hx]. Qed.

Lemma compress_sorted l : wsorted l -> ssorted (compress l).
Proof. unfold wsorted, ssorted. induction l as [|[k0 v0] t IH]; simpl; intros H; [constructor|].
  inversion H as [|? ? Ht Hall]; subst. specialize (IH Ht).
  destruct (compress t) as [|[k' v'] t'] eqn:E; simpl in *.
  - constructor; constructor.
  - assert (Hle : forall x, In x (k' :: keys t') -> k0 <= x).
    { intros x Hx. rewrite Forall_forall in Hall. apply Hall.
      apply (compress_keys_incl t). rewrite E. exact Hx. }
    inversion IH as [|? ? IH' Hall']; subst. rewrite Forall_forall in Hall'.
    destruct (k0 =? k') eqn:Ek; simpl.
    + apply Z.eqb_eq in Ek; subst k'. constructor; [exact IH'|]. rewrite Forall_forall; exact Hall'.
    + apply Z.eqb_neq in Ek. constructor; [exact IH|]. rewrite Forall_forall. intros x Hx.
      destruct Hx as [<-|Hx]; [specialize (Hle k' (or_introl eq_refl)); lia|].
      specialize (Hall' x Hx). specialize (Hle k' (or_introl eq_refl)). lia. Qed.

(* merge of two strictly sorted lists with equal keys summed (fuel = |a|+|b|) *)
Fixpoint merge (fuel : nat) (a b : list ev) : list ev :=
  match fuel with O => a ++ b | S f =>
  match a, b with
  | [], _ => b | _, [] => a
  | (ka,va)::ta, (kb,vb)::tb =>
      if ka <? kb then (ka,va) :: merge f ta b
      else if kb <? ka then (kb,vb) :: merge f a tb
      else (ka, va+vb) :: merge f ta tb
  end end.
Lemma merge_sumby f a b k : sumby (merge f a b) k = sumby a k + sumby b k.
Proof. revert a b; induction f as [|f IH]; intros a b; simpl; [apply sumby_app|].
  destruct a as [|[ka va] ta]; [simpl; lia|]. destruct b as [|[kb vb] tb]; [simpl; lia|].
  destruct (ka <? kb) eqn:E1; [simpl; rewrite IH; simpl; lia|].
  destruct (kb <? ka) eqn:E2; [simpl; rewrite IH; simpl; lia|].
  assert (ka = kb) by (apply Z.ltb_ge in E1; apply Z.ltb_ge in E2; lia). subst.
  simpl; rewrite IH. destruct (kb =? k); lia. Qed.
Print Assumptions merge_sumby.
Print Assumptions compress_sorted.
