# Python prototype of the K1 model (to be ported to Gallina): checked arrays, stale memory kept.
import math
class OOB(Exception): pass
class A(list):
    def g(self,i):
        if not (0<=i<len(self)): raise OOB(("get",i,len(self)))
        return self[i]
    def s(self,i,v):
        if not (0<=i<len(self)): raise OOB(("set",i,len(self)))
        self[i]=v
def rnd(x):  # np.round half-to-even
    return int(round(x))
class Coo:
    def __init__(s,N,minlen=None):
        s.row=A([0]*N); s.col=A([0]*N); s.val=A([0]*N); s.key=A([0]*N); s.ind=0
        ml = 2*int(math.ceil(math.log2(N))) if minlen is None else minlen
        s.min=A([0]*ml); s.depth=0
    def state(s): return (list(s.row),list(s.col),list(s.val),list(s.key),s.ind,list(s.min),s.depth)
def merge_sum(c):
    new_depth=True
    for i in range(c.depth):
        if c.min.g(i)<=0:
            for j in range(i): c.min.s(j,-c.ind)   # slice assign clamps; i<=len guaranteed by g(i)
            c.min.s(i,c.ind); new_depth=False; break
        else:
            lo=abs(c.min.g(i+1)); mid=c.min.g(i)
            n=c.ind-lo+1
            rr=[0]*n; rc=[0]*n; rv=[0]*n; rk=[0]*n
            p1=lo;p2=mid;rp=0;rk[0]=-1
            def take(t,rp):
                if c.key.g(t)==rk[rp]: rv[rp]+=c.val.g(t)
                else:
                    rp+=1
                    if rp>=n: raise OOB(("res",rp,n))
                    rv[rp]=c.val.g(t);rr[rp]=c.row.g(t);rc[rp]=c.col.g(t);rk[rp]=c.key.g(t)
                return rp
            while p1<mid and p2<c.ind:
                if c.key.g(p1)<=c.key.g(p2): t=p1;p1+=1
                else: t=p2;p2+=1
                rp=take(t,rp)
            if p1>=mid:
                while p2<c.ind: t=p2;p2+=1; rp=take(t,rp)
            else:
                while p1<mid: t=p1;p1+=1; rp=take(t,rp)
            # slice assignment: lhs slice [lo:ind] clamps; numpy requires equal length (n-1 == ind-lo) ok
            for j in range(c.ind-lo):
                c.row.s(lo+j,rr[1+j]);c.col.s(lo+j,rc[1+j]);c.val.s(lo+j,rv[1+j]);c.key.s(lo+j,rk[1+j])
            c.ind=lo+rp
    if new_depth:
        for j in range(c.depth): c.min.s(j,-c.ind)
        c.min.s(c.depth,c.ind); c.depth+=1
def merge_all(c):
    pos=[c.min.g(i) for i in range(c.depth) if c.min.g(i)>0]
    new=pos+[0]*(c.depth-len(pos))
    for i in range(c.depth): c.min.s(i,new[i])
    merge_sum(c)
def sum_dup(c):
    up=c.ind; lo=abs(c.min.g(0))
    seg=sorted(range(lo,up), key=lambda i:c.key[i])   # stable; impl quicksort: only perm matters when vals commute
    R=[c.row[i] for i in seg];C=[c.col[i] for i in seg];V=[c.val[i] for i in seg];K=[c.key[i] for i in seg]
    for j,i in enumerate(range(lo,up)): c.row[i]=R[j];c.col[i]=C[j];c.val[i]=V[j];c.key[i]=K[j]
    si=lo; tr=c.row.g(lo); tc=c.col.g(lo); tv=0; tk=c.key.g(lo)
    for i in range(lo,up):
        if c.key.g(i)==tk: tv+=c.val.g(i)
        else:
            c.row.s(si,tr);c.col.s(si,tc);c.val.s(si,tv);c.key.s(si,tk)
            tr=c.row.g(i);tc=c.col.g(i);tv=c.val.g(i);tk=c.key.g(i);si+=1
    if tk!=c.key.g(up):
        c.row.s(si,tr);c.col.s(si,tc);c.val.s(si,tv);c.key.s(si,tk);si+=1
    c.ind=si
    merge_sum(c)
def grow(c,LIMIT,MULT):
    N=len(c.key); ns=max(rnd(MULT*N),LIMIT+1)
    for a in (c.row,c.col,c.val,c.key): a.extend([0]*(ns-N))
    m=len(c.min); nm=rnd(MULT*(m+2)); c.min.extend([0]*(nm-m))
def append(c,ev,LIMIT,MULT):
    r,cc,v,k=ev
    c.row.s(c.ind,r);c.col.s(c.ind,cc);c.val.s(c.ind,v);c.key.s(c.ind,k);c.ind+=1
    def tail():
        sum_dup(c)
        if len(c.key)-abs(c.min.g(0))<=LIMIT:
            merge_all(c)
            if c.ind>=0.95*len(c.key): grow(c,LIMIT,MULT)
    if c.ind-abs(c.min.g(0))>=LIMIT: tail()
    if c.ind==len(c.key)-1: tail()
def finish(c):
    sum_dup(c); merge_all(c)
def denote(c):
    d={}
    for i in range(c.ind): d[c.key[i]]=d.get(c.key[i],0)+c.val[i]
    return d
