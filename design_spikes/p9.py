import warnings; warnings.filterwarnings("ignore")
import numpy as np, scipy.sparse as sp, os, tempfile, copy
import vectorizers as V
from vectorizers.transformers import *
def t(name, f):
    try:
        r = f(); print("OK  ", name, "->", r)
    except Exception as e:
        print("EXC ", name, "->", type(e).__name__, str(e)[:200])
def d15():
    d={"a":0,"b":1}
    m=V.TokenCooccurrenceVectorizer(token_dictionary=d, mask_string="MASK").fit([["a","b","c","a"]])
    return d
t("D15 user dict after fit with mask", d15)
def d15b():
    d={"a":0,"b":1}
    m=V.NgramVectorizer(token_dictionary=d, mask_string="MASK").fit([["a","b","c","a"]])
    return d
t("D15 ngram", d15b)
def d17a():
    X=sp.csr_matrix(np.array([[1,0,2],[0,3,0.]])); X.data[0]=0.0  # explicit zero
    n0=X.nnz
    RowDenoisingTransformer().fit(X); return n0, X.nnz
t("D17 rowdenoise eliminate_zeros on caller", d17a)
def d17b():
    X=sp.csc_matrix(np.array([[1,0,2],[4,3,0.],[0,1,1]]))
    X.indices[0:2]=X.indices[0:2][::-1].copy(); X.data[0:2]=X.data[0:2][::-1].copy()  # unsorted col 0
    before=X.indices.copy()
    InformationWeightTransformer().fit(X); return before.tolist(), X.indices.tolist()
t("D17 infoweight sorts caller", d17b)
def d17c():
    rng=np.random.RandomState(0)
    dists=[rng.rand(4)*3 for _ in range(6)]; vecs=[rng.normal(size=(4,3)) for _ in range(6)]
    before=[d.copy() for d in dists]
    m=V.WassersteinVectorizer(input_method="lil", n_components=3, random_state=0, reference_size=3).fit(dists, vectors=vecs)
    a=max(np.abs(b-d).max() for b,d in zip(before,dists))
    m.transform(dists, vectors=vecs)
    return a, max(np.abs(b-d).max() for b,d in zip(before,dists))
t("D17 lil distributions mutated", d17c)
def d18():
    rng=np.random.RandomState(0)
    vecs=rng.normal(size=(30,4)); X=sp.random(40,30,density=0.3,random_state=rng,format='csr'); X.data=rng.rand(X.nnz)+.1
    td=tempfile.mkdtemp(); 
    m=V.WassersteinVectorizer(n_components=4, random_state=0, memory_size="1k", reference_size=5, cachedir=td).fit(X, vectors=vecs)
    return os.listdir(td), [os.listdir(os.path.join(td,x)) for x in os.listdir(td)]
t("D18 tempdir left", d18)
def d16():
    import scipy.sparse
    adj=scipy.sparse.csr_matrix(np.array([[0,1,0],[0,0,1],[0,0,0]])); 
    X=[(adj,np.array(["a","b","c"])),(adj,np.array(["a","a","b"]))]
    m=V.LabelledTreeCooccurrenceVectorizer(window_radius=2).fit(X)
    f0=m._token_frequencies_.copy(); d0=dict(m.token_label_dictionary_)
    r1=m.transform(X[:1]).toarray()
    f1=m._token_frequencies_.copy()
    r2=m.transform(X[:1]).toarray()
    return f0.tolist(), f1.tolist(), d0==m.token_label_dictionary_, np.abs(r1-r2).max()
t("D16 tree transform state", d16)
