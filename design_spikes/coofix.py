import sys, random, math
import os; sys.path.insert(0, os.path.dirname(os.path.abspath(__file__)))
import coomodel as M
# patched flush rule: flush iff range non-empty
def sum_dup_fixed(c):
    up=c.ind; lo=abs(c.min.g(0))
    seg=sorted(range(lo,up), key=lambda i:c.key[i])
    R=[c.row[i] for i in seg];C=[c.col[i] for i in seg];V=[c.val[i] for i in seg];K=[c.key[i] for i in seg]
    for j,i in enumerate(range(lo,up)): c.row[i]=R[j];c.col[i]=C[j];c.val[i]=V[j];c.key[i]=K[j]
    si=lo
    if up>lo:
        tr=c.row.g(lo); tc=c.col.g(lo); tv=0; tk=c.key.g(lo)
        for i in range(lo,up):
            if c.key.g(i)==tk: tv+=c.val.g(i)
            else:
                c.row.s(si,tr);c.col.s(si,tc);c.val.s(si,tv);c.key.s(si,tk)
                tr=c.row.g(i);tc=c.col.g(i);tv=c.val.g(i);tk=c.key.g(i);si+=1
        c.row.s(si,tr);c.col.s(si,tc);c.val.s(si,tv);c.key.s(si,tk);si+=1
    c.ind=si
    M.merge_sum(c)
M.sum_dup=sum_dup_fixed
rng=random.Random(5)
stats={}
for tr in range(6000):
    L=rng.choice([1,2,3,4,5,8,16,64]); N=rng.choice([20,21,24,31,40,64,100,257]); nk=rng.choice([1,2,3,6,20,60]); nev=rng.randint(0,3000)
    m=M.Coo(N); evs=[]
    key=(L,N>=20)
    try:
        for t in range(nev):
            r=rng.randrange(nk); cc=rng.randrange(nk); k=cc+(nk+1)*r
            evs.append((r,cc,1,k)); M.append(m,(r,cc,1,k),L,1.5)
        M.finish(m)
        exp={}
        for (r,cc,v,k) in evs: exp[k]=exp.get(k,0)+v
        res = "ok" if M.denote(m)==exp and all(m.key[i]<m.key[i+1] for i in range(m.ind-1)) else "LOSS"
    except M.OOB as e:
        res="OOB:%s depth=%d minlen=%d N=%d L=%d nev=%d nk=%d"%(e.args[0][0],m.depth,len(m.min),len(m.key),L,len(evs),nk)
    stats[res if res in("ok","LOSS") else res[:7]]=stats.get(res if res in("ok","LOSS") else res[:7],0)+1
    if res not in ("ok",) and stats[res if res=="LOSS" else res[:7]]<=6: print(res)
print(stats)
