import warnings; warnings.filterwarnings("ignore")
import numpy as np, scipy.sparse as sp, pandas as pd
import vectorizers as V
def t(name, f):
    try:
        r = f(); print("OK  ", name, "->", r)
    except Exception as e:
        import traceback
        print("EXC ", name, "->", type(e).__name__, str(e)[:200])
rng=np.random.RandomState(0)
vecs=rng.normal(size=(30,4))
X=sp.random(40,30,density=0.2,random_state=rng,format='csr'); X.data=rng.rand(X.nnz)+0.1
X=X[np.array(X.sum(axis=1)).ravel()>0]
def wass(metric, mem):
    m=V.WassersteinVectorizer(n_components=8, metric=metric, random_state=0, memory_size=mem, reference_size=5).fit(X, vectors=vecs)
    return m
def c12(metric):
    m=wass(metric,"2G")
    full=m.transform(X, vectors=vecs); a=m.transform(X[:13], vectors=vecs); b=m.transform(X[13:], vectors=vecs)
    return np.abs(full-np.vstack([a,b])).max()
t("wass batch cos", lambda: c12("cosine"))
t("wass batch euc", lambda: c12("euclidean"))
def mem(metric):
    m=wass(metric,"2G"); m2=wass(metric,"1k")
    a=m.transform(X, vectors=vecs)
    m.memory_size="1k"; b=m.transform(X, vectors=vecs)
    return np.abs(a-b).max(), np.abs(m.embedding_-m2.embedding_).max()
t("wass memsize", lambda: mem("cosine"))
def reenc():
    m=wass("euclidean","2G")
    a=m.transform(X, vectors=vecs)
    # scale rows
    D=sp.diags(rng.rand(X.shape[0])*5+0.1); b=m.transform(D@X, vectors=vecs)
    # permute support points
    perm=rng.permutation(30); c=m.transform(X[:,perm], vectors=vecs[perm])
    # pad zero-weight points
    X2=sp.hstack([X, sp.csr_matrix((X.shape[0],5))]).tocsr(); v2=np.vstack([vecs, rng.normal(size=(5,4))])
    d=m.transform(X2, vectors=v2)
    # split point 0 into two duplicates
    X3=sp.hstack([X[:,0]*0.3, X[:,0]*0.7, X[:,1:]]).tocsr(); v3=np.vstack([vecs[0],vecs[0],vecs[1:]])
    e=m.transform(X3, vectors=v3)
    return [np.abs(a-z).max() for z in (b,c,d,e)]
t("wass reencode euc", reenc)
def sink():
    m=V.SinkhornVectorizer(n_components=8, random_state=0).fit(X, vectors=vecs)
    full=m.transform(X, vectors=vecs); a=m.transform(X[:13], vectors=vecs); b=m.transform(X[13:], vectors=vecs)
    return np.abs(full-np.vstack([a,b])).max(), np.abs(full).max()
t("sinkhorn batch", sink)
def cut():
    m=V.HistogramVectorizer(n_components=3).fit([[1,2,3,4,5,6.0]])
    return m.transform([[5,5,5,1], np.array([5,5,5,1.]), pd.Series([5,5,5,1.])]).tolist()
t("hist input types", cut)
