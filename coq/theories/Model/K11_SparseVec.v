(* K11 — sparse vector helpers of vectorizers/distances.py (after the D20 repair):
   arr_unique / arr_union / arr_intersect, sparse_sum / sparse_diff / sparse_mul, dense_union.
   Executable definitions only.  Index-level: the arrays are lists read with [nth_error] (a read out of range
   is [None] = IndexError), the result buffers are allocated with the length the code gives them
   (|arr_union| resp. |arr_intersect|), written in place with a checked [set_nth] and truncated with [firstn].
   Values live in an arbitrary carrier T (Z / Q for the exact theorems and the exact correspondence,
   R for the distance theorems, PrimFloat for the float correspondence). *)
From Coq Require Import ZArith List Bool.
Import ListNotations.
Open Scope Z_scope.

(* np.sort on an index array *)
Fixpoint insertZ (x : Z) (l : list Z) : list Z :=
  match l with
  | [] => [x]
  | y :: t => if x <=? y then x :: l else y :: insertZ x t
  end.
Definition sortZ (l : list Z) : list Z := fold_right insertZ [] l.

(* arr_unique: aux = np.sort(arr); flag = [True] ++ (aux[1:] != aux[:-1]); aux[flag]
   (never called on an empty array: arr_union returns early) *)
Fixpoint keep_changes (prev : Z) (l : list Z) : list Z :=
  match l with
  | [] => []
  | x :: t => if x =? prev then keep_changes x t else x :: keep_changes x t
  end.
Definition arr_unique (arr : list Z) : list Z :=
  match sortZ arr with [] => [] | x :: t => x :: keep_changes x t end.

Definition arr_union (ar1 ar2 : list Z) : list Z :=
  match ar1, ar2 with
  | [], _ => ar2
  | _, [] => ar1
  | _, _ => arr_unique (ar1 ++ ar2)
  end.

(* arr_intersect: aux = sort(concat); aux[:-1][aux[1:] == aux[:-1]] *)
Fixpoint adj_equal (l : list Z) : list Z :=
  match l with
  | x :: ((y :: _) as t) => if y =? x then x :: adj_equal t else adj_equal t
  | _ => []
  end.
Definition arr_intersect (ar1 ar2 : list Z) : list Z := adj_equal (sortZ (ar1 ++ ar2)).

(* a[n] = v with bounds check *)
Fixpoint set_nth {A : Type} (l : list A) (n : nat) (v : A) : option (list A) :=
  match l, n with
  | [], _ => None
  | _ :: t, O => Some (v :: t)
  | x :: t, S n' => match set_nth t n' v with Some t' => Some (x :: t') | None => None end
  end.

Section SparseVec.
  Variable T : Type.
  Variables (zero : T) (add mul : T -> T -> T) (opp : T -> T).
  Variable eqz : T -> bool.                     (* val == 0 *)

  (* if val != 0: result_ind[nnz] = j; result_data[nnz] = val; nnz += 1 *)
  Definition emit (nnz : nat) (ri : list Z) (rd : list T) (j : Z) (v : T)
    : option (nat * list Z * list T) :=
    if eqz v then Some (nnz, ri, rd)
    else match set_nth ri nnz j, set_nth rd nnz v with
         | Some ri', Some rd' => Some (S nnz, ri', rd')
         | _, _ => None
         end.

  Section Loops.
    Variables (ind1 : list Z) (data1 : list T) (ind2 : list Z) (data2 : list T).

    (* while i1 < ind1.shape[0] and i2 < ind2.shape[0]: ... *)
    Fixpoint sum_main (fuel i1 i2 nnz : nat) (ri : list Z) (rd : list T)
      : option (nat * nat * nat * list Z * list T) :=
      match fuel with
      | O => Some (i1, i2, nnz, ri, rd)
      | S f =>
        if (i1 <? length ind1)%nat && (i2 <? length ind2)%nat then
          match nth_error ind1 i1, nth_error ind2 i2 with
          | Some j1, Some j2 =>
            if j1 =? j2 then
              match nth_error data1 i1, nth_error data2 i2 with
              | Some d1, Some d2 =>
                match emit nnz ri rd j1 (add d1 d2) with
                | Some (nnz', ri', rd') => sum_main f (S i1) (S i2) nnz' ri' rd'
                | None => None
                end
              | _, _ => None
              end
            else if j1 <? j2 then
              match nth_error data1 i1 with
              | Some d1 =>
                match emit nnz ri rd j1 d1 with
                | Some (nnz', ri', rd') => sum_main f (S i1) i2 nnz' ri' rd'
                | None => None
                end
              | None => None
              end
            else
              match nth_error data2 i2 with
              | Some d2 =>
                match emit nnz ri rd j2 d2 with
                | Some (nnz', ri', rd') => sum_main f i1 (S i2) nnz' ri' rd'
                | None => None
                end
              | None => None
              end
          | _, _ => None
          end
        else Some (i1, i2, nnz, ri, rd)
      end.

    (* sparse_mul: only equal indices write *)
    Fixpoint mul_main (fuel i1 i2 nnz : nat) (ri : list Z) (rd : list T)
      : option (nat * list Z * list T) :=
      match fuel with
      | O => Some (nnz, ri, rd)
      | S f =>
        if (i1 <? length ind1)%nat && (i2 <? length ind2)%nat then
          match nth_error ind1 i1, nth_error ind2 i2 with
          | Some j1, Some j2 =>
            if j1 =? j2 then
              match nth_error data1 i1, nth_error data2 i2 with
              | Some d1, Some d2 =>
                match emit nnz ri rd j1 (mul d1 d2) with
                | Some (nnz', ri', rd') => mul_main f (S i1) (S i2) nnz' ri' rd'
                | None => None
                end
              | _, _ => None
              end
            else if j1 <? j2 then mul_main f (S i1) i2 nnz ri rd
            else mul_main f i1 (S i2) nnz ri rd
          | _, _ => None
          end
        else Some (nnz, ri, rd)
      end.

    (* dense_union: two data buffers, no index buffer is written; a slot that is not written keeps the
       zero np.zeros put there *)
    Definition emit2 (nnz : nat) (r1 r2 : list T) (val : T) (w1 w2 : option T)
      : option (nat * list T * list T) :=
      if eqz val then Some (nnz, r1, r2)
      else
        match (match w1 with Some v => set_nth r1 nnz v | None => Some r1 end),
              (match w2 with Some v => set_nth r2 nnz v | None => Some r2 end) with
        | Some r1', Some r2' => Some (S nnz, r1', r2')
        | _, _ => None
        end.

    Fixpoint du_main (fuel i1 i2 nnz : nat) (r1 r2 : list T)
      : option (nat * nat * nat * list T * list T) :=
      match fuel with
      | O => Some (i1, i2, nnz, r1, r2)
      | S f =>
        if (i1 <? length ind1)%nat && (i2 <? length ind2)%nat then
          match nth_error ind1 i1, nth_error ind2 i2 with
          | Some j1, Some j2 =>
            if j1 =? j2 then
              match nth_error data1 i1, nth_error data2 i2 with
              | Some d1, Some d2 =>
                match emit2 nnz r1 r2 (add d1 d2) (Some d1) (Some d2) with
                | Some (nnz', r1', r2') => du_main f (S i1) (S i2) nnz' r1' r2'
                | None => None
                end
              | _, _ => None
              end
            else if j1 <? j2 then
              match nth_error data1 i1 with
              | Some d1 =>
                match emit2 nnz r1 r2 d1 (Some d1) None with
                | Some (nnz', r1', r2') => du_main f (S i1) i2 nnz' r1' r2'
                | None => None
                end
              | None => None
              end
            else
              match nth_error data2 i2 with
              | Some d2 =>
                match emit2 nnz r1 r2 d2 None (Some d2) with
                | Some (nnz', r1', r2') => du_main f i1 (S i2) nnz' r1' r2'
                | None => None
                end
              | None => None
              end
          | _, _ => None
          end
        else Some (i1, i2, nnz, r1, r2)
      end.
  End Loops.

  (* while i < ind.shape[0]: val = data[i]; if val != 0: result_ind[nnz] = ind[i] ...   (the D20 line) *)
  Fixpoint tail_loop (fuel : nat) (ind : list Z) (data : list T) (i nnz : nat) (ri : list Z) (rd : list T)
    : option (nat * list Z * list T) :=
    match fuel with
    | O => Some (nnz, ri, rd)
    | S f =>
      if (i <? length ind)%nat then
        match nth_error data i, nth_error ind i with
        | Some d, Some j =>
          match emit nnz ri rd j d with
          | Some (nnz', ri', rd') => tail_loop f ind data (S i) nnz' ri' rd'
          | None => None
          end
        | _, _ => None
        end
      else Some (nnz, ri, rd)
    end.

  (* dense_union tails: [first] says which of the two buffers receives the value *)
  Fixpoint du_tail (fuel : nat) (first : bool) (ind : list Z) (data : list T) (i nnz : nat) (r1 r2 : list T)
    : option (nat * list T * list T) :=
    match fuel with
    | O => Some (nnz, r1, r2)
    | S f =>
      if (i <? length ind)%nat then
        match nth_error data i with
        | Some d =>
          match (if first then emit2 nnz r1 r2 d (Some d) None else emit2 nnz r1 r2 d None (Some d)) with
          | Some (nnz', r1', r2') => du_tail f first ind data (S i) nnz' r1' r2'
          | None => None
          end
        | None => None
        end
      else Some (nnz, r1, r2)
    end.

  Definition sparse_sum (ind1 : list Z) (data1 : list T) (ind2 : list Z) (data2 : list T)
    : option (list Z * list T) :=
    let ri0 := arr_union ind1 ind2 in
    let rd0 := repeat zero (length ri0) in
    match sum_main ind1 data1 ind2 data2 (length ind1 + length ind2) 0 0 0 ri0 rd0 with
    | Some (i1, i2, nnz, ri, rd) =>
      match tail_loop (length ind1) ind1 data1 i1 nnz ri rd with
      | Some (nnz1, ri1, rd1) =>
        match tail_loop (length ind2) ind2 data2 i2 nnz1 ri1 rd1 with
        | Some (nnz2, ri2, rd2) => Some (firstn nnz2 ri2, firstn nnz2 rd2)
        | None => None
        end
      | None => None
      end
    | None => None
    end.

  Definition sparse_diff (ind1 : list Z) (data1 : list T) (ind2 : list Z) (data2 : list T) :=
    sparse_sum ind1 data1 ind2 (map opp data2).

  Definition sparse_mul (ind1 : list Z) (data1 : list T) (ind2 : list Z) (data2 : list T)
    : option (list Z * list T) :=
    let ri0 := arr_intersect ind1 ind2 in
    let rd0 := repeat zero (length ri0) in
    match mul_main ind1 data1 ind2 data2 (length ind1 + length ind2) 0 0 0 ri0 rd0 with
    | Some (nnz, ri, rd) => Some (firstn nnz ri, firstn nnz rd)
    | None => None
    end.

  Definition dense_union (ind1 : list Z) (data1 : list T) (ind2 : list Z) (data2 : list T)
    : option (list T * list T) :=
    let n0 := length (arr_union ind1 ind2) in
    match du_main ind1 data1 ind2 data2 (length ind1 + length ind2) 0 0 0 (repeat zero n0) (repeat zero n0) with
    | Some (i1, i2, nnz, r1, r2) =>
      match du_tail (length ind1) true ind1 data1 i1 nnz r1 r2 with
      | Some (nnz1, r1a, r2a) =>
        match du_tail (length ind2) false ind2 data2 i2 nnz1 r1a r2a with
        | Some (nnz2, r1b, r2b) => Some (firstn nnz2 r1b, firstn nnz2 r2b)
        | None => None
        end
      | None => None
      end
    | None => None
    end.
End SparseVec.

(* exact instances used by the correspondence (integer-valued data) *)
Definition sparse_sum_Z := sparse_sum Z 0 Z.add (fun x => x =? 0).
Definition sparse_diff_Z := sparse_diff Z 0 Z.add Z.opp (fun x => x =? 0).
Definition sparse_mul_Z := sparse_mul Z 0 Z.mul (fun x => x =? 0).
Definition dense_union_Z := dense_union Z 0 Z.add (fun x => x =? 0).
