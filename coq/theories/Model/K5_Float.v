(* K5 (floating-point instance) — the four float operations of Model/K5_Vocab.v computed with Flocq's executable
   IEEE-754 model (BinarySingleNaN: binary_normalize, Bdiv), round-to-nearest-even.
   Definitions only; proofs are in Proofs/K5_Float_proofs.v.

   A finite float of a format (prec, emax) is an integer multiple of 2^emin, emin = 3 - emax - prec
   (binary32: 2^-149, binary64: 2^-1074).  [key] returns that integer multiple; infinities/NaN (never produced
   from counts and totals > 0) are mapped to 0.

     f32div_fl c n   <- np.bincount(...).astype(np.float32) / n_tokens : both operands converted to float32
                        (rounded if >= 2^24), one float32 division
     f64div_fl k n   <- min_occurrences / total_tokens, doc_freq / len(docs) : float64 quotient of the two integers
                        (exact operands below 2^53)
     f64to32_fl x    <- the conversion numpy applies to a python float compared with a float32 array *)
From Coq Require Import ZArith.
From Flocq Require Import Core BinarySingleNaN.
Open Scope Z_scope.

Section Fmt.
Variables prec emax : Z.
Context (Hprec : Prec_gt_0 prec) (Hmax : Prec_lt_emax prec emax).

Definition ofZ (z : Z) : binary_float prec emax := binary_normalize prec emax Hprec Hmax mode_NE z 0 false.
Definition fdiv (c n : Z) : binary_float prec emax := Bdiv mode_NE (ofZ c) (ofZ n).
Definition key (x : binary_float prec emax) : Z :=
  match x with
  | B754_finite s m e _ => Z.shiftl (cond_Zopp s (Zpos m)) (e - (3 - emax - prec))
  | _ => 0
  end.
End Fmt.

Definition f32div_fl (c n : Z) : Z := key 24 128 (fdiv 24 128 eq_refl eq_refl c n).
Definition f64div_fl (k n : Z) : Z := key 53 1024 (fdiv 53 1024 eq_refl eq_refl k n).
Definition f64to32_fl (x : Z) : Z :=
  key 24 128 (binary_normalize 24 128 eq_refl eq_refl mode_NE x (-1074) false).
Definition one64_fl : Z := Z.shiftl 1 1074.


