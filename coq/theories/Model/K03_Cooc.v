(* K3 — executable model of the four skip-gram drivers as *event list* generators:
     token_cooccurrence_vectorizer.numba_build_skip_grams
     ngram_token_cooccurence_vectorizer.numba_build_skip_grams
     timed_token_cooccurrence_vectorizer.numba_build_skip_grams
     multi_token_cooccurence_vectorizer.numba_build_multi_skip_grams (+ the per-document loop of _build_coo)
   and of base_cooccurrence_vectorizer's orientation expansion (__init__) and _set_column_dicts.
   The accumulator (coo_append ... merge_all_sum_duplicates) is K1; its interface here is
   "matrix = sum of the appended events by (row, col)" = sumby.

   Every driver is: for each document, for each target occurrence, build one (window, kernel) pair per block i,
   compute the window total, then for block i, for slot j: val = ker[j]/total; if val > 0: append
   (row, context + i*n, val) to accumulator i.   The last part is shared: occ_events.
*)
From Coq Require Import List Arith Bool.
From VZ Require Import Model.K02_Windows.
Import ListNotations.

(* an appended event: (accumulator/block index, row, col, val) *)
Definition event (K : carrier) : Type := (nat * nat * nat * K)%type.
Definition e_blk {K} (e : event K) : nat := fst (fst (fst e)).
Definition e_row {K} (e : event K) : nat := snd (fst (fst e)).
Definition e_col {K} (e : event K) : nat := snd (fst e).
Definition e_val {K} (e : event K) : K := snd e.

(* interface of the accumulator: entry (r, c) of the assembled matrix *)
Definition sumby {K : carrier} (evs : list (event K)) (r c : nat) : K :=
  tsum (map (fun e => if Nat.eqb (e_row e) r && Nat.eqb (e_col e) c then e_val e else zero) evs).

(* contents of accumulator i *)
Definition coo_of {K} (i : nat) (evs : list (event K)) : list (event K) :=
  filter (fun e => Nat.eqb (e_blk e) i) evs.

(* one target occurrence: its row and, per block, the window's context ids and the (mix-weighted) kernel values *)
Definition occurrence (K : carrier) : Type := (nat * list (list nat * list K))%type.

Definition occ_total {K : carrier} (normalize_windows : bool) (wk : list (list nat * list K)) : K :=
  if normalize_windows
  then let t := tsum (map (fun x => tsum (snd x)) wk) in if gtb0 t then t else one   (* total <= 0 -> 1 *)
  else one.

Definition slot_events {K : carrier} (n i row : nat) (tot : K) (win : list nat) (ker : list K) : list (event K) :=
  flat_map (fun ck => let v := div (snd ck) tot in
                      if gtb0 v then [(i, row, fst ck + i * n, v)] else [])
           (combine win ker).

Definition occ_events {K : carrier} (normalize_windows : bool) (n : nat) (o : occurrence K) : list (event K) :=
  let tot := occ_total normalize_windows (snd o) in
  flat_map (fun iwk => slot_events n (fst iwk) (fst o) tot (fst (snd iwk)) (snd (snd iwk)))
           (combine (seq 0 (length (snd o))) (snd o)).

(* one block = one (window, orientation) pair after the orientation expansion *)
Record block (K : carrier) := {
  b_rev : bool;             (* _window_reversals[i] *)
  b_radii : list nat;       (* _window_len_array[i]  (per row id) *)
  b_kf : nat -> K;          (* weight of distance k: flat 1 | harmonic 1/k | geometric power^k *)
  b_mask : option nat;      (* kernel arg mask_index *)
  b_norm : bool;            (* kernel arg normalize *)
  b_off : nat;              (* kernel arg offset *)
  b_mix : K                 (* _mix_weights[i] *)
}.
Arguments b_rev {K}. Arguments b_radii {K}. Arguments b_kf {K}. Arguments b_mask {K}.
Arguments b_norm {K}. Arguments b_off {K}. Arguments b_mix {K}.

(* ---------- token driver ---------- *)

Definition token_occ {K : carrier} (blocks : list (block K)) (s : list nat) (p : nat) : occurrence K :=
  let tgt := nth p s 0 in
  (tgt, map (fun b => let w := window_at_index s (nth tgt (b_radii b) 0) p (b_rev b) in
                      (w, map (mul (b_mix b)) (kernel (b_kf b) (b_mask b) (b_norm b) (b_off b) w)))
            blocks).

Definition token_doc_events {K : carrier} (blocks : list (block K)) (nw : bool) (n : nat) (s : list nat) : list (event K) :=
  flat_map (fun p => occ_events nw n (token_occ blocks s p)) (seq 0 (length s)).

Definition token_events {K : carrier} (blocks : list (block K)) (nw : bool) (n : nat) (docs : list (list nat)) : list (event K) :=
  flat_map (token_doc_events blocks nw n) docs.

(* ---------- n-gram driver ---------- *)
(* ngram_dictionary is an association list from n-grams (lists of token ids) to row ids *)
Fixpoint list_eqb (a b : list nat) : bool :=
  match a, b with
  | [], [] => true
  | x :: a', y :: b' => Nat.eqb x y && list_eqb a' b'
  | _, _ => false
  end.

Fixpoint dict_find (dict : list (list nat * nat)) (g : list nat) : option nat :=
  match dict with
  | [] => None
  | (k, v) :: rest => if list_eqb k g then Some v else dict_find rest g
  end.

(* w_i = position of the n-gram's LAST token; the 'before' window is anchored at its first token *)
Definition ngram_occ {K : carrier} (blocks : list (block K)) (ngram_size : nat) (row : nat) (s : list nat) (w_i : nat)
  : occurrence K :=
  (row, map (fun b => let anchor := w_i - (if b_rev b then 1 else 0) * (ngram_size - 1) in
                      let w := window_at_index s (nth row (b_radii b) 0) anchor (b_rev b) in
                      (w, map (mul (b_mix b)) (kernel (b_kf b) (b_mask b) (b_norm b) (b_off b) w)))
            blocks).

Definition ngram_doc_events {K : carrier} (blocks : list (block K)) (nw : bool) (n : nat)
           (dict : list (list nat * nat)) (ngram_size : nat) (s : list nat) : list (event K) :=
  flat_map (fun w_i =>
              match dict_find dict (slice (w_i + 1 - ngram_size) (w_i + 1) s) with
              | Some row => occ_events nw n (ngram_occ blocks ngram_size row s w_i)
              | None => []
              end)
           (seq (ngram_size - 1) (length s - (ngram_size - 1))).   (* range(ngram_size - 1, len(seq)) *)

Definition ngram_events {K : carrier} (blocks : list (block K)) (nw : bool) (n : nat)
           (dict : list (list nat * nat)) (ngram_size : nat) (docs : list (list nat)) : list (event K) :=
  flat_map (ngram_doc_events blocks nw n dict ngram_size) docs.

(* ---------- timed driver ---------- *)
(* items are (token id, timestamp); timestamps live in any type Tm with an absolute difference;
   the kernel's base weight is g(|t_q - t_p|)  (timed_flat: g = 1, timed_geometric: power ** (delta / delta_mean)) *)
Record tblock (K : carrier) (Tm : Type) := {
  tb_rev : bool; tb_radii : list nat; tb_g : Tm -> K; tb_mask : option nat; tb_norm : bool; tb_off : nat; tb_mix : K
}.
Arguments tb_rev {K Tm}. Arguments tb_radii {K Tm}. Arguments tb_g {K Tm}. Arguments tb_mask {K Tm}.
Arguments tb_norm {K Tm}. Arguments tb_off {K Tm}. Arguments tb_mix {K Tm}.

Definition timed_occ {K : carrier} {Tm : Type} (absdiff : Tm -> Tm -> Tm) (t0 : Tm)
           (blocks : list (tblock K Tm)) (s : list (nat * Tm)) (p : nat) : occurrence K :=
  let tgt := fst (nth p s (0, t0)) in
  let ttime := snd (nth p s (0, t0)) in
  (tgt, map (fun b => let win := window_at_index s (nth tgt (tb_radii b) 0) p (tb_rev b) in
                      let this_window := map fst win in
                      let time_deltas := map (fun w => absdiff (snd w) ttime) win in
                      (this_window, map (mul (tb_mix b))
                                        (timed_kernel (tb_g b) (tb_mask b) (tb_norm b) (tb_off b) this_window time_deltas)))
            blocks).

Definition timed_doc_events {K : carrier} {Tm : Type} (absdiff : Tm -> Tm -> Tm) (t0 : Tm)
           (blocks : list (tblock K Tm)) (nw : bool) (n : nat) (s : list (nat * Tm)) : list (event K) :=
  flat_map (fun p => occ_events nw n (timed_occ absdiff t0 blocks s p)) (seq 0 (length s)).

Definition timed_events {K : carrier} {Tm : Type} (absdiff : Tm -> Tm -> Tm) (t0 : Tm)
           (blocks : list (tblock K Tm)) (nw : bool) (n : nat) (docs : list (list (nat * Tm))) : list (event K) :=
  flat_map (timed_doc_events absdiff t0 blocks nw n) docs.

(* ---------- multiset driver ---------- *)
(* a document is a list of multisets; target = token w_i of multiset d_i; the window of block i is the list of
   multisets d_i .. d_i+R (resp. d_i, d_i-1 .. d_i-R), R = radius of the target token (after the D25 repair);
   b_kf 0 is the weight of the target's own multiset, b_kf k of the multiset at distance k *)
Definition multi_window {A} (doc : list A) (R d_i : nat) (reverse : bool) : list A :=
  if reverse then rev (slice (Nat.max (d_i - R) 0) (d_i + 1) doc)
  else slice d_i (Nat.min (length doc) (d_i + R + 1)) doc.

Definition multi_occ {K : carrier} (blocks : list (block K)) (doc : list (list nat)) (d_i w_i : nat) : occurrence K :=
  let tgt := nth w_i (nth d_i doc []) 0 in
  (tgt, map (fun b => let mw := multi_window doc (nth tgt (b_radii b) 0) d_i (b_rev b) in
                      (concat mw, map (mul (b_mix b)) (multi_kernel (b_kf b) (b_mask b) (b_norm b) (b_off b) mw w_i)))
            blocks).

Definition multi_doc_events {K : carrier} (blocks : list (block K)) (nw : bool) (n : nat) (doc : list (list nat)) : list (event K) :=
  flat_map (fun d_i => flat_map (fun w_i => occ_events nw n (multi_occ blocks doc d_i w_i))
                                (seq 0 (length (nth d_i doc []))))
           (seq 0 (length doc)).

Definition multi_events {K : carrier} (blocks : list (block K)) (nw : bool) (n : nat) (docs : list (list (list nat))) : list (event K) :=
  flat_map (multi_doc_events blocks nw n) docs.

(* ---------- orientation expansion and column dictionary ---------- *)
Inductive orientation := Before | After | Directional.

(* BaseCooccurrenceVectorizer.__init__: _window_reversals (and, in the same way, radii, mix weights, kernel
   and window args: each per-window parameter x is expanded into [x; x] for 'directional') *)
Definition expand {A} (os : list orientation) (xs : list A) : list A :=
  flat_map (fun ox => match fst ox with Directional => [snd ox; snd ox] | _ => [snd ox] end) (combine os xs).

Definition reversals (os : list orientation) : list bool :=
  flat_map (fun o => match o with Directional => [true; false] | Before => [true] | After => [false] end) os.

(* _set_column_dicts: entries (is_pre, window index, token index, column), colonnade advancing per block *)
Fixpoint column_dict_from (n : nat) (tokens : list nat) (os : list orientation) (i colonnade : nat)
  : list (bool * nat * nat * nat) :=
  match os with
  | [] => []
  | o :: rest =>
      let mk pre col := map (fun t => (pre, i, t, t + col * n)) tokens in
      match o with
      | Directional => mk true colonnade ++ mk false (colonnade + 1) ++ column_dict_from n tokens rest (S i) (colonnade + 2)
      | Before => mk true colonnade ++ column_dict_from n tokens rest (S i) (colonnade + 1)
      | After => mk false colonnade ++ column_dict_from n tokens rest (S i) (colonnade + 1)
      end
  end.

Definition column_dict (n : nat) (os : list orientation) : list (bool * nat * nat * nat) :=
  column_dict_from n (seq 0 n) os 0 0.
