(* K15 (KDE, executable part) — model of vectorizers/kde_vectorizer.py KDEVectorizer for every kernel the estimator
   accepts, of the evaluation grid chosen by fit, and of the arithmetic part of the bandwidth selection.
   Definitions only; proofs are in Proofs/K15_KDEexec_proofs.v.  The carrier is abstract (Ops of Model/K12_Dist.v plus
   exp, cos, pi): the theorems instantiate it with R, the correspondence runs with binary64 (Model/K15_KDE_Float.v).

   Correspondence with the code (what each definition mirrors):
     kval k d h        <- exp(compute_log_kernel(dist, h, kernel)) of sklearn/neighbors/_binary_tree.pxi.tp, the kernel
                          value of ONE training point at distance d = |g - x| >= 0 (KernelDensity works in log space and
                          KDEVectorizer.transform takes np.exp of score_samples):
                            gaussian      exp(-0.5 * (d * d) / (h * h))
                            tophat        1 if d < h else 0
                            epanechnikov  1 - (d * d) / (h * h) if d < h else 0
                            exponential   exp(-d / h)
                            linear        1 - d / h if d < h else 0
                            cosine        cos(0.5 * pi * d / h) if d < h else 0
     knorm k           <- exp(_log_kernel_norm(h, d = 1, kernel)) * h : the 1-dimensional normalisation constants
                            1/sqrt(2 pi), 1/2, 3/4, 1/2, 1, pi/4
     kern k h g x      <- knorm k * kval k |g - x| h / h, the contribution of the sample point x at the grid point g
     kde_row_k         <- one row of KDEVectorizer.transform: kde.fit(sample[:, None]);
                          np.exp(kde.score_samples(evaluation_grid_[:, None]))  =  (sum over the sample of kern) / len(sample)
                          (kde_row / kde_at / ksum of Model/K15_HistKDE.v, Section KDE)
     kde_transform_k   <- KDEVectorizer.transform (one row per sequence)
     np_linspace       <- np.linspace(start, stop, num): arange(num) * ((stop - start) / (num - 1)) + start, last := stop
                          (the `step == 0` branch divides first: arange(num) / (num - 1) * (stop - start))
     kde_grid_uniform  <- np.linspace(min, max, n_components), exact arithmetic (strategy 'uniform')
     quantile_at / kde_grid_density <- np.quantile(combined_data, np.linspace(0, 1, n_components)) with the default
                          'linear' method, exact arithmetic: virtual index p = q (N - 1), q = i / (n - 1);
                          sorted[floor p] + (sorted[floor p + 1] - sorted[floor p]) * frac p      (strategy 'density')
     sort_T            <- np.sort
     min_non_zero_difference <- kde_vectorizer.min_non_zero_difference (None = np.min of an empty array raises)
     bw_max            <- (max - min) / np.mean([len(x) for x in X])
     bw_candidates     <- 10.0 ** np.linspace(np.log10(min_bandwidth), np.log10(max_bandwidth), 50)
     bw_select         <- bandwidths[np.argmax(jackknifed_total_likelihoods)]; the likelihoods (KernelDensity fitted on
                          every jack-knife sample) are DATA here: that search stays an oracle
*)
From Coq Require Import QArith List Bool Arith.
From VZ Require Import Model.K12_Dist Model.K15_HistKDE.
Import ListNotations.

Inductive kernel := Gaussian | Tophat | Epanechnikov | Exponential | Linear | Cosine.

Definition finite_support (k : kernel) : bool :=
  match k with Gaussian | Exponential => false | _ => true end.

Section Kernels.
  Variable T : Type.
  Variable OP : Ops T.
  Variables (exp cos : T -> T) (pi : T).
  Let zero := o_zero T OP. Let one := o_one T OP. Let half := o_half T OP.
  Let add := o_add T OP. Let sub := o_sub T OP. Let mul := o_mul T OP. Let div := o_div T OP.
  Let opp := o_opp T OP. Let sqrt := o_sqrt T OP. Let abs := o_abs T OP. Let ln := o_ln T OP.
  Let eqz := o_eqz T OP. Let ltb := o_ltb T OP. Let of_nat := o_of_nat T OP.

  Definition kval (k : kernel) (d h : T) : T :=
    match k with
    | Gaussian => exp (div (mul (opp half) (mul d d)) (mul h h))
    | Tophat => if ltb d h then one else zero
    | Epanechnikov => if ltb d h then sub one (div (mul d d) (mul h h)) else zero
    | Exponential => exp (div (opp d) h)
    | Linear => if ltb d h then sub one (div d h) else zero
    | Cosine => if ltb d h then cos (div (mul (mul half pi) d) h) else zero
    end.

  Definition knorm (k : kernel) : T :=
    match k with
    | Gaussian => div one (sqrt (mul (of_nat 2) pi))
    | Tophat => half
    | Epanechnikov => div (of_nat 3) (of_nat 4)
    | Exponential => half
    | Linear => one
    | Cosine => div pi (of_nat 4)
    end.

  Definition kern (k : kernel) (h g x : T) : T := div (mul (knorm k) (kval k (abs (sub g x)) h)) h.

  Definition kde_row_k (k : kernel) (h : T) (grid xs : list T) : list T :=
    kde_row T add div zero of_nat (kern k) h grid xs.

  Definition kde_transform_k (k : kernel) (h : T) (grid : list T) (X : list (list T)) : list (list T) :=
    kde_transform T add div zero of_nat (kern k) h grid X.

  (* ---------- np.linspace ---------- *)
  Definition np_linspace (start stop : T) (num : nat) : list T :=
    match num with
    | O => []
    | S O => [start]
    | S dv =>
        let delta := sub stop start in
        let step := div delta (of_nat dv) in
        map (fun i => add (if eqz step then mul (div (of_nat i) (of_nat dv)) delta else mul (of_nat i) step) start)
            (seq 0 dv) ++ [stop]
    end.

  (* ---------- bandwidth selection: the arithmetic around the jack-knife search ---------- *)
  Fixpoint insert_T (x : T) (l : list T) : list T :=
    match l with
    | [] => [x]
    | y :: t => if ltb x y then x :: y :: t else y :: insert_T x t
    end.
  Definition sort_T (l : list T) : list T := fold_right insert_T [] l.

  Definition seq_diffs (s : list T) : list T := map (fun p => sub (snd p) (fst p)) (combine s (tl s)).

  Definition min_T (l : list T) : option T :=
    match l with [] => None | x :: t => Some (fold_left (fun m y => if ltb y m then y else m) t x) end.
  Definition max_T (l : list T) : option T :=
    match l with [] => None | x :: t => Some (fold_left (fun m y => if ltb m y then y else m) t x) end.

  Definition min_non_zero_difference (data : list T) : option T :=
    min_T (filter (fun d => ltb zero d) (seq_diffs (sort_T data))).

  Definition bw_max (data : list T) (lens : list nat) : option T :=
    match min_T data, max_T data with
    | Some mn, Some mx => Some (div (sub mx mn) (div (of_nat (list_sum lens)) (of_nat (length lens))))
    | _, _ => None
    end.

  Definition ln10 : T := ln (of_nat 10).
  Definition log10_T (x : T) : T := div (ln x) ln10.
  Definition pow10_T (y : T) : T := exp (mul y ln10).

  Definition bw_grid (mn mx : T) (num : nat) : list T := map pow10_T (np_linspace (log10_T mn) (log10_T mx) num).

  Definition bw_candidates (data : list T) (lens : list nat) : option (list T) :=
    match min_non_zero_difference data, bw_max data lens with
    | Some mn, Some mx => Some (bw_grid mn mx 50)
    | _, _ => None
    end.

  (* np.argmax: index of the first maximum *)
  Fixpoint argmax_from (i best : nat) (bv : T) (l : list T) : nat :=
    match l with
    | [] => best
    | y :: t => if ltb bv y then argmax_from (S i) i y t else argmax_from (S i) best bv t
    end.
  Definition argmax_T (l : list T) : nat := match l with [] => 0%nat | x :: t => argmax_from 1 0 x t end.

  Definition bw_select (cands likelihoods : list T) : T := nth (argmax_T likelihoods) cands zero.
End Kernels.

(* ---------- the evaluation grid of fit, exact rationals ---------- *)
Definition kde_grid_uniform (lo hi : Q) (n : nat) : list Q :=
  match n with
  | O => []
  | S O => [lo]
  | S m => linspace lo hi m
  end.

Fixpoint qinsert (x : Q) (l : list Q) : list Q :=
  match l with
  | [] => [x]
  | y :: t => if Qle_bool x y then x :: y :: t else y :: qinsert x t
  end.
Definition qsort (l : list Q) : list Q := fold_right qinsert [] l.

(* the q = i/m quantile (m = n_components - 1 >= 1) of the sorted sample s, N = length s >= 1 *)
Definition quantile_at (s : list Q) (m i : nat) : Q :=
  let N1 := (length s - 1)%nat in
  let lo := ((i * N1) / m)%nat in
  let gamma := inject_Z (Z.of_nat ((i * N1) mod m)) / inject_Z (Z.of_nat m) in
  let a := nth lo s 0 in
  let b := nth (Nat.min (S lo) N1) s 0 in
  a + (b - a) * gamma.

Definition kde_grid_density (flat : list Q) (n : nat) : list Q :=
  let s := qsort flat in
  match n with
  | O => []
  | S O => [nth 0 s 0]
  | S m => map (quantile_at s m) (seq 0 n)
  end.

Definition kde_fit_grid (density : bool) (flat : list Q) (n : nat) : list Q :=
  if density then kde_grid_density flat n else kde_grid_uniform (list_min 0 flat) (list_max 0 flat) n.
