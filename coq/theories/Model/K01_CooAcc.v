(* K1 — executable array-level model of the COO accumulator of vectorizers/coo_utils.py
   (coo_append, coo_sum_duplicates, merge_sum_duplicates, merge_all_sum_duplicates, coo_increase_mem)
   and of the document chunking of base_cooccurrence_vectorizer.py (_generate_chunk_boundaries).
   Definitions only; proofs are in Proofs/K01_CooAcc_proofs.v.

   What each definition mirrors (repaired code: D1 flush rule `if upper_lim > lower_lim`):
     coo            <- CooArray(row, col, val, key, ind, min, depth).  The four data arrays are always allocated
                       with one common length (the four drivers, coo_increase_mem: same expression on the same
                       shape), so they are modelled as ONE list of entries (row, col, val, key); a checked access
                       to entry i stands for the checked accesses to row[i], col[i], val[i], key[i], which succeed
                       or fail together.  Everything above `ind` is stale memory and is part of the state.
     getZ / setZ    <- a[i] / a[i] = v with bounds check: every access returns `OOB site` when out of range
                       (compiled numba code would read or corrupt foreign memory there).
     slice, assign_slice, fill_prefix <- python slices clamp; `a[lo:up] = b` needs equal lengths; `a[:i] = scalar`
     sort_by_key    <- perm = np.argsort(key[lo:up]) followed by the four fancy-index write-backs: the window is
                       replaced by a key-sorted permutation of itself; modelled as a STABLE insertion sort (numpy's
                       default is an unstable introsort: for equal keys only the order of the values may differ, and
                       they are summed by the next loop; (row, col) are functions of the key).
     sd_loop        <- the run-length summing loop of coo_sum_duplicates (in place, reads at i, writes at sum_ind)
     take/merge_loop/drain <- the three while loops of merge_sum_duplicates; the result_* arrays are the reversed
                       list `acc` (head = slot result_ptr, last = the sentinel slot 0 with key -1)
     msd_loop       <- `for i in range(depth)` of merge_sum_duplicates with its break
     merge_all_sum_duplicates, coo_increase_mem, coo_append <- the functions of the same name
     grow_size      <- np.int32(max(np.round(COO_MEM_MULTIPLIER * n), COO_QUICKSORT_LIMIT + 1)), multiplier 3/2,
                       np.round = round half to even
     `20 * ind >= 19 * cap` <- `ind >= 0.95 * cap` (float64; equivalent for cap < 2^31: 0.95*cap is within 1e-6
                       of 19*cap/20, whose fractional part is a multiple of 1/20, and is exactly the integer
                       when 19*cap/20 is one)
     limit          <- COO_QUICKSORT_LIMIT (a parameter of the model)
   Values are integers (integer-valued float32 events below 2^24 are exact). *)
From Coq Require Import ZArith List Bool Lia.
Import ListNotations.
Open Scope Z_scope.

(* ---------------------------------------------------------------- error monad with named sites *)
Inductive site :=
| S_append_write      (* coo.row/col/val/key[coo.ind[0]] = tup[..]                       coo_append *)
| S_append_min0       (* np.abs(coo.min[0]) in the first test                            coo_append *)
| S_tail_min0         (* np.abs(coo.min[0]) in `shape - |min[0]| <= LIMIT`               coo_append *)
| S_sd_min0           (* lower_lim = np.abs(coo.min[0])                                  coo_sum_duplicates *)
| S_sd_sort           (* coo.row[lo:up] = coo.row[lo:up][perm] ...  (cannot fail: equal lengths) coo_sum_duplicates *)
| S_sd_first          (* this_row = coo.row[lower_lim] ...                               coo_sum_duplicates *)
| S_sd_read           (* coo.key[i], coo.val[i], coo.row[i], coo.col[i] in the loop      coo_sum_duplicates *)
| S_sd_write          (* coo.row[sum_ind] = this_row ... in the loop                     coo_sum_duplicates *)
| S_sd_flush          (* coo.row[sum_ind] = this_row ... after the loop                  coo_sum_duplicates *)
| S_ms_min_i          (* coo.min[i]                                                      merge_sum_duplicates *)
| S_ms_min_i1         (* coo.min[i + 1]                                                  merge_sum_duplicates *)
| S_ms_min_set        (* coo.min[i] = coo.ind[0]                                         merge_sum_duplicates *)
| S_ms_alloc          (* np.zeros(array_len) with array_len <= 0 / result_key[0] = -1    merge_sum_duplicates *)
| S_ms_read           (* coo.key[ptr1], coo.key[ptr2], coo.*[this_ptr]                   merge_sum_duplicates *)
| S_ms_res            (* result_*[result_ptr] after result_ptr += 1                      merge_sum_duplicates *)
| S_ms_writeback      (* coo.row[|min[i+1]| : ind] = result_row[1:]  (shape mismatch)    merge_sum_duplicates *)
| S_ms_newdepth       (* coo.min[coo.depth[0]] = coo.ind[0]                              merge_sum_duplicates *)
| S_ma_min_i          (* coo.min[i] in the compaction loop                               merge_all_sum_duplicates *)
| S_ma_assign.        (* coo.min[:depth] = new_min  (shape mismatch)                     merge_all_sum_duplicates *)

Inductive res (A : Type) := Ok (a : A) | OOB (s : site).
Arguments Ok {A} a.
Arguments OOB {A} s.

Definition bind {A B} (r : res A) (f : A -> res B) : res B :=
  match r with Ok a => f a | OOB s => OOB s end.
Notation "x <- e ;; f" := (bind e (fun x => f)) (at level 61, e at next level, right associativity).
Notation "' pat <- e ;; f" := (bind e (fun x => match x with pat => f end))
  (at level 61, pat pattern, e at next level, right associativity).

(* ---------------------------------------------------------------- Z-indexed arrays *)
Definition zlen {A} (l : list A) : Z := Z.of_nat (length l).

Definition getZ {A} (s : site) (l : list A) (i : Z) : res A :=
  if i <? 0 then OOB s else
  match nth_error l (Z.to_nat i) with Some a => Ok a | None => OOB s end.

Fixpoint upd {A} (l : list A) (n : nat) (v : A) : list A :=
  match l, n with
  | [], _ => []
  | _ :: t, O => v :: t
  | x :: t, S n' => x :: upd t n' v
  end.

Definition setZ {A} (s : site) (l : list A) (i : Z) (v : A) : res (list A) :=
  if (0 <=? i) && (i <? zlen l) then Ok (upd l (Z.to_nat i) v) else OOB s.

(* a[lo:up] for 0 <= lo (clamps) *)
Definition slice {A} (l : list A) (lo up : Z) : list A :=
  firstn (Z.to_nat (up - lo)) (skipn (Z.to_nat lo) l).

(* a[lo:up] = new ; numpy demands |new| = |a[lo:up]| *)
Definition assign_slice {A} (s : site) (l : list A) (lo up : Z) (new : list A) : res (list A) :=
  if zlen new =? zlen (slice l lo up) then
    if lo <? up then Ok (firstn (Z.to_nat lo) l ++ new ++ skipn (Z.to_nat up) l) else Ok l
  else OOB s.

(* a[:i] = v  (never fails) *)
Definition fill_prefix {A} (l : list A) (i : Z) (v : A) : list A :=
  repeat v (Nat.min (Z.to_nat i) (length l)) ++ skipn (Z.to_nat i) l.

(* ---------------------------------------------------------------- entries and the accumulator state *)
Definition entry := (Z * Z * Z * Z)%type.                   (* row, col, val, key *)
Definition e_row (e : entry) : Z := let '(r, _, _, _) := e in r.
Definition e_col (e : entry) : Z := let '(_, c, _, _) := e in c.
Definition e_val (e : entry) : Z := let '(_, _, v, _) := e in v.
Definition e_key (e : entry) : Z := let '(_, _, _, k) := e in k.
Definition add_val (e : entry) (v : Z) : entry := let '(r, c, v0, k) := e in (r, c, v0 + v, k).
Definition zero_entry : entry := (0, 0, 0, 0).

Record coo := mkCoo { buf : list entry; ind : Z; mn : list Z; depth : Z }.
Definition cap (c : coo) : Z := zlen (buf c).
Definition set_buf (c : coo) b := mkCoo b (ind c) (mn c) (depth c).
Definition set_ind (c : coo) i := mkCoo (buf c) i (mn c) (depth c).
Definition set_mn (c : coo) m := mkCoo (buf c) (ind c) m (depth c).
Definition set_depth (c : coo) d := mkCoo (buf c) (ind c) (mn c) d.

(* ---------------------------------------------------------------- argsort + permuted write-back *)
Fixpoint insert_by_key (e : entry) (l : list entry) : list entry :=
  match l with
  | [] => [e]
  | x :: t => if e_key e <=? e_key x then e :: x :: t else x :: insert_by_key e t
  end.
Definition sort_by_key (l : list entry) : list entry := fold_right insert_by_key [] l.

(* ---------------------------------------------------------------- merge_sum_duplicates *)
(* one step of any of the three while loops: fold coo.*[t] into the result arrays *)
Definition take (b : list entry) (t : Z) (alen : Z) (acc : list entry) : res (list entry) :=
  e <- getZ S_ms_read b t ;;
  match acc with
  | [] => OOB S_ms_alloc
  | h :: tl => if e_key e =? e_key h then Ok (add_val h (e_val e) :: tl)
               else if zlen acc <? alen then Ok (e :: acc) else OOB S_ms_res
  end.

Fixpoint drain (n : nat) (b : list entry) (p : Z) (alen : Z) (acc : list entry) : res (list entry) :=
  match n with
  | O => Ok acc
  | S n' => acc' <- take b p alen acc ;; drain n' b (p + 1) alen acc'
  end.

(* `while ptr1 < mid and ptr2 < up` then the tail loop the code selects; fuel = (mid - p1) + (up - p2) *)
Fixpoint merge_loop (fuel : nat) (b : list entry) (p1 mid p2 up alen : Z) (acc : list entry)
  : res (list entry) :=
  if (p1 <? mid) && (p2 <? up) then
    match fuel with
    | O => Ok acc
    | S f =>
      e1 <- getZ S_ms_read b p1 ;;
      e2 <- getZ S_ms_read b p2 ;;
      if e_key e1 <=? e_key e2
      then acc' <- take b p1 alen acc ;; merge_loop f b (p1 + 1) mid p2 up alen acc'
      else acc' <- take b p2 alen acc ;; merge_loop f b p1 mid (p2 + 1) up alen acc'
    end
  else if p1 >=? mid then drain (Z.to_nat (up - p2)) b p2 alen acc
  else drain (Z.to_nat (mid - p1)) b p1 alen acc.

Definition sentinel : entry := (0, 0, 0, -1).

(* the `else` branch of the level loop: merge run [lo, mid) with run [mid, ind) into [lo, lo + result_ptr) *)
Definition merge_level (c : coo) (i : Z) : res coo :=
  mi <- getZ S_ms_min_i (mn c) i ;;
  mi1 <- getZ S_ms_min_i1 (mn c) (i + 1) ;;
  let lo := Z.abs mi1 in
  let mid := mi in
  let up := ind c in
  let alen := up - lo + 1 in
  if alen <=? 0 then OOB S_ms_alloc else
  acc <- merge_loop (Z.to_nat (mid - lo) + Z.to_nat (up - mid)) (buf c) lo mid mid up alen [sentinel] ;;
  let rp := zlen acc - 1 in
  let result1 := tl (rev acc) ++ repeat zero_entry (Z.to_nat (alen - 1 - rp)) in   (* result_*[1:] *)
  b' <- assign_slice S_ms_writeback (buf c) lo up result1 ;;
  Ok (mkCoo b' (lo + rp) (mn c) (depth c)).

(* `for i in range(depth)`; returns the state and the flag new_depth *)
Fixpoint msd_loop (n : nat) (i : Z) (c : coo) : res (coo * bool) :=
  match n with
  | O => Ok (c, true)
  | S n' =>
    mi <- getZ S_ms_min_i (mn c) i ;;
    if mi <=? 0 then
      let m1 := fill_prefix (mn c) i (- ind c) in
      m2 <- setZ S_ms_min_set m1 i (ind c) ;;
      Ok (set_mn c m2, false)
    else
      c' <- merge_level c i ;;
      msd_loop n' (i + 1) c'
  end.

Definition merge_sum_duplicates (c : coo) : res coo :=
  '(c1, new_depth) <- msd_loop (Z.to_nat (depth c)) 0 c ;;
  if new_depth then
    let m1 := fill_prefix (mn c1) (depth c1) (- ind c1) in
    m2 <- setZ S_ms_newdepth m1 (depth c1) (ind c1) ;;
    Ok (mkCoo (buf c1) (ind c1) m2 (depth c1 + 1))
  else Ok c1.

(* ---------------------------------------------------------------- merge_all_sum_duplicates *)
Fixpoint positives (n : nat) (i : Z) (m : list Z) : res (list Z) :=
  match n with
  | O => Ok []
  | S n' => x <- getZ S_ma_min_i m i ;;
            r <- positives n' (i + 1) m ;;
            Ok (if x >? 0 then x :: r else r)
  end.

Definition merge_all_sum_duplicates (c : coo) : res coo :=
  pos <- positives (Z.to_nat (depth c)) 0 (mn c) ;;
  let new_min := pos ++ repeat 0 (Z.to_nat (depth c) - length pos) in
  m' <- assign_slice S_ma_assign (mn c) 0 (depth c) new_min ;;
  merge_sum_duplicates (set_mn c m').

(* ---------------------------------------------------------------- coo_sum_duplicates *)
Fixpoint sd_loop (n : nat) (b : list entry) (i si : Z) (this : entry) : res (list entry * Z * entry) :=
  match n with
  | O => Ok (b, si, this)
  | S n' =>
    e <- getZ S_sd_read b i ;;
    if e_key e =? e_key this then sd_loop n' b (i + 1) si (add_val this (e_val e))
    else b' <- setZ S_sd_write b si this ;; sd_loop n' b' (i + 1) (si + 1) e
  end.

Definition coo_sum_duplicates (c : coo) : res coo :=
  let up := ind c in
  m0 <- getZ S_sd_min0 (mn c) 0 ;;
  let lo := Z.abs m0 in
  let seg := slice (buf c) lo up in
  b1 <- assign_slice S_sd_sort (buf c) lo up (sort_by_key seg) ;;
  e0 <- getZ S_sd_first b1 lo ;;
  let this0 : entry := (e_row e0, e_col e0, 0, e_key e0) in
  '(b2, si, this) <- sd_loop (Z.to_nat (up - lo)) b1 lo lo this0 ;;
  '(b3, si') <- (if up >? lo then b3 <- setZ S_sd_flush b2 si this ;; Ok (b3, si + 1) else Ok (b2, si)) ;;
  merge_sum_duplicates (mkCoo b3 si' (mn c) (depth c)).

(* ---------------------------------------------------------------- coo_increase_mem *)
(* np.round(a / 2) for a >= 0, half to even *)
Definition round_half_even_div2 (a : Z) : Z :=
  let q := a / 2 in
  if a mod 2 =? 0 then q else if q mod 2 =? 0 then q else q + 1.

Definition grow_size (limit n : Z) : Z := Z.max (round_half_even_div2 (3 * n)) (limit + 1).
Definition grow_min_size (n : Z) : Z := round_half_even_div2 (3 * (n + 2)).

Definition extend {A} (l : list A) (z : A) (n : Z) : list A := l ++ repeat z (Z.to_nat (n - zlen l)).

Definition coo_increase_mem (limit : Z) (c : coo) : coo :=
  mkCoo (extend (buf c) zero_entry (grow_size limit (cap c))) (ind c)
        (extend (mn c) 0 (grow_min_size (zlen (mn c)))) (depth c).

(* ---------------------------------------------------------------- coo_append *)
(* the body shared by the two `if`s of coo_append *)
Definition flush_tail (limit : Z) (c : coo) : res coo :=
  c1 <- coo_sum_duplicates c ;;
  m0 <- getZ S_tail_min0 (mn c1) 0 ;;
  if cap c1 - Z.abs m0 <=? limit then
    c2 <- merge_all_sum_duplicates c1 ;;
    if 20 * ind c2 >=? 19 * cap c2 then Ok (coo_increase_mem limit c2) else Ok c2
  else Ok c1.

Definition coo_append (limit : Z) (c : coo) (ev : entry) : res coo :=
  b <- setZ S_append_write (buf c) (ind c) ev ;;
  let c1 := mkCoo b (ind c + 1) (mn c) (depth c) in
  m0 <- getZ S_append_min0 (mn c1) 0 ;;
  c2 <- (if ind c1 - Z.abs m0 >=? limit then flush_tail limit c1 else Ok c1) ;;
  if ind c2 =? cap c2 - 1 then flush_tail limit c2 else Ok c2.

(* ---------------------------------------------------------------- drivers *)
Fixpoint ceil_log2_fuel (fuel : nat) (n p acc : Z) : Z :=
  match fuel with O => acc | S f => if n <=? p then acc else ceil_log2_fuel f n (2 * p) (acc + 1) end.
Definition ceil_log2 (n : Z) : Z := ceil_log2_fuel 64 n 1 0.

Definition init (n mlen : Z) : coo :=
  mkCoo (repeat zero_entry (Z.to_nat n)) 0 (repeat 0 (Z.to_nat mlen)) 0.
(* as the four drivers allocate it: min has 2 * ceil(log2 n) slots *)
Definition init_default (n : Z) : coo := init n (2 * ceil_log2 n).

Fixpoint appends (limit : Z) (c : coo) (evs : list entry) : res coo :=
  match evs with
  | [] => Ok c
  | e :: t => c' <- coo_append limit c e ;; appends limit c' t
  end.

(* what every driver does after its loops *)
Definition finish (c : coo) : res coo :=
  c1 <- coo_sum_duplicates c ;; merge_all_sum_duplicates c1.

Definition run (limit n mlen : Z) (evs : list entry) : res coo :=
  c <- appends limit (init n mlen) evs ;; finish c.

(* ---------------------------------------------------------------- observation *)
Definition live (c : coo) : list entry := firstn (Z.to_nat (ind c)) (buf c).

Fixpoint sumby (l : list entry) (k : Z) : Z :=
  match l with [] => 0 | e :: t => (if e_key e =? k then e_val e else 0) + sumby t k end.
Definition denote (c : coo) (k : Z) : Z := sumby (live c) k.

(* matrix cell (r, c): what scipy's coo_matrix(...).sum_duplicates() makes of the live triples *)
Fixpoint cell (l : list entry) (r c : Z) : Z :=
  match l with [] => 0 | e :: t => (if (e_row e =? r) && (e_col e =? c) then e_val e else 0) + cell t r c end.

(* digest of the live entries, used by the state-level correspondence: Horner at 33 modulo 2^40 (a small constant
   multiplier on the left and a mask keep vm_compute cheap) *)
Definition digest_mask : Z := 1099511627775.
Definition digest_step (h x : Z) : Z := Z.land (33 * h + x + 1) digest_mask.
Definition digest (l : list entry) : Z :=
  fold_left (fun h e => digest_step (digest_step (digest_step (digest_step h (e_row e)) (e_col e)) (e_val e)) (e_key e))
            l 7.

Fixpoint zlist_eqb (a b : list Z) : bool :=
  match a, b with
  | [], [] => true
  | x :: a', y :: b' => (x =? y) && zlist_eqb a' b'
  | _, _ => false
  end.

(* observation after an op that took c to c': (ind, depth, capacity, |min|, min[:depth+1], digest).  The digest covers
   all live entries, except after a plain append (ind + 1, same depth and min stack), where it covers the appended
   entry only (the entries below were covered by the previous observations). *)
Definition min_view (c : coo) : list Z := firstn (Z.to_nat (depth c + 1)) (mn c).
Definition observe (c c' : coo) : Z * Z * Z * Z * list Z * Z :=
  let plain := (ind c' =? ind c + 1) && (depth c' =? depth c) && (zlen (mn c') =? zlen (mn c))
               && zlist_eqb (min_view c) (min_view c') in
  (ind c', depth c', cap c', zlen (mn c'), min_view c',
   if plain then digest (skipn (Z.to_nat (ind c)) (live c')) else digest (live c')).

Inductive op := OpAppend (e : entry) | OpSum | OpMergeAll.

Definition apply_op (limit : Z) (c : coo) (o : op) : res coo :=
  match o with
  | OpAppend e => coo_append limit c e
  | OpSum => coo_sum_duplicates c
  | OpMergeAll => merge_all_sum_duplicates c
  end.

(* observations after every op; stops at the first fault, which is returned with the number of ops done *)
Fixpoint trace (limit : Z) (c : coo) (ops : list op) : list (Z * Z * Z * Z * list Z * Z) * option site * coo :=
  match ops with
  | [] => ([], None, c)
  | o :: t => match apply_op limit c o with
              | Ok c' => let '(obs, f, cf) := trace limit c' t in (observe c c' :: obs, f, cf)
              | OOB s => ([], Some s, c)
              end
  end.

Definition trace_final (limit n mlen : Z) (ops : list op) :=
  let '(obs, f, cf) := trace limit (init n mlen) ops in (obs, f, live cf).

(* ---------------------------------------------------------------- _generate_chunk_boundaries *)
(* chunk_size = np.ceil(total / n_threads) (float division; exact below 2^53) *)
Definition cdiv (a b : Z) : Z := (a + b - 1) / b.

(* the loop over enumerate(cumulative_sizes): idx = chunk_index, cum = running cumulative size,
   last_end / last_cum = last_chunk_end / last_chunk_cumulative_size; chunks are emitted in order *)
Fixpoint chunk_loop (sizes : list Z) (idx cum last_end last_cum chunk_size : Z) : list (Z * Z) * Z :=
  match sizes with
  | [] => ([], last_end)
  | s :: t =>
    let cum' := cum + s in
    if cum' - last_cum >=? chunk_size
    then let '(cs, le) := chunk_loop t (idx + 1) cum' idx cum' chunk_size in ((last_end, idx) :: cs, le)
    else chunk_loop t (idx + 1) cum' last_end last_cum chunk_size
  end.

Definition chunk_boundaries (sizes : list Z) (n_threads : Z) : list (Z * Z) :=
  let total := fold_right Z.add 0 sizes in
  let chunk_size := cdiv total n_threads in
  let '(cs, le) := chunk_loop sizes 0 0 0 0 chunk_size in
  cs ++ [(le, zlen sizes)].

(* the documents of one chunk: token_sequences[chunk_start:chunk_end] *)
Definition chunk_docs {A} (docs : list A) (ch : Z * Z) : list A := slice docs (fst ch) (snd ch).
