(* K5 — executable model of the vocabulary construction of vectorizers/preprocessing.py:
     construct_token_dictionary_and_frequency, construct_document_frequency, prune_token_dictionary and the
     vocabulary part of preprocess_token_sequences (the other preprocess_* copies make the same calls).
   Definitions only; proofs are in Proofs/K5_Vocab_proofs.v; the floating-point instance is Model/K5_Float.v.

   Conventions
     * tokens: any type T with a boolean equality [eqb] and a boolean strict order [ltb] (python's == and <);
       the regex engine is the function [matches] (re.fullmatch(...) is not None).
     * a python dict is an association list in insertion order; indices are nat.
     * floating-point VALUES are represented by integers ("keys"): a float32 x by x * 2^149, a float64 by
       x * 2^1074 (every finite float is such a multiple), so that IEEE comparison of finite floats is integer
       comparison.  The four float operations the code performs are parameters of the model:
         f32div c n   key32 of  np.float32(c) / np.float32(n)           (token_counts.astype(float32) / n_tokens)
         f64div k n   key64 of  k / n   (python int / int, float64)     (min_occurrences / total_tokens, doc_freq / len)
         f64to32 x    key32 of  np.float32(x) for a float64 x           (numpy compares float32[] with a python float
                                                                         in float32: the scalar is converted)
         one64        key64 of  1.0
       Model/K5_Float.v instantiates them with Flocq's IEEE-754 operations.
     * errors: Err 1 = AssertionError (occurrences and frequency both given and different),
               Err 2 = ZeroDivisionError (occurrence bound on an empty corpus).

   Correspondence with the code
     sorted_set      <- sorted(list(set(token_sequence)))
     mk_dict         <- dict(zip(tokens, range(len(tokens))))
     index_list      <- [token_dictionary[token] for token in token_sequence if token in token_dictionary]
     bincount        <- np.bincount(index_list, minlength)   (construct: minlength = len(token_dictionary), so the
                        frequency table has one entry per dictionary entry, 0 for absent tokens)
     construct       <- construct_token_dictionary_and_frequency
     doc_counts      <- the doc_freq += np.bincount([...set(doc)], minlength=n_tokens) loop
     resolve_min/max <- preprocessing.py:212-249
     prune           <- prune_token_dictionary :251-290
     learn_vocab     <- the first half of preprocess_token_sequences (:614-653)
*)
From Coq Require Import ZArith List Bool Arith.
Import ListNotations.
Open Scope Z_scope.

Inductive res (A : Type) : Type :=
| Ok (a : A)
| Err (code : Z).
Arguments Ok {A} a.
Arguments Err {A} code.

Definition bind {A B} (r : res A) (f : A -> res B) : res B :=
  match r with Ok a => f a | Err c => Err c end.

(* ascending insertion sort of keys: np.sort *)
Fixpoint insertZ (x : Z) (l : list Z) : list Z :=
  match l with
  | [] => [x]
  | h :: r => if x <=? h then x :: l else h :: insertZ x r
  end.
Definition sortZ (l : list Z) : list Z := fold_right insertZ [] l.

Fixpoint vec_add (a b : list Z) : list Z :=
  match a, b with
  | x :: a', y :: b' => (x + y) :: vec_add a' b'
  | _, _ => []
  end.

(* np.bincount(l, minlength): length max(minlength, max l + 1); entry i = number of occurrences of i *)
Definition bincount (l : list nat) (minlength : nat) : list Z :=
  map (fun i => Z.of_nat (count_occ Nat.eq_dec l i))
      (seq 0 (Nat.max minlength (match l with [] => 0 | _ => S (list_max l) end)))%nat.

Record config (T : Type) := {
  ignored : list T;                 (* ignored_tokens / excluded_tokens *)
  use_regex : bool;                 (* excluded_token_regex is not None *)
  max_unique : option nat;          (* max_unique_tokens *)
  min_occ : option Z; max_occ : option Z;
  min_freq : option Z; max_freq : option Z;             (* float64 keys *)
  min_dococc : option Z; max_dococc : option Z;
  min_docfreq : option Z; max_docfreq : option Z        (* float64 keys *)
}.
Arguments ignored {T}. Arguments use_regex {T}. Arguments max_unique {T}.
Arguments min_occ {T}. Arguments max_occ {T}. Arguments min_freq {T}. Arguments max_freq {T}.
Arguments min_dococc {T}. Arguments max_dococc {T}. Arguments min_docfreq {T}. Arguments max_docfreq {T}.

Section Vocab.
Variable T : Type.
Variable eqb ltb : T -> T -> bool.
Variable matches : T -> bool.
Variables f32div f64div : Z -> Z -> Z.
Variable f64to32 : Z -> Z.
Variable one64 : Z.

Definition dict := list (T * nat).

Definition mem (t : T) (l : list T) : bool := existsb (eqb t) l.

(* insertion of t in a strictly sorted list unless already there *)
Fixpoint insert_u (t : T) (l : list T) : list T :=
  match l with
  | [] => [t]
  | h :: r => if eqb t h then l else if ltb t h then t :: l else h :: insert_u t r
  end.
Definition sorted_set (l : list T) : list T := fold_right insert_u [] l.

Definition mk_dict (toks : list T) : dict := combine toks (seq 0 (length toks)).

Fixpoint lookup (d : dict) (t : T) : option nat :=
  match d with
  | [] => None
  | (k, v) :: r => if eqb t k then Some v else lookup r t
  end.

Definition index_list (d : dict) (s : list T) : list nat :=
  flat_map (fun t => match lookup d t with Some i => [i] | None => [] end) s.

(* construct_token_dictionary_and_frequency: (dictionary, float32 frequencies, n_tokens) *)
Definition construct (s : list T) (d0 : option dict) : dict * list Z * Z :=
  let n := Z.of_nat (length s) in
  let d := match d0 with Some d => d | None => mk_dict (sorted_set s) end in
  (d, map (fun c => f32div c n) (bincount (index_list d s) (length d)), n).

(* construct_document_frequency: float64 keys.  set(doc) is modelled by sorted_set doc (bincount does not depend
   on the order); a token of a document missing from the dictionary would be a KeyError in the code — this does
   not happen where the function is called (the dictionary was just built from the same documents). *)
Definition doc_counts (docs : list (list T)) (d : dict) : list Z :=
  fold_left (fun acc doc => vec_add acc (bincount (index_list d (sorted_set doc)) (length d)))
            docs (repeat 0 (length d)).
Definition doc_freqs (docs : list (list T)) (d : dict) : list Z :=
  map (fun c => f64div c (Z.of_nat (length docs))) (doc_counts docs d).

(* preprocessing.py:212-220 and :230-238 *)
Definition resolve_min (occ freq : option Z) (total : Z) : res Z :=
  match occ with
  | None => Ok (match freq with None => 0 | Some f => f end)
  | Some k =>
      if total =? 0 then Err 2
      else match freq with
           | Some f => if f64div k total =? f then Ok f else Err 1
           | None => Ok (f64div k total)
           end
  end.
(* :221-228 and :240-249 *)
Definition resolve_max (occ freq : option Z) (total : Z) : res Z :=
  match occ with
  | None => Ok (match freq with None => one64 | Some f => f end)
  | Some k =>
      if total =? 0 then Err 2
      else match freq with
           | Some f => if f64div k total =? f then Ok f else Err 1
           | None => Ok (Z.min one64 (f64div k total))
           end
  end.

(* np.where(freqs < lo)[0] ∪ np.where(freqs > hi)[0], looked up for dictionary index i *)
Definition out_of_bounds (freqs : list Z) (lo hi : Z) (i : nat) : bool :=
  match nth_error freqs i with
  | Some f => (f <? lo) || (hi <? f)
  | None => false
  end.

Definition top_k (k : option nat) (toks : list T) (freqs : list Z) : list T * list Z :=
  match k with
  | None => (toks, freqs)
  | Some k =>
      if (k <? length freqs)%nat then
        let v := nth (length freqs - k - 1) (sortZ freqs) 0 in       (* np.sort(f)[-k-1] *)
        let sel := filter (fun tf => v <? snd tf) (combine toks freqs) in
        (map fst sel, map snd sel)
      else (toks, freqs)
  end.

Definition prune (c : config T) (d : dict) (tf df : list Z) (total_tokens total_docs : Z)
  : res (dict * list Z) :=
  bind (resolve_min (min_occ c) (min_freq c) total_tokens) (fun lo =>
  bind (resolve_max (max_occ c) (max_freq c) total_tokens) (fun hi =>
  bind (resolve_min (min_dococc c) (min_docfreq c) total_docs) (fun dlo =>
  bind (resolve_max (max_dococc c) (max_docfreq c) total_docs) (fun dhi =>
    let pruned (e : T * nat) :=
        mem (fst e) (ignored c)
        || out_of_bounds tf (f64to32 lo) (f64to32 hi) (snd e)
        || out_of_bounds df dlo dhi (snd e)
        || (use_regex c && matches (fst e)) in
    let kept := filter (fun e => negb (pruned e)) d in
    let toks := map fst kept in
    let freqs := map (fun e => nth (snd e) tf 0) kept in
    let '(toks', freqs') := top_k (max_unique c) toks freqs in
    Ok (mk_dict toks', freqs'))))).

Definition is_some {A} (o : option A) : bool := match o with Some _ => true | None => false end.

(* the document frequencies are computed only if one of these is set (preprocessing.py:623-634) *)
Definition need_doc (c : config T) : bool :=
  is_some (min_docfreq c) || is_some (min_dococc c) || is_some (max_docfreq c) || is_some (max_dococc c)
  || is_some (max_unique c).

(* second stage (ngram_vectorizer.py:252-286, ngram_token_cooccurence_vectorizer.py:490-530): the same
   construction and pruning applied to the documents' n-grams as tokens, without excluded tokens / regex, and the
   document frequencies are computed only if a document bound is set (max_unique_tokens alone does not). *)
Definition need_doc2 (c : config T) : bool :=
  is_some (min_docfreq c) || is_some (min_dococc c) || is_some (max_docfreq c) || is_some (max_dococc c).

Definition stage2_config (c : config T) : config T :=
  {| ignored := []; use_regex := false; max_unique := max_unique c;
     min_occ := min_occ c; max_occ := max_occ c; min_freq := min_freq c; max_freq := max_freq c;
     min_dococc := min_dococc c; max_dococc := max_dococc c;
     min_docfreq := min_docfreq c; max_docfreq := max_docfreq c |}.

(* dictionary construction + pruning; [need] says whether the document frequencies are computed *)
Definition learn_gen (need : bool) (c : config T) (docs : list (list T)) (d0 : option dict)
  : res (dict * list Z) :=
  let '(d_, tf, n) := construct (concat docs) d0 in
  match d0 with
  | Some d => Ok (d, tf)
  | None =>
      let df := if need then doc_freqs docs d_ else [] in
      prune c d_ tf df n (Z.of_nat (length docs))
  end.

(* the vocabulary part of preprocess_token_sequences *)
Definition learn_vocab (c : config T) (docs : list (list T)) (d0 : option dict) : res (dict * list Z) :=
  learn_gen (need_doc c) c docs d0.

(* the n-gram vocabulary: T is the type of n-grams, gram_docs the n-grams of each document *)
Definition learn_ngram_vocab (c : config T) (gram_docs : list (list T)) : res (dict * list Z) :=
  learn_gen (need_doc2 c) (stage2_config c) gram_docs None.

End Vocab.

Arguments dict T : clear implicits.

(* the numeric bounds of a configuration, for another token type (the n-gram stage has no excluded tokens/regex) *)
Definition retype_config {T U} (c : config T) : config U :=
  {| ignored := []; use_regex := false; max_unique := max_unique c;
     min_occ := min_occ c; max_occ := max_occ c; min_freq := min_freq c; max_freq := max_freq c;
     min_dococc := min_dococc c; max_dococc := max_dococc c;
     min_docfreq := min_docfreq c; max_docfreq := max_docfreq c |}.

(* lexicographic order on index tuples (python tuple comparison) *)
Fixpoint lex_ltb (a b : list Z) : bool :=
  match a, b with
  | [], [] => false
  | [], _ :: _ => true
  | _ :: _, [] => false
  | x :: a', y :: b' => (x <? y) || ((x =? y) && lex_ltb a' b')
  end.
Fixpoint lex_eqb (a b : list Z) : bool :=
  match a, b with
  | [], [] => true
  | x :: a', y :: b' => (x =? y) && lex_eqb a' b'
  | _, _ => false
  end.
