(* K20 — a small alias-aware state machine for "calls are free of side effects, repeatable, leave nothing behind".
   Definitions only.  This is a model of WHICH OBJECTS ARE SHARED AND WHICH OPERATIONS MUTATE, not of the numerics:
   what an estimator computes is abstract (Section variables fitf / outf / norm / cachef, ordinary function arguments
   once the section is closed).  The tie to the code is the before/after differential check of harness/c13.py.

   What each definition mirrors:
     dref (Shared | Own)   <- whether the dictionary the estimator works with IS the caller's token_dictionary object
                              (preprocess_*_sequences returned the object it was given) or a copy (repaired code)
     mask_edit             <- `if masking in d: del d[masking]` ... `d[masking] = len(d)` of the four preprocess_* functions
     norm / x_after        <- in-place clean-up of the input object: `row_distribution /= row_sum` on the caller's buffer,
                              X.eliminate_zeros(), tocsc() of a CSC matrix followed by sort_indices()
     e_cache               <- private attributes re-assigned by transform (tree vectorizer's _token_frequencies_, D16)
     scratch               <- the blockwise paths of lot_vectors_* : mkdtemp, np.memmap(mode="w+"), block loop that may
                              raise in block k, os.remove on the success path (original) / try-finally rmtree (repaired)
   `rep = true` is the repaired code (copy before mutating, try/finally), `rep = false` the original. *)
From Coq Require Import List Arith Bool Lia.
Import ListNotations.

Inductive res (A : Type) : Type := Ok (a : A) | Exn.
Arguments Ok {A} a.
Arguments Exn {A}.

Definition dict := list nat.                         (* keys in index order *)
Definition del_key (m : nat) (d : dict) : dict := filter (fun k => negb (k =? m)) d.
Definition add_key (m : nat) (d : dict) : dict := d ++ [m].
Definition mask_edit (mask : option nat) (d : dict) : dict :=
  match mask with None => d | Some m => add_key m (del_key m d) end.

Inductive dref := Shared | Own (d : dict).

(* ---------- temporary paths ---------- *)
Definition rm (p : nat) (fs : list nat) : list nat := remove Nat.eq_dec p fs.

(* the block loop writes into the already existing scratch file: it creates no path; block k raises *)
Fixpoint block_loop (k i todo : nat) (fs : list nat) : res unit * list nat :=
  match todo with
  | O => (Ok tt, fs)
  | S r => if i =? k then (Exn, fs) else block_loop k (S i) r fs
  end.

(* returns (outcome, paths, next fresh name); a single block needs no scratch file at all *)
Definition scratch (rep : bool) (nblocks k : nat) (fs : list nat) (next : nat) : res unit * list nat * nat :=
  if nblocks <=? 1 then (if (0 =? k) && (0 <? nblocks) then Exn else Ok tt, fs, next)
  else
    let d := next in
    let f := S next in
    let fs1 := f :: d :: fs in
    let (r, fs2) := block_loop k 0 nblocks fs1 in
    if rep then (r, rm d (rm f fs2), S (S next))
    else match r with
         | Ok _ => (r, rm f fs2, S (S next))
         | Exn => (r, fs2, S (S next))
         end.

Section K20.
  Variables data model out : Type.
  Variable fitf : dict -> data -> model.
  Variable outf : model -> dict -> data -> out.
  Variable norm : data -> data.
  Variable cachef : data -> nat.

  Record est := { e_dict : dref; e_model : option model; e_cache : nat }.

  Record world := {
    w_est : est;
    w_param : dict;            (* the caller's token_dictionary object (a constructor parameter) *)
    w_fs : list nat;           (* existing temporary paths *)
    w_next : nat               (* next fresh path name *)
  }.

  (* the dictionary the estimator sees through its reference *)
  Definition rd (w : world) : dict :=
    match e_dict (w_est w) with Shared => w_param w | Own d => d end.

  (* an in-place edit through that reference *)
  Definition wr (w : world) (d' : dict) : world :=
    match e_dict (w_est w) with
    | Shared => {| w_est := w_est w; w_param := d'; w_fs := w_fs w; w_next := w_next w |}
    | Own _ => {| w_est := {| e_dict := Own d'; e_model := e_model (w_est w); e_cache := e_cache (w_est w) |};
                  w_param := w_param w; w_fs := w_fs w; w_next := w_next w |}
    end.

  Definition set_est (w : world) (e : est) : world :=
    {| w_est := e; w_param := w_param w; w_fs := w_fs w; w_next := w_next w |}.
  Definition set_fs (w : world) (fs : list nat) (next : nat) : world :=
    {| w_est := w_est w; w_param := w_param w; w_fs := fs; w_next := next |}.

  (* what the caller's input object holds after the call *)
  Definition x_after (rep : bool) (x : data) : data := if rep then x else norm x.

  (* fit(x) with `nblocks` blocks of which block k raises (k >= nblocks: no fault).
     Returns the outcome, the caller's input object after the call, the new world. *)
  Definition fit (rep : bool) (mask : option nat) (x : data) (nblocks k : nat) (w : world)
    : res unit * data * world :=
    (* 1. the dictionary: the estimator takes the caller's object (original) or a copy (repaired), then edits it *)
    let w1 := set_est w {| e_dict := if rep then Own (w_param w) else Shared;
                           e_model := e_model (w_est w); e_cache := e_cache (w_est w) |} in
    let w2 := wr w1 (mask_edit mask (rd w1)) in
    (* 2. blockwise pass over the (cleaned-up) data with a scratch file *)
    let '(r, fs', next') := scratch rep nblocks k (w_fs w2) (w_next w2) in
    let w3 := set_fs w2 fs' next' in
    match r with
    | Exn => (Exn, x_after rep x, w3)
    | Ok _ => (Ok tt, x_after rep x,
               set_est w3 {| e_dict := e_dict (w_est w3); e_model := Some (fitf (rd w3) (norm x));
                             e_cache := cachef x |})
    end.

  (* transform(x); block k of nblocks raises.  The original code edits the fitted dictionary object in place
     (del + re-append of the mask entry), the repaired code edits a copy. *)
  Definition transform (rep : bool) (mask : option nat) (x : data) (nblocks k : nat) (w : world)
    : res out * data * world :=
    match e_model (w_est w) with
    | None => (Exn, x, w)                                        (* NotFittedError before anything is touched *)
    | Some mdl =>
        let d := mask_edit mask (rd w) in
        let w1 := if rep then w else wr w d in
        let w2 := set_est w1 {| e_dict := e_dict (w_est w1); e_model := e_model (w_est w1); e_cache := cachef x |} in
        match fst (block_loop k 0 nblocks []) with
        | Exn => (Exn, x_after rep x, w2)
        | Ok _ => (Ok (outf mdl d (norm x)), x_after rep x, w2)
        end
    end.

  (* observational state: everything a later output can depend on *)
  Definition obs (mask : option nat) (w : world) : option model * dict :=
    (e_model (w_est w), mask_edit mask (rd w)).

  (* a history of transform calls, each on a fresh caller-owned input object, some of them faulting *)
  Definition call := (data * nat * nat)%type.          (* input, number of blocks, faulting block *)

  Fixpoint run_history (rep : bool) (mask : option nat) (w : world) (cs : list call) : list (world * res out) :=
    match cs with
    | [] => []
    | (x, n, k) :: cs' =>
        let '(r, _, w') := transform rep mask x n k w in
        (w', r) :: run_history rep mask w' cs'
    end.

  Definition single (rep : bool) (mask : option nat) (w : world) (c : call) : res out :=
    let '(x, n, k) := c in fst (fst (transform rep mask x n k w)).
End K20.

(* ---------------------------------------------------------------------------------------------------------------
   K20c — a private cache of the estimator that transform CONSULTS, keyed by an auxiliary argument of the call.
   New kind of state (the e_cache above is only ever written): e.g. a (reference x vocabulary) cost matrix kept on
   the estimator between transform(X, vectors=V) calls.  The value depends on the fitted model and on the auxiliary
   argument (costf mdl a); what the call returns depends on the cost that was actually used (outc).
     c_kc = Some (a0, v)   the cache holds v, computed for the auxiliary argument a0 (a0 is ghost state: real code
                           keeps only v and whatever its validity test looks at)
     valid a0 a            the validity test of the code: may the cached value made for a0 be used for a?
                           (equality of the key: sound; "same number of rows": not sound)
     reset                 whether fit drops the cache (true) or leaves it alone (false)
   The cache is filled before the block loop, so a transform that raises in a later block has already replaced it. *)
Section K20c.
  Variables data model out aux cost : Type.
  Variable fitf : dict -> data -> model.
  Variable costf : model -> aux -> cost.
  Variable outc : model -> dict -> data -> aux -> cost -> out.
  Variable norm : data -> data.
  Variable cachef : data -> nat.
  Variable valid : aux -> aux -> bool.

  Record cworld := { c_w : world model; c_kc : option (aux * cost) }.

  (* the cost a transform with auxiliary argument a works with *)
  Definition cost_used (mdl : model) (kc : option (aux * cost)) (a : aux) : cost :=
    match kc with
    | Some (a0, v) => if valid a0 a then v else costf mdl a
    | None => costf mdl a
    end.

  Definition transform_c (rep : bool) (mask : option nat) (x : data) (a : aux) (nblocks k : nat) (cw : cworld)
    : res out * data * cworld :=
    match e_model model (w_est model (c_w cw)) with
    | None => (Exn, x, cw)
    | Some mdl =>
        let v := cost_used mdl (c_kc cw) a in
        let kc' := match c_kc cw with
                   | Some (a0, v0) => if valid a0 a then Some (a0, v0) else Some (a, v)
                   | None => Some (a, v)
                   end in
        let '(r, xa, w') := transform data model out (fun m d y => outc m d y a v) norm cachef rep mask x nblocks k (c_w cw) in
        (r, xa, {| c_w := w'; c_kc := kc' |})
    end.

  Definition fit_c (reset rep : bool) (mask : option nat) (x : data) (nblocks k : nat) (cw : cworld)
    : res unit * data * cworld :=
    let '(r, xa, w') := fit data model fitf norm cachef rep mask x nblocks k (c_w cw) in
    (r, xa, {| c_w := w'; c_kc := if reset then None else c_kc cw |}).

  (* the reference of the harness: the same fitted state with an empty cache (an untouched copy taken after fit) *)
  Definition clear (cw : cworld) : cworld := {| c_w := c_w cw; c_kc := None |}.

  Definition ccall := (data * aux * nat * nat)%type.      (* input, auxiliary argument, number of blocks, faulting block *)

  Fixpoint run_history_c (rep : bool) (mask : option nat) (cw : cworld) (cs : list ccall) : list (cworld * res out) :=
    match cs with
    | [] => []
    | (x, a, n, k) :: cs' =>
        let '(r, _, cw') := transform_c rep mask x a n k cw in
        (cw', r) :: run_history_c rep mask cw' cs'
    end.

  Definition single_c (rep : bool) (mask : option nat) (cw : cworld) (c : ccall) : res out :=
    let '(x, a, n, k) := c in fst (fst (transform_c rep mask x a n k (clear cw))).
End K20c.
