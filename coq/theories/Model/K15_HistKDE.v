(* K15 — executable model of vectorizers/_vectorizers.py HistogramVectorizer (fit's bin construction,
   expand_boundaries, add_outier_bins, find_bin_boundaries, pd.cut + value_counts per row) and of
   vectorizers/kde_vectorizer.py KDEVectorizer.transform (mean of kernels over the sample).
   Definitions only; proofs are in Proofs/K15_HistKDE_proofs.v.

   Numbers: bin edges and values are exact rationals (Q); the absolute range may be infinite, so edges live in
   ext = -inf | Fin q | +inf.  Floats of the implementation are read as exact rationals (float.as_integer_ratio).

   Correspondence with the code (what each definition mirrors):
     in_bin            <- pd.Interval(left, right, closed='right'):  left < x <= right
     cut_one           <- pd.cut(x, IntervalIndex): code of the interval containing x, NaN (None) when there is none
     value_counts      <- Categorical / Series(categorical).value_counts(sort=False): one count per category, in
                          category (= bin) order, NaN codes dropped
     hist_row          <- HistogramVectorizer._vector_transform
     hist_transform    <- HistogramVectorizer.transform (one row per sequence)
     from_breaks       <- pd.IntervalIndex.from_breaks (right-closed)
     linspace          <- np.linspace(start, end, periods + 1) as pd.interval_range uses it (exact arithmetic here;
                          the implementation's floats are compared under a tolerance and CHECKED for the chain)
     interval_range    <- pd.interval_range(start, end, periods)
     find_breaks       <- find_bin_boundaries: the selection loop; the cumulative sums and the thresholds
                          bin_range * k are floating point quantities and are passed in as data
     expand_boundaries <- expand_boundaries          (None = IndexError on an empty interval list)
     add_outlier_bins  <- add_outier_bins
     fit_filter        <- the filter `a0 < n < a1` of fit
     hist_fit_uniform / hist_fit_breaks <- HistogramVectorizer.fit for strategy 'uniform' / 'quantile'
*)
From Coq Require Import QArith List Bool Arith.
Import ListNotations.

(* ---------- extended rationals ---------- *)
Inductive ext := NInf | Fin (q : Q) | PInf.

Definition qltb (x y : Q) : bool := negb (Qle_bool y x).

Definition elt (a b : ext) : bool :=
  match a, b with
  | NInf, NInf => false
  | NInf, _ => true
  | Fin _, NInf => false
  | Fin x, Fin y => qltb x y
  | Fin _, PInf => true
  | PInf, _ => false
  end.
Definition ele (a b : ext) : bool := negb (elt b a).
Definition eeqb (a b : ext) : bool := ele a b && ele b a.

Definition bin := (ext * ext)%type.

(* ---------- pd.cut / value_counts ---------- *)
Definition in_bin (b : bin) (x : Q) : bool := elt (fst b) (Fin x) && ele (Fin x) (snd b).

Fixpoint cut_from (j : nat) (bins : list bin) (x : Q) : option nat :=
  match bins with
  | [] => None
  | b :: t => if in_bin b x then Some j else cut_from (S j) t x
  end.
Definition cut_one (bins : list bin) (x : Q) : option nat := cut_from 0 bins x.

Definition code_is (j : nat) (c : option nat) : bool :=
  match c with Some k => Nat.eqb k j | None => false end.

Definition value_counts (ncat : nat) (codes : list (option nat)) : list nat :=
  map (fun j => length (filter (code_is j) codes)) (seq 0 ncat).

Definition hist_row (bins : list bin) (xs : list Q) : list nat :=
  value_counts (length bins) (map (cut_one bins) xs).

Definition hist_transform (bins : list bin) (X : list (list Q)) : list (list nat) :=
  map (hist_row bins) X.

(* ---------- bin construction ---------- *)
Definition from_breaks (bs : list ext) : list bin := combine bs (tl bs).

Definition linspace (lo hi : Q) (n : nat) : list Q :=
  map (fun i => lo + (inject_Z (Z.of_nat i)) * (hi - lo) / (inject_Z (Z.of_nat n))) (seq 0 (S n)).

Definition interval_range (lo hi : Q) (n : nat) : list bin := from_breaks (map Fin (linspace lo hi n)).

(* find_bin_boundaries(flat, n_bins) after flat.sort(): bin_indices = [0]; for i in 1..len-1:
     if csum[i] >= bin_range * len(bin_indices) and flat[i] > flat[bin_indices[-1]]: append i.
   `thr k` is the float product bin_range * k (data), csum the float cumulative sums (data).
   State: (number of indices chosen so far, value at the last chosen index, chosen values reversed). *)
Fixpoint find_breaks_loop (thr : nat -> Q) (rest : list (Q * Q)) (k : nat) (lastv : Q) (acc : list Q) : list Q :=
  match rest with
  | [] => rev acc
  | (v, cs) :: t =>
      if Qle_bool (thr k) cs && qltb lastv v
      then find_breaks_loop thr t (S k) v (v :: acc)
      else find_breaks_loop thr t k lastv acc
  end.

Definition find_breaks (thr : nat -> Q) (flat csum : list Q) : list Q :=
  match flat, csum with
  | v0 :: ft, _ :: ct => find_breaks_loop thr (combine ft ct) 1 v0 [v0]
  | _, _ => []
  end.

Fixpoint set_last_right (bins : list bin) (a1 : ext) : list bin :=
  match bins with
  | [] => []
  | [(l, r)] => [(l, if elt r a1 then a1 else r)]
  | b :: t => b :: set_last_right t a1
  end.

Definition expand_boundaries (bins : list bin) (a0 a1 : ext) : option (list bin) :=
  match bins with
  | [] => None
  | (l, r) :: t => Some (set_last_right ((if elt a0 l then a0 else l, r) :: t) a1)
  end.

Definition last_right (bins : list bin) (d : ext) : ext := snd (last bins (d, d)).

Definition add_outlier_bins (bins : list bin) (a0 a1 : ext) : option (list bin) :=
  match bins with
  | [] => None
  | (l, r) :: t =>
      let bins1 := if elt a0 l then (a0, l) :: bins else bins in
      let rl := last_right bins1 PInf in
      Some (if elt rl a1 then bins1 ++ [(rl, a1)] else bins1)
  end.

Definition fit_filter (a0 a1 : ext) (flat : list Q) : list Q :=
  filter (fun x => elt a0 (Fin x) && elt (Fin x) a1) flat.

Definition qmin (x y : Q) : Q := if Qle_bool x y then x else y.
Definition qmax (x y : Q) : Q := if Qle_bool x y then y else x.
Definition list_min (d : Q) (l : list Q) : Q := match l with [] => d | x :: t => fold_left qmin t x end.
Definition list_max (d : Q) (l : list Q) : Q := match l with [] => d | x :: t => fold_left qmax t x end.

Definition finish_bins (outlier : bool) (bins : list bin) (a0 a1 : ext) : option (list bin) :=
  if outlier then add_outlier_bins bins a0 a1 else expand_boundaries bins a0 a1.

Definition hist_fit_uniform (flat : list Q) (n : nat) (a0 a1 : ext) (outlier : bool) : option (list bin) :=
  let f := fit_filter a0 a1 flat in
  finish_bins outlier (interval_range (list_min 0 f) (list_max 0 f) n) a0 a1.

(* strategy='quantile': the breaks are those returned by find_bin_boundaries *)
Definition hist_fit_breaks (breaks : list Q) (a0 a1 : ext) (outlier : bool) : option (list bin) :=
  finish_bins outlier (from_breaks (map Fin breaks)) a0 a1.

(* ---------- the chain hypothesis, as a checker ---------- *)
Fixpoint chain_fromb (r : ext) (bins : list bin) : bool :=
  match bins with
  | [] => true
  | (l', r') :: t => eeqb r l' && elt l' r' && chain_fromb r' t
  end.
Definition chainb (bins : list bin) : bool :=
  match bins with
  | [] => false
  | (l, r) :: t => elt l r && chain_fromb r t
  end.

Definition lo_of (bins : list bin) : ext := fst (hd (PInf, PInf) bins).
Definition hi_of (bins : list bin) : ext := last_right bins NInf.

Definition in_range (bins : list bin) (x : Q) : bool := elt (lo_of bins) (Fin x) && ele (Fin x) (hi_of bins).

(* ---------- KDE: mean of kernels over the sample, any carrier ---------- *)
Section KDE.
  Variable T : Type.
  Variables (add div : T -> T -> T) (zero : T) (of_nat : nat -> T).
  (* kern h g x = K((g - x)/h)/h, the contribution of the sample point x to the density at grid point g *)
  Variable kern : T -> T -> T -> T.

  Definition ksum (h g : T) (xs : list T) : T := fold_right (fun x s => add (kern h g x) s) zero xs.
  Definition kde_at (h : T) (xs : list T) (g : T) : T := div (ksum h g xs) (of_nat (length xs)).
  Definition kde_row (h : T) (grid xs : list T) : list T := map (kde_at h xs) grid.
  Definition kde_transform (h : T) (grid : list T) (X : list (list T)) : list (list T) := map (kde_row h grid) X.
End KDE.
