(* K02_TwoPaths — executable model of the three hand-duplicated pipelines of
   vectorizers/base_cooccurrence_vectorizer.py (BaseCooccurrenceVectorizer.fit_transform :595-653, .fit :655-713,
   .transform :715-745) and of the preprocess_* copy each of them calls first.  Definitions only; proofs are in
   Proofs/K02_TwoPaths_proofs.v, the NgramVectorizer analogue in Model/K02_TwoPathsNgram.v.

   What is modelled, and how it maps to the code
     default_config           <- the keyword defaults of preprocess_*: transform passes only token_dictionary and masking
     reindex_g / preprocess_g <- the shape shared by preprocess_token_sequences, preprocess_timed_token_sequences and
                                 preprocess_multi_token_sequences: the vocabulary half [learn] (K5: learn_vocab for the
                                 token copy), then EITHER the delete-mode comprehension [del] applied with d[.] OR
                                 `del d[masking]`, the mask-mode comprehension [msk] applied with the coding function
                                 (d[t] if t in d else len(d)) and `d[masking] = len(d)`.  The three copies differ only in
                                 the comprehension: tok_* / timed_* / multi_* below.
     base_fit_transform       <- fit_transform: preprocessing with the user's pruning parameters, the empty-dictionary
                                 ValueError, the _set_* calls ([setup]: everything fit stores besides the dictionary and
                                 the frequencies — _n_rows, _mask_index, _window_len_array, _full_kernel_args, delta_mean_,
                                 the raw n-gram dictionary; it may raise), then _build_token_cooccurrence_matrix ([build],
                                 called with n_unique_tokens = len(token_label_dictionary_)); returns the matrix and
                                 leaves the fitted attributes on self
     base_fit                 <- fit: the same statements, written out a second time in the code, returning self
     base_transform           <- transform: preprocessing of X with token_dictionary=self.token_label_dictionary_ and
                                 masking=self.mask_string and NO other argument, then _build_token_cooccurrence_matrix
                                 with the fitted attributes; nothing is stored
     token_setup / token_build, timed_build, multi_build, ngram_setup / ngram_build
                              <- the four drivers' _set_* / _build_skip_grams as K03 event lists; the window functions
                                 and kernel arguments are the function [cc_blocks] from (frequencies, mask index) to
                                 blocks; the post-processing (sum_duplicates, tocsr, normalise / threshold / EM) is the
                                 function [post] of (fitted blocks, n, re-indexed corpus, event list)
     em_post                  <- the K04 pipeline as such a [post] (rationals)

   Errors: Err 1, Err 2 are those of K5 (AssertionError / ZeroDivisionError of the pruning bounds), Err 3 = ValueError
   "Token dictionary is empty", Err 4 = ValueError "ngram dictionary is empty". *)
From Coq Require Import ZArith List Bool Arith QArith Qcanon.
From VZ Require Import Model.K5_Vocab Model.K6_Reindex Model.K02_Windows Model.K03_Cooc Model.K03_Exec Model.K04_EM.
Import ListNotations.
Close Scope Z_scope.
Open Scope nat_scope.

Definition default_config (T : Type) : config T :=
  {| ignored := []; use_regex := false; max_unique := None; min_occ := None; max_occ := None;
     min_freq := None; max_freq := None; min_dococc := None; max_dococc := None;
     min_docfreq := None; max_docfreq := None |}.

(* ---------- the preprocess_* copies ---------- *)
Section Prep.
Variable T : Type.
Variable eqb : T -> T -> bool.
Variables Doc IDoc : Type.
Variable learn : config T -> list Doc -> option (dict T) -> res (dict T * list Z).
Variable del : (T -> option nat) -> Doc -> IDoc.
Variable msk : (T -> nat) -> Doc -> IDoc.

Definition reindex_g (masking : option T) (d : dict T) (docs : list Doc) : list IDoc * dict T :=
  match masking with
  | None => (map (del (lookup T eqb d)) docs, d)
  | Some m =>
      let d' := remove_key T eqb m d in
      (map (msk (fun t => match lookup T eqb d' t with Some i => i | None => length d' end)) docs,
       add_mask T m d')
  end.

Definition preprocess_g (c : config T) (docs : list Doc) (d0 : option (dict T)) (masking : option T)
  : res (list IDoc * dict T * list Z) :=
  match learn c docs d0 with
  | Err e => Err e
  | Ok (d, fr) => let '(seqs, d') := reindex_g masking d docs in Ok (seqs, d', fr)
  end.

End Prep.

(* the comprehensions of the three copies *)
Definition tok_del {T} (f : T -> option nat) (s : list T) : list nat :=
  flat_map (fun t => match f t with Some i => [i] | None => [] end) s.
Definition tok_msk {T} (f : T -> nat) (s : list T) : list nat := map f s.

Definition timed_del {T U} (f : T -> option nat) (s : list (T * U)) : list (nat * U) :=
  flat_map (fun p => match f (fst p) with Some i => [(i, snd p)] | None => [] end) s.
Definition timed_msk {T U} (f : T -> nat) (s : list (T * U)) : list (nat * U) :=
  map (fun p => (f (fst p), snd p)) s.

Definition multi_del {T} (f : T -> option nat) (doc : list (list T)) : list (list nat) := map (tok_del f) doc.
Definition multi_msk {T} (f : T -> nat) (doc : list (list T)) : list (list nat) := map (tok_msk f) doc.

Section Copies.
Variable T : Type.
Variable eqb ltb : T -> T -> bool.
Variable matches : T -> bool.
Variables f32div f64div : Z -> Z -> Z.
Variable f64to32 : Z -> Z.
Variable one64 : Z.

Notation learn_vocab := (learn_vocab T eqb ltb matches f32div f64div f64to32 one64).

(* preprocess_token_sequences (= Model/K6_Reindex.v preprocess, see tok_preprocess_is_K6) *)
Definition tok_preprocess := preprocess_g T eqb (list T) (list nat) learn_vocab tok_del tok_msk.

(* preprocess_timed_token_sequences: the vocabulary is learned from the tokens of the (token, time) pairs; documents
   for the document frequencies are the sets of first components (construct_timed_document_frequency) *)
Definition timed_preprocess (U : Type) :=
  preprocess_g T eqb (list (T * U)) (list (nat * U))
               (fun c docs d0 => learn_vocab c (map (map fst) docs) d0) timed_del timed_msk.

End Copies.

(* ---------- BaseCooccurrenceVectorizer ---------- *)
Section Base.
Variable T : Type.
Variables Doc IDoc : Type.
Variable prep : config T -> list Doc -> option (dict T) -> option T -> res (list IDoc * dict T * list Z).
Variables S A : Type.
Variable setup : list IDoc -> dict T -> list Z -> res S.
Variable build : S -> nat -> list IDoc -> A.

(* token_label_dictionary_, _token_frequencies_, the other fitted attributes, cooccurrences_ *)
Record fitted := mkFitted { ft_dict : dict T; ft_freqs : list Z; ft_state : S; ft_cooc : A }.

Definition base_fit_transform (c : config T) (masking : option T) (d0 : option (dict T)) (X : list Doc)
  : res (fitted * A) :=
  match prep c X d0 masking with
  | Err e => Err e
  | Ok (token_sequences, d, fr) =>
      if length d =? 0 then Err 3%Z
      else match setup token_sequences d fr with
           | Err e => Err e
           | Ok st =>
               let cooccurrences := build st (length d) token_sequences in
               Ok (mkFitted d fr st cooccurrences, cooccurrences)
           end
  end.

Definition base_fit (c : config T) (masking : option T) (d0 : option (dict T)) (X : list Doc) : res fitted :=
  match prep c X d0 masking with
  | Err e => Err e
  | Ok (token_sequences, d, fr) =>
      if length d =? 0 then Err 3%Z
      else match setup token_sequences d fr with
           | Err e => Err e
           | Ok st => Ok (mkFitted d fr st (build st (length d) token_sequences))
           end
  end.

Definition base_transform (masking : option T) (M : fitted) (X : list Doc) : res A :=
  match prep (default_config T) X (Some (ft_dict M)) masking with
  | Err e => Err e
  | Ok (token_sequences, _, _) => Ok (build (ft_state M) (length (ft_dict M)) token_sequences)
  end.

End Base.

Arguments ft_dict {T S A}. Arguments ft_freqs {T S A}. Arguments ft_state {T S A}. Arguments ft_cooc {T S A}.

(* ---------- the drivers ---------- *)
(* window functions + kernel arguments + mix weights + orientations: from (_token_frequencies_, _mask_index) to blocks *)
Record cooc_cfg (K : carrier) := {
  cc_nullify : bool;                                    (* nullify_mask *)
  cc_nw : bool;                                         (* normalize_windows *)
  cc_blocks : list Z -> option nat -> list (block K)
}.
Arguments cc_nullify {K}. Arguments cc_nw {K}. Arguments cc_blocks {K}.

Section Drivers.
Variable T : Type.
Variable K : carrier.
Variable A : Type.

Definition mask_index (cfg : cooc_cfg K) (fr : list Z) : option nat :=
  if cc_nullify cfg then Some (length fr) else None.       (* _set_mask_indices *)

(* token driver: S = the blocks *)
Definition token_setup (cfg : cooc_cfg K) (seqs : list (list nat)) (d : dict T) (fr : list Z) : res (list (block K)) :=
  Ok (cc_blocks cfg fr (mask_index cfg fr)).
Definition token_build (cfg : cooc_cfg K) (post : list (block K) -> nat -> list (list nat) -> list (event K) -> A)
           (blocks : list (block K)) (n : nat) (seqs : list (list nat)) : A :=
  post blocks n seqs (token_events blocks (cc_nw cfg) n seqs).

(* multiset driver: same state, documents are lists of multisets *)
Definition multi_setup (cfg : cooc_cfg K) (seqs : list (list (list nat))) (d : dict T) (fr : list Z)
  : res (list (block K)) := Ok (cc_blocks cfg fr (mask_index cfg fr)).
Definition multi_build (cfg : cooc_cfg K)
           (post : list (block K) -> nat -> list (list (list nat)) -> list (event K) -> A)
           (blocks : list (block K)) (n : nat) (seqs : list (list (list nat))) : A :=
  post blocks n seqs (multi_events blocks (cc_nw cfg) n seqs).

(* timed driver: the blocks also depend on delta_mean_, computed from the re-indexed training corpus *)
Definition timed_setup {Tm : Type} (nullify : bool)
           (blocks_of : list (list (nat * Tm)) -> list Z -> option nat -> list (tblock K Tm))
           (seqs : list (list (nat * Tm))) (d : dict T) (fr : list Z) : res (list (tblock K Tm)) :=
  Ok (blocks_of seqs fr (if nullify then Some (length fr) else None)).
Definition timed_build {Tm : Type} (absdiff : Tm -> Tm -> Tm) (t0 : Tm) (nw : bool)
           (post : list (tblock K Tm) -> nat -> list (list (nat * Tm)) -> list (event K) -> A)
           (blocks : list (tblock K Tm)) (n : nat) (seqs : list (list (nat * Tm))) : A :=
  post blocks n seqs (timed_events absdiff t0 blocks nw n seqs).

(* n-gram driver: fit learns the raw n-gram dictionary from the re-indexed corpus ([learn_grams]: None = the
   dictionary came out empty); blocks from (n-gram frequencies, mask n-gram index) *)
Definition ngram_setup (size : nat)
           (learn_grams : list (list nat) -> option (list (list nat * nat) * list Z))
           (blocks_of : list (list nat * nat) -> list Z -> list Z -> list (block K))
           (seqs : list (list nat)) (d : dict T) (fr : list Z)
  : res (list (block K) * list (list nat * nat)) :=
  match learn_grams seqs with
  | None => Err 4%Z
  | Some (gd, gfr) => Ok (blocks_of gd gfr fr, gd)
  end.
Definition ngram_build (size : nat) (nw : bool)
           (post : list (block K) * list (list nat * nat) -> nat -> list (list nat) -> list (event K) -> A)
           (st : list (block K) * list (list nat * nat)) (n : nat) (seqs : list (list nat)) : A :=
  post st n seqs (ngram_events (fst st) nw n (snd st) size seqs).

End Drivers.

(* the K04 post-processing of the token driver: rows (one per dictionary entry) -> normalise / threshold / EM *)
Definition em_post (n_iter : nat) (eps : Qc) (blocks : list (block QcK)) (n : nat) (seqs : list (list nat))
           (evs : list (event QcK)) : rows :=
  pipeline n_iter eps n (token_occs blocks seqs) (rows_of_events n evs).

(* the identity post-processing: the event list itself *)
Definition ev_post {K : carrier} {B I : Type} (_ : B) (_ : nat) (_ : I) (evs : list (event K)) : list (event K) := evs.

(* ---------- TokenCooccurrenceVectorizer, assembled ---------- *)
Section Token.
Variable T : Type.
Variable eqb ltb : T -> T -> bool.
Variable matches : T -> bool.
Variables f32div f64div : Z -> Z -> Z.
Variable f64to32 : Z -> Z.
Variable one64 : Z.
Variable K : carrier.
Variable A : Type.
Variable cfg : cooc_cfg K.
Variable post : list (block K) -> nat -> list (list nat) -> list (event K) -> A.

Notation prep := (tok_preprocess T eqb ltb matches f32div f64div f64to32 one64).

Definition token_fit_transform :=
  base_fit_transform T (list T) (list nat) prep (list (block K)) A (token_setup T K cfg) (token_build K A cfg post).
Definition token_fit :=
  base_fit T (list T) (list nat) prep (list (block K)) A (token_setup T K cfg) (token_build K A cfg post).
Definition token_transform :=
  base_transform T (list T) (list nat) prep (list (block K)) A (token_build K A cfg post).

End Token.

(* documents of X' with the tokens outside the fitted vocabulary deleted / replaced by the mask string *)
Definition strip_unseen {T} (eqb : T -> T -> bool) (d : dict T) (X : list (list T)) : list (list T) :=
  map (filter (fun t => match lookup T eqb d t with Some _ => true | None => false end)) X.
Definition mask_unseen {T} (eqb : T -> T -> bool) (m : T) (d : dict T) (X : list (list T)) : list (list T) :=
  map (relabel_mask T eqb m (remove_key T eqb m d)) X.
