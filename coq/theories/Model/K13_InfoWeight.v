(* K13 — vectorizers/transformers/info_weight.py: column_kl_divergence_exact_prior (and the approximate
   prior variant), information_weight (row-mass baseline, conversion to CSC + canonical format = sort_indices and
   sum_duplicates on a copy when has_canonical_format is False, one KL per column),
   InformationWeightTransformer.fit post-processing (mean-normalise, clamp at 0, power) and transform (X @ diag w).
   Executable definitions only, over the abstract carrier [Ops T] of K12 (R for the theorems, PrimFloat for the
   correspondence run).  A column is its stored entries (row index, value) in storage order: unsorted indices,
   explicit zeros and duplicate row indices are representable; sort_col is what csc.sort_indices() does to it,
   sum_dups what scipy's csr_sum_duplicates does. *)
From Coq Require Import ZArith List Bool.
From VZ Require Import Model.K12_Dist.
Import ListNotations.

(* np.searchsorted(a, v), side = 'left': lo = 0, hi = n; while lo < hi: mid = lo + (hi - lo) // 2;
   if a[mid] < v: lo = mid + 1 else: hi = mid *)
Fixpoint bsearch (fuel : nat) (a : list Z) (v : Z) (lo hi : nat) : nat :=
  match fuel with
  | O => lo
  | S f =>
    if (lo <? hi)%nat then
      let mid := (lo + (hi - lo) / 2)%nat in
      match nth_error a mid with
      | Some x => if (x <? v)%Z then bsearch f a v (S mid) hi else bsearch f a v lo mid
      | None => lo
      end
    else lo
  end.
Definition searchsorted (a : list Z) (v : Z) : nat := bsearch (S (length a)) a v 0 (length a).

Section InfoWeight.
  Variable T : Type.
  Variable O : Ops T.
  Let zero := o_zero T O. Let one := o_one T O.
  Let add := o_add T O. Let sub := o_sub T O. Let mul := o_mul T O. Let div := o_div T O.
  Let ln := o_ln T O. Let ltb := o_ltb T O. Let of_nat := o_of_nat T O.

  (* the loop over the rows i = 0 .. n_rows-1 of column_kl_divergence_exact_prior; None = read outside count_data *)
  Fixpoint ckl_loop (inds : list Z) (data : list T) (s norm zc : T) (i : Z) (bs : list T) (acc : T) : option T :=
    match bs with
    | [] => Some acc
    | bi :: bs' =>
      if existsb (Z.eqb i) inds then                      (* i in set(count_indices) *)
        match nth_error data (searchsorted inds i) with   (* count_data[np.searchsorted(count_indices, i)] *)
        | Some c =>
          let p := div (add c (mul s bi)) norm in
          ckl_loop inds data s norm zc (i + 1)%Z bs'
                   (if ltb zero p then add acc (mul p (ln (div p bi))) else acc)
        | None => None
        end
      else ckl_loop inds data s norm zc (i + 1)%Z bs' (add acc (mul bi zc))
    end.

  Definition column_kl_exact (inds : list Z) (data : list T) (b : list T) (s : T) : option T :=
    let norm := add (sum_list T O data) s in
    let zc := mul (div s norm) (ln (div s norm)) in
    ckl_loop inds data s norm zc 0%Z b zero.

  (* column_kl_divergence_approx_prior *)
  Fixpoint ckl_approx_loop (s norm : T) (b : list T) (inds : list Z) (data : list T) (acc : T) : option T :=
    match inds, data with
    | idx :: inds', c :: data' =>
      match nth_error b (Z.to_nat idx) with
      | Some bi =>
        let p := div (add c (mul s bi)) norm in
        ckl_approx_loop s norm b inds' data'
                        (if ltb zero p && ltb zero bi then add acc (mul p (ln (div p bi))) else acc)
      | None => None
      end
    | [], _ => Some acc
    | _, [] => None
    end.
  Definition column_kl_approx (inds : list Z) (data : list T) (b : list T) (s : T) : option T :=
    let norm := add (sum_list T O data) s in
    let zc := mul (div s norm) (ln (div s norm)) in
    let mean_b := div (sum_list T O b) (of_nat (length b)) in
    let est := mul (mul mean_b zc) (sub (of_nat (length b)) (of_nat (length inds))) in
    ckl_approx_loop s norm b inds data (add zero est).

  (* csc.sort_indices(): stable insertion by row index *)
  Fixpoint insert_entry (e : Z * T) (l : list (Z * T)) : list (Z * T) :=
    match l with
    | [] => [e]
    | e' :: t => if (fst e <? fst e')%Z then e :: l else e' :: insert_entry e t
    end.
  Definition sort_col (c : list (Z * T)) : list (Z * T) := fold_right insert_entry [] c.

  (* data.sum(axis=1): for every row the stored values of that row, columns in order *)
  Definition row_count (cols : list (list (Z * T))) (i : Z) : T :=
    fold_left (fun acc c => fold_left (fun a e => if (fst e =? i)%Z then add a (snd e) else a) c acc) cols zero.
  Definition row_sums (n_rows : nat) (cols : list (list (Z * T))) : list T :=
    map (fun i => row_count cols (Z.of_nat i)) (seq 0 n_rows).

  Definition baseline (n_rows : nat) (cols : list (list (Z * T))) : list T :=
    let counts := row_sums n_rows cols in
    let total := sum_list T O counts in
    map (fun c => div c total) counts.

  (* scipy csr_sum_duplicates on one column (called after sort_indices):
       jj = row_start; while jj < row_end: j = Aj[jj]; x = Ax[jj]; jj++;
         while jj < row_end and Aj[jj] == j: x += Ax[jj]; jj++
         Aj[nnz] = j; Ax[nnz] = x; nnz++                       -- adjacent equal indices are added up, left to right *)
  Fixpoint sum_dups_from (j : Z) (x : T) (l : list (Z * T)) : list (Z * T) :=
    match l with
    | [] => [(j, x)]
    | e :: t => if (fst e =? j)%Z then sum_dups_from j (add x (snd e)) t
                else (j, x) :: sum_dups_from (fst e) (snd e) t
    end.
  Definition sum_dups (l : list (Z * T)) : list (Z * T) :=
    match l with [] => [] | e :: t => sum_dups_from (fst e) (snd e) t end.

  (* csc.has_canonical_format: within every column the indices are strictly increasing (sorted, no duplicates) *)
  Fixpoint strictly_incr (l : list Z) : bool :=
    match l with
    | x :: ((y :: _) as t) => (x <? y)%Z && strictly_incr t
    | _ => true
    end.
  Definition has_canonical_format (cols : list (list (Z * T))) : bool :=
    forallb (fun c => strictly_incr (map fst c)) cols.

  (* if not csc_data.has_canonical_format: csc_data = csc_data.copy(); csc_data.sum_duplicates()
     (sum_duplicates = sort_indices, then csr_sum_duplicates; the flag is one flag for the whole matrix) *)
  Definition canon_col (c : list (Z * T)) : list (Z * T) := sum_dups (sort_col c).
  Definition canonicalise (cols : list (list (Z * T))) : list (list (Z * T)) :=
    if has_canonical_format cols then cols else map canon_col cols.

  (* the baseline is computed from the caller's matrix (data.sum(axis=1)), the kernels run on the canonical copy *)
  Definition information_weight (approx : bool) (n_rows : nat) (cols : list (list (Z * T))) (s : T) : list (option T) :=
    let b := baseline n_rows cols in
    map (fun c' => (if approx then column_kl_approx else column_kl_exact) (map fst c') (map snd c') b s)
        (canonicalise cols).

  (* InformationWeightTransformer.fit (y = None): w /= mean(w); w = maximum(w, 0); w = power(w, weight_power) *)
  Definition finish_weights (pw : T -> T -> T) (w : list T) (power : T) : list T :=
    let mean := div (sum_list T O w) (of_nat (length w)) in
    map (fun x => let y := div x mean in pw (if ltb y zero then zero else y) power) w.

  (* transform: X @ diags(w), dense row-major view *)
  Fixpoint zip_mul (r w : list T) : list T :=
    match r, w with x :: r', a :: w' => mul x a :: zip_mul r' w' | _, _ => [] end.
  Definition transform (rows : list (list T)) (w : list T) : list (list T) := map (fun r => zip_mul r w) rows.
End InfoWeight.
