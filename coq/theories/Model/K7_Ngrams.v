(* K7 — executable model of vectorizers/ngram_vectorizer.py: ngrams_of, the counting loops of
   NgramVectorizer.fit / .transform (one python dict `counter` per document, CSR assembly), the dictionaries
   learned without pruning constraints, and NgramVectorizer.__add__ (after the repair of D13).
   Definitions only; proofs are in Proofs/K7_Ngrams_proofs.v.

   Labels (raw tokens) and token indices are Z.  The key of the column dictionary is a `gkey`: the code looks a
   length-1 gram up as the *bare* token and a longer gram as the *tuple* of tokens, whereas the learned n-gram
   dictionary (ngram_size >= 2) keys every gram — also the 1-grams of 'subgrams' mode — as a tuple.  The model keeps
   that distinction (`Bare` / `Tup`), which is how it reproduces the known finding ngram-subgrams-unigram-dropped.

   Correspondence with the code:
     slice / ngrams_of     <- sequence[i : i + n] / ngrams_of(sequence, ngram_size, ngram_behaviour)
     kept (K10)            <- preprocess_token_sequences(X, token_dictionary): unknown tokens deleted
     token_gram / col_of   <- the body of the try block: inverse dictionary, then column_label_dictionary_; None = KeyError
     incr / count_doc      <- counter[col_index] += 1 / = 1   (insertion ordered dict)
     count_matrix          <- indptr / indices / data, csr_matrix(..., shape=(len(indptr) - 1, len(column_label_dictionary_)))
     learn_tokdict         <- construct_token_dictionary_and_frequency(flatten(X)) with no pruning: sorted(set(...))
     learn_coldict         <- the three branches setting column_label_dictionary_ in fit (no pruning)
     ng_fit / ng_transform <- NgramVectorizer.fit / .transform  (mask_string=None, nullify_mask=False)
     ng_add                <- NgramVectorizer.__add__ for two fitted models with ngram_size = 1
*)
From Coq Require Import ZArith List Lia Bool.
From VZ Require Import Model.K10_Assembly.
Import ListNotations.
Open Scope Z_scope.

(* ---------- ngrams_of ---------- *)
Definition slice {A} (lo len : nat) (s : list A) : list A := firstn len (skipn lo s).

Inductive behaviour := Exact | Subgrams.

Definition ngrams_of {A} (s : list A) (n : nat) (b : behaviour) : list (list A) :=
  flat_map (fun i =>
    match b with
    | Exact => if (i + n <=? length s)%nat then [slice i n s] else []
    | Subgrams => flat_map (fun j => if (i + j <=? length s)%nat then [slice i j s] else []) (seq 1 n)
    end) (seq 0 (length s)).

(* ---------- column dictionary keyed by bare tokens or tuples ---------- *)
Inductive gkey := Bare (t : Z) | Tup (g : list Z).

Fixpoint list_eqb (x y : list Z) : bool :=
  match x, y with
  | [], [] => true
  | a :: x', b :: y' => (a =? b) && list_eqb x' y'
  | _, _ => false
  end.

Definition gkey_eqb (x y : gkey) : bool :=
  match x, y with
  | Bare a, Bare b => a =? b
  | Tup g, Tup h => list_eqb g h
  | _, _ => false
  end.

Definition gdict := list (gkey * Z).
Definition glookup (k : gkey) (d : gdict) : option Z := alookup gkey_eqb k d.

Fixpoint map_opt {A B} (f : A -> option B) (l : list A) : option (list B) :=
  match l with
  | [] => Some []
  | x :: l' => match f x, map_opt f l' with Some y, Some r => Some (y :: r) | _, _ => None end
  end.

(* None = KeyError (caught: the gram is dropped) *)
Definition token_gram (inv : dict) (g : list Z) : option gkey :=
  match g with
  | [i] => option_map Bare (lookup i inv)
  | _ => option_map Tup (map_opt (fun i => lookup i inv) g)
  end.

Definition col_of (inv : dict) (cold : gdict) (g : list Z) : option Z :=
  match token_gram inv g with Some k => glookup k cold | None => None end.

(* ---------- the counter of one document ---------- *)
Fixpoint incr (c : Z) (counter : dict) : dict :=
  match counter with
  | [] => [(c, 1)]
  | (c', v) :: r => if c' =? c then (c', v + 1) :: r else (c', v) :: incr c r
  end.

Definition count_doc (inv : dict) (cold : gdict) (grams : list (list Z)) : dict :=
  fold_left (fun counter g => match col_of inv cold g with Some c => incr c counter | None => counter end)
            grams [].

(* fitted state: _token_dictionary_, _inverse_token_dictionary_, column_label_dictionary_, ngram_size, ngram_behaviour *)
Definition ng_model := (dict * dict * gdict * nat * behaviour)%type.
Definition ng_tokdict (M : ng_model) : dict := fst (fst (fst (fst M))).
Definition ng_inv (M : ng_model) : dict := snd (fst (fst (fst M))).
Definition ng_cold (M : ng_model) : gdict := snd (fst (fst M)).
Definition ng_n (M : ng_model) : nat := snd (fst M).
Definition ng_beh (M : ng_model) : behaviour := snd M.

Definition doc_grams (M : ng_model) (doc : list Z) : list (list Z) :=
  ngrams_of (kept (ng_tokdict M) doc) (ng_n M) (ng_beh M).

(* csr_matrix((data, indices, indptr), shape=...) performs no bounds check on the column indices *)
Definition ng_transform (M : ng_model) (docs : list (list Z)) : matrix :=
  (Z.of_nat (length docs), Z.of_nat (length (ng_cold M)),
   flat_map (fun i => map (fun cv => (Z.of_nat i, fst cv, snd cv))
                          (count_doc (ng_inv M) (ng_cold M) (doc_grams M (nth i docs []))))
            (seq 0 (length docs))).

(* ---------- dictionaries learned without pruning ---------- *)
Definition invert (d : dict) : dict := map (fun kv => (snd kv, fst kv)) d.

Definition learn_tokdict (docs : list (list Z)) : dict := enum_dict (sort_uniq (concat docs)).

Fixpoint lex_leb (x y : list Z) : bool :=
  match x, y with
  | [], _ => true
  | _ :: _, [] => false
  | a :: x', b :: y' => if a <? b then true else if b <? a then false else lex_leb x' y'
  end.

Definition bare_dict (d : dict) : gdict := map (fun kv => (Bare (fst kv), snd kv)) d.

(* inverse lookup inside tuple(self._inverse_token_dictionary_[i] for i in ngram): always defined for learned grams *)
Definition label_of (inv : dict) (i : Z) : Z := match lookup i inv with Some l => l | None => 0 end.

Definition learn_coldict (tokdict inv : dict) (n : nat) (b : behaviour) (docs : list (list Z)) : gdict :=
  if (n =? 1)%nat then bare_dict tokdict
  else
    let grams := concat (map (fun d => ngrams_of (kept tokdict d) n b) docs) in
    let uniq := isort_by lex_leb (nodup (list_eq_dec Z.eq_dec) grams) in
    combine (map (fun g => Tup (map (label_of inv) g)) uniq) (map Z.of_nat (seq 0 (length uniq))).

Definition ng_fit (td : option dict) (nd : option gdict) (n : nat) (b : behaviour) (docs : list (list Z))
  : ng_model * matrix :=
  let tokdict := match td with Some d => d | None => learn_tokdict docs end in
  let inv := invert tokdict in
  let cold := match nd with Some d => d | None => learn_coldict tokdict inv n b docs end in
  let M := (tokdict, inv, cold, n, b) in
  (M, ng_transform M docs).

(* ---------- __add__ (ngram_size = 1) ---------- *)
(* what __add__ reads and writes: column_index_dictionary_ (index -> label), column_label_dictionary_
   (label -> index), _train_matrix *)
Definition uni_model := (dict * dict * matrix)%type.
Definition u_idx (m : uni_model) : dict := fst (fst m).
Definition u_lab (m : uni_model) : dict := snd (fst m).
Definition u_train (m : uni_model) : matrix := snd m.

Definition memZ (x : Z) (l : list Z) : bool := existsb (Z.eqb x) l.

(* set(other.column_index_dictionary_.values()).difference(self.column_index_dictionary_.values()) — as a python set its
   iteration order is arbitrary: ng_add takes the order as an argument *)
Definition disjoint_vocab (a b : uni_model) : list Z :=
  filter (fun l => negb (memZ l (map snd (u_idx a)))) (nodup Z.eq_dec (map snd (u_idx b))).

Definition ng_add (ord : list Z) (a b : uni_model) : res uni_model :=
  let left := Z.of_nat (length (u_idx a)) in
  let joint_idx := u_idx a ++ combine (map (fun i => left + Z.of_nat i) (seq 0 (length ord))) ord in
  let joint_lab := invert joint_idx in
  match map_opt (fun kv => option_map (fun j => (snd kv, j)) (lookup (fst kv) joint_lab)) (u_lab b) with
  | None => Raise KeyError
  | Some right_to_joint =>
      let new_cols := Z.of_nat (length joint_idx) in
      match map_opt (fun t => option_map (fun j => (trow t + nrows (u_train a), j, tval t))
                                         (lookup (tcol t) right_to_joint)) (entries (u_train b)) with
      | None => Raise KeyError
      | Some bottom =>
          Ok (joint_idx, joint_lab,
              (nrows (u_train a) + nrows (u_train b), new_cols, entries (u_train a) ++ bottom))
      end
  end.

(* the merged vectorizer as a fitted model: _token_dictionary_ = column_label_dictionary_,
   _inverse_token_dictionary_ = column_index_dictionary_ (D13 repaired), ngram_size = 1 *)
Definition uni_as_ng (m : uni_model) (b : behaviour) : ng_model :=
  (u_lab m, u_idx m, bare_dict (u_lab m), 1%nat, b).

Definition uni_fit (docs : list (list Z)) : uni_model :=
  let '(M, train) := ng_fit None None 1 Exact docs in (ng_inv M, ng_tokdict M, train).

(* the unrepaired __add__ gave the merged model _inverse_token_dictionary_ = column_label_dictionary_ *)
Definition uni_as_ng_unrepaired (m : uni_model) (b : behaviour) : ng_model :=
  (u_lab m, u_lab m, bare_dict (u_lab m), 1%nat, b).
