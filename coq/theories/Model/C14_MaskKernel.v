(* C14 (K2, masking part) — executable model of the mask handling of vectorizers/_window_kernels.py
   (fixed_window_radii, window_at_index, flat_kernel / harmonic_kernel / geometric_kernel with mask_index, normalize,
   offset), of the inner loop of numba_build_skip_grams for one window function (token_cooccurrence_vectorizer.py),
   and of the diagonal projector of tree_token_cooccurrence.py:130-136.
   Definitions only; proofs are in Proofs/C14_MaskKernel_proofs.v.  Weights are exact rationals (Q): flat 1,
   harmonic 1/(j+1), geometric power^(j+1) with a rational power; the implementation computes the same in float64.

     base_weights    <- np.ones(len) | 1.0 / np.arange(1, len+1) | power ** np.arange(1, len+1)
     mask_zero       <- if mask_index is not None: result[window == mask_index] = 0.0
     offset_zero     <- result[0 : min(offset, len(result))] = 0
     normalize       <- if normalize: temp = result.sum(); if temp > 0: result /= temp
     fixed_radii     <- np.repeat(window_size, len(token_frequency) + 1); radii[mask_index] = 0
     window_at_index <- token_sequence[ind+1 : min(ind+size+1, len)]  |  np.flipud(token_sequence[max(ind-size,0) : ind])
     position_events <- the body of `for w_i, target_word in enumerate(seq)` for n_windows = 1:
                        val = mix * ker[j] / total, appended iff val > 0, row = target, col = context
     projector       <- M = eye(n); M.data[0, mask_index] = 0; (M.dot(G)).dot(M)                                  *)
From Coq Require Import QArith List Bool Arith.
Import ListNotations.

Inductive kernel_kind := Flat | Harmonic | Geometric (power : Q).

Definition base_weight (k : kernel_kind) (j : nat) : Q :=
  match k with
  | Flat => 1
  | Harmonic => 1 / inject_Z (Z.of_nat (S j))
  | Geometric p => Qpower p (Z.of_nat (S j))
  end.

Definition base_weights (k : kernel_kind) (len : nat) : list Q := map (base_weight k) (seq 0 len).

Fixpoint zip_with {A B C} (f : A -> B -> C) (a : list A) (b : list B) : list C :=
  match a, b with
  | x :: a', y :: b' => f x y :: zip_with f a' b'
  | _, _ => []
  end.

Definition mask_zero (mask : option nat) (window : list nat) (w : list Q) : list Q :=
  match mask with
  | None => w
  | Some m => zip_with (fun t x => if Nat.eqb t m then 0 else x) window w
  end.

Definition offset_zero (off : nat) (w : list Q) : list Q :=
  let k := Nat.min off (length w) in repeat 0 k ++ skipn k w.

Definition qsum (w : list Q) : Q := fold_right Qplus 0 w.

Definition normalize (norm : bool) (w : list Q) : list Q :=
  if norm then let s := qsum w in if Qlt_le_dec 0 s then map (fun x => x / s) w else w else w.

Definition kernel (k : kernel_kind) (window : list nat) (mask : option nat) (norm : bool) (off : nat) : list Q :=
  normalize norm (offset_zero off (mask_zero mask window (base_weights k (length window)))).

(* radii per vocabulary index (ntok tokens + the mask slot) *)
Fixpoint upd {A} (l : list A) (i : nat) (v : A) : list A :=
  match l, i with
  | [], _ => []
  | _ :: t, O => v :: t
  | h :: t, S i' => h :: upd t i' v
  end.

Definition fixed_radii (size ntok : nat) (mask : option nat) : list nat :=
  let r := repeat size (S ntok) in
  match mask with Some m => upd r m 0%nat | None => r end.

Definition window_at_index {A} (s : list A) (size ind : nat) (reverse : bool) : list A :=
  if reverse then rev (firstn (ind - (ind - size)) (skipn (ind - size) s))
  else firstn (Nat.min (ind + size + 1) (length s) - (ind + 1)) (skipn (ind + 1) s).

(* the (row, col, val) triples appended for the target at position ind (one window function, block i = 0) *)
Definition position_events (k : kernel_kind) (radii : list nat) (reverse : bool) (mask : option nat)
           (norm : bool) (off : nat) (mix : Q) (normalize_windows : bool) (s : list nat) (ind : nat)
  : list (nat * nat * Q) :=
  let target := nth ind s 0%nat in
  let window := window_at_index s (nth target radii 0%nat) ind reverse in
  let ker := map (fun x => mix * x) (kernel k window mask norm off) in
  let total0 := if normalize_windows then qsum ker else 0 in
  let total := if Qlt_le_dec 0 total0 then total0 else 1 in
  flat_map (fun cw => let '(context, w) := cw in
                      let val := w / total in
                      if Qlt_le_dec 0 val then [(target, context, val)] else [])
           (combine window ker).

Definition doc_events k radii reverse mask norm off mix nw (s : list nat) : list (nat * nat * Q) :=
  flat_map (position_events k radii reverse mask norm off mix nw s) (seq 0 (length s)).

(* ---- tree vectorizer: M . G . M with M the identity whose mask entry is zeroed; any semiring of entries ---- *)
Section Projector.
Variable R : Type.
Variables (rzero rone : R) (radd rmul : R -> R -> R).

Fixpoint dotp (a b : list R) : R :=
  match a, b with
  | x :: a', y :: b' => radd (rmul x y) (dotp a' b')
  | _, _ => rzero
  end.

Definition col (j : nat) (M : list (list R)) : list R := map (fun row => nth j row rzero) M.

Definition matmul (n : nat) (A B : list (list R)) : list (list R) :=
  map (fun row => map (fun j => dotp row (col j B)) (seq 0 n)) A.

Definition eye_masked (n m : nat) : list (list R) :=
  map (fun i => map (fun j => if Nat.eqb i j && negb (Nat.eqb i m) then rone else rzero) (seq 0 n)) (seq 0 n).

Definition project (n m : nat) (G : list (list R)) : list (list R) :=
  matmul n (matmul n (eye_masked n m) G) (eye_masked n m).
End Projector.
