(* K7 (continued) — histories of NgramVectorizer.__add__ over a pool of fitted unigram models.
   Definitions only; proofs are in Proofs/K7_AddHistory_proofs.v.

   A python session keeps the fitted / merged vectorizers in a list `store`.  One step of a history is
       Merge i j ord :   store.append(store[i] + store[j])
   where `ord` is the iteration order of the python set `disjoint_vocab` inside that call (data, as in ng_add).
   __add__ builds every attribute of the result from copies (column_index_dictionary_.copy(), _train_matrix.copy(),
   tocoo().copy(), fresh dict comprehensions) and NgramVectorizer.transform only reads the fitted attributes, so in the
   model a step appends one model and leaves every earlier entry of the store as it is: i and j may be any earlier
   entries (the same model twice, a model that was an operand before, a result of an earlier merge).

   Correspondence with the code:
     run_op / run_history <- the sequence of `+` calls of a session on shared vectorizer objects
     hist_corpora         <- the corpora the entries of the store stand for (SPEC side: concatenation, rows of the left
                             operand first)
*)
From Coq Require Import ZArith List.
From VZ Require Import Model.K10_Assembly Model.K7_Ngrams.
Import ListNotations.
Open Scope Z_scope.

Inductive mop := Merge (i j : nat) (ord : list Z).

(* store[i] with i out of range: IndexError *)
Definition run_op (st : list uni_model) (o : mop) : res (list uni_model) :=
  match o with
  | Merge i j ord =>
      match nth_error st i, nth_error st j with
      | Some a, Some b => bind (ng_add ord a b) (fun c => Ok (st ++ [c]))
      | _, _ => Raise IndexError
      end
  end.

Fixpoint run_history (st : list uni_model) (ops : list mop) : res (list uni_model) :=
  match ops with
  | [] => Ok st
  | o :: r => bind (run_op st o) (fun st' => run_history st' r)
  end.

(* the corpus each entry of the store stands for *)
Definition corpus_op (cs : list (list (list Z))) (o : mop) : list (list (list Z)) :=
  match o with Merge i j _ => cs ++ [nth i cs [] ++ nth j cs []] end.

Definition hist_corpora (cs : list (list (list Z))) (ops : list mop) : list (list (list Z)) :=
  fold_left corpus_op ops cs.

(* what the harness compares per entry of the final store: both dictionaries, the training matrix and the transform of
   a probe corpus *)
Definition store_view (X : list (list Z)) (st : list uni_model) : list (dict * dict * matrix * matrix) :=
  map (fun m => (u_idx m, u_lab m, u_train m, ng_transform (uni_as_ng m Exact) X)) st.
