(* K17 (ApproximateWassersteinVectorizer) — executable model of the row map of
   vectorizers/linear_optimal_transport.py : ApproximateWassersteinVectorizer.fit_transform / transform.
   Definitions only; proofs are in Proofs/K17_ApproxW_proofs.v.

       basis_transformed_matrix = X @ vectors                       (X scipy CSR; scipy's csr_matvecs:
                                                                     for jj in range(indptr[i], indptr[i+1]):
                                                                         y[i, :] += data[jj] * vectors[indices[jj], :])
       basis_transformed_matrix /= np.power(np.array(X.sum(axis=1)), self.normalization_power)
                                                                    (X.sum(axis=1) is X @ ones: the stored entries of
                                                                     the row, left to right)
     fit_transform hands this matrix to sklearn's randomized_svd (third party, NOT modelled: components_ and
     singular_values_ are inputs of the model) and
       transform returns (basis_transformed_matrix @ self.components_.T) / np.sqrt(self.singular_values_)

   A row is the list of its STORED entries (column, value) in storage order (explicit zeros and duplicates included,
   as scipy keeps them); `pw` is x |-> x ** normalization_power (the identity for the default 1.0).

     axpy            <- y[i, :] += a * x[:]
     row_matvec      <- one row of X @ vectors
     row_sum         <- one row of X.sum(axis=1)
     approx_basis    <- one row of basis_transformed_matrix (what the SVD is fitted on; what transform projects)
     approx_row      <- one row of transform's result, given components_ and singular_values_
     approx_transform<- all rows
*)
From Coq Require Import List ZArith Arith PrimFloat Bool.
From VZ Require Import Model.K17_LOTglue Model.K17_LOTspherical.
Import ListNotations.

Section Approx.
  Variable T : Type.
  Variables (zero : T) (add mul div : T -> T -> T) (sqrt pw : T -> T).

  Definition axpy (a : T) (x acc : list T) : list T := map2 (fun accv xv => add accv (mul a xv)) acc x.

  Definition row_matvec (d : nat) (V : list (list T)) (row : list (nat * T)) : list T :=
    fold_left (fun acc e => axpy (snd e) (nth (fst e) V []) acc) row (repeat zero d).

  Definition row_sum (row : list (nat * T)) : T := gsum T zero add (map snd row).

  Definition approx_basis (d : nat) (V : list (list T)) (row : list (nat * T)) : list T :=
    let s := pw (row_sum row) in map (fun t => div t s) (row_matvec d V row).

  Definition approx_row (d : nat) (V comps : list (list T)) (svs : list T) (row : list (nat * T)) : list T :=
    let b := approx_basis d V row in
    map2 (fun c s => div (gdot T zero add mul b c) (sqrt s)) comps svs.

  Definition approx_transform (d : nat) (V comps : list (list T)) (svs : list T) (X : list (list (nat * T))) : list (list T) :=
    map (approx_row d V comps svs) X.
End Approx.

Open Scope float_scope.
Definition approx_transform_F (pw : float -> float) :=
  approx_transform float 0 PrimFloat.add PrimFloat.mul PrimFloat.div PrimFloat.sqrt pw.
Definition approx_basis_F (pw : float -> float) := approx_basis float 0 PrimFloat.add PrimFloat.mul PrimFloat.div pw.
(* normalization_power = 1, 0.5, 2, 0 *)
Definition pw_one (x : float) : float := x.
Definition pw_half (x : float) : float := PrimFloat.sqrt x.
Definition pw_two (x : float) : float := x * x.
Definition pw_zero (x : float) : float := 1.
