(* Binary64 instance of the carrier of K12 / K13 for the correspondence runs (vm_compute on PrimFloat).
   + - * / sqrt abs and the comparisons are the IEEE primitives.  [ln] is NOT a primitive: it is computed here
   by argument reduction x = m * 2^e, m in [sqrt(1/2), sqrt 2), and the series
   ln m = 2 atanh z = 2 (z + z^3/3 + z^5/5 + ...), z = (m-1)/(m+1), |z| < 0.172, truncated after z^29 (error < 1e-17);
   the harness compares it with the C library's log on every run.  No theorem depends on this file. *)
From Coq Require Import ZArith List PrimFloat FloatOps.
From VZ Require Import Model.K12_Dist.
Import ListNotations.
Open Scope float_scope.

Definition f_of_Z (z : Z) : float := of_uint63 (Uint63.of_Z z).
Definition f_of_nat (n : nat) : float := f_of_Z (Z.of_nat n).

Definition ln2 : float := 0x1.62e42fefa39efp-1.
Definition sqrt_half : float := 0x1.6a09e667f3bcdp-1.

Fixpoint atanh_series (k : nat) (z2 : float) (acc : float) : float :=
  (* Horner: sum_{i=0..k} z2^i / (2i+1) *)
  match k with
  | O => 1 + z2 * acc
  | S k' => atanh_series k' z2 (1 / f_of_Z (Z.of_nat (2 * k + 1)) + z2 * acc)
  end.

Definition f_ln (x : float) : float :=
  if x <? 0 then nan
  else if x =? 0 then neg_infinity
  else if x =? infinity then infinity
  else if x =? x then
    let (m, e) := Z.frexp x in
    let (m, e) := if m <? sqrt_half then (m * 2, (e - 1)%Z) else (m, e) in
    let z := (m - 1) / (m + 1) in
    let z2 := z * z in
    let s := atanh_series 13 z2 (1 / 29) in
    (if (e <? 0)%Z then - (f_of_Z (- e)) else f_of_Z e) * ln2 + 2 * z * s
  else nan.

Definition F_ops (eps : float) : Ops float :=
  mkOps float 0 1 0.5 eps add sub mul div opp sqrt abs f_ln (fun x => x =? 0) ltb f_of_nat.

(* printing: exact mantissa / exponent *)
Definition out (x : float) := Prim2SF x.
Definition out_opt (x : option float) := match x with Some v => Some (Prim2SF v) | None => None end.
