(* K8 — executable model of the byte-pair-encoding part of vectorizers/mixed_gram_vectorizer.py
   (as repaired by the fix: commits for D14, D8, D5).  Definitions only; proofs are in Proofs/K8_BPE_proofs.v.

   Strings are lists of code points (Z).  Arrays are lists with CHECKED access: every read/write of the
   compiled loops is an [aget]/[aset] that fails with the number of its site, so that "no access outside the
   array" is a theorem about the model and not an artefact of a totalised [nth].

   What each definition mirrors:
     contract_loop / contract_pair_arr <- contract_pair (and the array output of contract_and_count_pairs, which is
                                          the same loop with dictionary updates in between): the `for i in
                                          range(len-1)` loop with its skip flag, the output buffer np.zeros(len)
                                          written at new_char_index, the tail copy char_list[len-1] guarded by
                                          `not skip_char and len > 0`, and the final slice [:new_char_index]
     clamp, apply_merges, bpe_encode   <- bpe_encode (code if code <= max_char_code else 0; one contract_pair per
                                          entry of code_list with new_code = max_char_code+1, +2, ...)
     to_unicode, pair_to_string        <- to_unicode / pair_to_string   (chr(code) or tokens[code-mcc-1])
     bpe_decode                        <- bpe_decode, and the 'tokens' comprehension of fit_transform/transform
     train_loop, finish, bpe_train     <- bpe_train: initial code points and max_char_code, first pair, the
                                          `while len(tokens) < vocab_size` loop (contract all, new_code += 1,
                                          select, append or break) and the post-loop contraction of the pending
                                          pair.  The choice of the pair (count_pairs, pruning_max_freq_pair,
                                          min_count halving, the `pair_counts[pair] > 1` test) is NOT part of this
                                          skeleton: it is the Section oracle (sel_init, sel_step) with its own
                                          state S; None stands for "(-1,-1) / rejected".
     unique_codes, col_of, sum_dups,
     matrix_fit, matrix_transform      <- the 'matrix' branches: np.unique(np.hstack(encodings)), the
                                          column_label_dictionary_, indices/data/indptr, csr_matrix +
                                          sum_duplicates (rows as sorted (column, count) lists), explicit shape
     tokens_out                        <- the 'tokens' branches
*)
From Coq Require Import ZArith List Bool Lia.
Import ListNotations.
Open Scope Z_scope.

Inductive res (A : Type) : Type :=
| Ok (a : A)
| Err (site : nat).   (* an IndexError / out-of-bounds access (sites 1-9) or a Python exception (sites >= 10) *)
Arguments Ok {A} a.
Arguments Err {A} site.

Definition bind {A B} (r : res A) (f : A -> res B) : res B :=
  match r with Ok a => f a | Err s => Err s end.
Notation "x <- r ;; k" := (bind r (fun x => k)) (at level 61, r at next level, right associativity).

Fixpoint mapM {A B} (f : A -> res B) (l : list A) : res (list B) :=
  match l with
  | [] => Ok []
  | x :: t => y <- f x ;; ys <- mapM f t ;; Ok (y :: ys)
  end.

(* ---------- checked arrays ---------- *)
Definition aget (l : list Z) (i : nat) : option Z := nth_error l i.

Fixpoint aset (l : list Z) (i : nat) (v : Z) : option (list Z) :=
  match l, i with
  | [], _ => None
  | _ :: t, O => Some (v :: t)
  | x :: t, S i' => match aset t i' v with Some t' => Some (x :: t') | None => None end
  end.

(* ---------- contract_pair: the loop as written ---------- *)
(* state: (skip_char, new_char_list, new_char_index); [i] is the loop variable, [steps] the remaining passes *)
Fixpoint contract_loop (cl : list Z) (a b c : Z) (steps i : nat) (skip : bool) (buf : list Z) (k : nat)
  : res (bool * list Z * nat) :=
  match steps with
  | O => Ok (skip, buf, k)
  | S steps' =>
      if skip then contract_loop cl a b c steps' (S i) false buf k
      else
        match aget cl i with
        | None => Err 1
        | Some x =>
            (* python `and`: char_list[i+1] is read only when char_list[i] == pair[0] *)
            let hit := if x =? a
                       then match aget cl (S i) with Some y => Some (y =? b) | None => None end
                       else Some false in
            match hit with
            | None => Err 2
            | Some true =>
                match aset buf k c with
                | None => Err 3
                | Some buf' => contract_loop cl a b c steps' (S i) true buf' (S k)
                end
            | Some false =>
                match aset buf k x with
                | None => Err 4
                | Some buf' => contract_loop cl a b c steps' (S i) false buf' (S k)
                end
            end
        end
  end.

Definition contract_pair_arr (cl : list Z) (a b c : Z) : res (list Z) :=
  let n := length cl in
  st <- contract_loop cl a b c (n - 1) 0 false (repeat 0 n) 0 ;;
  let '(skip, buf, k) := st in
  if negb skip && (0 <? n)%nat then
    match aget cl (n - 1) with
    | None => Err 5
    | Some x => match aset buf k x with
                | None => Err 6
                | Some buf' => Ok (firstn (S k) buf')
                end
    end
  else Ok (firstn k buf).

(* ---------- bpe_encode ---------- *)
Definition clamp (mcc c : Z) : Z := if c <=? mcc then c else 0.

Fixpoint apply_merges (ms : list (Z * Z)) (code : Z) (l : list Z) : res (list Z) :=
  match ms with
  | [] => Ok l
  | (a, b) :: ms' => l' <- contract_pair_arr l a b code ;; apply_merges ms' (code + 1) l'
  end.

Definition bpe_encode (ms : list (Z * Z)) (mcc : Z) (s : list Z) : res (list Z) :=
  apply_merges ms (mcc + 1) (map (clamp mcc) s).

(* ---------- code -> string ---------- *)
Definition MAXCP : Z := 1114111.
Definition is_codepoint (c : Z) : bool := (0 <=? c) && (c <=? MAXCP).

(* chr(code) raises ValueError outside range(0x110000); tokens[k] raises IndexError past the end *)
Definition to_unicode (tokens : list (list Z)) (mcc c : Z) : res (list Z) :=
  if c <=? mcc then (if is_codepoint c then Ok [c] else Err 10)
  else match nth_error tokens (Z.to_nat (c - mcc - 1)) with
       | Some t => Ok t
       | None => Err 11
       end.

Definition pair_to_string (p : Z * Z) (tokens : list (list Z)) (mcc : Z) : res (list Z) :=
  x <- to_unicode tokens mcc (fst p) ;; y <- to_unicode tokens mcc (snd p) ;; Ok (x ++ y).

(* the 'tokens' output of one row, and bpe_decode = its concatenation *)
Definition tokens_row (tokens : list (list Z)) (mcc : Z) (codes : list Z) : res (list (list Z)) :=
  mapM (to_unicode tokens mcc) codes.

Definition bpe_decode (tokens : list (list Z)) (mcc : Z) (codes : list Z) : res (list Z) :=
  ts <- tokens_row tokens mcc codes ;; Ok (concat ts).

(* tokens_ as bpe_train builds it, one entry per learned pair *)
Fixpoint build_tokens_from (mcc : Z) (tokens : list (list Z)) (ms : list (Z * Z)) : res (list (list Z)) :=
  match ms with
  | [] => Ok tokens
  | p :: ms' => t <- pair_to_string p tokens mcc ;; build_tokens_from mcc (tokens ++ [t]) ms'
  end.
Definition build_tokens (mcc : Z) (ms : list (Z * Z)) : res (list (list Z)) := build_tokens_from mcc [] ms.

(* ---------- bpe_train ---------- *)
Record trained : Type := mkTrained {
  t_tokens : list (list Z);      (* tokens_ *)
  t_merges : list (Z * Z);       (* code_list_ *)
  t_enc : list (list Z);         (* the encodings fit_transform returns for return_type='sequences' *)
  t_mcc : Z                      (* max_char_code_ *)
}.

Definition contract_all (p : Z * Z) (c : Z) (enc : list (list Z)) : res (list (list Z)) :=
  mapM (fun l => contract_pair_arr l (fst p) (snd p) c) enc.

Section Train.
  Variable OS : Type.                                       (* the oracle's private state: pair counts, lengths... *)
  (* code points, max_char_code.  The oracle may raise (Err): a KeyError in its own tables *)
  Variable sel_init : list (list Z) -> Z -> res (OS * option (Z * Z)).
  (* state, pair just contracted, its code, encodings before and after that contraction *)
  Variable sel_step : OS -> Z * Z -> Z -> list (list Z) -> list (list Z) -> res (OS * option (Z * Z)).

  (* after the loop: `if len(tokens) == new_code - max_char_code:` contract the pending pair *)
  Definition finish (toks : list (list Z)) (ms : list (Z * Z)) (p : Z * Z) (new_code : Z)
             (enc : list (list Z)) (mcc : Z) : res trained :=
    if Z.of_nat (length toks) =? new_code - mcc
    then enc' <- contract_all p new_code enc ;; Ok (mkTrained toks ms enc' mcc)
    else Ok (mkTrained toks ms enc mcc).

  (* [room] = vocab_size - len(tokens): the `while len(tokens) < vocab_size` test *)
  Fixpoint train_loop (room : nat) (st : OS) (toks : list (list Z)) (ms : list (Z * Z)) (p : Z * Z)
           (new_code : Z) (enc : list (list Z)) (mcc : Z) : res trained :=
    match room with
    | O => finish toks ms p new_code enc mcc
    | S room' =>
        enc' <- contract_all p new_code enc ;;
        let new_code' := new_code + 1 in
        r <- sel_step st p new_code enc enc' ;;
        match r with
        | (st', Some p') =>
            tok <- pair_to_string p' toks mcc ;;
            train_loop room' st' (toks ++ [tok]) (ms ++ [p']) p' new_code' enc' mcc
        | (_, None) => finish toks ms p new_code' enc' mcc          (* break *)
        end
    end.

  Definition bpe_train (X : list (list Z)) (vocab_size mcc0 : Z) : res trained :=
    let mcc := fold_left Z.max (concat X) mcc0 in
    r <- sel_init X mcc ;;
    match r with
    | (_, None) => Err 20     (* no pair / no pair occurring twice: np.max([]) or chr(-1) raise ValueError *)
    | (st, Some p) =>
        (* tokens = [chr(pair[0]) + chr(pair[1])] *)
        if is_codepoint (fst p) && is_codepoint (snd p)
        then train_loop (Z.to_nat (vocab_size - 1)) st [[fst p; snd p]] [p] p (mcc + 1) X mcc
        else Err 21
    end.
End Train.

(* the oracle used by the correspondence check of the skeleton alone: replay a given code_list *)
Definition replay_init (cl : list (Z * Z)) (_ : list (list Z)) (_ : Z) : res (list (Z * Z) * option (Z * Z)) :=
  Ok (tl cl, hd_error cl).
Definition replay_step (rest : list (Z * Z)) (_ : Z * Z) (_ : Z) (_ _ : list (list Z))
  : res (list (Z * Z) * option (Z * Z)) := Ok (tl rest, hd_error rest).

(* ---------- return types ---------- *)
(* np.unique: sorted, duplicate-free *)
Fixpoint insert_unique (x : Z) (l : list Z) : list Z :=
  match l with
  | [] => [x]
  | y :: t => if x <? y then x :: l else if x =? y then l else y :: insert_unique x t
  end.
Definition unique_codes (enc : list (list Z)) : list Z := fold_right insert_unique [] (concat enc).

(* column_label_dictionary_ = dict(zip(unique_codes, arange)) : position of the code *)
Fixpoint col_of (codes : list Z) (x : Z) : option Z :=
  match codes with
  | [] => None
  | y :: t => if x =? y then Some 0 else option_map Z.succ (col_of t x)
  end.

(* csr row after sum_duplicates: (column, count) sorted by column, equal columns summed *)
Fixpoint insert_add (j : Z) (row : list (Z * Z)) : list (Z * Z) :=
  match row with
  | [] => [(j, 1)]
  | (j', n) :: t => if j <? j' then (j, 1) :: row else if j =? j' then (j', n + 1) :: t
                    else (j', n) :: insert_add j t
  end.
Definition sum_dups (indices : list Z) : list (Z * Z) := fold_right insert_add [] indices.

(* fit_transform: every code of the encodings has a column by construction (a missing one is a KeyError) *)
Definition matrix_fit_row (codes : list Z) (row : list Z) : res (list (Z * Z)) :=
  idx <- mapM (fun x => match col_of codes x with Some j => Ok j | None => Err 12 end) row ;;
  Ok (sum_dups idx).

(* (n_rows, n_cols, rows); the width of fit_transform is inferred by scipy = largest column + 1 *)
Definition matrix_fit (enc : list (list Z)) : res (Z * Z * list (list (Z * Z))) :=
  let codes := unique_codes enc in
  rows <- mapM (matrix_fit_row codes) enc ;;
  Ok (Z.of_nat (length enc), Z.of_nat (length codes), rows).

(* transform (repaired): codes without a column are skipped, shape = (len X, len dictionary) *)
Definition matrix_transform_row (codes : list Z) (row : list Z) : list (Z * Z) :=
  sum_dups (flat_map (fun x => match col_of codes x with Some j => [j] | None => [] end) row).

Definition matrix_transform (codes : list Z) (enc : list (list Z)) : Z * Z * list (list (Z * Z)) :=
  (Z.of_nat (length enc), Z.of_nat (length codes), map (matrix_transform_row codes) enc).

Definition tokens_out (tokens : list (list Z)) (mcc : Z) (enc : list (list Z)) : res (list (list (list Z))) :=
  mapM (tokens_row tokens mcc) enc.

(* ---------- the estimator ---------- *)
Definition transform_sequences (t : trained) (X : list (list Z)) : res (list (list Z)) :=
  mapM (bpe_encode (t_merges t) (t_mcc t)) X.

(* ---------- list-level specification of one contraction (greedy, left to right, non-overlapping) ---------- *)
Fixpoint contract (a b c : Z) (l : list Z) : list Z :=
  match l with
  | x :: ((y :: t) as r) => if (x =? a) && (y =? b) then c :: contract a b c t else x :: contract a b c r
  | _ => l
  end.

Fixpoint encode_from (ms : list (Z * Z)) (code : Z) (l : list Z) : list Z :=
  match ms with
  | [] => l
  | (a, b) :: ms' => encode_from ms' (code + 1) (contract a b code l)
  end.
Definition encode (ms : list (Z * Z)) (mcc : Z) (s : list Z) : list Z :=
  encode_from ms (mcc + 1) (map (clamp mcc) s).

(* ---------- reading a sparse row: the value at column j (scipy semantics: entries of one column add up) ---------- *)
Fixpoint cell (row : list (Z * Z)) (j : Z) : Z :=
  match row with
  | [] => 0
  | (j', n) :: t => (if j' =? j then n else 0) + cell t j
  end.

Definition countZ (x : Z) (l : list Z) : Z := Z.of_nat (count_occ Z.eq_dec l x).

(* ================================================================== specification vocabulary
   (used by the statements in Properties/C09.v; nothing here is executed by the correspondence check) *)
From Coq Require Import Sorted.

(* the string a code stands for, as a total function (no exceptions): [c] for a character, the token otherwise *)
Definition expand (tokens : list (list Z)) (mcc c : Z) : list Z :=
  if c <=? mcc then [c] else nth (Z.to_nat (c - mcc - 1)) tokens [].

(* codes that may occur once [k] merges are known *)
Definition is_char (mcc c : Z) : Prop := 0 <= c <= mcc /\ c <= MAXCP.
Definition wf_code (mcc : Z) (k : nat) (c : Z) : Prop := is_char mcc c \/ mcc < c < mcc + 1 + Z.of_nat k.

Definition wf_merges (mcc : Z) (ms : list (Z * Z)) : Prop :=
  0 <= mcc /\
  forall i a b, nth_error ms i = Some (a, b) -> wf_code mcc i a /\ wf_code mcc i b.

Definition codepoints (s : list Z) : Prop := Forall (fun c => 0 <= c <= MAXCP) s.

(* canonical format: columns strictly increasing, every stored count positive *)
Definition canonical_row (row : list (Z * Z)) : Prop :=
  StronglySorted Z.lt (map fst row) /\ Forall (fun p => 0 < snd p) row.

