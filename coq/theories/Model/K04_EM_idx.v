(* K4 (index level) — executable CHECKED-ACCESS model of coo_utils.em_update_matrix as repaired by the D9 fix
   (guard `context_ind[..] < len(col_ind)` before `col_ind[context_ind[..]]`); the pre-repair body is the
   [guarded := false] variant.  Definitions only; proofs are in Proofs/K04_EM_idx_proofs.v.

   Every array read / write of the kernel goes through [get] / [set] / [vget], which return [OOB site] when the index
   is outside the array (or outside the *view*: numba's bounds checker tests an index against the shape of the view
   it is applied to, the compiled code without checking reads the parent array's memory — that variant is
   Model/K04_EM.em_update_flat).  All indices of this kernel are sums of non-negative quantities (no subtraction
   except inside np.searchsorted's `lo + (hi - lo) // 2` under `lo < hi`), so they live in nat.

   Line by line (coo_utils.py):
     total_win_length, window_posterior, context_ind   <- list_sum (map length windows); repeat zero / repeat 0
     win_offset = np.append(zeros(1), cumsum(lens))[:-1]  <- win_offsets
     col_ind = prior_indices[indptr[t] : indptr[t+1]]     <- slice_view (python slices clamp to the array: a view
                                                             (start, length) into prior_indices), reads of indptr checked
     for w, window in enumerate(windows): for i, context in enumerate(window):       <- estep_windows / estep_window,
                                                             running indices w and i
       kernels[w][i]                                      <- get E_kernels_w kernels w, then get E_kernel _ i
       np.searchsorted(col_ind, context + w*n)            <- searchsorted_idx: numpy's binary search, reads through the view
       context_ind[i + win_offset[w]] = ...               <- get E_win_offset, set E_ctx_write
       context_ind[..] < len(col_ind) and col_ind[context_ind[..]] == target   <- the guard, then vget E_col_ind
       prior_data[indptr[t] + context_ind[..]]            <- get E_prior
       window_posterior[i + win_offset[w]] = ...          <- set E_wp_write   (both branches)
     temp = window_posterior.sum(); if temp > 0: window_posterior /= temp             <- whole-array operations
     second double loop: val = window_posterior[i + win_offset[w]]; if val > 0:
       posterior_data[indptr[t] + context_ind[i + win_offset[w]]] += val              <- mstep_*: get E_wp_read,
                                                             get E_ctx_read, get/set E_post
   Re-reads of a location just written in the same iteration (context_ind[i + win_offset[w]] after the assignment,
   kernels[w][i] a second time) use the same index as the first access and are not repeated. *)
From Coq Require Import List Arith Bool.
From VZ Require Import Model.K02_Windows Model.K03_Cooc Model.K04_EM.
Import ListNotations.
Open Scope nat_scope.

Inductive site :=
| E_indptr_lo     (* prior_indptr[target_gram_ind] *)
| E_indptr_hi     (* prior_indptr[target_gram_ind + 1] *)
| E_kernels_w     (* kernels[w] *)
| E_kernel        (* kernels[w][i] *)
| E_win_offset    (* win_offset[w] *)
| E_search        (* col_ind[mid] inside np.searchsorted *)
| E_ctx_write     (* context_ind[i + win_offset[w]] = ... *)
| E_col_ind       (* col_ind[context_ind[i + win_offset[w]]] *)
| E_prior         (* prior_data[prior_indptr[t] + context_ind[..]] *)
| E_wp_write      (* window_posterior[i + win_offset[w]] = ... *)
| E_wp_read       (* val = window_posterior[i + win_offset[w]] *)
| E_ctx_read      (* context_ind[i + win_offset[w]] in the M-step *)
| E_post.         (* posterior_data[prior_indptr[t] + context_ind[..]] += val *)

Inductive res (A : Type) := Ok (a : A) | OOB (s : site).
Arguments Ok {A} a.
Arguments OOB {A} s.

Definition bind {A B} (r : res A) (f : A -> res B) : res B :=
  match r with Ok a => f a | OOB s => OOB s end.
Notation "x <- e ;; f" := (bind e (fun x => f)) (at level 61, e at next level, right associativity).

Definition get {A} (s : site) (l : list A) (i : nat) : res A :=
  match nth_error l i with Some a => Ok a | None => OOB s end.

Definition set {A} (s : site) (l : list A) (i : nat) (v : A) : res (list A) :=
  if i <? length l then Ok (upd l i v) else OOB s.

(* a[lo:hi] of an array of length n (0 <= lo, hi): a view, no element is touched *)
Record view := { v_start : nat; v_len : nat }.
Definition slice_view (lo hi n : nat) : view :=
  {| v_start := Nat.min lo n; v_len := Nat.min hi n - Nat.min lo n |}.

(* view[k]: checked against the view's own length *)
Definition vget {A} (s : site) (base : list A) (v : view) (k : nat) : res A :=
  if k <? v_len v then get s base (v_start v + k) else OOB s.

(* np.searchsorted(col_ind, x), side='left' *)
Fixpoint bsearch_idx (fuel : nat) (base : list nat) (v : view) (x lo hi : nat) : res nat :=
  match fuel with
  | O => Ok lo
  | S f => if lo <? hi
           then let m := lo + (hi - lo) / 2 in
                a <- vget E_search base v m ;;
                if a <? x then bsearch_idx f base v x (m + 1) hi else bsearch_idx f base v x lo m
           else Ok lo
  end.
Definition searchsorted_idx (base : list nat) (v : view) (x : nat) : res nat :=
  bsearch_idx (v_len v) base v x 0 (v_len v).

Fixpoint cumsum_from (acc : nat) (l : list nat) : list nat :=
  match l with [] => [] | x :: t => (acc + x) :: cumsum_from (acc + x) t end.
Definition win_offsets (windows : list (list nat)) : list nat :=
  removelast (0 :: cumsum_from 0 (map (@length nat) windows)).

Section EM.
Context {K : carrier}.
Variable guarded : bool.
Variables (indices : list nat) (prior : list K) (n lo : nat) (cv : view).
Variables (kernels : list (list K)) (offs : list nat).

(* body of the first double loop; state = (context_ind, window_posterior) *)
Definition estep_slot (w i context : nat) (st : list nat * list K) : res (list nat * list K) :=
  kw <- get E_kernels_w kernels w ;;
  k <- get E_kernel kw i ;;
  if gtb0 k then
    off <- get E_win_offset offs w ;;
    let pos := i + off in
    let target := context + w * n in
    idx <- searchsorted_idx indices cv target ;;
    cind' <- set E_ctx_write (fst st) pos idx ;;
    hit <- (if guarded
            then if idx <? v_len cv
                 then c <- vget E_col_ind indices cv idx ;; Ok (Nat.eqb c target)
                 else Ok false                                           (* python `and` short-circuits *)
            else c <- vget E_col_ind indices cv idx ;; Ok (Nat.eqb c target)) ;;
    if hit : bool
    then p <- get E_prior prior (lo + idx) ;;
         wp' <- set E_wp_write (snd st) pos (mul k p) ;;
         Ok (cind', wp')
    else wp' <- set E_wp_write (snd st) pos zero ;;
         Ok (cind', wp')
  else Ok st.

Fixpoint estep_window (w i : nat) (window : list nat) (st : list nat * list K) : res (list nat * list K) :=
  match window with
  | [] => Ok st
  | c :: t => st' <- estep_slot w i c st ;; estep_window w (S i) t st'
  end.

Fixpoint estep_windows (w : nat) (windows : list (list nat)) (st : list nat * list K) : res (list nat * list K) :=
  match windows with
  | [] => Ok st
  | win :: t => st' <- estep_window w 0 win st ;; estep_windows (S w) t st'
  end.

(* body of the second double loop; the loop variable `context` is not used there *)
Definition mstep_slot (cind : list nat) (wp : list K) (w i : nat) (post : list K) : res (list K) :=
  off <- get E_win_offset offs w ;;
  val <- get E_wp_read wp (i + off) ;;
  if gtb0 val then
    idx <- get E_ctx_read cind (i + off) ;;
    old <- get E_post post (lo + idx) ;;
    set E_post post (lo + idx) (add old val)
  else Ok post.

Fixpoint mstep_window (cind : list nat) (wp : list K) (w i : nat) (window : list nat) (post : list K) : res (list K) :=
  match window with
  | [] => Ok post
  | _ :: t => post' <- mstep_slot cind wp w i post ;; mstep_window cind wp w (S i) t post'
  end.

Fixpoint mstep_windows (cind : list nat) (wp : list K) (w : nat) (windows : list (list nat)) (post : list K) : res (list K) :=
  match windows with
  | [] => Ok post
  | win :: t => post' <- mstep_window cind wp w 0 win post ;; mstep_windows cind wp (S w) t post'
  end.
End EM.

Definition em_update_idx_gen {K : carrier} (guarded : bool) (post : list K) (indices indptr : list nat) (prior : list K)
           (n tgt : nat) (windows : list (list nat)) (kernels : list (list K)) : res (list K) :=
  let total := list_sum (map (@length nat) windows) in
  let offs := win_offsets windows in
  lo <- get E_indptr_lo indptr tgt ;;
  hi <- get E_indptr_hi indptr (tgt + 1) ;;
  let cv := slice_view lo hi (length indices) in
  st <- estep_windows guarded indices prior n lo cv kernels offs 0 windows (repeat 0 total, repeat zero total) ;;
  let temp := tsum (snd st) in
  let wp := if gtb0 temp then map (fun x => div x temp) (snd st) else snd st in
  mstep_windows lo offs (fst st) wp 0 windows post.

Definition em_update_idx {K : carrier} := @em_update_idx_gen K true.
Definition em_update_idx_unguarded {K : carrier} := @em_update_idx_gen K false.

(* the usual well-formedness of the CSR triple (indices, indptr, data) and of the call *)
Definition csr_ok (indices indptr : list nat) (n_data : nat) : Prop :=
  (forall r, r + 1 < length indptr -> nth r indptr 0 <= nth (r + 1) indptr 0) /\
  last indptr 0 <= length indices /\ n_data = length indices.

Definition same_shapes {K : carrier} (windows : list (list nat)) (kernels : list (list K)) : Prop :=
  Forall2 (fun (w : list nat) (k : list K) => length w = length k) windows kernels.

(* printable verdict *)
Definition show_res {K : carrier} {B} (f : K -> B) (r : res (list K)) : option (list B) * option site :=
  match r with Ok l => (Some (map f l), None) | OOB s => (None, Some s) end.
