(* The models K5/K6 instantiated with IEEE floats (Model/K5_Float.v) and integer tokens: what the correspondence
   of C05/C14 evaluates.  The harness maps the strings of a case to their ranks in python's sorted order. *)
From Coq Require Import ZArith List.
From VZ Require Import Model.K5_Vocab Model.K5_Float Model.K6_Reindex.
Import ListNotations.
Open Scope Z_scope.

Definition learn_vocab_fl (matches : Z -> bool) :=
  learn_vocab Z Z.eqb Z.ltb matches f32div_fl f64div_fl f64to32_fl one64_fl.
Definition prune_fl (matches : Z -> bool) :=
  prune Z Z.eqb matches f64div_fl f64to32_fl one64_fl.
Definition preprocess_fl (matches : Z -> bool) :=
  preprocess Z Z.eqb Z.ltb matches f32div_fl f64div_fl f64to32_fl one64_fl.
(* n-grams of token indices as tokens, python tuple order *)
Definition learn_ngram_vocab_fl :=
  learn_ngram_vocab (list Z) lex_eqb lex_ltb (fun _ => false) f32div_fl f64div_fl f64to32_fl one64_fl.

(* NgramVectorizer.fit, ngram_size >= 2, ngram_dictionary=None: the n-gram dictionary over token indices
   (column_label_dictionary_ is its image under the inverse token dictionary) *)
Definition ngram_vocab_fl (matches : Z -> bool) (c : config Z) (docs : list (list Z)) (masking : option Z)
           (sub : bool) (n : nat) : res (dict Z * dict (list Z)) :=
  match preprocess_fl matches c docs None masking with
  | Err e => Err e
  | Ok (seqs, d', _) =>
      match learn_ngram_vocab_fl (retype_config c)
                                 (map (fun s => ngrams_of sub n (map Z.of_nat s)) seqs) with
      | Err e => Err e
      | Ok (gd, _) => Ok (d', gd)
      end
  end.
