(* K02_TwoPathsNgram — executable model of NgramVectorizer.fit / .fit_transform / .transform
   (vectorizers/ngram_vectorizer.py:215-414) WITH pruning, mask_string and nullify_mask: the preprocessing is
   Model/K6_Reindex.v preprocess (vocabulary K5 + re-indexing K6), the n-grams and the counting loop are those of
   Model/K7_Ngrams.v (ngrams_of, col_of, incr), here with the nullify_mask test added.  Model/K7_Ngrams.v's own
   ng_fit / ng_transform is the special case mask_string = None, nullify_mask = False, no pruning
   (Proofs/K02_TwoPathsNgram_proofs.v ngv_transform_is_K7).  Definitions only.

   Tokens (labels) are Z.  Correspondence with the code:
     zdict / zseq           <- the dictionary / the int32 index arrays of preprocess_token_sequences seen with Z indices
     ngv_fit                <- fit: preprocess_token_sequences(X, token_dictionary=..., <pruning>, masking=mask_string);
                               ngrams = [ngrams_of(seq, n, behaviour) for seq in token_sequences]; the three branches
                               for column_label_dictionary_ (ngram_dictionary given | ngram_size == 1 | learned from
                               `ngrams` — the second-stage construct/prune + relabelling is the function [learn_cold],
                               it may raise); the nullify_mask block (mask_ngram = tuple(mask_index * ones(n)) looked
                               up in column_label_dictionary_); the counting loop over `ngrams`; _train_matrix
     ngv_fit_transform      <- fit_transform: self.fit(X); return self._train_matrix
     ngv_transform          <- transform: preprocess_token_sequences(X, self._token_dictionary_, masking=self.mask_string)
                               (after the D10 repair), n-grams recomputed per sequence, the same loop body
     ngv_transform_unrepaired <- the code before D10's repair: masking not passed (delete mode with a dictionary that
                               contains the mask entry)
     count_doc_skip         <- the loop body: KeyError -> gram dropped; `not (nullify_mask and col_index is
                               _mask_ngram_index)` -> counted.  `is` on the dictionary's own value objects is modelled
                               as equality of column indices (the two coincide when the column dictionary is injective)
   State that fit does not reset (_mask_ngram_index of an earlier fit, when the new column dictionary does not contain
   the mask n-gram) is not modelled: the model is a function of (parameters, X). *)
From Coq Require Import ZArith List Bool Arith.
From VZ Require Import Model.K5_Vocab Model.K6_Reindex Model.K02_TwoPaths.
From VZ Require Model.K10_Assembly Model.K7_Ngrams.
Import ListNotations.
Open Scope Z_scope.

Module KA := K10_Assembly.
Module KN := K7_Ngrams.

Definition zdict (d : dict Z) : KA.dict := map (fun e => (fst e, Z.of_nat (snd e))) d.
Definition zseq (s : list nat) : list Z := map Z.of_nat s.

Record ngv_params := {
  np_size : nat;                 (* ngram_size *)
  np_beh : KN.behaviour;          (* ngram_behaviour *)
  np_mask : option Z;            (* mask_string *)
  np_nullify : bool              (* nullify_mask *)
}.

(* _token_dictionary_, _inverse_token_dictionary_, column_label_dictionary_, _mask_ngram_index *)
Record ngv_model := {
  nv_dict : dict Z;
  nv_inv : KA.dict;
  nv_cold : KN.gdict;
  nv_mask_col : option Z
}.

Definition count_doc_skip (skip : option Z) (inv : KA.dict) (cold : KN.gdict) (grams : list (list Z)) : KA.dict :=
  fold_left (fun counter g =>
               match KN.col_of inv cold g with
               | Some c => if match skip with Some mc => c =? mc | None => false end then counter
                           else KN.incr c counter
               | None => counter
               end) grams [].

Definition count_matrix (M : ngv_model) (gram_docs : list (list (list Z))) : KA.matrix :=
  (Z.of_nat (length gram_docs), Z.of_nat (length (nv_cold M)),
   flat_map (fun i => map (fun cv => (Z.of_nat i, fst cv, snd cv))
                          (count_doc_skip (nv_mask_col M) (nv_inv M) (nv_cold M) (nth i gram_docs [])))
            (seq 0 (length gram_docs))).

Section Ngv.
Variable matches : Z -> bool.
Variables f32div f64div : Z -> Z -> Z.
Variable f64to32 : Z -> Z.
Variable one64 : Z.
Variable prm : ngv_params.
(* second-stage vocabulary: (token dictionary, inverse dictionary, n-grams of the re-indexed corpus) -> columns *)
Variable learn_cold : KA.dict -> KA.dict -> list (list (list Z)) -> res KN.gdict.

Notation preprocess := (preprocess Z Z.eqb Z.ltb matches f32div f64div f64to32 one64).

Definition grams_of (seqs : list (list nat)) : list (list (list Z)) :=
  map (fun s => KN.ngrams_of (zseq s) (np_size prm) (np_beh prm)) seqs.

Definition ngv_fit (c : config Z) (td : option (dict Z)) (nd : option KN.gdict) (X : list (list Z))
  : res (ngv_model * KA.matrix) :=
  match preprocess c X td (np_mask prm) with
  | Err e => Err e
  | Ok (token_sequences, d, fr) =>
      let inv := KN.invert (zdict d) in
      let ngrams := grams_of token_sequences in
      match (match nd with
             | Some g => Ok g
             | None => if (np_size prm =? 1)%nat then Ok (KN.bare_dict (zdict d)) else learn_cold (zdict d) inv ngrams
             end) with
      | Err e => Err e
      | Ok cold =>
          let mc := if np_nullify prm
                    then KN.glookup (KN.Tup (repeat (Z.of_nat (length fr)) (np_size prm))) cold
                    else None in
          let M := {| nv_dict := d; nv_inv := inv; nv_cold := cold; nv_mask_col := mc |} in
          Ok (M, count_matrix M ngrams)
      end
  end.

Definition ngv_fit_transform (c : config Z) (td : option (dict Z)) (nd : option KN.gdict) (X : list (list Z))
  : res KA.matrix :=
  match ngv_fit c td nd X with Ok (_, train) => Ok train | Err e => Err e end.

Definition ngv_transform (M : ngv_model) (X : list (list Z)) : res KA.matrix :=
  match preprocess (default_config Z) X (Some (nv_dict M)) (np_mask prm) with
  | Err e => Err e
  | Ok (token_sequences, _, _) => Ok (count_matrix M (grams_of token_sequences))
  end.

Definition ngv_transform_unrepaired (M : ngv_model) (X : list (list Z)) : res KA.matrix :=
  match preprocess (default_config Z) X (Some (nv_dict M)) None with
  | Err e => Err e
  | Ok (token_sequences, _, _) => Ok (count_matrix M (grams_of token_sequences))
  end.

End Ngv.

(* the fitted state as a Model/K7_Ngrams.v model *)
Definition to_K7 (prm : ngv_params) (M : ngv_model) : KN.ng_model :=
  (zdict (nv_dict M), nv_inv M, nv_cold M, np_size prm, np_beh prm).
