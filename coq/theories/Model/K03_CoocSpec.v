(* K3 — the SPEC side of C03: the windowed, kernel-weighted count written pointwise, with indicator predicates over
   all positions of a document (no slicing, no clipping, no loop order, no window lists).  Definitions only
   (executable, so the specification itself can be evaluated).

   One positional block as seen from one target occurrence: orientation, radius (already looked up for the row),
   anchor position, base weight of a context position, mask id, kernel normalisation, offset, mix weight. *)
From Coq Require Import List Arith Bool.
From VZ Require Import Model.K02_Windows Model.K03_Cooc.
Import ListNotations.

Record pblock (K : carrier) := {
  pb_rev : bool; pb_R : nat; pb_anchor : nat; pb_bw : nat -> K;
  pb_mask : option nat; pb_norm : bool; pb_off : nat; pb_mix : K
}.
Arguments pb_rev {K}. Arguments pb_R {K}. Arguments pb_anchor {K}. Arguments pb_bw {K}.
Arguments pb_mask {K}. Arguments pb_norm {K}. Arguments pb_off {K}. Arguments pb_mix {K}.

Section Spec.
Context {K : carrier}.
Variable L : nat.            (* length of the document *)
Variable tok : nat -> nat.   (* token id at a position *)

Definition p_in (b : pblock K) (q : nat) : bool := in_win (pb_rev b) (pb_R b) (pb_anchor b) q.

(* un-normalised kernel value of context position q: zero within the first `offset` distances and on the mask *)
Definition p_raw (b : pblock K) (q : nat) : K :=
  if (dist (pb_anchor b) q <=? pb_off b) || is_mask (pb_mask b) (tok q) then zero else pb_bw b q.

Definition p_ksum (b : pblock K) : K := isum L (fun q => if p_in b q then p_raw b q else zero).

Definition p_norm (b : pblock K) (q : nat) : K :=
  if pb_norm b then (if gtb0 (p_ksum b) then div (p_raw b q) (p_ksum b) else p_raw b q) else p_raw b q.

Definition p_weight (b : pblock K) (q : nat) : K := mul (pb_mix b) (p_norm b q).

(* the window total of the occurrence: 1, or the sum over all its windows when normalize_windows (1 if that is not > 0) *)
Definition p_total (nw : bool) (bs : list (pblock K)) : K :=
  if nw
  then let t := bigsum (fun b => isum L (fun q => if p_in b q then p_weight b q else zero)) bs in
       if gtb0 t then t else one
  else one.

(* contribution of one occurrence to column c of block i *)
Definition p_cell (nw : bool) (bs : list (pblock K)) (i c : nat) : K :=
  match nth_error bs i with
  | Some b => isum L (fun q => if p_in b q && Nat.eqb (tok q) c
                               then posv (div (p_weight b q) (p_total nw bs)) else zero)
  | None => zero
  end.

End Spec.

(* ---------- token vectorizer ---------- *)
(* blocks as seen from an occurrence of row id r at position p of document d *)
Definition token_pblocks {K : carrier} (blocks : list (block K)) (r p : nat) : list (pblock K) :=
  map (fun b => {| pb_rev := b_rev b; pb_R := nth r (b_radii b) 0; pb_anchor := p;
                   pb_bw := fun q => b_kf b (dist p q);
                   pb_mask := b_mask b; pb_norm := b_norm b; pb_off := b_off b; pb_mix := b_mix b |}) blocks.

Definition token_spec {K : carrier} (blocks : list (block K)) (nw : bool) (docs : list (list nat)) (r c i : nat) : K :=
  bigsum (fun d => isum (length d) (fun p =>
            if Nat.eqb (nth p d 0) r
            then p_cell (length d) (fun q => nth q d 0) nw (token_pblocks blocks r p) i c
            else zero)) docs.

(* ---------- n-gram vectorizer ---------- *)
(* the n-gram occupying positions [a, a+size) ; 'before' is anchored at a, 'after' at a+size-1 *)
Definition ngram_pblocks {K : carrier} (blocks : list (block K)) (size r a : nat) : list (pblock K) :=
  map (fun b => let anchor := if b_rev b then a else a + size - 1 in
                {| pb_rev := b_rev b; pb_R := nth r (b_radii b) 0; pb_anchor := anchor;
                   pb_bw := fun q => b_kf b (dist anchor q);
                   pb_mask := b_mask b; pb_norm := b_norm b; pb_off := b_off b; pb_mix := b_mix b |}) blocks.

Definition ngram_at (d : list nat) (a size : nat) : list nat := map (fun j => nth (a + j) d 0) (seq 0 size).

Definition ngram_spec {K : carrier} (blocks : list (block K)) (nw : bool) (dict : list (list nat * nat)) (size : nat)
           (docs : list (list nat)) (r c i : nat) : K :=
  bigsum (fun d => isum (length d) (fun a =>
            if (a + size <=? length d) &&
               (match dict_find dict (ngram_at d a size) with Some r' => Nat.eqb r' r | None => false end)
            then p_cell (length d) (fun q => nth q d 0) nw (ngram_pblocks blocks size r a) i c
            else zero)) docs.

(* ---------- timed vectorizer ---------- *)
Definition timed_pblocks {K : carrier} {Tm : Type} (absdiff : Tm -> Tm -> Tm) (t0 : Tm)
           (blocks : list (tblock K Tm)) (d : list (nat * Tm)) (r p : nat) : list (pblock K) :=
  map (fun b => {| pb_rev := tb_rev b; pb_R := nth r (tb_radii b) 0; pb_anchor := p;
                   pb_bw := fun q => tb_g b (absdiff (snd (nth q d (0, t0))) (snd (nth p d (0, t0))));
                   pb_mask := tb_mask b; pb_norm := tb_norm b; pb_off := tb_off b; pb_mix := tb_mix b |}) blocks.

Definition timed_spec {K : carrier} {Tm : Type} (absdiff : Tm -> Tm -> Tm) (t0 : Tm)
           (blocks : list (tblock K Tm)) (nw : bool) (docs : list (list (nat * Tm))) (r c i : nat) : K :=
  bigsum (fun d => isum (length d) (fun p =>
            if Nat.eqb (fst (nth p d (0, t0))) r
            then p_cell (length d) (fun q => fst (nth q d (0, t0))) nw (timed_pblocks absdiff t0 blocks d r p) i c
            else zero)) docs.

(* ---------- multiset vectorizer ---------- *)
(* a document is a list of multisets; a context is a pair (multiset index q, slot s').  The window of the target
   (m, s) is its own multiset (distance 0, its own slot excluded) and the next / previous R multisets at
   distances 1..R; every token of a multiset at distance k gets the kernel value b_kf k; `offset` removes the first
   `offset` distances (0 .. offset-1); a target that is the (nullified) mask has no contexts at all. *)
Section MSpec.
Context {K : carrier}.
Variable doc : list (list nat).

Definition mtok (q s' : nat) : nat := nth s' (nth q doc []) 0.
Definition msize (q : nat) : nat := length (nth q doc []).

Definition m_in (b : block K) (R m q : nat) : bool := Nat.eqb q m || in_win (b_rev b) R m q.

Definition m_raw (b : block K) (m s q s' : nat) : K :=
  if (dist m q <? b_off b) || is_mask (b_mask b) (mtok q s') || (Nat.eqb q m && Nat.eqb s' s)
     || is_mask (b_mask b) (mtok m s)
  then zero else b_kf b (dist m q).

(* Σ over the (multiset, slot) pairs of the window *)
Definition m_sum (b : block K) (R m : nat) (f : nat -> nat -> K) : K :=
  isum (length doc) (fun q => if m_in b R m q then isum (msize q) (fun s' => f q s') else zero).

Definition m_ksum (b : block K) (R m s : nat) : K := m_sum b R m (m_raw b m s).

Definition m_norm (b : block K) (R m s q s' : nat) : K :=
  if b_norm b then (if gtb0 (m_ksum b R m s) then div (m_raw b m s q s') (m_ksum b R m s) else m_raw b m s q s')
  else m_raw b m s q s'.

Definition m_weight (b : block K) (R m s q s' : nat) : K := mul (b_mix b) (m_norm b R m s q s').

Definition m_total (nw : bool) (blocks : list (block K)) (r m s : nat) : K :=
  if nw
  then let t := bigsum (fun b => m_sum b (nth r (b_radii b) 0) m (m_weight b (nth r (b_radii b) 0) m s)) blocks in
       if gtb0 t then t else one
  else one.

Definition m_cell (nw : bool) (blocks : list (block K)) (r m s i c : nat) : K :=
  match nth_error blocks i with
  | Some b => let R := nth r (b_radii b) 0 in
              m_sum b R m (fun q s' => if Nat.eqb (mtok q s') c
                                       then posv (div (m_weight b R m s q s') (m_total nw blocks r m s)) else zero)
  | None => zero
  end.

End MSpec.

Definition multi_spec {K : carrier} (blocks : list (block K)) (nw : bool) (docs : list (list (list nat))) (r c i : nat) : K :=
  bigsum (fun doc => isum (length doc) (fun m => isum (msize doc m) (fun s =>
            if Nat.eqb (mtok doc m s) r then m_cell doc nw blocks r m s i c else zero))) docs.
