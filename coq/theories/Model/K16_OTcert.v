(* K16 — certificate checker for the transportation linear program, over exact rationals (Q), and the index
   map of the glue between vectorizers/linear_optimal_transport.py and pynndescent's network simplex.
   Definitions only; proofs are in Proofs/K16_OTcert_proofs.v.

   The network simplex itself (pynndescent.optimal_transport.network_simplex_core) is third-party and NOT
   modelled (DESIGN §3.5).  What is modelled:

     check_plan p q C X u v X' delta eps unit : bool
        p, q   the two marginals (exact rationals)
        C      the n x m cost matrix
        X      the plan returned by the implementation (its float entries read as exact rationals)
        u, v   dual potentials         (untrusted; found by the harness)
        X'     an exactly feasible plan (untrusted; found by the harness, a repair of X)
        delta  tolerance on the marginals of X        eps, unit : tolerance  eps * max(unit, D)  on the cost bracket
     The checker computes with list recursion (row sums by `qsum`, column sums by adding the rows, <X,C> by `dot`).

     arc_of / arc_id / stored_arc / src_node / tgt_node / get_transport_plan
        <- get_transport_plan:   arc = i * m + j ; flow_idx = arc_id(arc, graph) ; result[i, j] = flow[flow_idx]
        <- pynndescent arc_id with use_arc_mixing = False (what transport_plan requests):  n_arcs - arc - 1
        <- allocate_graph_structures (no mixing): position i of source/target holds arc a = n_arcs - 1 - i with
             source[i] = n_nodes - (a // m) - 1 ,  target[i] = n_nodes - ((a % m) + n) - 1
        <- initialize_supply: logical node k (k < n: row k, else column k - n) is stored at n_nodes - k - 1
*)
From Coq Require Import QArith Qminmax List Bool ZArith Arith.
Import ListNotations.
Open Scope Q_scope.

Notation vec := (list Q) (only parsing).
Notation mat := (list (list Q)) (only parsing).

Fixpoint qsum (l : vec) : Q := match l with [] => 0 | x :: t => x + qsum t end.

Fixpoint dot (a b : vec) : Q :=
  match a, b with
  | x :: a', y :: b' => x * y + dot a' b'
  | _, _ => 0
  end.

Fixpoint vadd (a b : vec) : vec :=
  match a, b with
  | x :: a', y :: b' => (x + y) :: vadd a' b'
  | _, _ => []
  end.

Definition rowsums (X : mat) : vec := map qsum X.

Fixpoint colsums (m : nat) (X : mat) : vec :=
  match X with
  | [] => repeat 0 m
  | r :: X' => vadd r (colsums m X')
  end.

(* <X, C> *)
Fixpoint inner (X C : mat) : Q :=
  match X, C with
  | r :: X', c :: C' => dot r c + inner X' C'
  | _, _ => 0
  end.

Fixpoint forallb2 {A B} (f : A -> B -> bool) (a : list A) (b : list B) : bool :=
  match a, b with
  | [], [] => true
  | x :: a', y :: b' => f x y && forallb2 f a' b'
  | _, _ => false
  end.

Definition is_matrix (n m : nat) (X : mat) : bool :=
  Nat.eqb (length X) n && forallb (fun r => Nat.eqb (length r) m) X.

Definition nonneg_mat (X : mat) : bool := forallb (forallb (fun x => Qle_bool 0 x)) X.

Definition close (d : Q) (a b : vec) : bool :=
  forallb2 (fun x y => Qle_bool (x - y) d && Qle_bool (y - x) d) a b.

Definition veq (a b : vec) : bool := forallb2 Qeq_bool a b.

(* u_i + v_j <= C_ij for all i, j   (u against the rows of C) *)
Definition dual_ok (C : mat) (u v : vec) : bool :=
  forallb2 (fun ui row => forallb2 (fun vj c => Qle_bool (ui + vj) c) v row) u C.

Definition dual_value (p q u v : vec) : Q := dot u p + dot v q.

Definition check_plan (p q : vec) (C X : mat) (u v : vec) (X' : mat) (delta eps unit : Q) : bool :=
  let n := length p in
  let m := length q in
  let D := dual_value p q u v in
  let cX := inner X C in
  let cX' := inner X' C in
  let tol := eps * Qmax unit D in
  is_matrix n m C && is_matrix n m X && is_matrix n m X' &&
  Nat.eqb (length u) n && Nat.eqb (length v) m &&
  Qle_bool 0 delta && Qle_bool 0 eps &&
  (* the implementation's plan: sign and marginals within delta *)
  nonneg_mat X && close delta (rowsums X) p && close delta (colsums m X) q &&
  (* the repaired plan: exactly feasible *)
  nonneg_mat X' && veq (rowsums X') p && veq (colsums m X') q &&
  (* the potentials: dual feasible *)
  dual_ok C u v &&
  (* the bracket  D <= OPT <= <X',C>  is narrow and <X,C> lies within tol of both ends *)
  Qle_bool (cX' - cX) tol && Qle_bool (cX - D) tol.

(* ---------------------------------------------------------------- the glue's index arithmetic (Z) *)
Open Scope Z_scope.

Definition arc_of (m i j : Z) : Z := i * m + j.
Definition arc_id (n_arcs arc : Z) : Z := n_arcs - arc - 1.
(* allocate_graph_structures, no mixing: the arc stored at position pos *)
Definition stored_arc (n_arcs pos : Z) : Z := n_arcs - 1 - pos.
Definition node_slot (n m k : Z) : Z := (n + m) - k - 1.
Definition src_node (n m pos : Z) : Z := (n + m) - (stored_arc (n * m) pos / m) - 1.
Definition tgt_node (n m pos : Z) : Z := (n + m) - ((stored_arc (n * m) pos mod m) + n) - 1.

Definition getZ {A} (d : A) (l : list A) (k : Z) : A := nth (Z.to_nat k) l d.

(* get_transport_plan: result[i, j] = flow[arc_id(i * m + j)] *)
Definition get_transport_plan {A} (d : A) (flow : list A) (n m : nat) : list (list A) :=
  map (fun i => map (fun j => getZ d flow (arc_id (Z.of_nat n * Z.of_nat m)
                                                  (arc_of (Z.of_nat m) (Z.of_nat i) (Z.of_nat j))))
                    (seq 0 m))
      (seq 0 n).
