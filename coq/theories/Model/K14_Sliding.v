(* K14 — executable model of vectorizers/transformers/sliding_windows.py (sliding_windows,
   SlidingWindowTransformer.fit's window_sample forms, SequentialDifferenceTransformer) and of
   _window_kernels.difference_kernel.  Definitions only; proofs are in Proofs/K14_Sliding_proofs.v.

   Correspondence with the code (what each definition mirrors):
     pad            <- new_sequence = np.full(...); new_sequence[pad_width:pad_width+L] = sequence
     n_rows         <- int(np.ceil(last_window_start / stride))
     slice          <- sequence[i*stride : i*stride + width]   (python slices clamp: firstn/skipn clamp too)
     take_idx       <- window[sample]                           (fancy indexing, indices assumed in range)
     apply_kernel   <- build_matrix_kernel's _kernel_func: (K @ data).flatten(), K = identity when kernels=None
     arange         <- np.arange(start, stop, step) for step > 0
     sample_of_form <- SlidingWindowTransformer.fit's dispatch on window_sample
     difference_kernel <- _window_kernels.difference_kernel
*)
From Coq Require Import ZArith List Lia.
Import ListNotations.
Open Scope Z_scope.

Notation vec := (list Z) (only parsing).

(* ceil(a / b) for b > 0, as the implementation computes it (float division then ceil; exact below 2^53) *)
Definition cdiv (a b : Z) : Z := (a + b - 1) / b.

Definition pad {A} (pw : nat) (pv : A) (s : list A) : list A := repeat pv pw ++ s ++ repeat pv pw.

Definition slice {A} (lo len : nat) (s : list A) : list A := firstn len (skipn lo s).

Definition take_idx {A} (d : A) (w : list A) (sample : list nat) : list A :=
  map (fun j => nth j w d) sample.

Definition n_rows (len width stride : nat) : nat :=
  Z.to_nat (cdiv (Z.of_nat len - Z.of_nat width + 1) (Z.of_nat stride)).

(* ---- matrix kernels ---- *)
Fixpoint dot (r w : list Z) : Z :=
  match r, w with
  | a :: r', b :: w' => a * b + dot r' w'
  | _, _ => 0
  end.

Definition dim (win : list vec) : nat := match win with [] => 0%nat | v :: _ => length v end.

(* one kernel row applied to a window of d-dimensional points: a d-vector *)
Definition lincomb (row : list Z) (win : list vec) : vec :=
  map (fun c => dot row (map (fun v => nth c v 0) win)) (seq 0 (dim win)).

Definition apply_kernel (K : option (list (list Z))) (win : list vec) : list Z :=
  match K with
  | None => concat win
  | Some rows => concat (map (fun r => lincomb r win) rows)
  end.

Definition sliding_windows (K : option (list (list Z))) (width stride : nat) (sample : list nat)
           (pw : nat) (pv : vec) (s : list vec) : list (list Z) :=
  let s' := pad pw pv s in
  map (fun i => apply_kernel K (take_idx [] (slice (i * stride) width s') sample))
      (seq 0 (n_rows (length s') width stride)).

(* ---- window_sample forms ---- *)
Fixpoint arange_fuel (fuel : nat) (start stop step : nat) : list nat :=
  match fuel with
  | O => []
  | S f => if Nat.ltb start stop then start :: arange_fuel f (start + step) stop step else []
  end.
Definition arange (start stop step : nat) : list nat := arange_fuel stop start stop step.

Inductive sample_form :=
| SNone
| SStride (n : nat)
| SStartStride (a n : nat)
| SIndex (l : list nat).

Definition sample_of_form (width : nat) (f : sample_form) : list nat :=
  match f with
  | SNone => arange 0 width 1
  | SStride n => arange 0 width n
  | SStartStride a n => arange a width n
  | SIndex l => l
  end.

(* ---- difference kernel ---- *)
Fixpoint upd (l : list Z) (i : nat) (v : Z) : list Z :=
  match l, i with
  | [], _ => []
  | _ :: t, O => v :: t
  | h :: t, S i' => h :: upd t i' v
  end.

Definition difference_row (n_cols start step stride : nat) (i : nat) : list Z :=
  upd (upd (repeat 0 n_cols) (start + i * stride) (-1)) (start + i * stride + step) 1.

Definition difference_kernel (n_cols start step stride : nat) : list (list Z) :=
  let nd := Z.to_nat (cdiv (Z.of_nat n_cols - Z.of_nat start - Z.of_nat step) (Z.of_nat stride)) in
  map (difference_row n_cols start step stride) (seq 0 nd).

(* SequentialDifferenceTransformer(stride=t): width t+1, kernels=[("differences", 0, t, t)] *)
Definition sequential_difference (t : nat) (s : list vec) : list (list Z) :=
  sliding_windows (Some (difference_kernel (t + 1) 0 t t)) (t + 1) 1 (arange 0 (t + 1) 1) 0 [] s.
