(* K12 — vectorizers/distances.py after the repairs (D19 clamp, sparse_hellinger normalisation, relative
   smoothing of JS / symmetric KL): dense hellinger, total_variation, kantorovich1d (p = 1, 2),
   jensen_shannon_divergence, symmetric_kl_divergence and the sparse variants built on K11.
   Executable definitions only, written once over an abstract carrier [Ops T]; instantiated with R for the
   theorems (Proofs/K12_Dist_proofs.v) and with PrimFloat (binary64) for the correspondence run.  Accumulations follow
   the association order of the Python loops (acc = acc + term, left to right). *)
From Coq Require Import ZArith List Bool.
From VZ Require Import Model.K11_SparseVec.
Import ListNotations.

Record Ops (T : Type) : Type := mkOps {
  o_zero : T; o_one : T; o_half : T; o_eps : T;
  o_add : T -> T -> T; o_sub : T -> T -> T; o_mul : T -> T -> T; o_div : T -> T -> T;
  o_opp : T -> T; o_sqrt : T -> T; o_abs : T -> T; o_ln : T -> T;
  o_eqz : T -> bool;              (* x == 0 *)
  o_ltb : T -> T -> bool;         (* x < y *)
  o_of_nat : nat -> T }.

Section Dist.
  Variable T : Type.
  Variable O : Ops T.
  Let zero := o_zero T O. Let one := o_one T O. Let half := o_half T O. Let eps := o_eps T O.
  Let add := o_add T O. Let sub := o_sub T O. Let mul := o_mul T O. Let div := o_div T O.
  Let opp := o_opp T O. Let sqrt := o_sqrt T O. Let abs := o_abs T O. Let ln := o_ln T O.
  Let eqz := o_eqz T O. Let ltb := o_ltb T O. Let of_nat := o_of_nat T O.

  (* Python max(a, b): b if b > a else a *)
  Definition pymax (a b : T) : T := if ltb a b then b else a.

  Definition sum_list (xs : list T) : T := fold_left add xs zero.

  (* ---- hellinger *)
  Fixpoint hell_loop (xs ys : list T) (res lx ly : T) : T * T * T :=
    match xs, ys with
    | x :: xs', y :: ys' => hell_loop xs' ys' (add res (sqrt (mul x y))) (add lx x) (add ly y)
    | _, _ => (res, lx, ly)
    end.
  Definition hellinger (xs ys : list T) : T :=
    let '(res, lx, ly) := hell_loop xs ys zero zero zero in
    if eqz lx && eqz ly then zero
    else if eqz lx || eqz ly then one
    else sqrt (pymax (sub one (div res (sqrt (mul lx ly)))) zero).

  (* ---- total_variation *)
  Definition normalise (xs : list T) : list T := let s := sum_list xs in map (fun x => div x s) xs.
  Definition total_variation (xs ys : list T) : T :=
    fold_left (fun acc p => add acc (mul half (abs (sub (fst p) (snd p)))))
              (combine (normalise xs) (normalise ys)) zero.

  (* ---- kantorovich1d: in-place cumulative sums x_cdf[i] += x_cdf[i-1], i = 1 .. n-1 *)
  Fixpoint cumsum_from (prev : T) (l : list T) : list T :=
    match l with
    | [] => []
    | x :: t => let a := add x prev in a :: cumsum_from a t
    end.
  Definition cumsum (l : list T) : list T := match l with [] => [] | x :: t => x :: cumsum_from x t end.
  Definition cdf (xs : list T) : list T := cumsum (normalise xs).
  Definition kantorovich1d_p1 (xs ys : list T) : T :=
    fold_left (fun acc p => add acc (abs (sub (fst p) (snd p)))) (combine (cdf xs) (cdf ys)) zero.
  Definition kantorovich1d_p2 (xs ys : list T) : T :=
    sqrt (fold_left (fun acc p => let v := sub (fst p) (snd p) in add acc (mul v v))
                    (combine (cdf xs) (cdf ys)) zero).

  (* ---- Jensen-Shannon / symmetric KL: eps_x = EPS * l1 if l1 > 0 else EPS; l1 += eps_x * dim;
          pdf = (x + eps_x) / l1 *)
  Definition smooth_pdf (xs : list T) : list T :=
    let dim := of_nat (length xs) in
    let l1 := sum_list xs in
    let e := if ltb zero l1 then mul eps l1 else eps in
    let l1' := add l1 (mul e dim) in
    map (fun x => div (add x e) l1') xs.

  Definition jensen_shannon_divergence (xs ys : list T) : T :=
    let px := smooth_pdf xs in
    let py := smooth_pdf ys in
    fold_left (fun acc p =>
                 let a := fst p in let b := snd p in
                 let m := mul half (add a b) in
                 add acc (mul half (add (mul a (ln (div a m))) (mul b (ln (div b m))))))
              (combine px py) zero.

  Definition symmetric_kl_divergence (xs ys : list T) : T :=
    let px := smooth_pdf xs in
    let py := smooth_pdf ys in
    fold_left (fun acc p =>
                 let a := fst p in let b := snd p in
                 add acc (add (mul a (ln (div a b))) (mul b (ln (div b a)))))
              (combine px py) zero.

  (* ---- sparse variants (None = an index error inside a K11 helper) *)
  Definition sparse_hellinger (ind1 : list Z) (data1 : list T) (ind2 : list Z) (data2 : list T) : option T :=
    let norm1 := sum_list data1 in
    let norm2 := sum_list data2 in
    if eqz norm1 && eqz norm2 then Some zero
    else if eqz norm1 || eqz norm2 then Some one
    else
      match sparse_mul T zero mul eqz ind1 (map (fun x => div x norm1) data1)
                                      ind2 (map (fun x => div x norm2) data2) with
      | Some (_, aux) =>
        let result := fold_left (fun acc v => add acc (sqrt v)) aux zero in
        if ltb one result then Some zero else Some (sqrt (sub one result))
      | None => None
      end.

  Definition sparse_total_variation (ind1 : list Z) (data1 : list T) (ind2 : list Z) (data2 : list T) : option T :=
    let norm1 := sum_list data1 in
    let norm2 := sum_list data2 in
    match sparse_diff T zero add opp eqz ind1 (map (fun x => div x norm1) data1)
                                         ind2 (map (fun x => div x norm2) data2) with
    | Some (_, aux) => Some (fold_left (fun acc v => add acc (mul half (abs v))) aux zero)
    | None => None
    end.

  Definition sparse_jensen_shannon_divergence (ind1 : list Z) (data1 : list T) (ind2 : list Z) (data2 : list T)
    : option T :=
    match dense_union T zero add eqz ind1 data1 ind2 data2 with
    | Some (d1, d2) => Some (jensen_shannon_divergence d1 d2)
    | None => None
    end.

  Definition sparse_symmetric_kl_divergence (ind1 : list Z) (data1 : list T) (ind2 : list Z) (data2 : list T)
    : option T :=
    match dense_union T zero add eqz ind1 data1 ind2 data2 with
    | Some (d1, d2) => Some (symmetric_kl_divergence d1 d2)
    | None => None
    end.
End Dist.
