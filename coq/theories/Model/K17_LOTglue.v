(* K17 — executable model of the glue around the transport plan in vectorizers/linear_optimal_transport.py
   (lot_vectors_dense_internal / lot_vectors_sparse_internal, euclidean branch, and the block / chunk loops of the
   vectorizers' fit / transform).  Definitions only; proofs are in Proofs/K17_LOTglue_proofs.v.
   The transport plan itself comes from the third-party network simplex and is an INPUT of the model (DESIGN §3.5).

   The numeric part is written once over an abstract carrier T (Section variables, not axioms); it is instantiated
   with Q for the theorems and with PrimFloat (binary64) for the per-run correspondence.

     gsum            <- row_distribution.sum()                       (numba: acc = 0.0; acc += x, left to right)
     normalise       <- row_sum = ...sum(); if row_sum > 0.0: row_distribution /= row_sum   (None: the row is skipped,
                        its result stays zero)
     truncate        <- if row_vectors.shape[0] > max_distribution_size:
                            best_indices = np.argsort(-row_distribution)[:max_distribution_size]   (order of equal
                        weights is argsort's business: the harness generates distinct weights where it truncates)
     contrib / images<- transport_images = (current_transport_plan * (1.0 / reference_distribution)).T @ row_vectors
                        image[j, k] = sum_i (plan[i, j] * (1/q[j])) * x[i, k]; kept flattened (j-major) as result[i] is
     lot_row         <- transport_vectors = transport_images - reference_vectors ; result[i] = transport_vectors.flatten()
     lot_pipeline    <- the per-row body, given the plan for the normalised (truncated) row
     blocks / chunks <- n_blocks = (n_rows // block_size) + 1 ; block_start = i * block_size ;
                        block_end = min(n_rows, block_start + block_size)        (every fit / transform)
                        n_chunks = (n_rows // chunk_size) + 1 ; chunk_end = min(chunk_start + chunk_size, n_rows)
                        sinkhorn: chunk_start = j * chunk_size + block_start ; chunk_end = min(block_end, ...)
                        generator: chunk_start += next_chunk_size, next_chunk_size = min(chunk_size, block_end - chunk_start)
     block_size      <- max(1, memory_size // (lot_dimension * 8))   (the lil / generator transform had no max(1, .))
*)
From Coq Require Import QArith List ZArith Arith PrimFloat Bool.
Import ListNotations.

Section Generic.
  Variable T : Type.
  Variables (zero one : T) (add mul sub div : T -> T -> T) (ltb : T -> T -> bool).

  Fixpoint gsum_acc (acc : T) (l : list T) : T :=
    match l with [] => acc | x :: t => gsum_acc (add acc x) t end.
  Definition gsum (l : list T) : T := gsum_acc zero l.

  Definition normalise (w : list T) : option (list T) :=
    let s := gsum w in
    if ltb zero s then Some (map (fun x => div x s) w) else None.

  (* stable insertion sort by decreasing weight, then the first k: argsort(-w)[:k] for distinct weights *)
  Fixpoint insert_desc {A} (a : T * A) (l : list (T * A)) : list (T * A) :=
    match l with
    | [] => [a]
    | b :: t => if ltb (fst a) (fst b) then b :: insert_desc a t
                else if ltb (fst b) (fst a) then a :: b :: t
                else b :: insert_desc a t
    end.
  Definition sort_desc {A} (l : list (T * A)) : list (T * A) := fold_left (fun acc a => insert_desc a acc) l [].
  Definition truncate {A} (k : nat) (l : list (T * A)) : list (T * A) :=
    if Nat.ltb k (length l) then firstn k (sort_desc l) else l.

  Fixpoint gvadd (a b : list T) : list T :=
    match a, b with x :: a', y :: b' => add x y :: gvadd a' b' | _, _ => [] end.
  Fixpoint gvsub (a b : list T) : list T :=
    match a, b with x :: a', y :: b' => sub x y :: gvsub a' b' | _, _ => [] end.
  Fixpoint map2 {A B C} (f : A -> B -> C) (a : list A) (b : list B) : list C :=
    match a, b with x :: a', y :: b' => f x y :: map2 f a' b' | _, _ => [] end.

  (* what support point x with plan row r adds to the flattened image matrix (m blocks of dimension d) *)
  Definition contrib (invq : list T) (x r : list T) : list T :=
    concat (map2 (fun rj iq => map (fun xk => mul (mul rj iq) xk) x) r invq).

  Fixpoint images_acc (acc : list T) (invq : list T) (atoms : list (list T * list T)) : list T :=
    match atoms with
    | [] => acc
    | (x, r) :: t => images_acc (gvadd acc (contrib invq x r)) invq t
    end.

  Definition images (m d : nat) (q : list T) (atoms : list (list T * list T)) : list T :=
    images_acc (repeat zero (m * d)) (map (fun qj => div one qj) q) atoms.

  Definition lot_row (m d : nat) (q : list T) (ys : list (list T)) (atoms : list (list T * list T)) : list T :=
    gvsub (images m d q atoms) (concat ys).

  (* per-row body of lot_vectors_*_internal, euclidean branch: weights w over points xs, reference (q, ys);
     `plan_of p` is the transport plan for the normalised, truncated row p (n' x m, rows aligned with p) *)
  Definition lot_pipeline (maxsize m d : nat) (w : list T) (xs : list (list T)) (q : list T) (ys : list (list T))
             (plan_of : list T -> list (list T)) : list T :=
    let kept := truncate maxsize (combine w xs) in
    match normalise (map fst kept) with
    | None => repeat zero (m * d)
    | Some p => lot_row m d q ys (combine (map snd kept) (plan_of p))
    end.
End Generic.

(* ---- instances ---- *)
Definition Qltb (a b : Q) : bool := negb (Qle_bool b a).
Definition normalise_Q := normalise Q 0%Q Qplus Qdiv Qltb.
Definition contrib_Q := contrib Q Qmult.
Definition images_Q := images Q 0%Q 1%Q Qplus Qmult Qdiv.
Definition lot_row_Q := lot_row Q 0%Q 1%Q Qplus Qmult Qminus Qdiv.
Definition lot_pipeline_Q := lot_pipeline Q 0%Q 1%Q Qplus Qmult Qminus Qdiv Qltb.

Definition lot_pipeline_F := lot_pipeline float 0%float 1%float PrimFloat.add PrimFloat.mul PrimFloat.sub PrimFloat.div PrimFloat.ltb.
Definition normalise_F := normalise float 0%float PrimFloat.add PrimFloat.div PrimFloat.ltb.

(* ---------------------------------------------------------------- block and chunk loops (nat) *)
Open Scope nat_scope.
(* for i in range((hi - lo) // step + 1): (lo + i*step, min(hi, lo + i*step + step)) *)
Definition ranges (lo hi step : nat) : list (nat * nat) :=
  map (fun i => (lo + i * step, Nat.min hi (lo + i * step + step))) (seq 0 ((hi - lo) / step + 1)).

Definition range_rows (r : nat * nat) : list nat := seq (fst r) (snd r - fst r).

(* blocks of fit / transform *)
Definition blocks (n_rows block_size : nat) : list (nat * nat) := ranges 0 n_rows block_size.
(* rows visited by a block loop with a chunk loop inside (sinkhorn sub-chunks; generator chunks; kernel chunks) *)
Definition block_chunk_rows (n_rows block_size chunk_size : nat) : list nat :=
  concat (map (fun b => concat (map range_rows (ranges (fst b) (snd b) chunk_size))) (blocks n_rows block_size)).

(* the generator path advances a running chunk_start instead of multiplying *)
Fixpoint gen_chunks (fuel : nat) (chunk_start block_end chunk_size : nat) : list (nat * nat) :=
  match fuel with
  | O => []
  | S f => let next := Nat.min chunk_size (block_end - chunk_start) in
           (chunk_start, chunk_start + next) :: gen_chunks f (chunk_start + next) block_end chunk_size
  end.
Definition gen_block_chunks (block_start block_end chunk_size : nat) : list (nat * nat) :=
  gen_chunks ((block_end - block_start) / chunk_size + 1) block_start block_end chunk_size.

Definition block_size_of (memory_size lot_dimension : nat) : nat := Nat.max 1 (memory_size / (lot_dimension * 8)).
