(* K4 — executable model of coo_utils.em_update_matrix (after the D9 repair: guarded look-up; the unguarded
   flat-memory variant is kept for the refutation), of the EM iteration drivers (the occurrence lists are those of
   the K3 drivers) and of the normalise / threshold / iterate loop of
   BaseCooccurrenceVectorizer._build_token_cooccurrence_matrix.  Definitions only.

   Correspondence with the code:
     bsearch / searchsorted  <- np.searchsorted(col_ind, x)  (side='left': binary search lo/hi loop)
     em_slot                 <- the body of the first double loop (context_ind, window_posterior of one slot)
     em_update               <- em_update_matrix: E-step, temp = sum; /= temp; partial M-step posterior_data[...] += val
     em_update_flat          <- the same with the pre-repair condition col_ind[idx] == target, col_ind being a view
                                into prior_indices (an unchecked read one past the slice reads the parent array)
     em_iteration            <- numba_em_cooccurrence_iteration & co: posterior = zeros; for every occurrence: em_update
     rows / flat_*           <- a scipy CSR matrix with sorted indices: rows of (column, value); indptr/indices/data
     normalize_cols          <- sklearn normalize(M, axis=0, norm='l1') (columns with sum 0 untouched)
     threshold, eliminate_zeros <- M.data[M.data < eps] = 0; M.eliminate_zeros()
     pipeline                <- lines 560-593 of base_cooccurrence_vectorizer.py
*)
From Coq Require Import List Arith Bool ZArith QArith Qcanon.
From VZ Require Import Model.K02_Windows Model.K03_Cooc Model.K03_Exec.
Import ListNotations.
Open Scope nat_scope.

(* ---------- searchsorted ---------- *)
Fixpoint bsearch (fuel : nat) (a : list nat) (x lo hi : nat) : nat :=
  match fuel with
  | O => lo
  | S f => if lo <? hi
           then let m := lo + (hi - lo) / 2 in
                if nth m a 0 <? x then bsearch f a x (m + 1) hi else bsearch f a x lo m
           else lo
  end.
Definition searchsorted (a : list nat) (x : nat) : nat := bsearch (length a) a x 0 (length a).

(* ---------- em_update_matrix ---------- *)
Fixpoint add_at {K : carrier} (l : list K) (i : nat) (v : K) : list K :=
  match l, i with
  | [], _ => []
  | x :: t, O => add x v :: t
  | x :: t, S i' => x :: add_at t i' v
  end.

(* one slot of the E-step: (context_ind, window_posterior) *)
Definition em_slot {K : carrier} (guarded : bool) (indices : list nat) (prior : list K) (lo hi n w ctx : nat) (k : K)
  : nat * K :=
  if gtb0 k
  then let col_ind := slice lo hi indices in
       let target := ctx + w * n in
       let idx := searchsorted col_ind target in
       let hit := if guarded
                  then (idx <? length col_ind) && Nat.eqb (nth idx col_ind 0) target
                  else match nth_error indices (lo + idx) with          (* view into the parent array *)
                       | Some c => (idx <=? length col_ind) && Nat.eqb c target
                       | None => false
                       end in
       if hit then (idx, mul k (nth (lo + idx) prior zero)) else (idx, zero)
  else (0, zero).

Definition em_slots {K : carrier} (guarded : bool) (indices : list nat) (prior : list K) (lo hi n : nat)
           (wk : list (list nat * list K)) : list (nat * K) :=
  flat_map (fun iwk => map (fun ck => em_slot guarded indices prior lo hi n (fst iwk) (fst ck) (snd ck))
                           (combine (fst (snd iwk)) (snd (snd iwk))))
           (combine (seq 0 (length wk)) wk).

Definition em_normalize {K : carrier} (slots : list (nat * K)) : list (nat * K) :=
  let temp := tsum (map snd slots) in
  if gtb0 temp then map (fun s => (fst s, div (snd s) temp)) slots else slots.

Definition em_write {K : carrier} (lo : nat) (post : list K) (slots : list (nat * K)) : list K :=
  fold_left (fun p s => if gtb0 (snd s) then add_at p (lo + fst s) (snd s) else p) slots post.

Definition em_update_gen {K : carrier} (guarded : bool) (post : list K) (indices indptr : list nat) (prior : list K)
           (n : nat) (o : occurrence K) : list K :=
  let lo := nth (fst o) indptr 0 in
  let hi := nth (fst o + 1) indptr 0 in
  em_write lo post (em_normalize (em_slots guarded indices prior lo hi n (snd o))).

Definition em_update {K : carrier} := @em_update_gen K true.
Definition em_update_flat {K : carrier} := @em_update_gen K false.

Definition em_iteration {K : carrier} (indices indptr : list nat) (prior : list K) (n : nat) (occs : list (occurrence K)) : list K :=
  fold_left (fun post o => em_update post indices indptr prior n o) occs (repeat zero (length prior)).

(* the occurrence lists of the four drivers (the same windows and mix-weighted kernels as the build drivers) *)
Definition token_occs {K : carrier} (blocks : list (block K)) (docs : list (list nat)) : list (occurrence K) :=
  flat_map (fun s => map (token_occ blocks s) (seq 0 (length s))) docs.

Definition ngram_occs {K : carrier} (blocks : list (block K)) (dict : list (list nat * nat)) (size : nat)
           (docs : list (list nat)) : list (occurrence K) :=
  flat_map (fun s => flat_map (fun w_i => match dict_find dict (slice (w_i + 1 - size) (w_i + 1) s) with
                                          | Some row => [ngram_occ blocks size row s w_i]
                                          | None => []
                                          end)
                              (seq (size - 1) (length s - (size - 1)))) docs.

Definition timed_occs {K : carrier} {Tm} (absdiff : Tm -> Tm -> Tm) (t0 : Tm) (blocks : list (tblock K Tm))
           (docs : list (list (nat * Tm))) : list (occurrence K) :=
  flat_map (fun s => map (timed_occ absdiff t0 blocks s) (seq 0 (length s))) docs.

Definition multi_occs {K : carrier} (blocks : list (block K)) (docs : list (list (list nat))) : list (occurrence K) :=
  flat_map (fun doc => flat_map (fun d_i => map (multi_occ blocks doc d_i) (seq 0 (length (nth d_i doc []))))
                                (seq 0 (length doc))) docs.

(* ---------- sparse matrix as rows of (column, value), CSR flattening ---------- *)
Definition rows := list (list (nat * Qc)).

Definition flat_indices (M : rows) : list nat := concat (map (map fst) M).
Definition flat_data (M : rows) : list Qc := concat (map (map snd) M).
Fixpoint indptr_from (start : nat) (M : rows) : list nat :=
  match M with [] => [start] | r :: M' => start :: indptr_from (start + length r) M' end.
Definition flat_indptr (M : rows) : list nat := indptr_from 0 M.

(* same sparsity structure, new data array (cooccurrence_matrix.data = new_data) *)
Fixpoint reshape (M : rows) (d : list Qc) : rows :=
  match M with
  | [] => []
  | r :: M' => combine (map fst r) (firstn (length r) d) :: reshape M' (skipn (length r) d)
  end.

Definition col_sum (M : rows) (c : nat) : Qc :=
  @tsum QcK (map (fun r : list (nat * Qc) => @tsum QcK (map (fun cv : nat * Qc => if Nat.eqb (fst cv) c then snd cv else 0%Qc) r)) M).

Definition qgtb0 (x : Qc) : bool := @gtb0 QcK x.
Definition qltb (x y : Qc) : bool := negb (Qle_bool (this y) (this x)).
Definition qeqb0 (x : Qc) : bool := Qeq_bool (this x) 0.

Definition normalize_cols (M : rows) : rows :=
  map (map (fun cv : nat * Qc => let s := col_sum M (fst cv) in (fst cv, if qgtb0 s then (snd cv / s)%Qc else snd cv))) M.

Definition threshold (eps : Qc) (M : rows) : rows :=
  map (map (fun cv : nat * Qc => (fst cv, if qltb (snd cv) eps then 0%Qc else snd cv))) M.

Definition eliminate_zeros (M : rows) : rows :=
  map (filter (fun cv : nat * Qc => negb (qeqb0 (snd cv)))) M.

Definition post_process (eps : Qc) (M : rows) : rows := eliminate_zeros (threshold eps (normalize_cols M)).

Definition em_step (n : nat) (occs : list (occurrence QcK)) (M : rows) : rows :=
  reshape M (@em_iteration QcK (flat_indices M) (flat_indptr M) (flat_data M) n occs).

Fixpoint iterate_em (k : nat) (eps : Qc) (n : nat) (occs : list (occurrence QcK)) (M : rows) : rows :=
  match k with
  | O => M
  | S k' => iterate_em k' eps n occs (post_process eps (em_step n occs M))
  end.

Definition pipeline (n_iter : nat) (eps : Qc) (n : nat) (occs : list (occurrence QcK)) (M0 : rows) : rows :=
  let M1 := if (0 <? n_iter) || qgtb0 eps then post_process eps M0 else M0 in
  iterate_em n_iter eps n occs M1.

(* the n_iter = 0 matrix as rows with sorted columns: from the event list of the build driver *)
Fixpoint insert_cell (c : nat) (v : Qc) (r : list (nat * Qc)) : list (nat * Qc) :=
  match r with
  | [] => [(c, v)]
  | (c', v') :: t => if c <? c' then (c, v) :: r
                     else if Nat.eqb c c' then (c', (v' + v)%Qc) :: t
                     else (c', v') :: insert_cell c v t
  end.

Fixpoint upd_row (M : rows) (r c : nat) (v : Qc) : rows :=
  match M, r with
  | [], _ => []
  | row :: M', O => insert_cell c v row :: M'
  | row :: M', S r' => row :: upd_row M' r' c v
  end.

Definition rows_of_events (n_rows : nat) (evs : list (event QcK)) : rows :=
  fold_left (fun M (e : event QcK) => upd_row M (e_row e) (e_col e) (e_val e : Qc)) evs (repeat [] n_rows).

Definition show_rows (M : rows) : list (list (nat * (Z * Z))) :=
  map (map (fun cv : nat * Qc => (fst cv, show (snd cv)))) M.
