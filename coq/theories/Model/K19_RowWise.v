(* K19 — the batching skeletons of the row-wise transforms: every place where state is carried from one item of
   the batch to the next, or where the batch is cut into blocks / chunks.  Definitions only; proofs are in
   Proofs/K19_RowWise_proofs.v.

   Correspondence with the code (what each definition mirrors):
     append_loop      <- result = []; for x in X: result.append(f(x))       (SlidingWindowTransformer.transform,
                         BPE return_type='tokens', np.vstack([f(x) for x in X]) of DistributionVectorizer)
     fill_loop        <- result = np.ndarray/np.empty((len(X), k)); for i, x in enumerate(X): result[i] = f(x)
                         (HistogramVectorizer.transform, KDEVectorizer.transform); `garbage` = the uninitialised rows
     prange_fill      <- out = [placeholder]*n; for i in prange(n): out[i] = f(X[i])   (bpe_encode_all), executed in
                         an arbitrary order `sched` of the indices; also result[i] = ... of lot_vectors_*_internal
     csr_loop/csr_rows<- indptr=[0]; indices=[]; data=[]; for x in X: indices.extend(cols); data.extend(vals);
                         indptr.append(indptr[-1] + advance)   then csr_matrix((data, indices, indptr))
                         (NgramVectorizer.transform, LZCompressionVectorizer.transform, BPE 'matrix')
     lz_encode        <- lempel_ziv_based_encode (dictionary = insertion-ordered association list)
     lz_transform     <- LZCompressionVectorizer.transform: the input dictionary is rebuilt from base_dictionary
                         for every string; indptr advances by the number of phrases KEPT (those with a column)
     table_hash       <- hash_function_ of a fitted model with max_columns set, given as the table of its values on
                         the phrases that can occur (the murmur hash itself is not modelled)
     lz_transform_noreset <- the same loop WITHOUT the per-string reset (used only for the refutation)
     contract         <- contract_pair (arrays of length 0 and 1 are returned unchanged)
     bpe_encode       <- bpe_encode: clamp code points, then one contract_pair per learned pair with new_code counting
                         up from max_char_code + 1 for THIS string
     blocks           <- n_blocks = n // b + 1; block i = [i*b, min(n, i*b + b))     (Wasserstein/Sinkhorn transform)
     chunks           <- n_chunks = (be - bs) // c + 1; chunk j = [j*c + bs, min(be, j*c + bs + c))
     kernel_chunks / kernel_chunk_fill <- the chunk loop INSIDE lot_vectors_sparse_internal / lot_vectors_dense_internal:
                         result = np.zeros((n_rows, .)); n_chunks = n_rows // chunk_size + 1;
                         for n in range(n_chunks): for i in range(n*chunk_size, min(n*chunk_size + chunk_size, n_rows)):
                         result[i] = f(row i)         (chunk_size = max(256, block_size // 64))
     kernel_chunks_short <- the same loop with the chunk count max(1, n_rows // chunk_size) (refutation only)
     rows_of          <- X[start:end]
     blockwise / block_chunkwise <- np.vstack over blocks (of np.vstack over chunks) of f(rows of the block/chunk)
     sink_loop        <- sinkhorn_iterations_batch: every column of the batch is advanced by its own update, but the
                         non-finite break and the convergence test look at the whole batch
     diag / matmul_cols <- X @ scipy.sparse.diags(w)                         (InformationWeightTransformer.transform)
*)
From Coq Require Import ZArith List Arith Bool.
Import ListNotations.

Fixpoint set_nth {C : Type} (l : list C) (i : nat) (v : C) : list C :=
  match l, i with
  | [], _ => []
  | _ :: t, O => v :: t
  | h :: t, S i' => h :: set_nth t i' v
  end.

Section Loops.
  Variables A B : Type.
  Variable row : A -> B.

  Definition append_loop (X : list A) : list B := fold_left (fun acc x => acc ++ [row x]) X [].

  Definition fill_loop (garbage : list B) (X : list A) : list B :=
    fst (fold_left (fun st x => (set_nth (fst st) (snd st) (row x), S (snd st))) X (garbage, 0%nat)).

  Definition prange_fill (d : A) (init : list B) (X : list A) (sched : list nat) : list B :=
    fold_left (fun res i => set_nth res i (row (nth i X d))) sched init.
End Loops.

(* ---------- CSR assembly ---------- *)
Definition csr := (list nat * list Z * list Z)%type.     (* indptr, indices, data *)

Definition csr_append (m : csr) (advance : nat) (r : list (Z * Z)) : csr :=
  let '(ip, ind, dat) := m in (ip ++ [(last ip 0 + advance)%nat], ind ++ map fst r, dat ++ map snd r).

Definition csr_empty : csr := ([0%nat], [], []).

Definition csr_loop {A : Type} (rowf : A -> list (Z * Z)) (advance : A -> nat) (X : list A) : csr :=
  fold_left (fun m x => csr_append m (advance x) (rowf x)) X csr_empty.

Definition slice {C : Type} (l : list C) (s e : nat) : list C := firstn (e - s) (skipn s l).

Definition csr_rows (m : csr) : list (list (Z * Z)) :=
  let '(ip, ind, dat) := m in
  map (fun p => combine (slice ind (fst p) (snd p)) (slice dat (fst p) (snd p))) (combine ip (tl ip)).

(* ---------- LZ ---------- *)
Section LZ.
  Variable K : Type.                      (* phrase key: the phrase itself, or its hash *)
  Variable keqb : K -> K -> bool.
  Variable h : list Z -> K.               (* hash_function (identity when max_columns is None) *)

  Definition dict := list (K * Z).

  Fixpoint dfind (k : K) (d : dict) : option Z :=
    match d with [] => None | (k', v) :: t => if keqb k k' then Some v else dfind k t end.

  Fixpoint dincr (k : K) (d : dict) : dict :=
    match d with [] => [] | (k', v) :: t => if keqb k k' then (k', (v + 1)%Z) :: t else (k', v) :: dincr k t end.

  (* state: dictionary, current_size, start *)
  Definition lz_step (max_size : nat) (s : list Z) (st : dict * nat * nat) (e : nat) : dict * nat * nat :=
    let '(d, size, start) := st in
    let ng := h (slice s start e) in
    match dfind ng d with
    | Some _ => (dincr ng d, size, start)
    | None => if (max_size <=? size)%nat then (d, size, e) else (d ++ [(ng, 1%Z)], S size, e)
    end.

  Definition lz_encode (max_size : nat) (s : list Z) (d : dict) : dict :=
    fst (fst (fold_left (lz_step max_size s) (seq 0 (length s)) (d, length d, 0%nat))).

  (* the row assembled by transform: kept phrases only, in dictionary order *)
  Definition lz_row_of (coldict : dict) (enc : dict) : list (Z * Z) :=
    flat_map (fun kv => match dfind (fst kv) coldict with Some c => [(c, snd kv)] | None => [] end) enc.

  Definition lz_row (coldict base : dict) (max_size : nat) (s : list Z) : list (Z * Z) :=
    lz_row_of coldict (lz_encode max_size s base).

  (* indptr.append(len(indices)): indptr advances by the number of phrases that have a column *)
  Definition lz_advance (coldict base : dict) (max_size : nat) (s : list Z) : nat :=
    length (lz_row coldict base max_size s).

  Definition lz_transform (coldict base : dict) (max_size : nat) (X : list (list Z)) : csr :=
    csr_loop (lz_row coldict base max_size) (lz_advance coldict base max_size) X.

  (* the same loop with the dictionary carried over from one string to the next *)
  Definition lz_transform_noreset (coldict base : dict) (max_size : nat) (X : list (list Z)) : list (list (Z * Z)) :=
    snd (fold_left (fun st s => let enc := lz_encode max_size s (fst st) in (enc, snd st ++ [lz_row_of coldict enc]))
                   X (base, [])).
End LZ.

Fixpoint list_eqb (a b : list Z) : bool :=
  match a, b with
  | [], [] => true
  | x :: a', y :: b' => Z.eqb x y && list_eqb a' b'
  | _, _ => false
  end.

(* hash_function_ as a finite table (phrase, hash); phrases outside the table map to -1 (never a valid hash) *)
Definition table_hash (tbl : list (list Z * Z)) (p : list Z) : Z :=
  match find (fun kv => list_eqb p (fst kv)) tbl with Some kv => snd kv | None => (-1)%Z end.

(* ---------- BPE ---------- *)
Fixpoint contract (l : list Z) (a b c : Z) : list Z :=
  match l with
  | x :: ((y :: t) as r) => if Z.eqb x a && Z.eqb y b then c :: contract t a b c else x :: contract r a b c
  | _ => l
  end.

Definition bpe_encode (code_list : list (Z * Z)) (mcc : Z) (s : list Z) : list Z :=
  let init := map (fun c => if Z.leb c mcc then c else 0%Z) s in
  fst (fold_left (fun st p => (contract (fst st) (fst p) (snd p) (snd st), (snd st + 1)%Z)) code_list (init, (mcc + 1)%Z)).

(* bpe_encode_all under an arbitrary schedule of the parallel loop *)
Definition bpe_encode_all (code_list : list (Z * Z)) (mcc : Z) (X : list (list Z)) (sched : list nat) : list (list Z) :=
  prange_fill _ _ (bpe_encode code_list mcc) [] (repeat [0%Z] (length X)) X sched.

(* ---------- blocks and chunks ---------- *)
Definition blocks (b n : nat) : list (nat * nat) :=
  map (fun i => ((i * b)%nat, Nat.min n (i * b + b))) (seq 0 (n / b + 1)).

Definition chunks (c bs be : nat) : list (nat * nat) :=
  map (fun j => ((j * c + bs)%nat, Nat.min be (j * c + bs + c))) (seq 0 ((be - bs) / c + 1)).

Definition range (p : nat * nat) : list nat := seq (fst p) (snd p - fst p).

Definition rows_of {A : Type} (X : list A) (p : nat * nat) : list A := slice X (fst p) (snd p).

Definition blockwise {A B : Type} (f : list A -> list B) (b : nat) (X : list A) : list B :=
  concat (map (fun p => f (rows_of X p)) (blocks b (length X))).

Definition block_chunkwise {A B : Type} (f : list A -> list B) (b c : nat) (X : list A) : list B :=
  concat (map (fun blk => concat (map (fun ch => f (rows_of X ch)) (chunks c (fst blk) (snd blk))))
              (blocks b (length X))).

(* the chunk loop inside the LOT kernels: chunk k of a block of n rows = [k*c, min(k*c + c, n)), k < n / c + 1 *)
Definition kernel_chunks (c n : nat) : list (nat * nat) :=
  map (fun k => ((k * c)%nat, Nat.min (k * c + c) n)) (seq 0 (n / c + 1)).

Definition kernel_chunks_short (c n : nat) : list (nat * nat) :=
  map (fun k => ((k * c)%nat, Nat.min (k * c + c) n)) (seq 0 (Nat.max 1 (n / c))).

(* result = zeros; every chunk in turn writes result[i] = row (X[i]) for the i of its range *)
Definition kernel_chunk_fill {A B : Type} (row : A -> B) (d : A) (zero : B) (chunk_list : list (nat * nat)) (X : list A)
  : list B :=
  prange_fill A B row d (repeat zero (length X)) X (concat (map range chunk_list)).

(* the rows written by the chunk loop, in the order they are written *)
Definition kernel_written (c n : nat) : list nat := concat (map range (kernel_chunks c n)).

(* sizes of the successive calls of the per-block / per-chunk kernel, as observed on the implementation *)
Definition block_sizes (b n : nat) : list nat := map (fun p => (snd p - fst p)%nat) (blocks b n).
Definition chunk_sizes (b c n : nat) : list nat :=
  flat_map (fun blk => map (fun p => (snd p - fst p)%nat) (chunks c (fst blk) (snd blk))) (blocks b n).

(* ---------- batched Sinkhorn ---------- *)
Section Sinkhorn.
  Variables Item St : Type.
  Variable init : Item -> St.
  Variable step : Item -> St -> St.                  (* next (u, v) of ONE batch column: uses that column only *)
  Variable nonfinite : Item -> St -> bool.           (* np.isfinite on the candidate of one column *)
  Variable converged : list (Item * St) -> bool.     (* right_marginal_error_batch(...) <= tol: whole batch *)

  Definition advance (batch : list (Item * St)) : list (Item * St) :=
    map (fun p => (fst p, step (fst p) (snd p))) batch.

  Fixpoint sink_loop (fuel iteration : nat) (batch : list (Item * St)) : list (Item * St) :=
    match fuel with
    | O => batch
    | S f =>
        let next := advance batch in
        if existsb (fun p => nonfinite (fst p) (snd p)) next then batch
        else if (iteration mod 10 =? 0)%nat && converged next then next
        else sink_loop f (S iteration) next
    end.

  (* number of updates the loop performs: a function of the WHOLE batch *)
  Fixpoint sink_count (fuel iteration : nat) (batch : list (Item * St)) : nat :=
    match fuel with
    | O => 0%nat
    | S f =>
        let next := advance batch in
        if existsb (fun p => nonfinite (fst p) (snd p)) next then 0%nat
        else if (iteration mod 10 =? 0)%nat && converged next then 1%nat
        else S (sink_count f (S iteration) next)
    end.

  Definition start (items : list Item) : list (Item * St) := map (fun it => (it, init it)) items.

  Definition sinkhorn_batch (max_iter : nat) (items : list Item) : list St :=
    map snd (sink_loop max_iter 0 (start items)).

  Definition stop_index (max_iter : nat) (items : list Item) : nat := sink_count max_iter 0 (start items).
End Sinkhorn.

(* ---------- InformationWeight: X @ diags(w) ---------- *)
Fixpoint dotZ (r w : list Z) : Z :=
  match r, w with
  | a :: r', b :: w' => (a * b + dotZ r' w')%Z
  | _, _ => 0%Z
  end.

Definition diag_col (w : list Z) (j : nat) : list Z :=
  map (fun k => if Nat.eqb j k then nth j w 0%Z else 0%Z) (seq 0 (length w)).

Definition diag_cols (w : list Z) : list (list Z) := map (diag_col w) (seq 0 (length w)).

Definition matmul_cols (X cols : list (list Z)) : list (list Z) := map (fun r => map (dotZ r) cols) X.

Definition infoweight_transform (w : list Z) (X : list (list Z)) : list (list Z) := matmul_cols X (diag_cols w).
