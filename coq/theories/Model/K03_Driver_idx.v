(* K3 (index level) — executable CHECKED-ACCESS skeleton of token_cooccurrence_vectorizer.numba_build_skip_grams:
   every look-up of the driver loop is a checked access (the windows, kernels and the radius table through
   Model/K02_Windows_idx.v).  The accumulator itself (coo_append ... ) is K1 (Model/K01_CooAcc.v, C10_coo); here an
   append is recorded as the appended tuple (accumulator i, row, col, val) together with its key.
   Definitions only; proofs are in Proofs/K03_Driver_idx_proofs.v.

   Line by line:
     n_windows = window_size_array.shape[0]; array_mul = n_windows * n_unique_tokens + 1
     coo_data = [CooArray(np.zeros(array_lengths[i]) ...) for i in range(n_windows)]   <- dget D_array_lengths
     for d_i, seq in enumerate(token_sequences): for w_i, target_word in enumerate(seq):   <- docs, positions p
       windows = [window_at_index(seq, window_size_array[i, target_word], w_i, reverse=window_reversals[i])
                  for i in range(n_windows)]                <- views_at: lookup2 (W_radii_row / W_radii_col),
                                                               dget D_reversals, window_view
       kernels.append(mix_weights[i] * kernel_functions[i](windows[i], *kernel_args[i]))
                                                            <- kernels_at: dget D_kernel_fn / D_kernel_args / D_mix /
                                                               D_windows, kernel_idx (its accesses: D_win site)
       total = sum of the kernel sums if normalize_windows; if total <= 0: total = 1      <- total_of
       for i, window in enumerate(windows): this_ker = kernels[i]                          <- dget D_kernels
         for j, context in enumerate(window):               <- vget W_window_read (element j of the view)
           val = this_ker[j] / total                        <- dget D_this_ker
           if val > 0: row = target_word; col = context + i * n_unique_tokens; key = col + array_mul * row
                       coo_data[i] = coo_append(coo_data[i], (row, col, val, key))         <- dget D_coo, emit
   (np.float32(...) of val is not modelled: values live in the carrier K, as in Model/K03_Cooc.v.) *)
From Coq Require Import ZArith List Bool Arith.
From VZ Require Import Model.K02_Windows Model.K03_Cooc Model.K02_Windows_idx.
Import ListNotations.
Open Scope nat_scope.

Inductive dsite :=
| D_win (s : K02_Windows_idx.site)   (* an access inside the radius table / window view / kernel function *)
| D_array_lengths   (* array_lengths[i] *)
| D_seq             (* seq[w_i]  (enumerate: always inside) *)
| D_reversals       (* window_reversals[i] *)
| D_kernel_fn       (* kernel_functions[i] *)
| D_kernel_args     (* kernel_args[i] *)
| D_mix             (* mix_weights[i] *)
| D_windows         (* windows[i] *)
| D_kernels         (* kernels[i] *)
| D_this_ker        (* this_ker[j] *)
| D_coo.            (* coo_data[i] *)

Inductive dres (A : Type) := DOk (a : A) | DErr (s : dsite).
Arguments DOk {A} a.
Arguments DErr {A} s.

Definition dbind {A B} (r : dres A) (f : A -> dres B) : dres B :=
  match r with DOk a => f a | DErr s => DErr s end.
Notation "x <-- e ;; f" := (dbind e (fun x => f)) (at level 61, e at next level, right associativity).

Definition lift {A} (r : K02_Windows_idx.res A) : dres A :=
  match r with Ok a => DOk a | OOB s => DErr (D_win s) end.

Definition dget {A} (s : dsite) (l : list A) (i : nat) : dres A :=
  match nth_error l i with Some a => DOk a | None => DErr s end.

(* [f(i) for i in l] *)
Fixpoint mapM {A B} (f : A -> dres B) (l : list A) : dres (list B) :=
  match l with
  | [] => DOk []
  | x :: t => y <-- f x ;; ys <-- mapM f t ;; DOk (y :: ys)
  end.

(* for i in l: emit f(i) *)
Fixpoint flat_mapM {A B} (f : A -> dres (list B)) (l : list A) : dres (list B) :=
  match l with
  | [] => DOk []
  | x :: t => y <-- f x ;; ys <-- flat_mapM f t ;; DOk (y ++ ys)
  end.

Section Driver.
Context {K : carrier}.

(* kernel_args[i] = (mask_index, normalize, offset) *)
Definition kargs : Type := (option nat * bool * nat)%type.

Record tables := {
  t_radii : list (list nat);      (* window_size_array, one row per window function *)
  t_rev : list bool;              (* window_reversals *)
  t_kf : list (nat -> K);         (* kernel_functions: weight of distance k *)
  t_args : list kargs;            (* kernel_args *)
  t_mix : list K                  (* mix_weights *)
}.

Definition n_windows (tb : tables) : nat := length (t_radii tb).

Definition views_at (tb : tables) (s : list nat) (target p : nat) : dres (list view) :=
  mapM (fun i => R <-- lift (lookup2 (t_radii tb) (Z.of_nat i) (Z.of_nat target)) ;;
                 rev <-- dget D_reversals (t_rev tb) i ;;
                 DOk (window_view (zlen s) (Z.of_nat R) (Z.of_nat p) rev))
       (seq 0 (n_windows tb)).

Definition kernels_at (tb : tables) (s : list nat) (views : list view) : dres (list (list K)) :=
  mapM (fun i => kf <-- dget D_kernel_fn (t_kf tb) i ;;
                 a <-- dget D_kernel_args (t_args tb) i ;;
                 mix <-- dget D_mix (t_mix tb) i ;;
                 v <-- dget D_windows views i ;;
                 ker <-- lift (kernel_idx kf (fst (fst a)) (snd (fst a)) (Z.of_nat (snd a)) s v) ;;
                 DOk (map (mul mix) ker))
       (seq 0 (n_windows tb)).

Definition total_of (normalize_windows : bool) (kernels : list (list K)) : K :=
  if normalize_windows
  then let t := tsum (map tsum kernels) in if gtb0 t then t else one
  else one.

(* an appended tuple and its key *)
Definition keyed (array_mul : nat) (e : event K) : event K * nat := (e, e_col e + array_mul * e_row e).

Definition emit_at (n_unique array_mul n_coo : nat) (s : list nat) (target : nat) (views : list view)
           (kernels : list (list K)) (tot : K) : dres (list (event K * nat)) :=
  flat_mapM (fun i =>
    v <-- dget D_windows views i ;;
    this_ker <-- dget D_kernels kernels i ;;
    flat_mapM (fun j =>
      context <-- lift (vget W_window_read s v (Z.of_nat j)) ;;
      kv <-- dget D_this_ker this_ker j ;;
      let val := div kv tot in
      if gtb0 val
      then _ <-- dget D_coo (seq 0 n_coo) i ;;
           DOk [keyed array_mul (i, target, context + i * n_unique, val)]
      else DOk [])
      (seq 0 (Z.to_nat (v_len v))))
    (seq 0 (length views)).

Definition position_events (tb : tables) (nw : bool) (n_unique array_mul n_coo : nat) (s : list nat) (p : nat)
  : dres (list (event K * nat)) :=
  target <-- dget D_seq s p ;;
  views <-- views_at tb s target p ;;
  kernels <-- kernels_at tb s views ;;
  emit_at n_unique array_mul n_coo s target views kernels (total_of nw kernels).

Definition build_skip_grams_idx (tb : tables) (nw : bool) (n_unique : nat) (array_lengths : list nat)
           (docs : list (list nat)) : dres (list (event K * nat)) :=
  let array_mul := n_windows tb * n_unique + 1 in
  caps <-- mapM (dget D_array_lengths array_lengths) (seq 0 (n_windows tb)) ;;
  flat_mapM (fun s => flat_mapM (position_events tb nw n_unique array_mul (length caps) s) (seq 0 (length s))) docs.

(* the per-window arrays of a list of blocks (the base class builds them from one list of window/kernel specs) *)
Definition tables_of (blocks : list (block K)) : tables :=
  {| t_radii := map b_radii blocks; t_rev := map b_rev blocks; t_kf := map b_kf blocks;
     t_args := map (fun b => (b_mask b, b_norm b, b_off b)) blocks; t_mix := map b_mix blocks |}.

End Driver.

Definition show_dres {A B} (f : A -> B) (r : dres A) : option B * option dsite :=
  match r with DOk a => (Some (f a), None) | DErr s => (None, Some s) end.
