(* K8 (second part) — executable model of the pair selection of bpe_train in vectorizers/mixed_gram_vectorizer.py:
   count_pairs, contract_and_count_pairs (array AND dictionary output), pruning_max_freq_pair, pair_length, and the
   bookkeeping of bpe_train around them (current_min_count halving, recount, code_lengths, the acceptance test).
   It is packaged as an instance (impl_init, impl_step) of the oracle of Model/K8_BPE.v, so that
   [bpe_train _ (impl_init min_count) impl_step] is a model of the whole of bpe_train.

   numba typed dicts are insertion-ordered association lists (pruning depends on the iteration order).  Dictionary
   accesses that raise KeyError in the code (`pair_counts.pop(p)`, `pair_counts[p]`, `code_lengths[c]`) fail here with
   Err 13-15; array accesses are checked as in K8_BPE.v. *)
From Coq Require Import ZArith List Bool Lia.
From VZ Require Import Model.K8_BPE.
Import ListNotations.
Open Scope Z_scope.

Notation pair := (Z * Z)%type (only parsing).
Notation pdict := (list ((Z * Z) * Z)) (only parsing).

Definition peqb (p q : Z * Z) : bool := (fst p =? fst q) && (snd p =? snd q).

Fixpoint pget (d : pdict) (p : pair) : option Z :=
  match d with
  | [] => None
  | (q, v) :: t => if peqb p q then Some v else pget t p
  end.

(* d[p] += delta for a present key *)
Fixpoint padd (d : pdict) (p : pair) (delta : Z) : pdict :=
  match d with
  | [] => []
  | (q, v) :: t => if peqb p q then (q, v + delta) :: t else (q, v) :: padd t p delta
  end.

(* `if p in d: d[p] += 1 else: d[p] = 1` *)
Definition pbump (d : pdict) (p : pair) : pdict :=
  match pget d p with Some _ => padd d p 1 | None => d ++ [(p, 1)] end.

(* `if p in d: d[p] -= 1` *)
Definition pdrop (d : pdict) (p : pair) : pdict :=
  match pget d p with Some _ => padd d p (-1) | None => d end.

Fixpoint premove (d : pdict) (p : pair) : pdict :=
  match d with
  | [] => []
  | (q, v) :: t => if peqb p q then t else (q, v) :: premove t p
  end.

(* ---------- count_pairs ---------- *)
Fixpoint count_pairs_arr (l : list Z) (d : pdict) : pdict :=
  match l with
  | x :: ((y :: _) as r) => count_pairs_arr r (pbump d (x, y))
  | _ => d
  end.
Definition count_pairs (enc : list (list Z)) : pdict := fold_left (fun d l => count_pairs_arr l d) enc [].

(* ---------- contract_and_count_pairs: the loop of contract_pair with the dictionary updates in between ---------- *)
Fixpoint cacp_loop (cl : list Z) (a b c : Z) (steps i : nat) (skip : bool) (last : Z) (buf : list Z) (k : nat)
         (d : pdict) : res (bool * list Z * nat * pdict) :=
  match steps with
  | O => Ok (skip, buf, k, d)
  | S steps' =>
      if skip then cacp_loop cl a b c steps' (S i) false last buf k d
      else
        match aget cl i with
        | None => Err 1
        | Some x =>
            let hit := if x =? a
                       then match aget cl (S i) with Some y => Some (y =? b) | None => None end
                       else Some false in
            match hit with
            | None => Err 2
            | Some true =>
                (* if i > 0: prior pair loses one, (last_char_added, new_code) gains one *)
                let d1 := if (0 <? i)%nat then pbump (pdrop d (last, x)) (last, c) else d in
                (* if i < len - 2: next pair loses one, (new_code, char_list[i+2]) gains one *)
                let d2 := if (i + 2 <? length cl)%nat
                          then match aget cl (S i), aget cl (S (S i)) with
                               | Some y, Some z => Some (pbump (pdrop d1 (y, z)) (c, z))
                               | _, _ => None
                               end
                          else Some d1 in
                match d2 with
                | None => Err 7
                | Some d2 =>
                    match aset buf k c with
                    | None => Err 3
                    | Some buf' => cacp_loop cl a b c steps' (S i) true c buf' (S k) d2
                    end
                end
            | Some false =>
                match aset buf k x with
                | None => Err 4
                | Some buf' => cacp_loop cl a b c steps' (S i) false x buf' (S k) d
                end
            end
        end
  end.

Definition cacp (cl : list Z) (a b c : Z) (d : pdict) : res (list Z * pdict) :=
  let n := length cl in
  st <- cacp_loop cl a b c (n - 1) 0 false (-1) (repeat 0 n) 0 d ;;
  let '(skip, buf, k, d') := st in
  if negb skip && (0 <? n)%nat then
    match aget cl (n - 1) with
    | None => Err 5
    | Some x => match aset buf k x with
                | None => Err 6
                | Some buf' => Ok (firstn (S k) buf', d')
                end
    end
  else Ok (firstn k buf, d').

(* the training pass over all strings: the dictionary is threaded through *)
Fixpoint cacp_all (enc : list (list Z)) (a b c : Z) (d : pdict) : res (list (list Z) * pdict) :=
  match enc with
  | [] => Ok ([], d)
  | l :: t => r <- cacp l a b c d ;; r' <- cacp_all t a b c (snd r) ;; Ok (fst r :: fst r', snd r')
  end.

(* ---------- pair_length / pruning_max_freq_pair ---------- *)
Fixpoint zget (d : list (Z * Z)) (k : Z) : option Z :=
  match d with
  | [] => None
  | (k', v) :: t => if k =? k' then Some v else zget t k
  end.

Definition code_length (lens : list (Z * Z)) (mcc c : Z) : res Z :=
  if c <=? mcc then Ok 1 else match zget lens c with Some v => Ok v | None => Err 13 end.

Definition pair_length (p : pair) (lens : list (Z * Z)) (mcc : Z) : res Z :=
  x <- code_length lens mcc (fst p) ;; y <- code_length lens mcc (snd p) ;; Ok (x + y).

Definition pair_gt (p q : pair) : bool := (fst q <? fst p) || ((fst p =? fst q) && (snd q <? snd p)).

(* the scan: (result, max_count, best_length, keys_to_kill) *)
Fixpoint prune_scan (items : pdict) (lens : list (Z * Z)) (mcc min_count : Z)
         (acc : pair * Z * Z * list pair) : res (pair * Z * Z * list pair) :=
  match items with
  | [] => Ok acc
  | (p, count) :: t =>
      let '(result, max_count, best_length, kill) := acc in
      if max_count <? count then
        len <- pair_length p lens mcc ;; prune_scan t lens mcc min_count (p, count, len, kill)
      else if count =? max_count then
        len <- pair_length p lens mcc ;;
        if (best_length <? len) || ((len =? best_length) && pair_gt p result)
        then prune_scan t lens mcc min_count (p, count, len, kill)
        else prune_scan t lens mcc min_count acc
      else if count <=? min_count then prune_scan t lens mcc min_count (result, max_count, best_length, kill ++ [p])
      else prune_scan t lens mcc min_count acc
  end.

(* returns the pruned dictionary, the best pair and its count *)
Definition prune (d : pdict) (lens : list (Z * Z)) (mcc min_count : Z) : res (pdict * pair * Z) :=
  r <- prune_scan d lens mcc min_count ((-1, -1), 0, 0, []) ;;
  let '(result, max_count, _, kill) := r in
  let d' := fold_left premove kill d in
  if max_count =? 1 then Ok (d', (-1, -1), 0) else Ok (d', result, max_count).

(* ---------- the bookkeeping of bpe_train around the selection ---------- *)
Record sstate : Type := mkS {
  s_counts : pdict;             (* pair_counts *)
  s_lens : list (Z * Z);        (* code_lengths *)
  s_cur_min : Z;                (* current_min_count *)
  s_min : Z;                    (* min_count = min_token_occurrence *)
  s_mcc : Z
}.

Definition max_count_of (d : pdict) : Z := fold_left (fun m kv => Z.max m (snd kv)) d 0.

Definition impl_init (min_count : Z) (X : list (list Z)) (mcc : Z) : res (sstate * option pair) :=
  let d := count_pairs X in
  let lens0 := [(-1, 1)] in
  match d with
  | [] => Ok (mkS d lens0 0 min_count mcc, None)            (* np.max of an empty array: ValueError *)
  | _ =>
      let cur := max_count_of d / 2 in
      r <- prune d lens0 mcc cur ;;
      let '(d', p, _) := r in
      if fst p <? 0 then Ok (mkS d' lens0 cur min_count mcc, None)      (* chr(-1): ValueError *)
      else len <- pair_length p lens0 mcc ;;
           Ok (mkS d' (lens0 ++ [(mcc + 1, len)]) cur min_count mcc, Some p)
  end.

Definition impl_step (st : sstate) (p : pair) (c : Z) (enc enc' : list (list Z)) : res (sstate * option pair) :=
  let mcc := s_mcc st in
  r <- cacp_all enc (fst p) (snd p) c (s_counts st) ;;
  let d1 := snd r in
  match pget d1 p with
  | None => Err 14                                                       (* pair_counts.pop(pair): KeyError *)
  | Some _ =>
      let d2 := premove d1 p in
      r1 <- prune d2 (s_lens st) mcc (s_cur_min st) ;;
      let '(d3, q, count) := r1 in
      r2 <- (if (s_min st <? s_cur_min st) && (count <=? s_cur_min st)
             then let cur' := Z.max (s_cur_min st / 2) (s_min st) in
                  r' <- prune (count_pairs enc') (s_lens st) mcc cur' ;;
                  let '(d5, q', _) := r' in Ok (d5, q', cur')
             else Ok (d3, q, s_cur_min st)) ;;
      let '(d, q, cur) := r2 in
      if fst q <? 0 then Ok (mkS d (s_lens st) cur (s_min st) mcc, None)
      else match pget d q with
           | None => Err 15                                              (* pair_counts[pair]: KeyError *)
           | Some n =>
               if 1 <? n then
                 len <- pair_length q (s_lens st) mcc ;;
                 Ok (mkS d (s_lens st ++ [(c + 1, len)]) cur (s_min st) mcc, Some q)
               else Ok (mkS d (s_lens st) cur (s_min st) mcc, None)
           end
  end.
