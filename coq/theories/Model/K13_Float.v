(* Binary64 execution helpers for K13: exp and pow (np.power on non-negative bases) on top of K12_Float.
   exp x = 2^k * exp r, k = round(x / ln 2), r = x - k ln 2 (two-part ln 2), exp r by its Taylor polynomial of degree 17
   (|r| <= 0.35, truncation error < 1e-19).  Compared with libm by the harness on every run; no theorem depends on it. *)
From Coq Require Import ZArith List PrimFloat FloatOps SpecFloat.
From VZ Require Import Model.K12_Dist Model.K12_Float.
Import ListNotations.
Open Scope float_scope.

Definition Z_of_intfloat (x : float) : Z :=
  match Prim2SF x with
  | S754_finite s m e => let v := (if (0 <=? e)%Z then Z.pos m * 2 ^ e else Z.pos m / 2 ^ (- e))%Z in if s then (- v)%Z else v
  | _ => 0%Z
  end.

Definition magic : float := 0x1.8p+52.
Definition ln2_hi : float := 0x1.62e42feep-1.
Definition ln2_lo : float := 0x1.a39ef35793c76p-33.
Definition inv_ln2 : float := 0x1.71547652b82fep+0.

Fixpoint exp_poly (k : nat) (r acc : float) : float :=
  (* Horner for sum_{i<=n} r^i / i!  : acc_{k-1} = 1 + r/k * acc_k *)
  match k with
  | O => acc
  | S k' => exp_poly k' r (1 + r / f_of_nat k * acc)
  end.

Definition f_exp (x : float) : float :=
  if x =? x then
    if 710 <? x then infinity
    else if x <? -746 then 0
    else
      let kf := (x * inv_ln2 + magic) - magic in
      let r := (x - kf * ln2_hi) - kf * ln2_lo in
      Z.ldexp (exp_poly 17 r 1) (Z_of_intfloat kf)
  else nan.

(* np.power(x, p) for x >= 0 *)
Definition f_pow (x p : float) : float :=
  if x =? 0 then (if p =? 0 then 1 else if 0 <? p then 0 else infinity)
  else f_exp (p * f_ln x).
