(* K5 (histories) — successive fits / calls that share their parameter objects, as the caller sees them.
   Definitions only; proofs are in Proofs/K5_History_proofs.v.

   The model of Model/K5_Vocab.v is a function of (configuration, corpus): Gallina passes [ignored c] by value.
   What python adds is that the caller's excluded_tokens / token_dictionary OBJECTS outlive the call and are handed
   to the next one.  A call is therefore modelled as returning, next to its result, the configuration as the caller
   finds it afterwards:

     fit_step          <- the code as it is: prune_token_dictionary works on a copy
                          (tokens_to_prune = set(ignored_tokens), preprocessing.py:253-256) and only rebinds its other
                          parameters; preprocess_* copy a supplied token_dictionary: the caller's objects are unchanged.
     fit_step_aliased  <- the same call if the callee used the caller's set itself (tokens_to_prune = ignored_tokens):
                          the set comes back extended by every token pruned for an occurrence / frequency / document
                          bound or by the regex (:263-272; the max_unique_tokens cut comes later and adds nothing).
                          Only there to show what the by-value reading excludes (C05_aliased_history_refuted).
     fit_history       <- successive calls, each receiving the configuration the previous one left.

   The tie between [fit_step] and the code is NOT the vm_compute correspondence (a function cannot observe aliasing)
   but the before/after comparison of the parameter objects that harness/impl/c05.py makes around every call, and
   the histories of harness/c05.py whose every call is compared with the model on the ORIGINAL parameter values. *)
From Coq Require Import ZArith List Bool.
From VZ Require Import Model.K5_Vocab.
Import ListNotations.
Open Scope Z_scope.

Definition set_ignored {T} (c : config T) (ig : list T) : config T :=
  {| ignored := ig; use_regex := use_regex c; max_unique := max_unique c;
     min_occ := min_occ c; max_occ := max_occ c; min_freq := min_freq c; max_freq := max_freq c;
     min_dococc := min_dococc c; max_dococc := max_dococc c;
     min_docfreq := min_docfreq c; max_docfreq := max_docfreq c |}.

Definition no_topk {T} (c : config T) : config T :=
  {| ignored := ignored c; use_regex := use_regex c; max_unique := None;
     min_occ := min_occ c; max_occ := max_occ c; min_freq := min_freq c; max_freq := max_freq c;
     min_dococc := min_dococc c; max_dococc := max_dococc c;
     min_docfreq := min_docfreq c; max_docfreq := max_docfreq c |}.

Section History.
Variable T : Type.
Variable eqb ltb : T -> T -> bool.
Variable matches : T -> bool.
Variables f32div f64div : Z -> Z -> Z.
Variable f64to32 : Z -> Z.
Variable one64 : Z.

Notation learn_vocab := (learn_vocab T eqb ltb matches f32div f64div f64to32 one64).
Notation learn_gen := (learn_gen T eqb ltb matches f32div f64div f64to32 one64).

Definition outcome := res (dict T * list Z).

(* one fit with a learned vocabulary: (the caller's configuration after the call, the result) *)
Definition fit_step (c : config T) (docs : list (list T)) : config T * outcome :=
  (c, learn_vocab c docs None).

(* the local set tokens_to_prune when prune_token_dictionary reaches the max_unique_tokens cut: the excluded tokens
   and every token of the corpus that the other constraints prune; unchanged if the bounds raise (:212-249 come first) *)
Definition tokens_to_prune_after (c : config T) (docs : list (list T)) : list T :=
  match learn_gen (need_doc T c) (no_topk c) docs None with
  | Ok (d, _) => ignored c ++ filter (fun t => negb (mem T eqb t (map fst d))) (sorted_set T eqb ltb (concat docs))
  | Err _ => ignored c
  end.

Definition fit_step_aliased (c : config T) (docs : list (list T)) : config T * outcome :=
  (set_ignored c (tokens_to_prune_after c docs), learn_vocab c docs None).

Fixpoint fit_history (step : config T -> list (list T) -> config T * outcome)
         (c : config T) (corpora : list (list (list T))) : list outcome :=
  match corpora with
  | [] => []
  | docs :: rest => let '(c', out) := step c docs in out :: fit_history step c' rest
  end.

End History.
