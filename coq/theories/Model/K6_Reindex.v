(* K6 — executable model of the re-indexing half of the preprocess_* functions of vectorizers/preprocessing.py
   (preprocess_token_sequences :655-696 and its timed / multiset / tree copies), of ngrams_of
   (ngram_vectorizer.py:25-61) and of the two-stage vocabulary of NgramVectorizer.fit.
   Definitions only; proofs are in Proofs/K6_Reindex_proofs.v.

   A python dict is an association list in insertion order (Model/K5_Vocab.v).
     remove_key m d      <- if masking in token_dictionary: del token_dictionary[masking]
     reindex_delete d s  <- [token_dictionary[token] for token in sequence if token in token_dictionary]
     reindex_mask d s    <- [len(token_dictionary) if not (token in token_dictionary) else token_dictionary[token] ...]
     add_mask m d        <- token_dictionary[masking] = len(token_dictionary)      (a new key: appended last)
   The other entries keep the index they had: nothing is renumbered when the mask key is deleted.
   The timed copy re-indexes the first component of (token, time) pairs and the multiset copy maps the same
   comprehension over one more level of nesting; the tree copy replaces labels by the mask *string*
   (relabel_mask) and leaves the adjacency matrices alone. *)
From Coq Require Import ZArith List Bool Arith.
From VZ Require Import Model.K5_Vocab.
Import ListNotations.

Section Reindex.
Variable T : Type.
Variable eqb : T -> T -> bool.

Notation dict := (dict T).
Notation lookup := (lookup T eqb).

Definition remove_key (m : T) (d : dict) : dict := filter (fun e => negb (eqb m (fst e))) d.

Definition reindex_delete (d : dict) (s : list T) : list nat :=
  flat_map (fun t => match lookup d t with Some i => [i] | None => [] end) s.

Definition reindex_mask (d : dict) (s : list T) : list nat :=
  map (fun t => match lookup d t with Some i => i | None => length d end) s.

Definition add_mask (m : T) (d : dict) : dict := d ++ [(m, length d)].

(* second half of preprocess_token_sequences: (re-indexed sequences, final dictionary) *)
Definition reindex (masking : option T) (d : dict) (docs : list (list T)) : list (list nat) * dict :=
  match masking with
  | None => (map (reindex_delete d) docs, d)
  | Some m => let d' := remove_key m d in (map (reindex_mask d') docs, add_mask m d')
  end.

(* tree copy: labels not in the dictionary are replaced by the mask string *)
Definition relabel_mask (m : T) (d : dict) (labels : list T) : list T :=
  map (fun t => match lookup d t with Some _ => t | None => m end) labels.

(* timed copy: (token, time) pairs *)
Definition reindex_delete_timed {U} (d : dict) (s : list (T * U)) : list (nat * U) :=
  flat_map (fun p => match lookup d (fst p) with Some i => [(i, snd p)] | None => [] end) s.
Definition reindex_mask_timed {U} (d : dict) (s : list (T * U)) : list (nat * U) :=
  map (fun p => (match lookup d (fst p) with Some i => i | None => length d end, snd p)) s.

End Reindex.

(* ngrams_of(sequence, n, "exact"): the windows sequence[i : i+n] for i + n <= len *)
Definition ngrams_exact {A} (n : nat) (s : list A) : list (list A) :=
  flat_map (fun i => if (i + n <=? length s)%nat then [firstn n (skipn i s)] else []) (seq 0 (length s)).

(* ngrams_of(sequence, n, "subgrams"): for each i, the windows sequence[i : i+j], j = 1..n, with i + j <= len *)
Definition ngrams_sub {A} (n : nat) (s : list A) : list (list A) :=
  flat_map (fun i => flat_map (fun j => if (i + j <=? length s)%nat then [firstn j (skipn i s)] else [])
                              (seq 1 n)) (seq 0 (length s)).

Definition ngrams_of {A} (sub : bool) (n : nat) (s : list A) : list (list A) :=
  if sub then ngrams_sub n s else ngrams_exact n s.

(* preprocess_token_sequences as a whole, and the vocabulary of NgramVectorizer.fit for ngram_size >= 2 *)
Section Pipeline.
Variable T : Type.
Variable eqb ltb : T -> T -> bool.
Variable matches : T -> bool.
Variables f32div f64div : Z -> Z -> Z.
Variable f64to32 : Z -> Z.
Variable one64 : Z.

Definition preprocess (c : config T) (docs : list (list T)) (d0 : option (dict T)) (masking : option T)
  : res (list (list nat) * dict T * list Z) :=
  match learn_vocab T eqb ltb matches f32div f64div f64to32 one64 c docs d0 with
  | Err e => Err e
  | Ok (d, fr) => let '(seqs, d') := reindex T eqb masking d docs in Ok (seqs, d', fr)
  end.

End Pipeline.
