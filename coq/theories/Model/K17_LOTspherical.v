(* K17 (spherical part) — executable model of the cosine / spherical branch of the per-row pipeline of
   vectorizers/linear_optimal_transport.py (lot_vectors_dense_internal / lot_vectors_sparse_internal with
   spherical_vectors=True, and the per-row tail of sinkhorn_vectors_sparse_internal, which always takes that branch),
   and of sinkhorn_transport_images.  Definitions only; proofs are in Proofs/K17_LOTspherical_proofs.v.
   As in Model/K17_LOTglue.v the transport plan (network simplex) resp. the Sinkhorn scalings (u, v, K) are INPUTS.

   Written once over an abstract carrier T (Section variables): instantiated with R for the theorems and with
   PrimFloat (binary64) for the per-run correspondence.  `round32` is the store into a float32 array.

     gsumsq        <- l2_normalize:  norm = 0.0; for j: square = v[i,j]*v[i,j]; norm += square
                      (also np.sum(basepoint ** 2) and cosine's norm_x += x[i] ** 2: same left-to-right sums)
     gdot          <- euclidean_vectors[i] @ unit_normal ; cosine's result += x[i] * y[i]
     l2n           <- l2_normalize (one row):  norm = np.sqrt(norm); if norm > 0.0: v[i, j] /= norm   (else untouched)
     cosine        <- pynndescent.distances.cosine:
                        if norm_x == 0.0 and norm_y == 0.0: 0.0 ; elif norm_x == 0.0 or norm_y == 0.0: 1.0
                        else: 1.0 - (result / np.sqrt(norm_x * norm_y))
     sph_block     <- for ONE reference point j (image row a = transport_images[j], reference y = reference_vectors[j]):
                        l2_normalize(transport_images)                           a'  = l2n a
                        transport_vectors = transport_images - reference_vectors tv  = a' - y
                        project_to_sphere_tangent_space(transport_vectors, reference_vectors):
                          unit_normal = y / np.sqrt(np.sum(y ** 2)) ; scale = tv @ unit_normal ; tg = tv - scale*unit_normal
                        l2_normalize(tangent_vectors)                            tg' = l2n tg
                        scaling = tangent_vectors_scales(transport_images, reference_vectors)
                          result = np.zeros((m, 1), dtype=np.float32); result[i, 0] = cosine(a', y)     (float32 store)
                        transport_vectors = tangent_vectors * scaling
     chunk         <- rows of the (m, d) image matrix (the euclidean model keeps it flattened, j-major)
     sph_post      <- the whole block for all reference points, flattened: result[i] = transport_vectors.flatten()
     ssqrt         <- result[i, j] = np.sign(result[i, j]) * np.sqrt(np.abs(result[i, j]))
                      (lot_vectors_*_internal only, over the WHOLE result, skipped rows included; the Sinkhorn kernel
                       has no such step)
     lot_row_sph / lot_pipeline_sph <- per-row body of lot_vectors_*_internal with spherical_vectors=True
     sink_images   <- sinkhorn_transport_images for one batch column k (u = u[:, k], v = v[:, k]):
                        result[k, i, l] += (u[i] * K[i, j] * v[j]) * vectors[j, l]   for j with v[j] != 0
                      (no division by the reference distribution here)
     sinkhorn_row  <- per-batch tail of sinkhorn_vectors_sparse_internal: sph_post of that image, no ssqrt
*)
From Coq Require Import List ZArith Arith PrimFloat Bool Uint63.
From VZ Require Import Model.K17_LOTglue.
Import ListNotations.

Section Spherical.
  Variable T : Type.
  Variables (zero one : T) (add mul sub div : T -> T -> T) (ltb eqb : T -> T -> bool) (sqrt abs round32 : T -> T).

  Fixpoint gsumsq_acc (acc : T) (l : list T) : T :=
    match l with [] => acc | x :: t => gsumsq_acc (add acc (mul x x)) t end.
  Definition gsumsq (l : list T) : T := gsumsq_acc zero l.

  Fixpoint gdot_acc (acc : T) (a b : list T) : T :=
    match a, b with x :: a', y :: b' => gdot_acc (add acc (mul x y)) a' b' | _, _ => acc end.
  Definition gdot (a b : list T) : T := gdot_acc zero a b.

  Definition l2n (a : list T) : list T :=
    let n := sqrt (gsumsq a) in
    if ltb zero n then map (fun x => div x n) a else a.

  Definition cosine (x y : list T) : T :=
    let r := gdot x y in
    let nx := gsumsq x in
    let ny := gsumsq y in
    if andb (eqb nx zero) (eqb ny zero) then zero
    else if orb (eqb nx zero) (eqb ny zero) then one
    else sub one (div r (sqrt (mul nx ny))).

  Definition unit_normal (y : list T) : list T :=
    let n := sqrt (gsumsq y) in map (fun t => div t n) y.

  Definition project_tangent (tv y : list T) : list T :=
    let un := unit_normal y in
    let sc := gdot tv un in
    gvsub T sub tv (map (fun u => mul sc u) un).

  Definition sph_block (a y : list T) : list T :=
    let a' := l2n a in
    let tv := gvsub T sub a' y in
    let tg' := l2n (project_tangent tv y) in
    let s := round32 (cosine a' y) in
    map (fun t => mul t s) tg'.

  Fixpoint chunk (m d : nat) (l : list T) : list (list T) :=
    match m with O => [] | S m' => firstn d l :: chunk m' d (skipn d l) end.

  Definition sph_post (m d : nat) (img : list T) (ys : list (list T)) : list T :=
    concat (map2 sph_block (chunk m d img) ys).

  Definition sign (x : T) : T := if ltb x zero then sub zero one else if ltb zero x then one else zero.
  Definition ssqrt (x : T) : T := mul (sign x) (sqrt (abs x)).

  Definition lot_row_sph (m d : nat) (q : list T) (ys : list (list T)) (atoms : list (list T * list T)) : list T :=
    sph_post m d (images T zero one add mul div m d q atoms) ys.

  (* per-row body of lot_vectors_*_internal, spherical_vectors=True, followed by the signed square root that the
     kernel applies to its whole result (a skipped row stays zero and goes through ssqrt as well) *)
  Definition lot_pipeline_sph (maxsize m d : nat) (w : list T) (xs : list (list T)) (q : list T) (ys : list (list T))
             (plan_of : list T -> list (list T)) : list T :=
    let kept := truncate T ltb maxsize (combine w xs) in
    map ssqrt
      match normalise T zero add div ltb (map fst kept) with
      | None => repeat zero (m * d)
      | Some p => lot_row_sph m d q ys (combine (map snd kept) (plan_of p))
      end.

  (* ---- Sinkhorn: images of one batch column from its scalings, then the spherical tail ---- *)
  (* row i of the image: sum over j (in order, skipping v[j] == 0) of (u_i * K[i][j] * v[j]) * vectors[j] *)
  Fixpoint sink_image_row (ui : T) (Ki v : list T) (vectors : list (list T)) (acc : list T) : list T :=
    match Ki, v, vectors with
    | kij :: Ki', vj :: v', x :: vectors' =>
        sink_image_row ui Ki' v' vectors'
          (if eqb vj zero then acc else gvadd T add acc (map (fun xl => mul (mul (mul ui kij) vj) xl) x))
    | _, _, _ => acc
    end.

  Definition sink_images (d : nat) (u : list T) (K : list (list T)) (v : list T) (vectors : list (list T)) : list T :=
    concat (map2 (fun ui Ki => sink_image_row ui Ki v vectors (repeat zero d)) u K).

  Definition sinkhorn_row (m d : nat) (u : list T) (K : list (list T)) (v : list T) (vectors ys : list (list T)) : list T :=
    sph_post m d (sink_images d u K v vectors) ys.
End Spherical.

(* ---- binary64 instance ---- *)
Open Scope float_scope.
(* round to nearest-even on a 24-bit significand: the value a float32 store keeps (normal range of float32; the
   scalings are cosine distances, 0 or >= 2^-53 in magnitude and <= 2) *)
Definition round32_F (x : float) : float :=
  let (m, e) := frshiftexp x in
  let t := m * 0x1p24 in
  let r := (t + 0x1.8p52) - 0x1.8p52 in
  ldshiftexp (r * 0x1p-24) e.

Definition sph_block_F := sph_block float 0 1 PrimFloat.add PrimFloat.mul PrimFloat.sub PrimFloat.div PrimFloat.ltb PrimFloat.eqb
                                    PrimFloat.sqrt round32_F.
Definition lot_pipeline_sph_F := lot_pipeline_sph float 0 1 PrimFloat.add PrimFloat.mul PrimFloat.sub PrimFloat.div PrimFloat.ltb
                                    PrimFloat.eqb PrimFloat.sqrt PrimFloat.abs round32_F.
Definition sinkhorn_row_F := sinkhorn_row float 0 1 PrimFloat.add PrimFloat.mul PrimFloat.sub PrimFloat.div PrimFloat.ltb
                                    PrimFloat.eqb PrimFloat.sqrt round32_F.
(* the tangent norm of block j before its normalisation (the harness uses it to recognise antipodal images, where
   the direction of the tangent vector is undefined) *)
Definition tangent_norms_F (m d : nat) (img : list float) (ys : list (list float)) : list float :=
  map2 (fun a y => let a' := l2n float 0 PrimFloat.add PrimFloat.mul PrimFloat.div PrimFloat.ltb PrimFloat.sqrt a in
                   PrimFloat.sqrt (gsumsq float 0 PrimFloat.add PrimFloat.mul
                     (project_tangent float 0 PrimFloat.add PrimFloat.mul PrimFloat.sub PrimFloat.div PrimFloat.sqrt
                        (gvsub float PrimFloat.sub a' y) y)))
       (chunk float m d img) ys.

(* distance from x to the nearest float32 rounding boundary (midpoint of two neighbouring float32 values); 1 for
   x = 0.  The harness skips (and counts) a block whose cosine distance lies within 1e-13 of such a boundary: there
   a last-bit difference between numba's fastmath arithmetic and this model's flips the float32 store. *)
Definition tie_dist_F (x : float) : float :=
  if PrimFloat.eqb x 0 then 1 else
  let (m, e) := frshiftexp x in
  let t := m * 0x1p24 in
  let r := (t + 0x1.8p52) - 0x1.8p52 in
  ldshiftexp ((0.5 - PrimFloat.abs (t - r)) * 0x1p-24) e.

Definition cosines_F (m d : nat) (img : list float) (ys : list (list float)) : list float :=
  map2 (fun a y => cosine float 0 1 PrimFloat.add PrimFloat.mul PrimFloat.sub PrimFloat.div PrimFloat.eqb PrimFloat.sqrt
                     (l2n float 0 PrimFloat.add PrimFloat.mul PrimFloat.div PrimFloat.ltb PrimFloat.sqrt a) y)
       (chunk float m d img) ys.
