(* Binary64 instance of Model/K15_KDEexec.v for the correspondence runs of C20 (vm_compute on PrimFloat).
   + - * / sqrt abs and the comparisons are the IEEE primitives; ln is f_ln of Model/K12_Float.v and exp is f_exp of
   Model/K13_Float.v (reused, not duplicated).  cos is only needed on [0, pi/2) (the cosine kernel evaluates
   cos(0.5 pi d / h) for d < h): its Taylor polynomial of degree 26 in Horner form, truncation error < 1e-20 there;
   the harness compares it with libm on every run.  No theorem depends on this file. *)
From Coq Require Import ZArith List PrimFloat FloatOps.
From VZ Require Import Model.K12_Dist Model.K12_Float Model.K13_Float Model.K15_HistKDE Model.K15_KDEexec.
Import ListNotations.
Open Scope float_scope.

Definition f_pi : float := 0x1.921fb54442d18p+1.

(* cos x = 1 - x^2/(1*2) (1 - x^2/(3*4) (1 - x^2/(5*6) ( ... ))) *)
Fixpoint cos_poly (k : nat) (x2 acc : float) : float :=
  match k with
  | O => acc
  | S k' => cos_poly k' x2 (1 - x2 / (f_of_nat (2 * k - 1) * f_of_nat (2 * k)) * acc)
  end.
Definition f_cos (x : float) : float := cos_poly 13 (x * x) 1.

Definition FO : Ops float := F_ops 0.

Definition f_kde_transform (k : kernel) (h : float) (grid : list float) (X : list (list float)) :=
  map (map out) (kde_transform_k float FO f_exp f_cos f_pi k h grid X).

Definition f_bw_candidates (data : list float) (lens : list nat) :=
  match bw_candidates float FO f_exp data lens with
  | Some l => Some (map out l)
  | None => None
  end.

Definition f_bw_select (cands likelihoods : list float) := out (bw_select float FO cands likelihoods).
