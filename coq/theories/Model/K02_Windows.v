(* K2 — executable model of vectorizers/_window_kernels.py: window_at_index, fixed_window_radii, the
   flat / harmonic / geometric kernels and their timed and multiset versions (mask, offset, normalize).
   Definitions only; proofs are in Proofs/K02_Windows_proofs.v.

   Values live in a carrier K (zero one add mul div and the test `x > 0`); the theorems about sums only use
   that (add, zero) is a commutative monoid, execution and the field/order theorems instantiate K with Qc.

   Correspondence with the code:
     slice lo hi s        <- s[lo:hi]            (python slices clamp; firstn/skipn clamp too)
     window_at_index      <- window_at_index     (np.flipud = rev)
     fixed_window_radii   <- fixed_window_radii  (np.repeat(R, len(freq)+1); radii[mask_index] = 0)
     base_weights kf len  <- np.ones(len) | 1.0/np.arange(1,len+1) | power**np.arange(1,len+1)   (kf k = weight of distance k)
     mask_out             <- result[window == mask_index] = 0.0
     offset_out           <- result[0 : min(offset, len(result))] = 0
     l1_normalize         <- temp = result.sum(); if temp > 0: result /= temp
     kernel               <- flat_kernel / harmonic_kernel / geometric_kernel
     timed_kernel         <- timed_flat_kernel / timed_geometric_kernel  (base weights = g(time_delta))
     multi_kernel         <- multi_flat_kernel / multi_geometric_kernel  (after the D26 and D31 repairs)
*)
From Coq Require Import List Arith Bool.
Import ListNotations.

Record carrier := {
  T :> Type;
  zero : T;
  one : T;
  add : T -> T -> T;
  mul : T -> T -> T;
  div : T -> T -> T;
  gtb0 : T -> bool   (* x > 0 *)
}.

Arguments zero {c}.
Arguments one {c}.
Arguments add {c}.
Arguments mul {c}.
Arguments div {c}.
Arguments gtb0 {c}.

Definition tsum {K : carrier} (l : list K) : K := fold_right add zero l.

(* ---------- windows ---------- *)

Definition slice {A} (lo hi : nat) (s : list A) : list A := firstn (hi - lo) (skipn lo s).

Definition window_at_index {A} (s : list A) (R ind : nat) (reverse : bool) : list A :=
  if reverse then rev (slice (Nat.max (ind - R) 0) ind s)
  else slice (ind + 1) (Nat.min (ind + R + 1) (length s)) s.

Fixpoint upd {A} (l : list A) (i : nat) (v : A) : list A :=
  match l, i with
  | [], _ => []
  | _ :: t, O => v :: t
  | h :: t, S i' => h :: upd t i' v
  end.

Definition fixed_window_radii (R : nat) (n_freq : nat) (mask : option nat) : list nat :=
  let radii := repeat R (n_freq + 1) in
  match mask with None => radii | Some m => upd radii m 0 end.

(* ---------- kernels on a window of token ids ---------- *)

Definition base_weights {K : carrier} (kf : nat -> K) (len : nat) : list K := map kf (seq 1 len).

Definition mask_out {K : carrier} (mask : option nat) (win : list nat) (res : list K) : list K :=
  match mask with
  | None => res
  | Some m => map (fun tx => if Nat.eqb (fst tx) m then zero else snd tx) (combine win res)
  end.

Definition offset_out {K : carrier} (offset : nat) (res : list K) : list K :=
  let k := Nat.min offset (length res) in repeat zero k ++ skipn k res.

Definition l1_normalize {K : carrier} (res : list K) : list K :=
  let s := tsum res in if gtb0 s then map (fun x => div x s) res else res.

(* the common tail of every kernel function: mask, offset, normalize applied to the base weights *)
Definition finish_kernel {K : carrier} (mask : option nat) (normalize : bool) (offset : nat)
           (win : list nat) (base : list K) : list K :=
  let r := offset_out offset (mask_out mask win base) in
  if normalize then l1_normalize r else r.

Definition kernel {K : carrier} (kf : nat -> K) (mask : option nat) (normalize : bool) (offset : nat)
           (win : list nat) : list K :=
  finish_kernel mask normalize offset win (base_weights kf (length win)).

(* timed kernels: the base weight is a function g of the time delta (flat: g = 1; geometric: power**(delta/δ̄)) *)
Definition timed_kernel {K : carrier} {Tm : Type} (g : Tm -> K) (mask : option nat) (normalize : bool) (offset : nat)
           (win : list nat) (time_deltas : list Tm) : list K :=
  finish_kernel mask normalize offset win (map g time_deltas).

(* ---------- multiset kernels (window = list of multisets, the target's own multiset first) ---------- *)

(* ker[i] for the multiset at distance i: flat: 1, geometric: power**i  (kf 0 = weight of the own multiset) *)
Fixpoint multi_fill {K : carrier} (kf : nat -> K) (mask : option nat) (offset : nat) (i : nat)
         (window : list (list nat)) : list K :=
  match window with
  | [] => []
  | mset :: rest =>
      (if Nat.leb offset i
       then map (fun t => match mask with
                          | Some m => if Nat.eqb t m then zero else kf i
                          | None => kf i end) mset
       else repeat zero (length mset))
      ++ multi_fill kf mask offset (S i) rest
  end.

(* kernel_result[target_ind] = 0; if mask_index is not None and window[0][target_ind] == mask_index: kernel_result[:] = 0
   (the window always starts with the target's own multiset: a nullified mask has no contexts; repair of D31) *)
Definition multi_raw {K : carrier} (kf : nat -> K) (mask : option nat) (offset : nat)
           (window : list (list nat)) (target_ind : nat) : list K :=
  let r := upd (multi_fill kf mask offset 0 window) target_ind zero in
  match mask with
  | Some m => if Nat.eqb (nth target_ind (hd [] window) 0) m then map (fun _ => zero) r else r
  | None => r
  end.

Definition multi_kernel {K : carrier} (kf : nat -> K) (mask : option nat) (normalize : bool) (offset : nat)
           (window : list (list nat)) (target_ind : nat) : list K :=
  let r := multi_raw kf mask offset window target_ind in
  if normalize then l1_normalize r else r.

(* ---------- vocabulary of the pointwise specifications (no slicing, no clipping, no loop order) ---------- *)

Definition bigsum {K : carrier} {A} (f : A -> K) (l : list A) : K := tsum (map f l).

(* Σ_{q < L} f q *)
Definition isum {K : carrier} (L : nat) (f : nat -> K) : K := bigsum f (seq 0 L).

(* q lies in the one-sided window of radius R of p *)
Definition in_win (reverse : bool) (R p q : nat) : bool :=
  if reverse then (p <=? q + R) && (q <? p) else (p <? q) && (q <=? p + R).

Definition dist (p q : nat) : nat := if p <=? q then q - p else p - q.

Definition is_mask (mask : option nat) (t : nat) : bool :=
  match mask with Some m => Nat.eqb t m | None => false end.

(* the drivers only append strictly positive values *)
Definition posv {K : carrier} (v : K) : K := if gtb0 v then v else zero.
