(* K10 — executable model of the scipy.sparse assembly layer (DESIGN §3.4) as far as the code relies on it, of
   coo_utils.sum_coo_entries, of EdgeListVectorizer (fit / transform) and of SkipgramVectorizer (build_skip_grams,
   skip_grams_matrix_coo_data, fit, transform).  Definitions only; proofs are in Proofs/K10_Assembly_proofs.v.

   Conventions: labels (raw tokens, row / column labels) and indices are Z; a dictionary is an association list
   (python dict, insertion ordered); a sparse matrix is (nrows, ncols, triples) where the triples may repeat a
   coordinate (COO semantics: duplicates are summed) — `cell` is the mathematical entry.  Values are Z: counts and
   edge values are integers; skip-gram kernel weights are given as a function `w : nat -> Z` of the distance, i.e.
   in units of 1/L for a common denominator L (flat: w d = 1; harmonic with L = lcm(1..R): w d = L/d; ...), see
   harness/c06.py — the float sums of the implementation are compared with w/L under a stated tolerance.

   Correspondence with the code (what each definition mirrors):
     coo_matrix None ts       <- scipy.sparse.coo_matrix((data,(row,col)))            shape inferred, empty input raises
     coo_matrix (Some s) ts   <- scipy.sparse.coo_matrix((data,(row,col)), shape=s)   index >= shape raises ValueError
     mask_cols mask m         <- m.tocsc()[:, mask]  for a boolean mask (IndexError unless len(mask) = ncols)
     isort / sum_runs / sum_coo_entries <- coo_utils.sum_coo_entries  (seq.sort(); run-summing loop)
     sort_uniq / enum_dict    <- {token: index for index, token in enumerate(np.unique(...))}
     dict_dim                 <- np.max(list(index_dictionary.keys())) + 1
     el_fit / el_transform    <- EdgeListVectorizer.fit / .transform (after the repairs of D2 and of the two
                                 joint_space defects; el_transform_unrepaired is the code before D2's repair)
     window_after             <- _window_kernels.window_at_index (reverse=False)
     skip_events              <- the coo_tuples list of build_skip_grams (with its (0,0,0) sentinel)
     skip_coo_data            <- skip_grams_matrix_coo_data (column code head * n_unique_tokens + tail)
     sg_fit / sg_transform    <- SkipgramVectorizer.fit / .transform (after the repair of D3;
                                 sg_transform_unrepaired is the code before it)
*)
From Coq Require Import ZArith List Lia Bool.
Import ListNotations.
Open Scope Z_scope.

(* ---------- exceptions ---------- *)
Inductive exn := ValueError | IndexError | KeyError | AttributeError.
Inductive res (A : Type) : Type := Ok (a : A) | Raise (e : exn).
Arguments Ok {A} a.
Arguments Raise {A} e.
Definition bind {A B} (r : res A) (f : A -> res B) : res B :=
  match r with Ok a => f a | Raise e => Raise e end.

(* ---------- triples and matrices ---------- *)
Definition triple := (Z * Z * Z)%type.
Definition trow (t : triple) : Z := fst (fst t).
Definition tcol (t : triple) : Z := snd (fst t).
Definition tval (t : triple) : Z := snd t.

Definition matrix := (Z * Z * list triple)%type.
Definition nrows (m : matrix) : Z := fst (fst m).
Definition ncols (m : matrix) : Z := snd (fst m).
Definition entries (m : matrix) : list triple := snd m.

(* the entry (i, j) of a COO matrix: duplicates are summed *)
Definition at_coord (i j : Z) (t : triple) : bool := (trow t =? i) && (tcol t =? j).
Definition cell (ts : list triple) (i j : Z) : Z :=
  fold_right (fun t acc => if at_coord i j t then tval t + acc else acc) 0 ts.

Definition max_list (l : list Z) : Z := fold_right Z.max 0 l.

Definition in_shape (h w : Z) (t : triple) : bool :=
  (0 <=? trow t) && (trow t <? h) && (0 <=? tcol t) && (tcol t <? w).

Definition coo_matrix (shape : option (Z * Z)) (ts : list triple) : res matrix :=
  match shape with
  | None =>
      match ts with
      | [] => Raise ValueError                      (* cannot infer dimensions from zero sized index arrays *)
      | _ => if forallb (fun t => (0 <=? trow t) && (0 <=? tcol t)) ts
             then Ok (max_list (map trow ts) + 1, max_list (map tcol ts) + 1, ts)
             else Raise ValueError                  (* negative index found *)
      end
  | Some (h, w) => if forallb (in_shape h w) ts then Ok (h, w, ts)
                   else Raise ValueError            (* index exceeds matrix dimensions / negative index *)
  end.

(* ---------- column selection ---------- *)
Fixpoint index_of (x : Z) (l : list Z) : option Z :=
  match l with
  | [] => None
  | y :: l' => if y =? x then Some 0 else option_map Z.succ (index_of x l')
  end.

Definition select_cols (kept : list Z) (m : matrix) : matrix :=
  (nrows m, Z.of_nat (length kept),
   flat_map (fun t => match index_of (tcol t) kept with
                      | Some k => [(trow t, k, tval t)]
                      | None => []
                      end) (entries m)).

(* np.where(mask)[0] *)
Fixpoint kept_from (j : Z) (mask : list bool) : list Z :=
  match mask with
  | [] => []
  | b :: mask' => if b then j :: kept_from (j + 1) mask' else kept_from (j + 1) mask'
  end.
Definition kept_columns (mask : list bool) : list Z := kept_from 0 mask.

Definition mask_cols (mask : list bool) (m : matrix) : res matrix :=
  if Z.of_nat (length mask) =? ncols m then Ok (select_cols (kept_columns mask) m)
  else Raise IndexError.                            (* bool index has shape (len mask,) instead of (ncols,) *)

Definition col_sum (ts : list triple) (j : Z) : Z :=
  fold_right (fun t acc => if tcol t =? j then tval t + acc else acc) 0 ts.

Definition eliminate_zeros (m : matrix) : matrix :=
  (nrows m, ncols m, filter (fun t => negb (tval t =? 0)) (entries m)).

(* ---------- sum_coo_entries ---------- *)
Definition triple_leb (x y : triple) : bool :=
  if trow x <? trow y then true else if trow y <? trow x then false
  else if tcol x <? tcol y then true else if tcol y <? tcol x then false
  else tval x <=? tval y.

Fixpoint insert_by {A} (leb : A -> A -> bool) (x : A) (l : list A) : list A :=
  match l with
  | [] => [x]
  | y :: l' => if leb x y then x :: l else y :: insert_by leb x l'
  end.
Definition isort_by {A} (leb : A -> A -> bool) (l : list A) : list A := fold_right (insert_by leb) [] l.

(* the loop: this_coord / this_sum / reduced_data *)
Fixpoint sum_runs (r c acc : Z) (seq : list triple) : list triple :=
  match seq with
  | [] => [(r, c, acc)]
  | e :: rest => if at_coord r c e then sum_runs r c (acc + tval e) rest
                 else (r, c, acc) :: sum_runs (trow e) (tcol e) (tval e) rest
  end.

(* callers always pass a non-empty list (the (0,0,0) sentinel); seq[0] of an empty list is not modelled *)
Definition sum_coo_entries (seq : list triple) : list triple :=
  match isort_by triple_leb seq with
  | [] => []
  | e0 :: rest => sum_runs (trow e0) (tcol e0) 0 (e0 :: rest)
  end.

(* ---------- dictionaries ---------- *)
Fixpoint alookup {K V} (eqb : K -> K -> bool) (k : K) (d : list (K * V)) : option V :=
  match d with
  | [] => None
  | (k', v) :: d' => if eqb k' k then Some v else alookup eqb k d'
  end.
Definition dict := list (Z * Z).
Definition lookup (k : Z) (d : dict) : option Z := alookup Z.eqb k d.

Definition sort_uniq (l : list Z) : list Z := isort_by Z.leb (nodup Z.eq_dec l).
Definition enum_dict (keys : list Z) : dict := combine keys (map Z.of_nat (seq 0 (length keys))).
Definition dict_dim (d : dict) : Z := max_list (map snd d) + 1.

(* ---------- EdgeListVectorizer ---------- *)
(* an edge is (row label, column label, value) *)
Definition el_model := (dict * dict)%type.          (* row_label_dictionary_, column_label_dictionary_ *)

Definition el_dicts (rd cd : option dict) (joint : bool) (edges : list triple) : res el_model :=
  if joint then
    match cd, rd with
    | None, None => let d := enum_dict (sort_uniq (map trow edges ++ map tcol edges)) in Ok (d, d)
    | None, Some r => Ok (r, r)
    | Some c, None => Ok (c, c)
    | Some _, Some _ => Raise ValueError
    end
  else
    Ok (match rd with None => enum_dict (sort_uniq (map trow edges)) | Some r => r end,
        match cd with None => enum_dict (sort_uniq (map tcol edges)) | Some c => c end).

(* edges with both labels known, as (row index, column index, value) *)
Definition el_indexed (M : el_model) (edges : list triple) : list triple :=
  flat_map (fun e => match lookup (trow e) (fst M), lookup (tcol e) (snd M) with
                     | Some i, Some j => [(i, j, tval e)]
                     | _, _ => []
                     end) edges.

Definition el_shape (M : el_model) : Z * Z := (dict_dim (fst M), dict_dim (snd M)).

Definition el_transform (M : el_model) (edges : list triple) : res matrix :=
  coo_matrix (Some (el_shape M)) (el_indexed M edges).

Definition el_fit (rd cd : option dict) (joint : bool) (edges : list triple) : res (el_model * matrix) :=
  bind (el_dicts rd cd joint edges) (fun M => bind (el_transform M edges) (fun m => Ok (M, m))).

(* the code before the repair of D2: no shape= *)
Definition el_transform_unrepaired (M : el_model) (edges : list triple) : res matrix :=
  coo_matrix None (el_indexed M edges).

(* ---------- SkipgramVectorizer ---------- *)
(* preprocess_token_sequences(X, token_dictionary): tokens outside the dictionary are deleted *)
Definition kept (tokdict : dict) (doc : list Z) : list Z :=
  flat_map (fun t => match lookup t tokdict with Some i => [i] | None => [] end) doc.

Definition window_after (s : list Z) (R p : nat) : list Z :=
  firstn (Nat.min (p + R + 1) (length s) - (p + 1)) (skipn (p + 1) s).

(* window_sizes[head_token] *)
Definition radius (Rs : list Z) (a : Z) : nat := Z.to_nat (nth (Z.to_nat a) Rs 0).

Definition skip_events (Rs : list Z) (w : nat -> Z) (s : list Z) : list triple :=
  (0, 0, 0) ::
  flat_map (fun p => let a := nth p s 0 in
                     let win := window_after s (radius Rs a) p in
                     map (fun j => (a, nth j win 0, w (S j))) (seq 0 (length win)))
           (seq 0 (length s)).

Definition build_skip_grams (Rs : list Z) (w : nat -> Z) (s : list Z) : list triple :=
  sum_coo_entries (skip_events Rs w s).

Definition colcode (n a b : Z) : Z := a * n + b.
Definition decode (n c : Z) : Z * Z := (c / n, c mod n).

Definition skip_coo_data (Rs : list Z) (w : nat -> Z) (seqs : list (list Z)) : list triple :=
  let n := Z.of_nat (length Rs) - 1 in
  flat_map (fun i => map (fun t => (Z.of_nat i, colcode n (trow t) (tcol t), tval t))
                         (build_skip_grams Rs w (nth i seqs [])))
           (seq 0 (length seqs)).

(* fitted state: _token_dictionary_, _window_sizes, _column_is_kept *)
Definition sg_model := (dict * list Z * list bool)%type.
Definition sg_tokdict (M : sg_model) : dict := fst (fst M).
Definition sg_radii (M : sg_model) : list Z := snd (fst M).
Definition sg_mask (M : sg_model) : list bool := snd M.

Definition sg_fit (tokdict : dict) (Rs : list Z) (w : nat -> Z) (docs : list (list Z)) : res (sg_model * matrix) :=
  let seqs := map (kept tokdict) docs in
  bind (coo_matrix None (skip_coo_data Rs w seqs)) (fun base =>
    let mask := map (fun j => 0 <? col_sum (entries base) (Z.of_nat j)) (seq 0 (Z.to_nat (ncols base))) in
    bind (mask_cols mask base) (fun m => Ok ((tokdict, Rs, mask), eliminate_zeros m))).

(* (first token index, second token index) of every fitted column: raw // n, raw % n with n = len(_token_dictionary_) *)
Definition sg_labels (M : sg_model) : list (Z * Z) :=
  map (decode (Z.of_nat (length (sg_tokdict M)))) (kept_columns (sg_mask M)).

Definition sg_transform (M : sg_model) (w : nat -> Z) (docs : list (list Z)) : res matrix :=
  let seqs := map (kept (sg_tokdict M)) docs in
  let n_columns := Z.of_nat (length (sg_mask M)) in
  let data := filter (fun t => tcol t <? n_columns) (skip_coo_data (sg_radii M) w seqs) in
  bind (coo_matrix (Some (Z.of_nat (length seqs), n_columns)) data) (mask_cols (sg_mask M)).

(* the code before the repair of D3: width inferred from X', then the fit-time mask *)
Definition sg_transform_unrepaired (M : sg_model) (w : nat -> Z) (docs : list (list Z)) : res matrix :=
  let seqs := map (kept (sg_tokdict M)) docs in
  bind (coo_matrix None (skip_coo_data (sg_radii M) w seqs)) (mask_cols (sg_mask M)).

(* ---------- kernels as integer weight functions (units of 1/L) ---------- *)
Definition w_flat (d : nat) : Z := 1.
Definition w_harmonic (L : Z) (d : nat) : Z := L / Z.of_nat d.
Definition w_geometric (num den : Z) (R : nat) (d : nat) : Z := num ^ Z.of_nat d * den ^ Z.of_nat (R - d).
