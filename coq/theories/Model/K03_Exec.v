(* Execution instance of the K2/K3/K4 models: the carrier of canonical rationals Qc, the three distance
   kernels, and printable results (numerator, denominator).  Definitions only. *)
From Coq Require Import List Arith Bool ZArith QArith Qcanon.
From VZ Require Import Model.K02_Windows Model.K03_Cooc.
Import ListNotations.

Definition QcK : carrier :=
  {| T := Qc; zero := 0%Qc; one := 1%Qc; add := Qcplus; mul := Qcmult; div := Qcdiv;
     gtb0 := fun x => negb (Qle_bool (this x) 0) |}.

Definition qc (a : Z) (b : positive) : Qc := Q2Qc (a # b).

Fixpoint qpow (x : Qc) (k : nat) : Qc := match k with O => 1%Qc | S k' => (x * qpow x k')%Qc end.

Definition kf_flat : nat -> QcK := fun _ => 1%Qc.
Definition kf_harmonic : nat -> QcK := fun k => (1 / Q2Qc (Z.of_nat k # 1))%Qc.
Definition kf_geometric (power : Qc) : nat -> QcK := fun k => qpow power k.

Definition mkblock (rev : bool) (radii : list nat) (kf : nat -> QcK) (mask : option nat) (norm : bool) (off : nat)
           (mix : Qc) : block QcK :=
  {| b_rev := rev; b_radii := radii; b_kf := kf; b_mask := mask; b_norm := norm; b_off := off; b_mix := mix |}.

Definition show (x : Qc) : Z * Z := (Qnum (this x), Zpos (Qden (this x))).

Definition show_events (evs : list (event QcK)) : list (nat * nat * nat * (Z * Z)) :=
  map (fun e : event QcK => (e_blk e, e_row e, e_col e, show (e_val e : Qc))) evs.

(* timed: timestamps are integers (ticks); the base weight g is given as a table delta -> weight
   (flat: the constant 1; geometric: power**(delta/delta_mean) supplied as data) *)
Definition zabsdiff (a b : Z) : Z := Z.abs (a - b).

Fixpoint table_get (tbl : list (Z * Qc)) (d : Z) : Qc :=
  match tbl with
  | [] => 0%Qc
  | (k, v) :: rest => if Z.eqb k d then v else table_get rest d
  end.

Definition mktblock (rev : bool) (radii : list nat) (g : Z -> QcK) (mask : option nat) (norm : bool) (off : nat)
           (mix : Qc) : tblock QcK Z :=
  {| tb_rev := rev; tb_radii := radii; tb_g := g; tb_mask := mask; tb_norm := norm; tb_off := off; tb_mix := mix |}.

(* the matrix of an event list as an association list (first-occurrence order of the keys); Proofs/K03_Qc_proofs.v
   shows that looking a key up in it is `sumby` *)
Fixpoint acc_add (r c : nat) (v : Qc) (m : list (nat * nat * Qc)) : list (nat * nat * Qc) :=
  match m with
  | [] => [(r, c, v)]
  | (r', c', v') :: t => if Nat.eqb r r' && Nat.eqb c c' then (r', c', (v' + v)%Qc) :: t
                         else (r', c', v') :: acc_add r c v t
  end.

Definition matrix_of (evs : list (event QcK)) : list (nat * nat * Qc) :=
  fold_left (fun m (e : event QcK) => acc_add (e_row e) (e_col e) (e_val e : Qc) m) evs [].

Fixpoint matrix_get (m : list (nat * nat * Qc)) (r c : nat) : Qc :=
  match m with
  | [] => 0%Qc
  | (r', c', v') :: t => if Nat.eqb r r' && Nat.eqb c c' then v' else matrix_get t r c
  end.

Definition show_matrix (evs : list (event QcK)) : list (nat * nat * (Z * Z)) :=
  map (fun rcv => (fst (fst rcv), snd (fst rcv), show (snd rcv))) (matrix_of evs).
