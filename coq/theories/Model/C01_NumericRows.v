(* C01 — row skeletons of the numeric estimators (definitions only; proofs in Proofs/C01_NumericRows_proofs.v).
   What is modelled is HOW the rows of transform are assembled (loops, blocks, chunks, vstack, matrix products); the
   per-item numerics are parameters (KernelDensity's tree, GaussianMixture's likelihoods, the transport plan / Sinkhorn
   iteration of one batch, the SVD components) - oracles of C07 / C08 / C12 / C20.

   Correspondence with the code (what each definition mirrors):
     vstack            <- np.vstack(list of 1-d rows or of 2-d blocks): None = ValueError (empty list / widths differ)
     assign_rows       <- result = np.empty((len(X), w)); result[i] = row : None = ValueError when len(row) != w
     kde_loop          <- KDEVectorizer.transform: np.empty((len(X), n_components)) + result[i] = np.exp(score_samples(grid))
                          (fill_loop of Model/K19_RowWise.v on uninitialised rows, then the width test of the assignment)
     vectorize_diagram <- utils.vectorize_diagram: interim[i, p] = likelihood of component i at point p (oracle `lik`),
                          sklearn normalize(norm='l1', axis=0) (a zero column is left alone), sum over the points
     distribution_transform <- DistributionVectorizer.transform: np.vstack([vectorize_diagram(d, gmm) for d in X])
     project           <- block @ self.components_.T : one dot product per fitted component
     lot_block         <- lot_vectors_sparse_internal / lot_vectors_dense_internal on one block: zero-initialised result
                          filled chunk by chunk (kernel_chunk_fill / kernel_chunks of K19), `lotrow` = the LOT row of one item
     wasserstein_transform <- WassersteinVectorizer.transform, input_method 'spmatrix' (LOT_exact) and 'lil':
                          for each block: result_blocks.append(lot_block(...) @ components_.T); np.vstack(result_blocks)
                          (blocks of K19: n_blocks = n // b + 1, the last one possibly empty)
     sinkhorn_transform <- SinkhornVectorizer.transform and WassersteinVectorizer.transform(method='LOT_sinkhorn'):
                          for each block: for each chunk: completed_chunks.append(batch(X[chunk_start:chunk_end]));
                          block = np.vstack(completed_chunks); result_blocks.append(block @ components_.T); np.vstack
                          (`batch` = sinkhorn_vectors_sparse_internal on one chunk: NOT row-wise, see the C12_sinkhorn theorems)
     take / gen_chunk_loop / generator_transform <- WassersteinVectorizer.transform, input_method 'generator':
                          _chunks_from_generators consumes the next `next_chunk_size` items of the stream; empty blocks and
                          empty chunks are skipped (`continue`); a non-empty block whose chunks are all empty makes
                          np.vstack([]) raise (None)
     approx_row / approx_transform <- ApproximateWassersteinVectorizer.transform and WassersteinVectorizer.transform with
                          method='HeuristicLinearAlgebra': ((X @ vectors_) / rowsum^p) @ components_.T / sqrt(singular_values_)
*)
From Coq Require Import List Arith Bool.
From VZ Require Import Model.K19_RowWise.
Import ListNotations.

Definition vstack {B : Type} (width : B -> nat) (parts : list B) : option (list B) :=
  match parts with
  | [] => None
  | p :: _ => if forallb (fun q => Nat.eqb (width q) (width p)) parts then Some parts else None
  end.

Definition assign_rows {C : Type} (w : nat) (rows : list (list C)) : option (list (list C)) :=
  if forallb (fun r => Nat.eqb (length r) w) rows then Some rows else None.

(* ---------- KDE ---------- *)
Definition kde_loop {A C : Type} (row : A -> list C) (n_components : nat) (garbage : list (list C)) (X : list A)
  : option (list (list C)) :=
  assign_rows n_components (fill_loop A (list C) row garbage X).

(* ---------- Distribution ---------- *)
Section Distribution.
  Variables (T P Comp : Type).
  Variables (add div : T -> T -> T) (abs : T -> T) (zero one : T) (eqz : T -> bool).
  Variable lik : Comp -> P -> T.

  Definition tsum (l : list T) : T := fold_right add zero l.
  Definition col_norm (comps : list Comp) (p : P) : T :=
    let s := tsum (map (fun c => abs (lik c p)) comps) in if eqz s then one else s.
  Definition vectorize_diagram (comps : list Comp) (diagram : list P) : list T :=
    map (fun c => tsum (map (fun p => div (lik c p) (col_norm comps p)) diagram)) comps.
  Definition distribution_transform (comps : list Comp) (X : list (list P)) : option (list (list T)) :=
    vstack (@length T) (append_loop (list P) (list T) (vectorize_diagram comps) X).
End Distribution.

(* ---------- Wasserstein family ---------- *)
Section LOT.
  Variables (T A : Type).
  Variable dot : list T -> list T -> T.

  Definition project (comps : list (list T)) (r : list T) : list T := map (dot r) comps.

  (* LOT_exact, 'spmatrix' and 'lil' *)
  Variable lotrow : A -> list T.
  Variables (d : A) (zero_row : list T).      (* out-of-range default of the model's X[i]; np.zeros row of the result *)
  Definition lot_block (c : nat) (Y : list A) : list (list T) :=
    kernel_chunk_fill lotrow d zero_row (kernel_chunks c (length Y)) Y.
  (* a 2-d block of shape (rows, len(comps)): its width is len(comps) also when it has no row *)
  Definition block_width (comps : list (list T)) (blk : list (list T)) : nat :=
    match blk with [] => length comps | r :: _ => length r end.
  Definition wasserstein_transform (comps : list (list T)) (b c : nat) (X : list A) : option (list (list T)) :=
    option_map (@concat (list T))
      (vstack (block_width comps)
              (map (fun p => map (project comps) (lot_block c (rows_of X p))) (blocks b (length X)))).

  (* Sinkhorn: blocks of chunks, one batch call per chunk, projection per block *)
  Variable batch : list A -> list (list T).
  Definition sinkhorn_block (comps : list (list T)) (c : nat) (X : list A) (blk : nat * nat) : list (list T) :=
    map (project comps) (concat (map (fun ch => batch (rows_of X ch)) (chunks c (fst blk) (snd blk)))).
  Definition sinkhorn_transform (comps : list (list T)) (b c : nat) (X : list A) : list (list T) :=
    concat (map (sinkhorn_block comps c X) (blocks b (length X))).

  (* generator input: the items arrive as a stream that is consumed chunk by chunk *)
  Definition take (k : nat) (stream : list A) : list A * list A := (firstn k stream, skipn k stream).

  Fixpoint gen_chunk_loop (fuel chunk_start block_end c : nat) (stream : list A) (acc : list (list (list T)))
    : list (list (list T)) * list A :=
    match fuel with
    | O => (acc, stream)
    | S f =>
        let next := Nat.min c (block_end - chunk_start) in
        let '(chunk, stream') := take next stream in
        match chunk with
        | [] => gen_chunk_loop f chunk_start block_end c stream' acc                   (* continue *)
        | _ => gen_chunk_loop f (chunk_start + next) block_end c stream' (acc ++ [lot_block c chunk])
        end
    end.

  Fixpoint gen_block_loop (comps : list (list T)) (c : nat) (blks : list (nat * nat)) (stream : list A)
           (acc : list (list (list T))) : option (list (list (list T))) :=
    match blks with
    | [] => Some acc
    | (bs, be) :: rest =>
        if Nat.eqb bs be then gen_block_loop comps c rest stream acc                   (* continue *)
        else
          let '(lot_chunks, stream') := gen_chunk_loop ((be - bs) / c + 1) bs be c stream [] in
          match lot_chunks with
          | [] => None                                                                   (* np.vstack([]) raises *)
          | _ => gen_block_loop comps c rest stream' (acc ++ [map (project comps) (concat lot_chunks)])
          end
    end.

  Definition generator_transform (comps : list (list T)) (b c n_rows : nat) (stream : list A) : option (list (list T)) :=
    match gen_block_loop comps c (blocks b n_rows) stream [] with
    | Some [] => None                                                                    (* np.vstack([]) raises *)
    | Some result_blocks => Some (concat result_blocks)
    | None => None
    end.
End LOT.

(* ---------- ApproximateWasserstein / HeuristicLinearAlgebra ---------- *)
Section Approx.
  Variable T : Type.
  Variables (div : T -> T -> T) (sqrt : T -> T) (zero : T) (add : T -> T -> T).
  Variable dot : list T -> list T -> T.
  Variable pow : T -> T -> T.

  (* vectors_cols = the columns of vectors_; comps = the rows of components_; sv = singular_values_ *)
  Definition approx_row (vectors_cols comps : list (list T)) (sv : list T) (p : T) (r : list T) : list T :=
    let s := pow (fold_right add zero r) p in
    let bt := map (fun col => div (dot r col) s) vectors_cols in
    map (fun cs => div (dot bt (fst cs)) (sqrt (snd cs))) (combine comps sv).

  Definition approx_transform (vectors_cols comps : list (list T)) (sv : list T) (p : T) (X : list (list T))
    : list (list T) :=
    map (approx_row vectors_cols comps sv p) X.
End Approx.
