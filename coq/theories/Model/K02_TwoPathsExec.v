(* Execution instances of Model/K02_TwoPaths.v and Model/K02_TwoPathsNgram.v: integer tokens, IEEE floats
   (Model/K5_Float.v) for the pruning, rational weights — what the model-level correspondence of harness/c02.py
   evaluates.  Definitions only. *)
From Coq Require Import ZArith List Bool Arith QArith Qcanon.
From VZ Require Import Model.K5_Vocab Model.K5_Float Model.K6_Reindex Model.C05_Instance Model.K02_Windows
     Model.K03_Cooc Model.K03_Exec Model.K04_EM Model.K02_TwoPaths Model.K02_TwoPathsNgram.
Import ListNotations.
Open Scope Z_scope.

(* NgramVectorizer.fit, ngram_size >= 2, ngram_dictionary=None: construct_token_dictionary_and_frequency +
   prune_token_dictionary on the n-grams of token indices (python tuple order), then every n-gram relabelled through
   the inverse token dictionary *)
Definition learn_cold_fl (c : config Z) (tokdict inv : KA.dict) (grams : list (list (list Z))) : res KN.gdict :=
  match learn_ngram_vocab_fl (retype_config c) grams with
  | Err e => Err e
  | Ok (gd, _) => Ok (map (fun e => (KN.Tup (map (KN.label_of inv) (fst e)), Z.of_nat (snd e))) gd)
  end.

Definition ngv_fit_fl (prm : ngv_params) (c : config Z) :=
  ngv_fit (fun _ => false) f32div_fl f64div_fl f64to32_fl one64_fl prm (learn_cold_fl c) c None None.
Definition ngv_transform_fl (prm : ngv_params) :=
  ngv_transform (fun _ => false) f32div_fl f64div_fl f64to32_fl one64_fl prm.

Definition show_res (r : res KA.matrix) : Z * KA.matrix :=
  match r with Ok m => (0, m) | Err e => (e, (0, 0, [])) end.

(* (error code of fit, _train_matrix, transform(X), transform(X2)) *)
Definition run_ngv (prm : ngv_params) (c : config Z) (X X2 : list (list Z))
  : Z * KA.matrix * (Z * KA.matrix) * (Z * KA.matrix) :=
  match ngv_fit_fl prm c X with
  | Err e => (e, (0, 0, []), (e, (0, 0, [])), (e, (0, 0, [])))
  | Ok (M, train) => (0, train, show_res (ngv_transform_fl prm M X), show_res (ngv_transform_fl prm M X2))
  end.

(* TokenCooccurrenceVectorizer, n_iter = 0, epsilon = 0: the matrix of the event list *)
Definition token_fit_fl (cfg : cooc_cfg QcK) :=
  token_fit Z Z.eqb Z.ltb (fun _ => false) f32div_fl f64div_fl f64to32_fl one64_fl QcK (list (event QcK)) cfg ev_post.
Definition token_fit_transform_fl (cfg : cooc_cfg QcK) :=
  token_fit_transform Z Z.eqb Z.ltb (fun _ => false) f32div_fl f64div_fl f64to32_fl one64_fl QcK (list (event QcK)) cfg ev_post.
Definition token_transform_fl (cfg : cooc_cfg QcK) :=
  token_transform Z Z.eqb Z.ltb (fun _ => false) f32div_fl f64div_fl f64to32_fl one64_fl QcK (list (event QcK)) cfg ev_post.

Definition show_evs (r : res (list (event QcK))) : Z * list (nat * nat * (Z * Z)) :=
  match r with Ok evs => (0, show_matrix evs) | Err e => (e, []) end.

(* (error code of fit, dictionary, cooccurrences_ of fit, fit_transform(X), transform(X), transform(X2)) *)
Definition run_token (cfg : cooc_cfg QcK) (c : config Z) (masking : option Z) (X X2 : list (list Z)) :=
  match token_fit_fl cfg c masking None X with
  | Err e => (e, [], [], (e, []), (e, []), (e, []))
  | Ok M => (0, ft_dict M, show_matrix (ft_cooc M),
             show_evs (match token_fit_transform_fl cfg c masking None X with Ok (_, a) => Ok a | Err e => Err e end),
             show_evs (token_transform_fl cfg masking M X), show_evs (token_transform_fl cfg masking M X2))
  end.
