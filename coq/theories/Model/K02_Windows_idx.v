(* K2 (index level) — executable CHECKED-ACCESS model of vectorizers/_window_kernels.py: window_at_index (both
   orientations), flat_kernel / harmonic_kernel / geometric_kernel (mask_index, offset, normalize), the radius tables
   fixed_window_radii / variable_window_radii and the look-up window_size_array[i, target_word] of the drivers.
   Definitions only; proofs are in Proofs/K02_Windows_idx_proofs.v.

   Positions are integers (Z), as in Python: `ind - window_size` may be negative, and a negative slice bound counts
   from the END of the array — the `max(ind - window_size, 0)` of window_at_index is what keeps the slice from
   wrapping around; [py_slice] implements the slice normalisation of CPython / numba (negative bounds + len, clamp).
   Every element access goes through [getZ] / [setZ] / [vget] and returns [OOB site] when the index is outside
   [0, len).  (numba wraps a negative index i >= -len instead of raising; the model is stricter and reports it, so the
   safety theorems also exclude the silent wrap-around.)

   Line by line:
     token_sequence[a:b], np.flipud(...)        <- views: (start, length, step) into the base array; no element is
                                                   touched until the window is iterated / compared (window_view)
     for j, context in enumerate(window)        <- read_view: j = 0 .. len-1, element base[start + j*step]
     np.ones(len) | 1.0/np.arange(1,len+1) | power**np.arange(1,len+1)    <- base_weights kf len  (whole-array)
     result[window == mask_index] = 0.0         <- mask_idx: the boolean array has the length of the window and must
                                                   have the length of result (W_mask_shape); then for every j with
                                                   window[j] == mask_index: result[j] = 0
     result[0 : min(offset, len(result))] = 0   <- offset_idx: py_slice, then one checked write per slot of the slice
     temp = result.sum(); if temp > 0: result /= temp                     <- l1_normalize (whole-array)
     radii = np.repeat(window_size, len(token_frequency) + 1); radii[mask_index] = 0   <- fixed_window_radii_idx
     radii = np.append(radii, min(radii)); radii[mask_index] = 0.0 (then pointwise scaling and rounding, which keep
       0 at 0)                                  <- variable_window_radii_idx, the per-token values being data
     window_size_array[i, target_word]          <- lookup2 (row i of the 2-d array, then column target_word)
*)
From Coq Require Import ZArith List Bool Arith.
From VZ Require Import Model.K02_Windows.
Import ListNotations.
Open Scope Z_scope.

Inductive site :=
| W_window_read     (* window[j] = token_sequence[start + j*step]: iteration / comparison of a window view *)
| W_mask_shape      (* result[window == mask_index]: boolean index whose length differs from len(result) *)
| W_mask_write      (* result[j] = 0.0 at a masked slot *)
| W_offset_write    (* result[0:min(offset, len(result))] = 0 *)
| W_radii_mask      (* radii[mask_index] = 0 in fixed_window_radii / variable_window_radii *)
| W_radii_min       (* min(radii) of an empty frequency table (ValueError) *)
| W_radii_row       (* window_size_array[i, _] *)
| W_radii_col.      (* window_size_array[_, target_word] *)

Inductive res (A : Type) := Ok (a : A) | OOB (s : site).
Arguments Ok {A} a.
Arguments OOB {A} s.

Definition bind {A B} (r : res A) (f : A -> res B) : res B :=
  match r with Ok a => f a | OOB s => OOB s end.
Notation "x <- e ;; f" := (bind e (fun x => f)) (at level 61, e at next level, right associativity).

Definition zlen {A} (l : list A) : Z := Z.of_nat (length l).

Definition getZ {A} (s : site) (l : list A) (i : Z) : res A :=
  if i <? 0 then OOB s else
  match nth_error l (Z.to_nat i) with Some a => Ok a | None => OOB s end.

Definition setZ {A} (s : site) (l : list A) (i : Z) (v : A) : res (list A) :=
  if (0 <=? i) && (i <? zlen l) then Ok (upd l (Z.to_nat i) v) else OOB s.

(* ---------- slices and views ---------- *)

(* one bound of a[lo:hi] on an array of length n *)
Definition norm_bound (x n : Z) : Z := if x <? 0 then Z.max (x + n) 0 else Z.min x n.

(* a[lo:hi] -> (start, length) *)
Definition py_slice (lo hi n : Z) : Z * Z :=
  let a := norm_bound lo n in let b := norm_bound hi n in (a, Z.max (b - a) 0).

Record view := { v_start : Z; v_len : Z; v_step : Z }.

Definition whole {A} (l : list A) : view := {| v_start := 0; v_len := zlen l; v_step := 1 |}.

(* window_at_index(token_sequence, window_size, ind, reverse) *)
Definition window_view (n R ind : Z) (reverse : bool) : view :=
  if reverse
  then let (a, l) := py_slice (Z.max (ind - R) 0) ind n in
       {| v_start := a + l - 1; v_len := l; v_step := -1 |}                  (* np.flipud(seq[a : a+l]) *)
  else let (a, l) := py_slice (ind + 1) (Z.min (ind + R + 1) n) n in
       {| v_start := a; v_len := l; v_step := 1 |}.

(* the same without the max(., 0): the slice bound goes negative and wraps around *)
Definition window_view_nomax (n R ind : Z) : view :=
  let (a, l) := py_slice (ind - R) ind n in {| v_start := a + l - 1; v_len := l; v_step := -1 |}.

Definition vget {A} (s : site) (base : list A) (v : view) (j : Z) : res A :=
  if (0 <=? j) && (j <? v_len v) then getZ s base (v_start v + j * v_step v) else OOB s.

Fixpoint read_view {A} (s : site) (base : list A) (v : view) (steps : nat) (j : Z) : res (list A) :=
  match steps with
  | O => Ok []
  | S k => x <- vget s base v j ;; t <- read_view s base v k (j + 1) ;; Ok (x :: t)
  end.

Definition read_all {A} (s : site) (base : list A) (v : view) : res (list A) :=
  read_view s base v (Z.to_nat (v_len v)) 0.

(* the window as the drivers consume it: for j, context in enumerate(window) *)
Definition window_at_index_idx (s : list nat) (R ind : Z) (reverse : bool) : res (list nat) :=
  read_all W_window_read s (window_view (zlen s) R ind reverse).

(* ---------- kernels ---------- *)
Section Kernel.
Context {K : carrier}.

Fixpoint mask_loop (base : list nat) (v : view) (m : nat) (steps : nat) (j : Z) (result : list K) : res (list K) :=
  match steps with
  | O => Ok result
  | S k => t <- vget W_window_read base v j ;;
           r' <- (if Nat.eqb t m then setZ W_mask_write result j zero else Ok result) ;;
           mask_loop base v m k (j + 1) r'
  end.

Definition mask_idx (base : list nat) (v : view) (mask : option nat) (result : list K) : res (list K) :=
  match mask with
  | None => Ok result
  | Some m => if zlen result =? v_len v then mask_loop base v m (Z.to_nat (v_len v)) 0 result
              else OOB W_mask_shape
  end.

Fixpoint fill_loop (steps : nat) (j : Z) (result : list K) : res (list K) :=
  match steps with
  | O => Ok result
  | S k => r' <- setZ W_offset_write result j zero ;; fill_loop k (j + 1) r'
  end.

Definition offset_idx (offset : Z) (result : list K) : res (list K) :=
  let (a, l) := py_slice 0 (Z.min offset (zlen result)) (zlen result) in fill_loop (Z.to_nat l) a result.

(* flat_kernel / harmonic_kernel / geometric_kernel applied to a window view *)
Definition kernel_idx (kf : nat -> K) (mask : option nat) (normalize : bool) (offset : Z)
           (base : list nat) (v : view) : res (list K) :=
  let result := base_weights kf (Z.to_nat (v_len v)) in
  r1 <- mask_idx base v mask result ;;
  r2 <- offset_idx offset r1 ;;
  Ok (if normalize then l1_normalize r2 else r2).

(* window_at_index followed by the kernel, as in the drivers *)
Definition window_kernel_idx (kf : nat -> K) (mask : option nat) (normalize : bool) (offset : Z)
           (s : list nat) (R ind : Z) (reverse : bool) : res (list nat * list K) :=
  let v := window_view (zlen s) R ind reverse in
  w <- read_all W_window_read s v ;;
  k <- kernel_idx kf mask normalize offset s v ;;
  Ok (w, k).
End Kernel.

(* ---------- radius tables ---------- *)

Definition fixed_window_radii_idx (R : nat) (n_freq : nat) (mask : option Z) : res (list nat) :=
  let radii := repeat R (n_freq + 1) in
  match mask with None => Ok radii | Some m => setZ W_radii_mask radii m 0%nat end.

Definition list_min (l : list nat) : option nat :=
  match l with [] => None | x :: t => Some (fold_left Nat.min t x) end.

(* vals: the value computed for every entry of token_frequency (np.power / scaling / rounding are pointwise) *)
Definition variable_window_radii_idx (vals : list nat) (mask : option Z) : res (list nat) :=
  match list_min vals with
  | None => OOB W_radii_min
  | Some mn => let radii := vals ++ [mn] in
               match mask with None => Ok radii | Some m => setZ W_radii_mask radii m 0%nat end
  end.

(* window_size_array[i, target_word] *)
Definition lookup2 (tbl : list (list nat)) (i t : Z) : res nat :=
  row <- getZ W_radii_row tbl i ;; getZ W_radii_col row t.

(* printable verdicts *)
Definition show_res {A B} (f : A -> B) (r : res A) : option B * option site :=
  match r with Ok a => (Some (f a), None) | OOB s => (None, Some s) end.
