(* K9 — executable model of the Lempel-Ziv part of vectorizers/mixed_gram_vectorizer.py (as repaired for D4).
   Definitions only; proofs are in Proofs/K9_LZ_*.v.

   Strings are lists of code points.  A numba typed Dict / Python dict is an insertion-ordered association list
   (iteration order is what assigns the columns, so it is modelled).  The model is generic in the key type K:
     K = list Z, h = id            max_columns=None  (keys are the phrases themselves, identity_hash)
     K = Z,      h = lz_hash ...   max_columns=m     (keys are murmurhash(code points, seed) % m)

   What each definition mirrors:
     slice                  <- string[start:end]                         (python slice)
     lz_step / lz_encode    <- lempel_ziv_based_encode: `for end in range(len(string))`, ngram = hash(string[start:end]),
                               `in dictionary` -> += 1 | `current_size >= max_size` -> start = end |
                               else dictionary[ngram] = 1, current_size += 1, start = end
     input_dict             <- the per-string reset: fresh dict, then `input_dict[key] = val` over base_dictionary
     assign_cols            <- counts_to_csr_data: column of each key in dictionary order, new keys get len(column_dict)
     sort_row               <- csr sort_indices (per row, by column)
     lz_fit_transform       <- LZCompressionVectorizer.fit_transform (validation, row loop, shape)
     lz_transform_row / lz_transform <- LZCompressionVectorizer.transform: only keys with a column are kept,
                               indptr advanced by the number kept (repaired), shape = (len X, len column dict)
     murmur / lz_hash       <- murmurhash / make_hash, bit-exact in Z with explicit masks (int64 wrap-around of the
                               products does not change the low 32 bits that the masks keep)
*)
From Coq Require Import ZArith List Bool Lia.
Import ListNotations.
Open Scope Z_scope.

Definition slice {A} (s : list A) (start stop : nat) : list A := firstn (stop - start) (skipn start s).

Section LZ.
  Variable K : Type.
  Variable keqb : K -> K -> bool.
  Variable h : list Z -> K.

  Notation dict := (list (K * Z)).

  Fixpoint dget (d : dict) (k : K) : option Z :=
    match d with
    | [] => None
    | (k', v) :: t => if keqb k k' then Some v else dget t k
    end.

  (* d[k] += 1 for a key that is present *)
  Fixpoint dincr (d : dict) (k : K) : dict :=
    match d with
    | [] => []
    | (k', v) :: t => if keqb k k' then (k', v + 1) :: t else (k', v) :: dincr t k
    end.

  (* d[k] = v : overwrite in place or append *)
  Fixpoint dset (d : dict) (k : K) (v : Z) : dict :=
    match d with
    | [] => [(k, v)]
    | (k', v') :: t => if keqb k k' then (k', v) :: t else (k', v') :: dset t k v
    end.

  (* state of the loop: (dictionary, current_size, start) *)
  Definition lz_step (s : list Z) (cap : Z) (st : dict * Z * nat) (stop : nat) : dict * Z * nat :=
    let '(d, size, start) := st in
    let ngram := h (slice s start stop) in
    match dget d ngram with
    | Some _ => (dincr d ngram, size, start)
    | None => if cap <=? size then (d, size, stop) else (d ++ [(ngram, 1)], size + 1, stop)
    end.

  Definition lz_encode (s : list Z) (d : dict) (cap : Z) : dict :=
    fst (fst (fold_left (lz_step s cap) (seq 0 (length s)) (d, Z.of_nat (length d), 0%nat))).

  Definition input_dict (base : dict) : dict := fold_left (fun d kv => dset d (fst kv) (snd kv)) base [].

  (* counts_to_csr_data: returns the grown column dictionary and the (column, count) entries in dictionary order *)
  Fixpoint assign_cols (cols : dict) (d : dict) : dict * list (Z * Z) :=
    match d with
    | [] => (cols, [])
    | (k, v) :: t =>
        match dget cols k with
        | Some j => let '(cols', es) := assign_cols cols t in (cols', (j, v) :: es)
        | None => let j := Z.of_nat (length cols) in
                  let '(cols', es) := assign_cols (cols ++ [(k, j)]) t in (cols', (j, v) :: es)
        end
    end.

  Fixpoint insert_entry (e : Z * Z) (row : list (Z * Z)) : list (Z * Z) :=
    match row with
    | [] => [e]
    | e' :: t => if fst e <=? fst e' then e :: row else e' :: insert_entry e t
    end.
  Definition sort_row (row : list (Z * Z)) : list (Z * Z) := fold_right insert_entry [] row.

  Fixpoint fit_rows (X : list (list Z)) (base : dict) (cap : Z) (cols : dict) : dict * list (list (Z * Z)) :=
    match X with
    | [] => (cols, [])
    | s :: X' =>
        let '(cols1, es) := assign_cols cols (lz_encode s (input_dict base) cap) in
        let '(cols2, rows) := fit_rows X' base cap cols1 in
        (cols2, sort_row es :: rows)
    end.

  (* transform: keys without a column are dropped *)
  Definition lz_transform_row (cols : dict) (base : dict) (cap : Z) (s : list Z) : list (Z * Z) :=
    sort_row (flat_map (fun kv => match dget cols (fst kv) with Some j => [(j, snd kv)] | None => [] end)
                       (lz_encode s (input_dict base) cap)).

  Definition lz_transform (cols : dict) (base : dict) (cap : Z) (X : list (list Z))
    : Z * Z * list (list (Z * Z)) :=
    (Z.of_nat (length X), Z.of_nat (length cols), map (lz_transform_row cols base cap) X).
End LZ.

Arguments dget {K}.
Arguments dincr {K}.
Arguments dset {K}.
Arguments lz_step {K}.
Arguments lz_encode {K}.
Arguments input_dict {K}.
Arguments assign_cols {K}.
Arguments fit_rows {K}.
Arguments lz_transform_row {K}.
Arguments lz_transform {K}.

Fixpoint list_eqb (a b : list Z) : bool :=
  match a, b with
  | [], [] => true
  | x :: a', y :: b' => (x =? y) && list_eqb a' b'
  | _, _ => false
  end.

(* ---------- murmurhash (32 bit) over the code points, as the implementation computes it ---------- *)
Definition M32 : Z := 4294967295.
Definition rotl32 (x r : Z) : Z := Z.land (Z.lor (Z.shiftl x r) (Z.shiftr x (32 - r))) M32.
Definition C1 : Z := 3432918353.   (* 0xcc9e2d51 *)
Definition C2 : Z := 461845907.    (* 0x1b873593 *)

Fixpoint mm_body (fuel : nat) (key : list Z) (hh : Z) : Z :=
  match fuel with
  | O => hh
  | S fuel' =>
      match key with
      | a :: b :: c :: d :: rest =>
          let k1 := Z.shiftl a 24 + Z.shiftl b 16 + Z.shiftl c 8 + d in
          let k1 := Z.land (k1 * C1) M32 in
          let k1 := rotl32 k1 15 in
          let hh := Z.lxor hh (Z.land (k1 * C2) M32) in
          let hh := rotl32 hh 13 in
          let hh := Z.land (hh * 5 + 3864292196) M32 in        (* 0xe6546b64 *)
          mm_body fuel' rest hh
      | [] => hh
      | a :: tail =>
          let k1 := Z.shiftl a 16 in
          let k1 := match tail with b :: _ => k1 + Z.shiftl b 8 | [] => k1 end in
          let k1 := match tail with _ :: c :: _ => k1 + c | _ => k1 end in
          let k1 := Z.land (k1 * C1) M32 in
          let k1 := rotl32 k1 15 in
          let k1 := Z.land (k1 * C2) M32 in
          Z.lxor hh k1
      end
  end.

Definition murmur (key : list Z) (seed : Z) : Z :=
  let hh := mm_body (S (length key)) key seed in
  let hh := Z.lxor hh (Z.of_nat (length key)) in
  let x := Z.lxor hh (Z.shiftr hh 16) in
  let x := Z.land (x * 2246822507) M32 in      (* 0x85ebca6b *)
  let x := Z.lxor x (Z.shiftr x 13) in
  let x := Z.land (x * 3266489909) M32 in      (* 0xc2b2ae35 *)
  Z.lxor x (Z.shiftr x 16).

Definition lz_hash (size seed : Z) (phrase : list Z) : Z := (murmur phrase seed) mod size.

(* ---------- the estimator ---------- *)
Inductive lzres (A : Type) : Type := LzOk (a : A) | LzValueError.
Arguments LzOk {A} a.
Arguments LzValueError {A}.

(* fit_transform with max_columns=None; returns (column_label_dictionary_, (n_rows, n_cols, rows)) *)
Definition lz_fit_transform_plain (max_dict_size : Z) (base : list (list Z * Z)) (X : list (list Z)) :=
  if max_dict_size <=? 1 then LzValueError
  else let '(cols, rows) := fit_rows list_eqb (fun p => p) X base max_dict_size [] in
       LzOk (cols, (Z.of_nat (length X), Z.of_nat (length cols), rows)).

(* fit_transform with max_columns=m and the seed drawn from random_state *)
Definition lz_fit_transform_hashed (max_dict_size max_columns seed : Z) (base : list (Z * Z)) (X : list (list Z)) :=
  if max_dict_size <=? 1 then LzValueError
  else if max_columns <=? 1 then LzValueError
  else let '(cols, rows) := fit_rows Z.eqb (lz_hash max_columns seed) X base max_dict_size [] in
       LzOk (cols, (Z.of_nat (length X), Z.of_nat (length cols), rows)).

(* ================================================================== specification vocabulary *)
Section LZSpec.
  Variable K : Type.
  Variable keqb : K -> K -> bool.
  Variable h : list Z -> K.
  Notation dict := (list (K * Z)).

  (* the parse told character by character, without indices or slices: [cur] is the phrase read so far.
     Returns the dictionary and the number of queries dropped because the cap was reached. *)
  Fixpoint lz_spec (rest cur : list Z) (d : dict) (size cap : Z) (drops : Z) : dict * Z :=
    match rest with
    | [] => (d, drops)
    | c :: rest' =>
        match dget keqb d (h cur) with
        | Some _ => lz_spec rest' (cur ++ [c]) (dincr keqb d (h cur)) size cap drops
        | None => if cap <=? size then lz_spec rest' [c] d size cap (drops + 1)
                  else lz_spec rest' [c] (d ++ [(h cur, 1)]) (size + 1) cap drops
        end
    end.

  Definition total (d : dict) : Z := fold_right (fun kv acc => snd kv + acc) 0 d.
  Definition keys (d : dict) : list K := map fst d.
End LZSpec.
Arguments lz_spec {K}.
Arguments total {K}.
Arguments keys {K}.

(* the phrases the un-hashed parse asks its dictionary about, in order *)
Fixpoint lz_queries (rest cur : list Z) (d : list (list Z * Z)) (size cap : Z) : list (list Z) :=
  match rest with
  | [] => []
  | c :: rest' =>
      cur :: match dget list_eqb d cur with
             | Some _ => lz_queries rest' (cur ++ [c]) (dincr list_eqb d cur) size cap
             | None => if cap <=? size then lz_queries rest' [c] d size cap
                       else lz_queries rest' [c] (d ++ [(cur, 1)]) (size + 1) cap
             end
  end.

Definition map_keys {K1 K2} (f : K1 -> K2) (d : list (K1 * Z)) : list (K2 * Z) := map (fun kv => (f (fst kv), snd kv)) d.

(* value of a sparse row at column j (entries of one column add up) *)
Fixpoint rcell (row : list (Z * Z)) (j : Z) : Z :=
  match row with
  | [] => 0
  | (j', n) :: t => (if j' =? j then n else 0) + rcell t j
  end.
