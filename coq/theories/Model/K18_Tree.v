(* K18 — executable model of the labelled-tree co-occurrence pipeline.  Definitions only; the proofs are in
   Proofs/K18_Tree_proofs.v, the statements in Properties/C15.v.

   What each definition mirrors (vectorizers/ of the repo):
     adj                <- the 0/1 adjacency matrix of a tree given as successor lists (lil `rows`)
     count_matrix       <- tree_token_cooccurrence.build_tree_skip_grams:
                              count = A * w[0]; walk = A; for i in 1..R-1: walk = walk @ A; count += walk * w[i]
     classes            <- LabelBinarizer.classes_ (np.unique of the labels: sorted, duplicate free)
     binarize_raw       <- LabelBinarizer(sparse_output=True).fit_transform(labels): ONE all-zero column for one
                           class, ONE indicator column of the larger class for two classes, one indicator column per
                           class otherwise
     binarize           <- utils.sparse_collapse's repair of the two special cases (trans ^= 1 / hstack([trans ^ 1, trans]))
     collapse           <- utils.sparse_collapse: trans.T @ matrix @ trans
     realign_events,
     coo_dense          <- sequence_tree_skip_grams: tocoo() of the collapsed matrix (stored = non-zero entries),
                           rows/cols re-indexed through label_dictionary[unique_labels[x]], coo_matrix(...) summed
     global_counts      <- the `global_counts += reordered_matrix` loop over the trees
     nullify            <- M = eye; M[mask, mask] = 0; (M @ G) @ M
     orient             <- the window_orientation switch (T / += T / hstack([T, G]))
     splice, remove_node<- preprocessing.remove_node on the lil rows (list.index finds the FIRST occurrence only)
     preprocess         <- preprocessing.preprocess_tree_sequences (removal of out-of-vocabulary nodes / masking)

   Weights are integers: the harness scales the (rational) kernel weights by their common denominator.
   Labels are natural numbers (rank of the label string in sorted order); a dictionary is a list indexed by label
   holding `Some column` or `None` (label not in the vocabulary). *)
From Coq Require Import ZArith List Lia Arith Bool.
Import ListNotations.
Open Scope Z_scope.

Definition matrix := list (list Z).

Definition mk (n m : nat) (f : nat -> nat -> Z) : matrix :=
  map (fun i => map (fun j => f i j) (seq 0 m)) (seq 0 n).
Definition mget (M : matrix) (i j : nat) : Z := nth j (nth i M []) 0.

Fixpoint sumn (n : nat) (f : nat -> Z) : Z :=
  match n with O => 0 | S n' => sumn n' f + f n' end.

Definition lsum {A} (f : A -> Z) (l : list A) : Z := fold_right (fun x acc => f x + acc) 0 l.

Definition mzero (n m : nat) : matrix := mk n m (fun _ _ => 0).
Definition mscale (n m : nat) (M : matrix) (w : Z) : matrix := mk n m (fun i j => mget M i j * w).
Definition madd (n m : nat) (A B : matrix) : matrix := mk n m (fun i j => mget A i j + mget B i j).
Definition mmul (n k m : nat) (A B : matrix) : matrix :=
  mk n m (fun i j => sumn k (fun x => mget A i x * mget B x j)).
Definition mtrans (n m : nat) (M : matrix) : matrix := mk m n (fun i j => mget M j i).
Definition hstack (n m1 m2 : nat) (A B : matrix) : matrix :=
  mk n (m1 + m2) (fun i j => if (j <? m1)%nat then mget A i j else mget B i (j - m1)).

(* ---------- graphs as successor lists ---------- *)
Definition graph := list (list nat).
Definition succs (g : graph) (u : nat) : list nat := nth u g [].

Definition adj (g : graph) : matrix :=
  let n := length g in
  mk n n (fun u v => Z.of_nat (count_occ Nat.eq_dec (succs g u) v)).

(* ---------- build_tree_skip_grams ---------- *)
Fixpoint count_loop (n : nat) (A : matrix) (ws : list Z) (walk count : matrix) : matrix :=
  match ws with
  | [] => count
  | w :: ws' => let walk' := mmul n n n walk A in
                count_loop n A ws' walk' (madd n n count (mscale n n walk' w))
  end.

(* weights[0] of an empty weight vector is an IndexError in the code (window_radius = 0 is not a valid setting);
   the model returns the zero matrix there and the theorems carry the guard ws <> []. *)
Definition count_matrix (n : nat) (A : matrix) (ws : list Z) : matrix :=
  match ws with
  | [] => mzero n n
  | w0 :: ws' => count_loop n A ws' A (mscale n n A w0)
  end.

(* ---------- sparse_collapse ---------- *)
Definition classes (labels : list nat) : list nat :=
  filter (fun c => existsb (Nat.eqb c) labels) (seq 0 (S (list_max labels))).

Definition ind (b : bool) : Z := if b then 1 else 0.

Definition binarize_raw (labels cls : list nat) : matrix :=
  let n := length labels in
  match cls with
  | [_] => mk n 1 (fun _ _ => 0)
  | [_; c1] => mk n 1 (fun u _ => ind (nth u labels 0%nat =? c1)%nat)
  | _ => mk n (length cls) (fun u c => ind (nth u labels 0%nat =? nth c cls 0%nat)%nat)
  end.

Definition ncols (M : matrix) : nat := match M with [] => 0%nat | r :: _ => length r end.
Definition xor1 (n m : nat) (M : matrix) : matrix := mk n m (fun i j => 1 - mget M i j).

Definition binarize (labels cls : list nat) : matrix :=
  let n := length labels in
  let t := binarize_raw labels cls in
  if (ncols t =? 1)%nat then
    (if (length cls =? 1)%nat then xor1 n 1 t else hstack n 1 1 (xor1 n 1 t) t)
  else t.

(* len(labels) == 0 returns the matrix unchanged *)
Definition collapse (M : matrix) (labels : list nat) : matrix :=
  match labels with
  | [] => M
  | _ => let n := length labels in
         let c := length (classes labels) in
         let B := binarize labels (classes labels) in
         mmul c n c (mmul c n n (mtrans n c B) M) B
  end.

(* ---------- alignment with the global dictionary ---------- *)
Definition dict := list (option nat).
Definition lookup (d : dict) (l : nat) : option nat := nth l d None.
Definition in_dict (d : dict) (l : nat) : bool := match lookup d l with Some _ => true | None => false end.

Definition opt_eqb (o : option nat) (a : nat) : bool :=
  match o with Some x => (x =? a)%nat | None => false end.

(* stored entries of the collapsed matrix (matrix products drop zero sums), re-indexed *)
Definition realign_events (d : dict) (cls : list nat) (G : matrix) : list (option nat * option nat * Z) :=
  let c := length cls in
  flat_map (fun i => flat_map (fun j =>
      if mget G i j =? 0 then []
      else [(lookup d (nth i cls 0%nat), lookup d (nth j cls 0%nat), mget G i j)]) (seq 0 c)) (seq 0 c).

(* a stored entry whose label is not in the dictionary is a KeyError in the code *)
Definition keyerror (evs : list (option nat * option nat * Z)) : bool :=
  existsb (fun e => match e with (Some _, Some _, _) => false | _ => true end) evs.

Definition coo_dense (nt : nat) (evs : list (option nat * option nat * Z)) : matrix :=
  mk nt nt (fun a b => lsum (fun e => match e with (r, c, v) =>
                                        if opt_eqb r a && opt_eqb c b then v else 0 end) evs).

Definition tree := (graph * list nat)%type.

Definition tree_events (ws : list Z) (d : dict) (t : tree) : list (option nat * option nat * Z) :=
  let (g, labels) := t in
  let n := length g in
  realign_events d (classes labels) (collapse (count_matrix n (adj g) ws) labels).

Definition tree_counts (ws : list Z) (nt : nat) (d : dict) (t : tree) : matrix :=
  coo_dense nt (tree_events ws d t).

Definition global_counts (ws : list Z) (nt : nat) (d : dict) (trees : list tree) : matrix :=
  fold_left (fun acc t => madd nt nt acc (tree_counts ws nt d t)) trees (mzero nt nt).

Definition any_keyerror (ws : list Z) (d : dict) (trees : list tree) : bool :=
  existsb (fun t => keyerror (tree_events ws d t)) trees.

(* ---------- nullify_mask and orientation ---------- *)
Definition projector (nt mi : nat) : matrix :=
  mk nt nt (fun a b => if (a =? b)%nat then (if (a =? mi)%nat then 0 else 1) else 0).

Definition nullify (nt : nat) (mi : option nat) (G : matrix) : matrix :=
  match mi with
  | None => G
  | Some m => mmul nt nt nt (mmul nt nt nt (projector nt m) G) (projector nt m)
  end.

Inductive orientation := Before | After | Symmetric | Directional.

Definition orient (nt : nat) (o : orientation) (G : matrix) : matrix :=
  match o with
  | After => G
  | Before => mtrans nt nt G
  | Symmetric => madd nt nt G (mtrans nt nt G)
  | Directional => hstack nt nt nt (mtrans nt nt G) G
  end.

(* ---------- remove_node / preprocess_tree_sequences ---------- *)
(* row[index : index+1] = repl at the first occurrence of x (list.index); unchanged when x is absent *)
Fixpoint splice (x : nat) (repl row : list nat) : list nat :=
  match row with
  | [] => []
  | y :: r => if (y =? x)%nat then repl ++ r else y :: splice x repl r
  end.

Definition remove_node (g : graph) (x : nat) : graph :=
  let repl := splice x [] (succs g x) in       (* the row of x without its first self-loop entry *)
  map (fun ir => if (fst ir =? x)%nat then [] else splice x repl (snd ir))
      (combine (seq 0 (length g)) g).

Definition preprocess (mask : option nat) (d : dict) (t : tree) : tree :=
  let (g, labels) := t in
  match mask with
  | None =>
      (fold_left remove_node
                 (filter (fun i => negb (in_dict d (nth i labels 0%nat))) (seq 0 (length labels))) g,
       labels)
  | Some m => (g, map (fun l => if in_dict d l then l else m) labels)
  end.

(* the whole fit_transform / transform given the (fitted) dictionary; also says whether the code would hit a
   KeyError (never on preprocessed input, see C15_no_keyerror_masked) *)
Definition vectorize (ws : list Z) (nt : nat) (d : dict) (mask : option nat) (mi : option nat)
           (o : orientation) (trees : list tree) : bool * matrix :=
  let ts := map (preprocess mask d) trees in
  (any_keyerror ws d ts, orient nt o (nullify nt mi (global_counts ws nt d ts))).

(* ---------- path graphs ---------- *)
Definition path (L : nat) : graph :=
  map (fun i => if (S i <? L)%nat then [S i] else []) (seq 0 L).
