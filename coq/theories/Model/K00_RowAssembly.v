(* K00 — the row-assembly skeleton shared by the row-producing vectorizers (definitions only). *)
From Coq Require Import ZArith List Lia.
Import ListNotations.

Section Assembly.
Variables (item model : Type).
Variable row : model -> item -> list (nat * nat).      (* (column, count) entries of one row *)
Variable width : model -> nat.

(* the modelled assembly: csr_matrix((data, indices, indptr), shape=(len(X), width M)) *)
Definition transform (M : model) (X : list item) : nat * nat * list (list (nat * nat)) :=
  (length X, width M, map (row M) X).

Definition wf (M : model) : Prop := forall x, Forall (fun e => fst e < width M) (row M x).

End Assembly.
