(* C04 — co-occurrence results do not depend on threads, buffer sizes or data volume.
   Only statements, each closed by `exact <lemma>`, followed by Print Assumptions. *)
From Coq Require Import ZArith List Bool Lia Sorting.Sorted Permutation.
From VZ Require Import Model.K01_CooAcc Proofs.K01_CooAcc_list Proofs.K01_CooAcc_arrays Proofs.K01_CooAcc_proofs
  Proofs.K01_CooAcc_volume Proofs.K01_CooAcc_keys.
Import ListNotations.
Open Scope Z_scope.

(* ------------------------------------------------------------------ list level *)
(* the matrix of a concatenation of event lists is the sum of the matrices; the order of the events is irrelevant *)
Theorem C04_additive : forall (a b : list entry) k, sumby (a ++ b) k = sumby a k + sumby b k.
Proof. exact sumby_app. Qed.
Print Assumptions C04_additive.

Theorem C04_order_irrelevant : forall (a b : list entry) k, Permutation a b -> sumby a k = sumby b k.
Proof. exact sumby_perm. Qed.
Print Assumptions C04_order_irrelevant.

(* one sort window: compress (sort seg) keeps every key's total and has strictly increasing keys *)
Theorem C04_window_sum : forall seg k, sumby (compress (sort_by_key seg)) k = sumby seg k.
Proof. exact compress_sort_sumby. Qed.
Print Assumptions C04_window_sum.

Theorem C04_window_sorted : forall seg, StronglySorted Z.lt (map e_key (compress (sort_by_key seg))).
Proof. exact compress_sort_sorted. Qed.
Print Assumptions C04_window_sorted.

(* the carry: merging two strictly sorted runs keeps every key's total and is strictly sorted again *)
Theorem C04_merge_sum : forall f a b k, sumby (merge_runs f a b) k = sumby a k + sumby b k.
Proof. exact merge_runs_sumby. Qed.
Print Assumptions C04_merge_sum.

Theorem C04_merge_sorted : forall f a b, (length a + length b <= f)%nat ->
  StronglySorted Z.lt (map e_key a) -> StronglySorted Z.lt (map e_key b) ->
  StronglySorted Z.lt (map e_key (merge_runs f a b)).
Proof. exact merge_runs_sorted. Qed.
Print Assumptions C04_merge_sorted.

(* _generate_chunk_boundaries, for EVERY n_threads (no sign condition needed) and every list of document sizes:
   the chunks are contiguous, in order, start at 0 and end at len(data) ... *)
Theorem C04_chunks_chain : forall sizes n_threads, chain 0 (chunk_boundaries sizes n_threads) (zlen sizes).
Proof. exact chunk_boundaries_chain. Qed.
Print Assumptions C04_chunks_chain.

(* ... hence token_sequences[chunk_start:chunk_end] over the chunks is a partition of the documents *)
Theorem C04_chunks_partition : forall (A : Type) (docs : list A) sizes n_threads,
  length sizes = length docs ->
  concat (map (chunk_docs docs) (chunk_boundaries sizes n_threads)) = docs.
Proof. exact @chunks_partition. Qed.
Print Assumptions C04_chunks_partition.

(* sum of the per-chunk matrices = matrix of the whole corpus, for any per-document event generator:
   the result does not depend on n_threads *)
Theorem C04_chunk_sum : forall (doc : Type) (events_of_doc : doc -> list entry) docs sizes n_threads k,
  length sizes = length docs ->
  chunked_matrix doc events_of_doc docs sizes n_threads k = sumby (events_of doc events_of_doc docs) k.
Proof. exact chunked_matrix_total. Qed.
Print Assumptions C04_chunk_sum.

Theorem C04_threads_irrelevant : forall (doc : Type) (events_of_doc : doc -> list entry) docs sizes n1 n2 k,
  length sizes = length docs ->
  chunked_matrix doc events_of_doc docs sizes n1 k = chunked_matrix doc events_of_doc docs sizes n2 k.
Proof. intros. rewrite !chunked_matrix_total by assumption. reflexivity. Qed.
Print Assumptions C04_threads_irrelevant.

(* ------------------------------------------------------------------ array level (Model/K01_CooAcc.v) *)
(* The flagship statement.  For EVERY sort threshold limit >= 1 (COO_QUICKSORT_LIMIT), every initial capacity >= 20
   (smaller buffers can never meet coo_append's growth test: D23), every min-stack length and EVERY event list with
   non-negative keys (the merge uses key -1 as its sentinel) that the level counter can count
   (2 * #events + 2 < 2^(|min| - 1): every flush and every merge_all adds at most 1 to the binary level counter whose
   bit length is `depth`; the drivers allocate |min| = 2 * ceil(log2 capacity) >= 10 and |min| grows with the buffer),
   the run  appends ...; coo_sum_duplicates; merge_all_sum_duplicates
     - performs no out-of-bounds read or write (result Ok: every array access of the model is checked),
     - ends in a state whose live entries sum, key by key, to exactly the events: nothing lost, duplicated or
       credited to another key by the sort windows, the carries, merge_all or buffer growth,
     - with strictly increasing live keys (every key occurs once). *)
Theorem C04_acc_total : forall limit cap mlen (evs : list entry),
  1 <= limit -> 20 <= cap -> Forall (fun e => 0 <= e_key e) evs -> 2 * zlen evs + 2 < 2 ^ (mlen - 1) ->
  exists s, run limit cap mlen evs = Ok s /\
            (forall k, denote s k = sumby evs k) /\
            StronglySorted Z.lt (map e_key (live s)).
Proof.
  intros limit cap mlen evs H1 H2 H3 H4.
  destruct (run_total (fun _ => True) limit cap mlen evs H1 H2) as (s & E & D & S & _); [|exact H4|].
  - eapply Forall_impl; [|exact H3]. simpl. intros e He. split; [exact He|exact I].
  - exists s. split; [exact E|]. split; [exact D|exact S].
Qed.
Print Assumptions C04_acc_total.

(* the same at the level of matrix cells, with the drivers' key = col + array_mul * row, 0 <= col < array_mul:
   cell (r, c) of the accumulated triples = sum of the values of the events of cell (r, c) *)
Theorem C04_acc_cells : forall limit cap mlen mul (evs : list entry),
  1 <= limit -> 20 <= cap -> 2 * zlen evs + 2 < 2 ^ (mlen - 1) ->
  Forall (fun e => 0 <= e_key e /\ 0 <= e_col e < mul /\ e_key e = e_col e + mul * e_row e) evs ->
  exists s, run limit cap mlen evs = Ok s /\
            (forall r c, 0 <= c < mul -> cell (live s) r c = cell evs r c) /\
            StronglySorted Z.lt (map e_key (live s)).
Proof.
  intros limit cap mlen mul evs H1 H2 H3 H4. apply (run_cells limit cap mlen mul evs H1 H2 H3).
  eapply Forall_impl; [|exact H4]. intros [[[r c] v] k]. simpl. tauto.
Qed.
Print Assumptions C04_acc_cells.

(* the result does not depend on the threshold, the capacities or the growth history *)
Theorem C04_acc_indep : forall l1 l2 cap1 cap2 m1 m2 (evs : list entry) s1 s2,
  1 <= l1 -> 1 <= l2 -> 20 <= cap1 -> 20 <= cap2 -> Forall (fun e => 0 <= e_key e) evs ->
  2 * zlen evs + 2 < 2 ^ (m1 - 1) -> 2 * zlen evs + 2 < 2 ^ (m2 - 1) ->
  run l1 cap1 m1 evs = Ok s1 -> run l2 cap2 m2 evs = Ok s2 ->
  forall k, denote s1 k = denote s2 k.
Proof.
  intros l1 l2 cap1 cap2 m1 m2 evs s1 s2 H1 H2 H3 H4 H5 H6 H7 R1 R2 k.
  destruct (C04_acc_total l1 cap1 m1 evs H1 H3 H5 H6) as (t1 & E1 & D1 & _).
  destruct (C04_acc_total l2 cap2 m2 evs H2 H4 H5 H7) as (t2 & E2 & D2 & _).
  rewrite R1 in E1. rewrite R2 in E2. inversion E1; inversion E2; subst. rewrite D1, D2. reflexivity.
Qed.
Print Assumptions C04_acc_indep.

(* end to end, as _build_token_cooccurrence_matrix composes the pieces: the documents are cut into chunks by
   _generate_chunk_boundaries, every chunk runs its own accumulator (any capacity >= 20 and min-stack length per chunk:
   `_coo_sizes`, `coo_initial_memory`, growth history), the per-chunk matrices are added.  For every n_threads, every
   threshold, every choice of buffer sizes and any per-document event generator the sum is the exact sum by key of
   all events: the matrix does not depend on n_threads, _coo_sizes or COO_QUICKSORT_LIMIT. *)
Theorem C04_sizes_threads_irrelevant :
  forall (doc : Type) (events_of_doc : doc -> list entry) docs sizes n_threads limit (capf mlenf : Z * Z -> Z) k,
  length sizes = length docs -> 1 <= limit -> (forall ch, 20 <= capf ch) ->
  Forall (fun e => 0 <= e_key e) (events_of doc events_of_doc docs) ->
  (forall ch, 2 * zlen (events_of doc events_of_doc docs) + 2 < 2 ^ (mlenf ch - 1)) ->
  fold_right Z.add 0
    (map (fun ch => acc_matrix limit (capf ch) (mlenf ch) (events_of doc events_of_doc (chunk_docs docs ch)) k)
         (chunk_boundaries sizes n_threads))
  = sumby (events_of doc events_of_doc docs) k.
Proof. exact end_to_end. Qed.
Print Assumptions C04_sizes_threads_irrelevant.

(* ------------------------------------------------------------------ data volume (Proofs/K01_CooAcc_volume.v) *)
(* C04_acc_total with the raw event count replaced by the event VOLUME per sort window.
   What bounds the level stack is not the number of events but F, the number of flushes that are not followed by
   merge_all_sum_duplicates (merge_all compacts the stack to ONE occupied level; flushes followed by it keep the level
   counter <= 4 and depth <= 3 for ever):  level counter <= 4 * (F + 1),  limit * F <= 2 * #events  (such a flush
   either closes a window of >= limit appended entries or shrinks `ind` by >= limit), and F > 0 needs
   capacity > limit, i.e. for a buffer allocated at most `limit` long, a `min` already enlarged by coo_increase_mem.
   Hypothesis: |min| >= 4 and   8 * #events + 6 * limit < limit * 2^(M - 1),  where
     M = |min|                         if the buffer starts longer than limit,
     M = round(1.5 * (|min| + 2))      if it starts at most limit long (the length coo_increase_mem gives `min`).
   At the drivers' allocation (capacity 32, |min| = 10, limit 65536): M = 18, every run of up to 1.07e9 events per
   buffer (C04_volume_driver_example); the old hypothesis covered 254.  The conclusion is unchanged.
   The bound cannot be removed: see C04_volume_bound_needed_refuted below. *)
Theorem C04_acc_total_volume : forall limit cap mlen (evs : list entry),
  1 <= limit -> 20 <= cap -> 4 <= mlen -> Forall (fun e => 0 <= e_key e) evs ->
  8 * zlen evs + 6 * limit < limit * 2 ^ ((if cap <=? limit then grow_min_size mlen else mlen) - 1) ->
  exists s, run limit cap mlen evs = Ok s /\
            (forall k, denote s k = sumby evs k) /\
            StronglySorted Z.lt (map e_key (live s)).
Proof.
  intros limit cap mlen evs H1 H2 H3 H4 H5.
  destruct (run_total_volume (fun _ => True) limit cap mlen evs H1 H2) as (s & E & D & S & _).
  - eapply Forall_impl; [|exact H4]. simpl. intros e He. split; [exact He|exact I].
  - split; [exact H3|exact H5].
  - exists s. split; [exact E|]. split; [exact D|exact S].
Qed.
Print Assumptions C04_acc_total_volume.

Theorem C04_acc_cells_volume : forall limit cap mlen mul (evs : list entry),
  1 <= limit -> 20 <= cap -> 4 <= mlen ->
  8 * zlen evs + 6 * limit < limit * 2 ^ ((if cap <=? limit then grow_min_size mlen else mlen) - 1) ->
  Forall (fun e => 0 <= e_key e /\ 0 <= e_col e < mul /\ e_key e = e_col e + mul * e_row e) evs ->
  exists s, run limit cap mlen evs = Ok s /\
            (forall r c, 0 <= c < mul -> cell (live s) r c = cell evs r c) /\
            StronglySorted Z.lt (map e_key (live s)).
Proof.
  intros limit cap mlen mul evs H1 H2 H3 H4 H5. apply (run_cells_volume limit cap mlen mul evs H1 H2).
  - split; [exact H3|exact H4].
  - eapply Forall_impl; [|exact H5]. intros [[[r c] v] k]. simpl. tauto.
Qed.
Print Assumptions C04_acc_cells_volume.

Theorem C04_acc_indep_volume : forall l1 l2 cap1 cap2 m1 m2 (evs : list entry) s1 s2,
  1 <= l1 -> 1 <= l2 -> 20 <= cap1 -> 20 <= cap2 -> 4 <= m1 -> 4 <= m2 -> Forall (fun e => 0 <= e_key e) evs ->
  8 * zlen evs + 6 * l1 < l1 * 2 ^ ((if cap1 <=? l1 then grow_min_size m1 else m1) - 1) ->
  8 * zlen evs + 6 * l2 < l2 * 2 ^ ((if cap2 <=? l2 then grow_min_size m2 else m2) - 1) ->
  run l1 cap1 m1 evs = Ok s1 -> run l2 cap2 m2 evs = Ok s2 ->
  forall k, denote s1 k = denote s2 k.
Proof.
  intros l1 l2 cap1 cap2 m1 m2 evs s1 s2 H1 H2 H3 H4 M1 M2 H5 H6 H7 R1 R2 k.
  destruct (C04_acc_total_volume l1 cap1 m1 evs H1 H3 M1 H5 H6) as (t1 & E1 & D1 & _).
  destruct (C04_acc_total_volume l2 cap2 m2 evs H2 H4 M2 H5 H7) as (t2 & E2 & D2 & _).
  rewrite R1 in E1. rewrite R2 in E2. inversion E1; inversion E2; subst. rewrite D1, D2. reflexivity.
Qed.
Print Assumptions C04_acc_indep_volume.

(* NO bound on the number of events: a buffer at most `limit` long (every flush is followed by merge_all) fed with
   events whose keys all lie in a list K shorter than 0.95 * capacity (so coo_append's growth test never fires: after
   merge_all the live keys are distinct).  Depth stays <= 3, the level counter <= 4.  At the drivers' allocation
   (capacity 32, limit 65536): any number of events over at most 30 distinct cells. *)
Theorem C04_acc_total_few_keys : forall limit cap mlen (K : list Z) (evs : list entry),
  1 <= limit -> 20 <= cap <= limit -> 4 <= mlen -> 20 * zlen K < 19 * cap ->
  Forall (fun e => 0 <= e_key e /\ In (e_key e) K) evs ->
  exists s, run limit cap mlen evs = Ok s /\
            (forall k, denote s k = sumby evs k) /\
            StronglySorted Z.lt (map e_key (live s)).
Proof.
  intros limit cap mlen K evs H1 H2 H3 H4 H5.
  destruct (run_total_compact (fun t => In (snd t) K) K (fun t H => H) limit cap mlen evs H1 H2 H3) as (s & E & D & S & _).
  - eapply Forall_impl; [|exact H5]. intros [[[r c] v] k]. simpl. tauto.
  - exact H4.
  - exists s. split; [exact E|]. split; [exact D|exact S].
Qed.
Print Assumptions C04_acc_total_few_keys.

(* end to end under the volume budget (one accumulator per chunk, any capacities >= 20 and min-stack lengths) *)
Theorem C04_sizes_threads_irrelevant_volume :
  forall (doc : Type) (events_of_doc : doc -> list entry) docs sizes n_threads limit (capf mlenf : Z * Z -> Z) k,
  length sizes = length docs -> 1 <= limit -> (forall ch, 20 <= capf ch) ->
  Forall (fun e => 0 <= e_key e) (events_of doc events_of_doc docs) ->
  (forall ch, 4 <= mlenf ch /\
     8 * zlen (events_of doc events_of_doc docs) + 6 * limit
     < limit * 2 ^ ((if capf ch <=? limit then grow_min_size (mlenf ch) else mlenf ch) - 1)) ->
  fold_right Z.add 0
    (map (fun ch => acc_matrix limit (capf ch) (mlenf ch) (events_of doc events_of_doc (chunk_docs docs ch)) k)
         (chunk_boundaries sizes n_threads))
  = sumby (events_of doc events_of_doc docs) k.
Proof. exact end_to_end_volume. Qed.
Print Assumptions C04_sizes_threads_irrelevant_volume.

(* some bound on the volume IS needed when limit < capacity: a stream of equal keys is flushed every `limit` events,
   never reaches the merge_all test (ind stays tiny), and the level counter overflows `min`.  Here with the drivers'
   buffer shape (capacity 32, |min| = 2 * ceil(log2 32) = 10) at limit = 1: 1022 equal events (1021 still run; the
   hypothesis of C04_acc_total_volume allows 63 there, that of C04_acc_total 254). *)
Theorem C04_volume_bound_needed_refuted :
  exists evs, init_default 32 = init 32 10 /\ run 1 32 10 evs = OOB S_ms_min_i1.
Proof. exists (repeat (0, 0, 1, 0) (Z.to_nat 1022)). vm_compute. split; reflexivity. Qed.
Print Assumptions C04_volume_bound_needed_refuted.

(* per-operation content of the strengthening: merge_all leaves the level counter at 2^(number of occupied levels) *)
Theorem C04_merge_all_compacts : forall Q c,
  stack_ok Q c -> ind c <= cap c -> cnt (mn c) (depth c) + 1 < 2 ^ (zlen (mn c) - 1) ->
  Z.abs (nthZ (mn c) 0) = ind c ->
  exists c', merge_all_sum_duplicates c = Ok c' /\ stack_ok Q c' /\
             cnt (mn c') (depth c') <= 2 ^ npos (mn c) (depth c) /\ 2 ^ npos (mn c) (depth c) <= cnt (mn c) (depth c) + 1.
Proof.
  intros Q c H1 H2 H3 H4. destruct (ma_ok_strong Q c H1 H2 H3 H4) as (c' & E & (S & _) & _ & Hc).
  exists c'. split; [exact E|]. split; [exact S|]. split; [exact Hc|apply pow2_npos_le_cnt].
Qed.
Print Assumptions C04_merge_all_compacts.

(* the hypotheses are needed: below capacity 20 the model (like the code) overruns its buffer, and a min stack that
   is too short for the number of flushes is overrun as well *)
Theorem C04_small_capacity_refuted : exists evs, run 65536 19 10 evs = OOB S_append_write.
Proof. exists (map (fun k => (0, k, 1, k)) [0;1;2;3;4;5;6;7;8;9;10;11;12;13;14;15;16;17;18;19]). vm_compute. reflexivity. Qed.
Print Assumptions C04_small_capacity_refuted.

Theorem C04_short_min_stack_refuted : exists evs, run 1 20 3 evs = OOB S_ms_min_i1.
Proof. exists (map (fun k => (0, 0, 1, 0)) [0;1;2;3;4;5;6;7]). vm_compute. reflexivity. Qed.
Print Assumptions C04_short_min_stack_refuted.

(* per-operation preservation (what the induction is made of); Q = any property of (row, col, key) *)
Theorem C04_sum_duplicates_preserves : forall Q c,
  stack_ok Q c -> ind c < cap c -> cnt (mn c) (depth c) + 1 < 2 ^ (zlen (mn c) - 1) ->
  exists c', coo_sum_duplicates c = Ok c' /\ stack_ok Q c' /\ (forall k, denote c' k = denote c k) /\
             cap c' = cap c /\ ind c' <= ind c.
Proof.
  intros Q c H1 H2 H3. destruct (csd_ok Q c H1 H2 H3) as (c' & E & S & C & _ & I & _ & D & _).
  exists c'. split; [exact E|]. split; [exact S|]. split; [exact D|]. split; [exact C|lia].
Qed.
Print Assumptions C04_sum_duplicates_preserves.

Theorem C04_merge_all_preserves : forall Q c,
  stack_ok Q c -> ind c <= cap c -> cnt (mn c) (depth c) + 1 < 2 ^ (zlen (mn c) - 1) ->
  Z.abs (nthZ (mn c) 0) = ind c ->
  exists c', merge_all_sum_duplicates c = Ok c' /\ stack_ok Q c' /\ (forall k, denote c' k = denote c k) /\
             cap c' = cap c /\ ind c' <= ind c /\ StronglySorted Z.lt (map e_key (live c')).
Proof.
  intros Q c H1 H2 H3 H4. destruct (ma_ok Q c H1 H2 H3 H4) as (c' & E & (S & C & _ & I & _ & D & _) & Hs).
  exists c'. split; [exact E|]. split; [exact S|]. split; [exact D|]. split; [exact C|]. split; [lia|exact Hs].
Qed.
Print Assumptions C04_merge_all_preserves.

(* the carry of two sorted runs, as the while loops of merge_sum_duplicates compute it, is strictly sorted *)
Theorem C04_carry_sorted : forall f a b, (length a + length b <= f)%nat ->
  StronglySorted Z.le (map e_key a) -> StronglySorted Z.le (map e_key b) ->
  StronglySorted Z.lt (map e_key (rlc (interleave f a b))).
Proof. intros f a b Hf Ha Hb. apply rlc_sorted, interleave_wsorted; assumption. Qed.
Print Assumptions C04_carry_sorted.

(* non-vacuity of C04_acc_total / C04_acc_cells: threshold 2, capacity 20, 12 events over 3 cells, |min| = 10 *)
Example C04_acc_example :
  let evs := [(0,0,1,0); (0,1,1,1); (1,0,2,4); (0,0,1,0); (0,1,3,1); (1,0,1,4);
              (0,0,1,0); (0,1,1,1); (1,0,2,4); (0,0,1,0); (0,1,3,1); (1,0,1,4)] in
  2 * zlen evs + 2 < 2 ^ (10 - 1) /\
  forallb (fun e => (0 <=? e_key e) && (0 <=? e_col e) && (e_col e <? 4) && (e_key e =? e_col e + 4 * e_row e)) evs = true /\
  option_map live (match run 2 20 10 evs with Ok s => Some s | OOB _ => None end) = Some [(0,0,4,0); (0,1,8,1); (1,0,6,4)].
Proof. vm_compute. repeat split; reflexivity. Qed.

(* non-vacuity: 5 documents of sizes 3,1,4,1,5 over 3 threads give the chunks (0,2) (2,4) (4,5) *)
Example C04_chunks_example : chunk_boundaries [3; 1; 4; 1; 5] 3 = [(0, 2); (2, 4); (4, 5)].
Proof. vm_compute. reflexivity. Qed.
Example C04_chunks_example_16 : chunk_boundaries [3] 16 = [(0, 0); (0, 1)].
Proof. vm_compute. reflexivity. Qed.
Example C04_window_example :
  compress (sort_by_key [(1,2,1,9); (0,1,1,1); (1,2,2,9); (0,0,1,0); (0,1,3,1)]) = [(0,0,1,0); (0,1,4,1); (1,2,3,9)].
Proof. vm_compute. reflexivity. Qed.

(* non-vacuity of C04_acc_total_volume at the drivers' real allocation (coo_initial_memory default: capacity 32,
   |min| = 2 * ceil(log2 32) = 10, COO_QUICKSORT_LIMIT = 65536): the hypotheses hold for every event count up to 1e9 *)
Example C04_volume_driver_example : forall nev, 0 <= nev <= 1000000000 ->
  init_default 32 = init 32 10 /\ 1 <= 65536 /\ 20 <= 32 /\ 4 <= 10 /\
  8 * nev + 6 * 65536 < 65536 * 2 ^ ((if 32 <=? 65536 then grow_min_size 10 else 10) - 1).
Proof.
  intros nev H. split; [vm_compute; reflexivity|].
  replace (2 ^ ((if 32 <=? 65536 then grow_min_size 10 else 10) - 1)) with 131072 by (vm_compute; reflexivity). lia.
Qed.

(* ... and at a small threshold, beyond the reach of C04_acc_total: limit 16 < capacity 32, |min| = 10, 600 events over
   4 cells (2 * 600 + 2 > 2^9; 37 un-merged flushes, depth 5); the run is evaluated as well *)
Example C04_volume_small_limit_example :
  let evs := map (fun i => let c := Z.of_nat i mod 2 in let r := Z.of_nat i mod 3 mod 2 in (r, c, 1, c + 4 * r)) (seq 0 (Z.to_nat 600)) in
  zlen evs = 600 /\ ~ (2 * zlen evs + 2 < 2 ^ (10 - 1)) /\ 4 <= 10 /\
  8 * zlen evs + 6 * 16 < 16 * 2 ^ ((if 32 <=? 16 then grow_min_size 10 else 10) - 1) /\
  forallb (fun e => 0 <=? e_key e) evs = true /\
  option_map (fun s => (map e_key (live s), fold_right Z.add 0 (map e_val (live s)), depth s))
             (run_state 16 32 10 evs)
  = Some ([0; 1; 4; 5], 600, 5).
Proof. vm_compute. repeat split; try reflexivity; intros H; discriminate H. Qed.

(* non-vacuity of C04_acc_total_few_keys: capacity 32 <= limit 65536, 2000 events over 30 distinct keys *)
Example C04_few_keys_example :
  let K := map Z.of_nat (seq 0 30) in
  let evs := map (fun i => let k := Z.of_nat i mod 30 in (0, k, 1, k)) (seq 0 (Z.to_nat 2000)) in
  20 * zlen K < 19 * 32 /\ forallb (fun e => (0 <=? e_key e) && existsb (Z.eqb (e_key e)) K) evs = true /\
  option_map (fun s => (zlen (live s), fold_right Z.add 0 (map e_val (live s)), depth s, cap s))
             (run_state 65536 32 10 evs)
  = Some (30, 2000, 3, 32).
Proof. vm_compute. repeat split; reflexivity. Qed.

(* ------------------------------------------------------------------ key preservation (Proofs/K01_CooAcc_keys.v) *)
(* The theorems above speak about SUMS by key; an entry of value 0 (or values that cancel) is invisible to them.
   These speak about the keys themselves: no operation of the accumulator loses a live key or invents one, i.e. no
   co-occurrence event disappears or is credited to another cell, whatever its value.
   One sort window (argsort + run-length summation), list level: *)
Theorem C04_keys_preserved_window : forall seg k,
  In k (map e_key (compress (sort_by_key seg))) <-> In k (map e_key seg).
Proof.
  intros seg k. rewrite (compress_keys (sort_by_key seg) k).
  apply (same_keys_sym _ _ (same_keys_perm _ _ (sort_perm seg))).
Qed.
Print Assumptions C04_keys_preserved_window.

(* coo_sum_duplicates (sort window + carry through the levels), array level, any state satisfying the invariant *)
Theorem C04_keys_preserved_sum_duplicates : forall Q c,
  stack_ok Q c -> ind c < cap c -> cnt (mn c) (depth c) + 1 < 2 ^ (zlen (mn c) - 1) ->
  exists c', coo_sum_duplicates c = Ok c' /\ stack_ok Q c' /\
             (forall k, In k (map e_key (live c')) <-> In k (map e_key (live c))) /\
             (forall k, denote c' k = denote c k).
Proof.
  intros Q c H1 H2 H3. destruct (csd_ok Q c H1 H2 H3) as (c' & E & S & _ & _ & _ & _ & D & _).
  exists c'. split; [exact E|]. split; [exact S|]. split; [exact (csd_keys Q c c' H1 H2 E)|exact D].
Qed.
Print Assumptions C04_keys_preserved_sum_duplicates.

(* merge_sum_duplicates alone (the carry) *)
Theorem C04_keys_preserved_merge : forall Q c c',
  stack_ok Q c -> ind c <= cap c -> merge_sum_duplicates c = Ok c' ->
  forall k, In k (map e_key (live c')) <-> In k (map e_key (live c)).
Proof. exact msd_keys. Qed.
Print Assumptions C04_keys_preserved_merge.

(* merge_all_sum_duplicates: same set of live keys, strictly sorted afterwards, hence the new `ind` is exactly the
   number of distinct keys that were live (nodup = the list without repetitions) *)
Theorem C04_keys_preserved_merge_all : forall Q c,
  stack_ok Q c -> ind c <= cap c -> cnt (mn c) (depth c) + 1 < 2 ^ (zlen (mn c) - 1) ->
  Z.abs (nthZ (mn c) 0) = ind c ->
  exists c', merge_all_sum_duplicates c = Ok c' /\ stack_ok Q c' /\
             (forall k, In k (map e_key (live c')) <-> In k (map e_key (live c))) /\
             StronglySorted Z.lt (map e_key (live c')) /\
             ind c' = zlen (nodup Z.eq_dec (map e_key (live c))).
Proof.
  intros Q c H1 H2 H3 H4. destruct (ma_ind_distinct Q c H1 H2 H3 H4) as (c' & E & (S & _) & Hs & K & N).
  exists c'. split; [exact E|]. split; [exact S|]. split; [exact K|]. split; [exact Hs|exact N].
Qed.
Print Assumptions C04_keys_preserved_merge_all.

(* ------------------------------------------------------------------ the drivers' regime: capacity <= limit at allocation *)
(* What key preservation buys.  A flush skips merge_all only if capacity - ind' > limit, and ind' >= the number of
   distinct live keys.  coo_increase_mem runs right after a merge_all that left >= 0.95 * capacity DISTINCT keys, and
   none of them is ever lost.  So a buffer allocated at most `limit` long (every driver-allocated buffer up to 65536
   entries at the real threshold) keeps F = 0 - level counter <= 4, depth <= 3, whatever the number of events - through
   every growth  cap -> grow_size limit cap  with  grow_size limit cap <= limit + ceil(0.95 * cap), and the volume budget
   of C04_acc_total_volume is needed only from the first growth that violates this, with the length
       driver_mlen fuel limit cap mlen
   that coo_increase_mem has given `min` by then (grow_min_size iterated once per growth, as the model does; `fuel`
   = how many growths are looked at, any value is sound).  At the drivers' allocation (capacity 32, |min| = 10,
   limit 65536): capacities 32 -> 65537 -> 98306 -> 147459 -> 221188, |min| 10 -> 18 -> 30 -> 48 -> 75, budget
   8 * #events + 6 * 65536 < 65536 * 2^74, i.e. 1.5e26 events per buffer (C04_driver_example) instead of 1.07e9.
   The conclusion also states that the live keys are EXACTLY the keys of the events. *)
Theorem C04_acc_total_driver : forall fuel limit cap mlen (evs : list entry),
  1 <= limit -> 20 <= cap <= limit -> 4 <= mlen -> Forall (fun e => 0 <= e_key e) evs ->
  8 * zlen evs + 6 * limit < limit * 2 ^ (driver_mlen fuel limit cap mlen - 1) ->
  exists s, run limit cap mlen evs = Ok s /\
            (forall k, denote s k = sumby evs k) /\
            StronglySorted Z.lt (map e_key (live s)) /\
            (forall k, In k (map e_key (live s)) <-> In k (map e_key evs)).
Proof.
  intros fuel limit cap mlen evs H1 H2 H3 H4 H5.
  destruct (run_total_k (fun _ => True) limit cap mlen (driver_mlen fuel limit cap mlen) evs H1) as (s & E & D & S & _ & K);
    [lia|exact H3| | |exact H5|].
  - eapply Forall_impl; [|exact H4]. simpl. intros e He. split; [exact He|exact I].
  - left. split; [lia|]. exists fuel. lia.
  - exists s. split; [exact E|]. split; [exact D|]. split; [exact S|exact K].
Qed.
Print Assumptions C04_acc_total_driver.

(* as the four drivers allocate the buffer: |min| = 2 * ceil(log2 capacity) (>= 10 for capacity >= 20) *)
Theorem C04_acc_total_driver_default : forall fuel limit cap (evs : list entry),
  1 <= limit -> 20 <= cap <= limit -> Forall (fun e => 0 <= e_key e) evs ->
  8 * zlen evs + 6 * limit < limit * 2 ^ (driver_mlen fuel limit cap (2 * ceil_log2 cap) - 1) ->
  exists s, (c <- appends limit (init_default cap) evs ;; finish c) = Ok s /\
            (forall k, denote s k = sumby evs k) /\
            StronglySorted Z.lt (map e_key (live s)) /\
            (forall k, In k (map e_key (live s)) <-> In k (map e_key evs)).
Proof.
  intros fuel limit cap evs H1 H2 H3 H4.
  apply (C04_acc_total_driver fuel limit cap (2 * ceil_log2 cap) evs H1 H2); [|exact H3|exact H4].
  pose proof (default_mlen_ge cap ltac:(lia)). lia.
Qed.
Print Assumptions C04_acc_total_driver_default.

Theorem C04_acc_cells_driver : forall fuel limit cap mlen mul (evs : list entry),
  1 <= limit -> 20 <= cap <= limit -> 4 <= mlen ->
  8 * zlen evs + 6 * limit < limit * 2 ^ (driver_mlen fuel limit cap mlen - 1) ->
  Forall (fun e => 0 <= e_key e /\ 0 <= e_col e < mul /\ e_key e = e_col e + mul * e_row e) evs ->
  exists s, run limit cap mlen evs = Ok s /\
            (forall r c, 0 <= c < mul -> cell (live s) r c = cell evs r c) /\
            StronglySorted Z.lt (map e_key (live s)) /\
            (forall k, In k (map e_key (live s)) <-> In k (map e_key evs)).
Proof.
  intros fuel limit cap mlen mul evs H1 H2 H3 H4 H5.
  apply (run_cells_k limit cap mlen (driver_mlen fuel limit cap mlen) mul evs H1); [lia|exact H3| |exact H4|].
  - left. split; [lia|]. exists fuel. lia.
  - eapply Forall_impl; [|exact H5]. intros [[[r c] v] k]. simpl. tauto.
Qed.
Print Assumptions C04_acc_cells_driver.

Theorem C04_acc_indep_driver : forall f1 f2 l1 l2 cap1 cap2 m1 m2 (evs : list entry) s1 s2,
  1 <= l1 -> 1 <= l2 -> 20 <= cap1 <= l1 -> 20 <= cap2 <= l2 -> 4 <= m1 -> 4 <= m2 -> Forall (fun e => 0 <= e_key e) evs ->
  8 * zlen evs + 6 * l1 < l1 * 2 ^ (driver_mlen f1 l1 cap1 m1 - 1) ->
  8 * zlen evs + 6 * l2 < l2 * 2 ^ (driver_mlen f2 l2 cap2 m2 - 1) ->
  run l1 cap1 m1 evs = Ok s1 -> run l2 cap2 m2 evs = Ok s2 ->
  (forall k, denote s1 k = denote s2 k) /\ map e_key (live s1) = map e_key (live s2).
Proof.
  intros f1 f2 l1 l2 cap1 cap2 m1 m2 evs s1 s2 H1 H2 H3 H4 M1 M2 H5 H6 H7 R1 R2.
  destruct (C04_acc_total_driver f1 l1 cap1 m1 evs H1 H3 M1 H5 H6) as (t1 & E1 & D1 & S1 & K1).
  destruct (C04_acc_total_driver f2 l2 cap2 m2 evs H2 H4 M2 H5 H7) as (t2 & E2 & D2 & S2 & K2).
  rewrite R1 in E1. rewrite R2 in E2. inversion E1; inversion E2; subst.
  split; [intros k; rewrite D1, D2; reflexivity|].
  apply sorted_keys_unique; [exact S1|exact S2|]. intros k. rewrite K1, K2. reflexivity.
Qed.
Print Assumptions C04_acc_indep_driver.

(* the live keys are exactly the events' keys also in the regime of C04_acc_total_volume (any capacity >= 20) *)
Theorem C04_keys_preserved_run : forall limit cap mlen (evs : list entry),
  1 <= limit -> 20 <= cap -> 4 <= mlen -> Forall (fun e => 0 <= e_key e) evs ->
  8 * zlen evs + 6 * limit < limit * 2 ^ ((if cap <=? limit then grow_min_size mlen else mlen) - 1) ->
  exists s, run limit cap mlen evs = Ok s /\
            (forall k, In k (map e_key (live s)) <-> In k (map e_key evs)) /\
            StronglySorted Z.lt (map e_key (live s)) /\
            zlen (live s) = zlen (nodup Z.eq_dec (map e_key evs)).
Proof.
  intros limit cap mlen evs H1 H2 H3 H4 H5.
  destruct (run_total_k (fun _ => True) limit cap mlen (volume_mlen limit cap mlen) evs H1 H2 H3) as (s & E & D & S & _ & K);
    [|apply start_ok_volume|exact H5|].
  - eapply Forall_impl; [|exact H4]. simpl. intros e He. split; [exact He|exact I].
  - exists s. split; [exact E|]. split; [exact K|]. split; [exact S|].
    apply (ssorted_count_distinct (live s) evs K S).
Qed.
Print Assumptions C04_keys_preserved_run.

(* end to end (chunks by _generate_chunk_boundaries, one accumulator per chunk, matrices added) with driver-allocated
   buffers: every chunk's buffer starts at most `limit` long *)
Theorem C04_sizes_threads_irrelevant_driver :
  forall (doc : Type) (events_of_doc : doc -> list entry) docs sizes n_threads limit fuel (capf mlenf : Z * Z -> Z) k,
  length sizes = length docs -> 1 <= limit -> (forall ch, 20 <= capf ch <= limit) ->
  Forall (fun e => 0 <= e_key e) (events_of doc events_of_doc docs) ->
  (forall ch, 4 <= mlenf ch /\
     8 * zlen (events_of doc events_of_doc docs) + 6 * limit
     < limit * 2 ^ (driver_mlen fuel limit (capf ch) (mlenf ch) - 1)) ->
  fold_right Z.add 0
    (map (fun ch => acc_matrix limit (capf ch) (mlenf ch) (events_of doc events_of_doc (chunk_docs docs ch)) k)
         (chunk_boundaries sizes n_threads))
  = sumby (events_of doc events_of_doc docs) k.
Proof.
  intros doc f docs sizes n_threads limit fuel capf mlenf k H1 H2 H3 H4 H5.
  apply (end_to_end_k doc f docs sizes n_threads limit capf mlenf
           (fun ch => driver_mlen fuel limit (capf ch) (mlenf ch)) k H1 H2); [intros ch; apply H3|exact H4|].
  intros ch. destruct (H5 ch) as [A B]. split; [exact A|]. split; [|exact B].
  left. split; [apply H3|]. exists fuel. lia.
Qed.
Print Assumptions C04_sizes_threads_irrelevant_driver.

(* non-vacuity of C04_acc_total_driver at the drivers' real allocation (capacity 32, |min| = 2 * ceil(log2 32) = 10,
   COO_QUICKSORT_LIMIT = 65536): F = 0 is kept through the capacities 32, 65537, 98306, 147459 (|min| 10, 18, 30, 48);
   the growth to 221188 gives |min| = 75, and the hypothesis holds for every event count up to 1.5e26 *)
Example C04_driver_example : forall nev, 0 <= nev <= 150000000000000000000000000 ->
  init_default 32 = init 32 10 /\ 1 <= 65536 /\ 20 <= 32 <= 65536 /\ 4 <= 10 /\
  driver_mlen 8 65536 32 10 = 75 /\
  (grow_size 65536 32, grow_size 65536 65537, grow_size 65536 98306, grow_size 65536 147459) = (65537, 98306, 147459, 221188) /\
  8 * nev + 6 * 65536 < 65536 * 2 ^ (driver_mlen 8 65536 32 10 - 1).
Proof.
  intros nev H. split; [vm_compute; reflexivity|].
  replace (driver_mlen 8 65536 32 10) with 75 by (vm_compute; reflexivity).
  replace (2 ^ (75 - 1)) with 18889465931478580854784 by (vm_compute; reflexivity).
  repeat split; try lia; vm_compute; reflexivity.
Qed.

(* ... and a run beyond the reach of C04_acc_total_volume, evaluated: limit 32 = capacity, |min| = 4, 3000 events over
   200 cells (the volume hypothesis allows < 1000 there); the buffer grows 32 -> 48 -> 72 -> 108 -> 162 -> 243,
   `min` 4 -> 9 -> 16 -> 27 -> 44 -> 69, depth stays 3 *)
Example C04_driver_small_example :
  let evs := map (fun i => let k := Z.of_nat i mod 200 in (k / 16, k mod 16, 1, k)) (seq 0 (Z.to_nat 3000)) in
  zlen evs = 3000 /\ 4 <= 4 /\ 20 <= 32 <= 32 /\
  ~ (8 * zlen evs + 6 * 32 < 32 * 2 ^ ((if 32 <=? 32 then grow_min_size 4 else 4) - 1)) /\
  8 * zlen evs + 6 * 32 < 32 * 2 ^ (driver_mlen 8 32 32 4 - 1) /\
  forallb (fun e => 0 <=? e_key e) evs = true /\
  option_map (fun s => (zlen (live s), fold_right Z.add 0 (map e_val (live s)), cap s, zlen (mn s), depth s))
             (run_state 32 32 4 evs)
  = Some (200, 3000, 243, 69, 3).
Proof. vm_compute. repeat split; try reflexivity; intros H; discriminate H. Qed.
