(* C04 — co-occurrence results do not depend on threads, buffer sizes or data volume.
   Only statements, each closed by `exact <lemma>`, followed by Print Assumptions. *)
From Coq Require Import ZArith List Lia Sorting.Sorted Permutation.
From VZ Require Import Model.K01_CooAcc Proofs.K01_CooAcc_list.
Import ListNotations.
Open Scope Z_scope.

(* ------------------------------------------------------------------ list level *)
(* the matrix of a concatenation of event lists is the sum of the matrices; the order of the events is irrelevant *)
Theorem C04_additive : forall (a b : list entry) k, sumby (a ++ b) k = sumby a k + sumby b k.
Proof. exact sumby_app. Qed.
Print Assumptions C04_additive.

Theorem C04_order_irrelevant : forall (a b : list entry) k, Permutation a b -> sumby a k = sumby b k.
Proof. exact sumby_perm. Qed.
Print Assumptions C04_order_irrelevant.

(* one sort window: compress (sort seg) keeps every key's total and has strictly increasing keys *)
Theorem C04_window_sum : forall seg k, sumby (compress (sort_by_key seg)) k = sumby seg k.
Proof. exact compress_sort_sumby. Qed.
Print Assumptions C04_window_sum.

Theorem C04_window_sorted : forall seg, StronglySorted Z.lt (map e_key (compress (sort_by_key seg))).
Proof. exact compress_sort_sorted. Qed.
Print Assumptions C04_window_sorted.

(* the carry: merging two strictly sorted runs keeps every key's total and is strictly sorted again *)
Theorem C04_merge_sum : forall f a b k, sumby (merge_runs f a b) k = sumby a k + sumby b k.
Proof. exact merge_runs_sumby. Qed.
Print Assumptions C04_merge_sum.

Theorem C04_merge_sorted : forall f a b, (length a + length b <= f)%nat ->
  StronglySorted Z.lt (map e_key a) -> StronglySorted Z.lt (map e_key b) ->
  StronglySorted Z.lt (map e_key (merge_runs f a b)).
Proof. exact merge_runs_sorted. Qed.
Print Assumptions C04_merge_sorted.

(* _generate_chunk_boundaries, for EVERY n_threads (no sign condition needed) and every list of document sizes:
   the chunks are contiguous, in order, start at 0 and end at len(data) ... *)
Theorem C04_chunks_chain : forall sizes n_threads, chain 0 (chunk_boundaries sizes n_threads) (zlen sizes).
Proof. exact chunk_boundaries_chain. Qed.
Print Assumptions C04_chunks_chain.

(* ... hence token_sequences[chunk_start:chunk_end] over the chunks is a partition of the documents *)
Theorem C04_chunks_partition : forall (A : Type) (docs : list A) sizes n_threads,
  length sizes = length docs ->
  concat (map (chunk_docs docs) (chunk_boundaries sizes n_threads)) = docs.
Proof. exact @chunks_partition. Qed.
Print Assumptions C04_chunks_partition.

(* sum of the per-chunk matrices = matrix of the whole corpus, for any per-document event generator:
   the result does not depend on n_threads *)
Theorem C04_chunk_sum : forall (doc : Type) (events_of_doc : doc -> list entry) docs sizes n_threads k,
  length sizes = length docs ->
  chunked_matrix doc events_of_doc docs sizes n_threads k = sumby (events_of doc events_of_doc docs) k.
Proof. exact chunked_matrix_total. Qed.
Print Assumptions C04_chunk_sum.

Theorem C04_threads_irrelevant : forall (doc : Type) (events_of_doc : doc -> list entry) docs sizes n1 n2 k,
  length sizes = length docs ->
  chunked_matrix doc events_of_doc docs sizes n1 k = chunked_matrix doc events_of_doc docs sizes n2 k.
Proof. intros. rewrite !chunked_matrix_total by assumption. reflexivity. Qed.
Print Assumptions C04_threads_irrelevant.

(* non-vacuity: 5 documents of sizes 3,1,4,1,5 over 3 threads give the chunks (0,2) (2,4) (4,5) *)
Example C04_chunks_example : chunk_boundaries [3; 1; 4; 1; 5] 3 = [(0, 2); (2, 4); (4, 5)].
Proof. vm_compute. reflexivity. Qed.
Example C04_chunks_example_16 : chunk_boundaries [3] 16 = [(0, 0); (0, 1)].
Proof. vm_compute. reflexivity. Qed.
Example C04_window_example :
  compress (sort_by_key [(1,2,1,9); (0,1,1,1); (1,2,2,9); (0,0,1,0); (0,1,3,1)]) = [(0,0,1,0); (0,1,4,1); (1,2,3,9)].
Proof. vm_compute. reflexivity. Qed.
