(* C01 (NgramVectorizer with mask_string / nullify_mask / pruning) — transform returns one row per item of X' in the
   fitted column space, never raises, and treats tokens outside the vocabulary as deleted (no mask) or as the mask
   string (mask mode).  The model without mask is Model/K7_Ngrams.v (Properties/C01_ngram_skip_edge.v); this file is
   about Model/K02_TwoPathsNgram.v, which adds the preprocessing with the fitted dictionary and the mask.
   Only statements + Print Assumptions; Example at the end. *)
From Coq Require Import ZArith List Bool Arith Lia.
From VZ Require Import Model.K5_Vocab Model.K5_Float Model.K6_Reindex Model.K02_TwoPaths Model.K02_TwoPathsNgram.
From VZ Require Import Proofs.K02_TwoPathsNgram_proofs.
From VZ Require Properties.C02_ngram_vectorizer.
Import ListNotations.
Open Scope Z_scope.

(* hypothesis: the column dictionary is an enumeration (every learned one is; a supplied ngram_dictionary with gaps is
   not a valid input) *)
Theorem C01_ngram_mask_shape :
  forall (matches : Z -> bool) (f32div f64div : Z -> Z -> Z) (f64to32 : Z -> Z) (one64 : Z) (prm : ngv_params) M X',
  Forall (fun kv => 0 <= snd kv < Z.of_nat (length (nv_cold M))) (nv_cold M) ->
  exists R, ngv_transform matches f32div f64div f64to32 one64 prm M X' = Ok R /\
    KA.nrows R = Z.of_nat (length X') /\ KA.ncols R = Z.of_nat (length (nv_cold M)) /\
    forall t, In t (KA.entries R) -> 0 <= KA.trow t < KA.nrows R /\ 0 <= KA.tcol t < KA.ncols R.
Proof. exact ngv_transform_shape. Qed.
Print Assumptions C01_ngram_mask_shape.

Theorem C01_ngram_mask_unseen :
  forall (matches : Z -> bool) (f32div f64div : Z -> Z -> Z) (f64to32 : Z -> Z) (one64 : Z) (prm : ngv_params) m M X',
  np_mask prm = Some m ->
  ngv_transform matches f32div f64div f64to32 one64 prm M (mask_unseen Z.eqb m (nv_dict M) X')
  = ngv_transform matches f32div f64div f64to32 one64 prm M X'.
Proof. exact ngv_transform_mask_unseen. Qed.
Print Assumptions C01_ngram_mask_unseen.

Theorem C01_ngram_strip_unseen :
  forall (matches : Z -> bool) (f32div f64div : Z -> Z -> Z) (f64to32 : Z -> Z) (one64 : Z) (prm : ngv_params) M X',
  np_mask prm = None ->
  ngv_transform matches f32div f64div f64to32 one64 prm M (strip_unseen Z.eqb (nv_dict M) X')
  = ngv_transform matches f32div f64div f64to32 one64 prm M X'.
Proof. exact ngv_transform_strip_unseen. Qed.
Print Assumptions C01_ngram_strip_unseen.

Import C02_ngram_vectorizer.

(* bigrams, mask mode: X' with an unseen token 8 and the pruned token 3; [8; 1] counts in the (MASK, 1) column *)
Example C01_ex_ngram_mask :
  match ngx_fit 2%nat false with
  | Ok (M, _) =>
      Forall (fun kv => 0 <= snd kv < Z.of_nat (length (nv_cold M))) (nv_cold M) /\
      mask_unseen Z.eqb 99 (nv_dict M) [[8; 1; 2]; [3]; []] = [[99; 1; 2]; [99]; []] /\
      ngv_transform (fun _ => false) f32div_fl f64div_fl f64to32_fl one64_fl (ngx_prm 2 false) M [[8; 1; 2]; [3]; []]
      = Ok (3, 4, [(0, 3, 1); (0, 1, 1)])
  | Err _ => False
  end.
Proof. vm_compute. split; [repeat constructor; discriminate|split; reflexivity]. Qed.
