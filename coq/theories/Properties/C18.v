(* C18 — distances are finite, symmetric, zero on proportional inputs; sparse = dense.
   Only statements, each closed by `exact <lemma>` (or a one-line instantiation), followed by Print Assumptions.
   K11 (sparse helpers): exact, over Z and Q, any strictly increasing index lists.
   K12 (distances): over R (stdlib real axioms), any dimension; the models are those of the repaired code. *)
From Coq Require Import ZArith QArith Reals List Lra Lia Sorted.
From VZ Require Import Model.K11_SparseVec Model.K12_Dist
  Proofs.K11_SparseVec_proofs Proofs.K12_RealFacts Proofs.K12_Dist_proofs.
Import ListNotations.

(* ================================================================== K11 over Z *)
Section K11_Z.
Open Scope Z_scope.
Let eqzZ := fun x : Z => x =? 0.
Let denseZ := dense Z 0.

Lemma eqzZ_spec : forall x, eqzZ x = true <-> x = 0.
Proof. intros. apply Z.eqb_eq. Qed.

(* valid encoding = strictly increasing indices + one value per index (explicit zeros allowed).
   Result: no index error, strictly increasing indices, no explicit zero, values = dense arithmetic,
   index set = support of the dense result. *)
Theorem C18_sparse_sum_Z : forall ind1 data1 ind2 data2,
  StronglySorted Z.lt ind1 -> length ind1 = length data1 ->
  StronglySorted Z.lt ind2 -> length ind2 = length data2 ->
  exists ri rd,
    sparse_sum_Z ind1 data1 ind2 data2 = Some (ri, rd)
    /\ length ri = length rd /\ StronglySorted Z.lt ri /\ Forall (fun v => v <> 0) rd
    /\ (forall k, denseZ ri rd k = denseZ ind1 data1 k + denseZ ind2 data2 k)
    /\ (forall k, In k ri <-> denseZ ind1 data1 k + denseZ ind2 data2 k <> 0).
Proof.
  intros ind1 data1 ind2 data2 S1 L1 S2 L2.
  destruct (sparse_sum_correct Z 0 Z.add eqzZ (@eq Z) (@eq_refl Z) (@eq_sym Z) (@eq_trans Z) eqzZ_spec
              Z.add_0_r Z.add_0_l ind1 data1 ind2 data2 (conj S1 L1) (conj S2 L2))
    as (ri & rd & A & B & C & D & E & F).
  exists ri, rd. repeat split; auto; try apply F.
  eapply Forall_impl; [|exact D]. intros v Hv Hz. subst. discriminate.
Qed.

Theorem C18_sparse_diff_Z : forall ind1 data1 ind2 data2,
  StronglySorted Z.lt ind1 -> length ind1 = length data1 ->
  StronglySorted Z.lt ind2 -> length ind2 = length data2 ->
  exists ri rd,
    sparse_diff_Z ind1 data1 ind2 data2 = Some (ri, rd)
    /\ length ri = length rd /\ StronglySorted Z.lt ri /\ Forall (fun v => v <> 0) rd
    /\ (forall k, denseZ ri rd k = denseZ ind1 data1 k - denseZ ind2 data2 k)
    /\ (forall k, In k ri <-> denseZ ind1 data1 k - denseZ ind2 data2 k <> 0).
Proof.
  intros ind1 data1 ind2 data2 S1 L1 S2 L2.
  assert (Hc : forall x y y' : Z, y = y' -> x + y = x + y') by (intros; subst; reflexivity).
  destruct (sparse_diff_correct Z 0 Z.add Z.opp eqzZ (@eq Z) (@eq_refl Z) (@eq_sym Z) (@eq_trans Z) eqzZ_spec
              Z.add_0_r Z.add_0_l eq_refl Hc ind1 data1 ind2 data2 (conj S1 L1) (conj S2 L2))
    as (ri & rd & A & B & C & D & E & F).
  exists ri, rd. repeat split; auto; try apply F.
  eapply Forall_impl; [|exact D]. intros v Hv Hz. subst. discriminate.
Qed.

Theorem C18_sparse_mul_Z : forall ind1 data1 ind2 data2,
  StronglySorted Z.lt ind1 -> length ind1 = length data1 ->
  StronglySorted Z.lt ind2 -> length ind2 = length data2 ->
  exists ri rd,
    sparse_mul_Z ind1 data1 ind2 data2 = Some (ri, rd)
    /\ length ri = length rd /\ StronglySorted Z.lt ri /\ Forall (fun v => v <> 0) rd
    /\ (forall k, denseZ ri rd k = denseZ ind1 data1 k * denseZ ind2 data2 k)
    /\ (forall k, In k ri <-> denseZ ind1 data1 k * denseZ ind2 data2 k <> 0).
Proof.
  intros ind1 data1 ind2 data2 S1 L1 S2 L2.
  destruct (sparse_mul_correct Z 0 Z.mul eqzZ (@eq Z) (@eq_refl Z) (@eq_sym Z) (@eq_trans Z) eqzZ_spec
              Z.mul_0_r Z.mul_0_l ind1 data1 ind2 data2 (conj S1 L1) (conj S2 L2))
    as (ri & rd & A & B & C & D & E & F).
  exists ri, rd. repeat split; auto; try apply F.
  eapply Forall_impl; [|exact D]. intros v Hv Hz. subst. discriminate.
Qed.

(* dense_union = the two vectors read off at the indices sparse_sum returns *)
Theorem C18_dense_union_Z : forall ind1 data1 ind2 data2,
  StronglySorted Z.lt ind1 -> length ind1 = length data1 ->
  StronglySorted Z.lt ind2 -> length ind2 = length data2 ->
  exists U rd,
    sparse_sum_Z ind1 data1 ind2 data2 = Some (U, rd)
    /\ dense_union_Z ind1 data1 ind2 data2 = Some (map (denseZ ind1 data1) U, map (denseZ ind2 data2) U).
Proof.
  intros ind1 data1 ind2 data2 S1 L1 S2 L2.
  exact (dense_union_correct Z 0 Z.add eqzZ ind1 data1 ind2 data2 (conj S1 L1) (conj S2 L2)).
Qed.
End K11_Z.
Print Assumptions C18_sparse_sum_Z.
Print Assumptions C18_sparse_diff_Z.
Print Assumptions C18_sparse_mul_Z.
Print Assumptions C18_dense_union_Z.

Example C18_ex_sum : sparse_sum_Z [0;5]%Z [1;1]%Z [0;7;9]%Z [-1;1;1]%Z = Some ([5;7;9]%Z, [1;1;1]%Z).
Proof. vm_compute. reflexivity. Qed.
Example C18_ex_sum_hyps : StronglySorted Z.lt [0;5]%Z /\ StronglySorted Z.lt [0;7;9]%Z.
Proof. split; repeat constructor. Qed.
Example C18_ex_mul : sparse_mul_Z [0;5;6]%Z [1;1;2]%Z [0;5;9]%Z [3;0;1]%Z = Some ([0]%Z, [3]%Z).
Proof. vm_compute. reflexivity. Qed.

(* ================================================================== K11 over Q (values compared with Qeq) *)
Section K11_Q.
Open Scope Q_scope.
Let eqzQ := fun x : Q => Qeq_bool x 0.
Let denseQ := dense Q 0.

Lemma eqzQ_spec : forall x, eqzQ x = true <-> x == 0.
Proof. intros. apply Qeq_bool_iff. Qed.

Theorem C18_sparse_sum_Q : forall ind1 data1 ind2 data2,
  StronglySorted Z.lt ind1 -> length ind1 = length data1 ->
  StronglySorted Z.lt ind2 -> length ind2 = length data2 ->
  exists ri rd,
    sparse_sum Q 0 Qplus eqzQ ind1 data1 ind2 data2 = Some (ri, rd)
    /\ length ri = length rd /\ StronglySorted Z.lt ri /\ Forall (fun v => ~ v == 0) rd
    /\ (forall k, denseQ ri rd k == denseQ ind1 data1 k + denseQ ind2 data2 k)
    /\ (forall k, In k ri <-> ~ denseQ ind1 data1 k + denseQ ind2 data2 k == 0).
Proof.
  intros ind1 data1 ind2 data2 S1 L1 S2 L2.
  destruct (sparse_sum_correct Q 0 Qplus eqzQ Qeq Qeq_refl Qeq_sym Qeq_trans eqzQ_spec
              Qplus_0_r Qplus_0_l ind1 data1 ind2 data2 (conj S1 L1) (conj S2 L2))
    as (ri & rd & A & B & C & D & E & F).
  exists ri, rd. repeat split; auto; try apply F.
  eapply Forall_impl; [|exact D]. intros v Hv Hz. apply eqzQ_spec in Hz. congruence.
Qed.

Theorem C18_sparse_diff_Q : forall ind1 data1 ind2 data2,
  StronglySorted Z.lt ind1 -> length ind1 = length data1 ->
  StronglySorted Z.lt ind2 -> length ind2 = length data2 ->
  exists ri rd,
    sparse_diff Q 0 Qplus Qopp eqzQ ind1 data1 ind2 data2 = Some (ri, rd)
    /\ length ri = length rd /\ StronglySorted Z.lt ri /\ Forall (fun v => ~ v == 0) rd
    /\ (forall k, denseQ ri rd k == denseQ ind1 data1 k - denseQ ind2 data2 k)
    /\ (forall k, In k ri <-> ~ denseQ ind1 data1 k - denseQ ind2 data2 k == 0).
Proof.
  intros ind1 data1 ind2 data2 S1 L1 S2 L2.
  assert (Hc : forall x y y' : Q, y == y' -> x + y == x + y') by (intros x y y' H; rewrite H; reflexivity).
  destruct (sparse_diff_correct Q 0 Qplus Qopp eqzQ Qeq Qeq_refl Qeq_sym Qeq_trans eqzQ_spec
              Qplus_0_r Qplus_0_l (Qeq_refl _) Hc ind1 data1 ind2 data2 (conj S1 L1) (conj S2 L2))
    as (ri & rd & A & B & C & D & E & F).
  exists ri, rd. repeat split; auto; try apply F.
  eapply Forall_impl; [|exact D]. intros v Hv Hz. apply eqzQ_spec in Hz. congruence.
Qed.

Theorem C18_sparse_mul_Q : forall ind1 data1 ind2 data2,
  StronglySorted Z.lt ind1 -> length ind1 = length data1 ->
  StronglySorted Z.lt ind2 -> length ind2 = length data2 ->
  exists ri rd,
    sparse_mul Q 0 Qmult eqzQ ind1 data1 ind2 data2 = Some (ri, rd)
    /\ length ri = length rd /\ StronglySorted Z.lt ri /\ Forall (fun v => ~ v == 0) rd
    /\ (forall k, denseQ ri rd k == denseQ ind1 data1 k * denseQ ind2 data2 k)
    /\ (forall k, In k ri <-> ~ denseQ ind1 data1 k * denseQ ind2 data2 k == 0).
Proof.
  intros ind1 data1 ind2 data2 S1 L1 S2 L2.
  destruct (sparse_mul_correct Q 0 Qmult eqzQ Qeq Qeq_refl Qeq_sym Qeq_trans eqzQ_spec
              Qmult_0_r Qmult_0_l ind1 data1 ind2 data2 (conj S1 L1) (conj S2 L2))
    as (ri & rd & A & B & C & D & E & F).
  exists ri, rd. repeat split; auto; try apply F.
  eapply Forall_impl; [|exact D]. intros v Hv Hz. apply eqzQ_spec in Hz. congruence.
Qed.
End K11_Q.
Print Assumptions C18_sparse_sum_Q.
Print Assumptions C18_sparse_diff_Q.
Print Assumptions C18_sparse_mul_Q.

Example C18_ex_sum_Q :
  sparse_sum Q 0%Q Qplus (fun x => Qeq_bool x 0%Q) [2;3]%Z [1#2; 1#3]%Q [3;8]%Z [-(2#6); 5#1]%Q
  = Some ([2;8]%Z, [1#2; 5#1]%Q).
Proof. vm_compute. reflexivity. Qed.

(* ================================================================== K12 over R *)
Open Scope R_scope.

(* valid argument: non-negative entries, positive total mass; scale c xs = c * xs (a proportional vector) *)
Definition C18_valid (xs : list R) : Prop := Forall (fun x => 0 <= x) xs /\ 0 < sumR xs.

(* ---- hellinger (model of the repaired code: radicand clamped at 0) *)
Theorem C18_hellinger_nonneg : forall eps xs ys, length xs = length ys -> 0 <= hellinger R (R_ops eps) xs ys.
Proof. exact hellinger_nonneg. Qed.
Print Assumptions C18_hellinger_nonneg.

Theorem C18_hellinger_sym : forall eps xs ys, length xs = length ys ->
  hellinger R (R_ops eps) xs ys = hellinger R (R_ops eps) ys xs.
Proof. exact hellinger_sym. Qed.
Print Assumptions C18_hellinger_sym.

Theorem C18_hellinger_zero_prop : forall eps c xs, 0 < c -> C18_valid xs ->
  hellinger R (R_ops eps) xs (map (fun x => c * x) xs) = 0.
Proof. exact hellinger_zero_prop. Qed.
Print Assumptions C18_hellinger_zero_prop.

Theorem C18_hellinger_range01 : forall eps xs ys, C18_valid xs -> C18_valid ys -> length xs = length ys ->
  0 <= hellinger R (R_ops eps) xs ys <= 1.
Proof. exact hellinger_range. Qed.
Print Assumptions C18_hellinger_range01.

Theorem C18_hellinger_triangle : forall eps xs ys zs, C18_valid xs -> C18_valid ys -> C18_valid zs ->
  length xs = length ys -> length ys = length zs ->
  hellinger R (R_ops eps) xs zs <= hellinger R (R_ops eps) xs ys + hellinger R (R_ops eps) ys zs.
Proof. exact hellinger_triangle. Qed.
Print Assumptions C18_hellinger_triangle.

(* on valid arguments the value is sqrt(1 - BC) with BC the Bhattacharyya coefficient, and 0 <= 1 - BC <= 1:
   in exact arithmetic the clamp never fires *)
Theorem C18_hellinger_is_sqrt_1_minus_bc : forall eps xs ys, C18_valid xs -> C18_valid ys -> length xs = length ys ->
  hellinger R (R_ops eps) xs ys
  = sqrt (1 - sumR (map2 (fun x y => sqrt (x * y)) xs ys) / sqrt (sumR xs * sumR ys))
  /\ 0 <= 1 - sumR (map2 (fun x y => sqrt (x * y)) xs ys) / sqrt (sumR xs * sumR ys) <= 1.
Proof. exact hellinger_valid. Qed.
Print Assumptions C18_hellinger_is_sqrt_1_minus_bc.

(* NaN-freedom of the repaired code: whatever number r the rounded evaluation of 1 - BC produced, the argument
   handed to sqrt is max(r, 0) >= 0, so the root is defined (its square is its argument) *)
Theorem C18_clamp_no_nan : forall eps r,
  0 <= pymax R (R_ops eps) r 0 /\
  sqrt (pymax R (R_ops eps) r 0) * sqrt (pymax R (R_ops eps) r 0) = pymax R (R_ops eps) r 0.
Proof. intros. split; [apply pymax_clamp|apply sqrt_sqrt; apply pymax_clamp]. Qed.
Print Assumptions C18_clamp_no_nan.

(* ---- total variation *)
Theorem C18_tv_nonneg : forall eps xs ys, 0 <= total_variation R (R_ops eps) xs ys.
Proof. exact tv_nonneg. Qed.
Print Assumptions C18_tv_nonneg.
Theorem C18_tv_sym : forall eps xs ys, total_variation R (R_ops eps) xs ys = total_variation R (R_ops eps) ys xs.
Proof. exact tv_sym. Qed.
Print Assumptions C18_tv_sym.
Theorem C18_tv_zero_prop : forall eps c xs, 0 < c -> C18_valid xs ->
  total_variation R (R_ops eps) xs (map (fun x => c * x) xs) = 0.
Proof. exact tv_zero_prop. Qed.
Print Assumptions C18_tv_zero_prop.
Theorem C18_tv_range01 : forall eps xs ys, C18_valid xs -> C18_valid ys -> length xs = length ys ->
  0 <= total_variation R (R_ops eps) xs ys <= 1.
Proof. exact tv_range. Qed.
Print Assumptions C18_tv_range01.
Theorem C18_tv_triangle : forall eps xs ys zs, length xs = length ys -> length ys = length zs ->
  total_variation R (R_ops eps) xs zs <= total_variation R (R_ops eps) xs ys + total_variation R (R_ops eps) ys zs.
Proof. exact tv_triangle. Qed.
Print Assumptions C18_tv_triangle.

(* ---- kantorovich1d, p = 1 and p = 2 *)
Theorem C18_kantorovich_p1_nonneg : forall eps xs ys, 0 <= kantorovich1d_p1 R (R_ops eps) xs ys.
Proof. exact k1_nonneg. Qed.
Print Assumptions C18_kantorovich_p1_nonneg.
Theorem C18_kantorovich_p1_sym : forall eps xs ys,
  kantorovich1d_p1 R (R_ops eps) xs ys = kantorovich1d_p1 R (R_ops eps) ys xs.
Proof. exact k1_sym. Qed.
Print Assumptions C18_kantorovich_p1_sym.
Theorem C18_kantorovich_p1_zero_prop : forall eps c xs, 0 < c -> C18_valid xs ->
  kantorovich1d_p1 R (R_ops eps) xs (map (fun x => c * x) xs) = 0.
Proof. exact k1_zero_prop. Qed.
Print Assumptions C18_kantorovich_p1_zero_prop.
Theorem C18_kantorovich_p1_triangle : forall eps xs ys zs, length xs = length ys -> length ys = length zs ->
  kantorovich1d_p1 R (R_ops eps) xs zs
  <= kantorovich1d_p1 R (R_ops eps) xs ys + kantorovich1d_p1 R (R_ops eps) ys zs.
Proof. exact k1_triangle. Qed.
Print Assumptions C18_kantorovich_p1_triangle.
Theorem C18_kantorovich_p2_nonneg : forall eps xs ys, 0 <= kantorovich1d_p2 R (R_ops eps) xs ys.
Proof. exact k2_nonneg. Qed.
Print Assumptions C18_kantorovich_p2_nonneg.
Theorem C18_kantorovich_p2_sym : forall eps xs ys,
  kantorovich1d_p2 R (R_ops eps) xs ys = kantorovich1d_p2 R (R_ops eps) ys xs.
Proof. exact k2_sym. Qed.
Print Assumptions C18_kantorovich_p2_sym.
Theorem C18_kantorovich_p2_zero_prop : forall eps c xs, 0 < c -> C18_valid xs ->
  kantorovich1d_p2 R (R_ops eps) xs (map (fun x => c * x) xs) = 0.
Proof. exact k2_zero_prop. Qed.
Print Assumptions C18_kantorovich_p2_zero_prop.
Theorem C18_kantorovich_p2_triangle : forall eps xs ys zs, length xs = length ys -> length ys = length zs ->
  kantorovich1d_p2 R (R_ops eps) xs zs
  <= kantorovich1d_p2 R (R_ops eps) xs ys + kantorovich1d_p2 R (R_ops eps) ys zs.
Proof. exact k2_triangle. Qed.
Print Assumptions C18_kantorovich_p2_triangle.

(* ---- Jensen-Shannon and symmetric KL (relative smoothing EPS > 0) *)
Theorem C18_js_nonneg : forall eps, 0 < eps -> forall xs ys, C18_valid xs -> C18_valid ys ->
  0 <= jensen_shannon_divergence R (R_ops eps) xs ys.
Proof. exact js_nonneg. Qed.
Print Assumptions C18_js_nonneg.
Theorem C18_js_sym : forall eps xs ys,
  jensen_shannon_divergence R (R_ops eps) xs ys = jensen_shannon_divergence R (R_ops eps) ys xs.
Proof. exact js_sym. Qed.
Print Assumptions C18_js_sym.
Theorem C18_js_zero_eq : forall eps xs, jensen_shannon_divergence R (R_ops eps) xs xs = 0.
Proof. exact js_zero_eq. Qed.
Print Assumptions C18_js_zero_eq.
Theorem C18_js_zero_prop : forall eps, 0 < eps -> forall c xs, 0 < c -> C18_valid xs ->
  jensen_shannon_divergence R (R_ops eps) xs (map (fun x => c * x) xs) = 0.
Proof. exact js_zero_prop. Qed.
Print Assumptions C18_js_zero_prop.
Theorem C18_skl_nonneg : forall eps, 0 < eps -> forall xs ys, C18_valid xs -> C18_valid ys ->
  0 <= symmetric_kl_divergence R (R_ops eps) xs ys.
Proof. exact skl_nonneg. Qed.
Print Assumptions C18_skl_nonneg.
Theorem C18_skl_sym : forall eps xs ys,
  symmetric_kl_divergence R (R_ops eps) xs ys = symmetric_kl_divergence R (R_ops eps) ys xs.
Proof. exact skl_sym. Qed.
Print Assumptions C18_skl_sym.
Theorem C18_skl_zero_eq : forall eps xs, symmetric_kl_divergence R (R_ops eps) xs xs = 0.
Proof. exact skl_zero_eq. Qed.
Print Assumptions C18_skl_zero_eq.
Theorem C18_skl_zero_prop : forall eps, 0 < eps -> forall c xs, 0 < c -> C18_valid xs ->
  symmetric_kl_divergence R (R_ops eps) xs (map (fun x => c * x) xs) = 0.
Proof. exact skl_zero_prop. Qed.
Print Assumptions C18_skl_zero_prop.

(* ---- sparse = dense.  to_dense n ind data = [dense ind data 0; ...; dense ind data (n-1)] *)
Theorem C18_sparse_hellinger_eq_dense : forall eps n ind1 data1 ind2 data2,
  StronglySorted Z.lt ind1 /\ length ind1 = length data1 ->
  StronglySorted Z.lt ind2 /\ length ind2 = length data2 ->
  Forall (fun j => (0 <= j < Z.of_nat n)%Z) ind1 -> Forall (fun j => (0 <= j < Z.of_nat n)%Z) ind2 ->
  Forall (fun x => 0 <= x) data1 -> Forall (fun x => 0 <= x) data2 ->
  sparse_hellinger R (R_ops eps) ind1 data1 ind2 data2
  = Some (hellinger R (R_ops eps) (to_dense n ind1 data1) (to_dense n ind2 data2)).
Proof. exact sparse_hellinger_eq_dense. Qed.
Print Assumptions C18_sparse_hellinger_eq_dense.

Theorem C18_sparse_tv_eq_dense : forall eps n ind1 data1 ind2 data2,
  StronglySorted Z.lt ind1 /\ length ind1 = length data1 ->
  StronglySorted Z.lt ind2 /\ length ind2 = length data2 ->
  Forall (fun j => (0 <= j < Z.of_nat n)%Z) ind1 -> Forall (fun j => (0 <= j < Z.of_nat n)%Z) ind2 ->
  sparse_total_variation R (R_ops eps) ind1 data1 ind2 data2
  = Some (total_variation R (R_ops eps) (to_dense n ind1 data1) (to_dense n ind2 data2)).
Proof. exact sparse_tv_eq_dense. Qed.
Print Assumptions C18_sparse_tv_eq_dense.

(* sparse JS / symmetric KL = the dense functions on the union support U = {k | x_k + y_k <> 0} *)
Theorem C18_sparse_js_skl_eq_dense_on_support : forall eps ind1 data1 ind2 data2,
  StronglySorted Z.lt ind1 /\ length ind1 = length data1 ->
  StronglySorted Z.lt ind2 /\ length ind2 = length data2 ->
  exists U, StronglySorted Z.lt U
    /\ (forall k, In k U <-> dense R 0 ind1 data1 k + dense R 0 ind2 data2 k <> 0)
    /\ sparse_jensen_shannon_divergence R (R_ops eps) ind1 data1 ind2 data2
       = Some (jensen_shannon_divergence R (R_ops eps) (map (dense R 0 ind1 data1) U) (map (dense R 0 ind2 data2) U))
    /\ sparse_symmetric_kl_divergence R (R_ops eps) ind1 data1 ind2 data2
       = Some (symmetric_kl_divergence R (R_ops eps) (map (dense R 0 ind1 data1) U) (map (dense R 0 ind2 data2) U)).
Proof. exact sparse_js_eq_dense_on_support. Qed.
Print Assumptions C18_sparse_js_skl_eq_dense_on_support.

(* non-vacuity: the hypotheses are met by concrete vectors *)
Example C18_ex_valid : C18_valid [1; 2; 0; 3] /\ C18_valid (map (fun x => 7 * x) [1; 2; 0; 3]).
Proof. split; (split; [repeat constructor; lra|simpl; lra]). Qed.
Example C18_ex_sparse_hyps :
  (StronglySorted Z.lt [1;3]%Z /\ length [1;3]%Z = length [2;5]) /\ Forall (fun j => (0 <= j < Z.of_nat 4)%Z) [1;3]%Z
  /\ Forall (fun x => 0 <= x) [2;5] /\ to_dense 4 [1;3]%Z [2;5] = [0;2;0;5].
Proof. repeat split; repeat constructor; try lia; try lra. Qed.
