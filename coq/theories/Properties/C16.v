(* C16 — LZ compression rows count each string's own parse phrases.
   Only statements, each closed by `exact <lemma>` (or a two-line assembly of lemmas), followed by Print Assumptions.
   The model is Model/K9_LZ.v (the code as repaired for D4), generic in the key type:
   phrases themselves (max_columns=None) or hash values (max_columns=m). *)
From Coq Require Import ZArith List Bool Lia Permutation.
From VZ Require Import Model.K9_LZ Proofs.K9_LZ_proofs Proofs.K9_LZ_matrix_proofs Proofs.K9_LZ_hash_proofs.
Import ListNotations.
Open Scope Z_scope.

(* PARSE: the index/slice loop of lempel_ziv_based_encode computes the parse told character by character:
   the current phrase is looked up; found -> its count goes up and it is extended by the next character;
   not found -> it is added with count 1 (or dropped when the dictionary holds max_size entries) and the next
   phrase starts with the next character.  Every key type, every hash, every base dictionary, every cap. *)
Theorem C16_parse_spec : forall (K : Type) (keqb : K -> K -> bool) (h : list Z -> K) s d cap,
  lz_encode keqb h s d cap = fst (lz_spec keqb h s [] d (Z.of_nat (length d)) cap 0).
Proof. exact lz_encode_spec. Qed.
Print Assumptions C16_parse_spec.

(* exact accounting: every character of the string adds one to some count, unless its query was dropped by the cap *)
Theorem C16_total_accounting : forall (K : Type) (keqb : K -> K -> bool) (h : list Z -> K) s d cap,
  let r := lz_spec keqb h s [] d (Z.of_nat (length d)) cap 0 in
  total (fst r) + snd r = total d + Z.of_nat (length s) /\ 0 <= snd r /\
  (snd r <> 0 -> cap <= Z.of_nat (length (fst r))).
Proof.
  intros K keqb h s d cap r. subst r.
  pose proof (lz_spec_total K keqb h s [] d (Z.of_nat (length d)) cap 0) as Ht.
  destruct (lz_spec_drops K keqb h s [] d (Z.of_nat (length d)) cap 0 eq_refl) as (_ & H2 & H3).
  simpl in *. repeat split; try lia.
Qed.
Print Assumptions C16_total_accounting.

(* ROW TOTAL: when the cap is not reached (the final dictionary has fewer than max_dict_size entries) the counts
   add up to the string length plus the base dictionary's initial counts — under ANY hash *)
Theorem C16_total : forall (K : Type) (keqb : K -> K -> bool) (h : list Z -> K) s d cap,
  Z.of_nat (length (lz_encode keqb h s d cap)) < cap ->
  total (lz_encode keqb h s d cap) = Z.of_nat (length s) + total d.
Proof. exact lz_encode_total. Qed.
Print Assumptions C16_total.

Theorem C16_total_le : forall (K : Type) (keqb : K -> K -> bool) (h : list Z -> K) s d cap,
  total (lz_encode keqb h s d cap) <= Z.of_nat (length s) + total d.
Proof. exact lz_encode_total_le. Qed.
Print Assumptions C16_total_le.

(* row totals are unchanged under any hash: two labellings of the phrases, base dictionaries of equal mass *)
Theorem C16_hash_total : forall (K1 K2 : Type) keqb1 keqb2 (h1 : list Z -> K1) (h2 : list Z -> K2) s d1 d2 cap,
  total d1 = total d2 ->
  Z.of_nat (length (lz_encode keqb1 h1 s d1 cap)) < cap -> Z.of_nat (length (lz_encode keqb2 h2 s d2 cap)) < cap ->
  total (lz_encode keqb1 h1 s d1 cap) = total (lz_encode keqb2 h2 s d2 cap).
Proof.
  intros K1 K2 k1 k2 h1 h2 s d1 d2 cap Hd H1 H2.
  rewrite (lz_encode_total K1 k1 h1 s d1 cap H1), (lz_encode_total K2 k2 h2 s d2 cap H2). lia.
Qed.
Print Assumptions C16_hash_total.

(* ROW-LOCAL and SAME COLUMN: the rows fit_transform builds while it is still growing its column dictionary are
   exactly transform's rows under the FINAL column dictionary: row i is a function of string i (and the fitted
   model) alone, a phrase keeps its column between fit_transform and transform, and columns are positions. *)
Theorem C16_same_column : forall (K : Type) (keqb : K -> K -> bool) (h : list Z -> K) base cap X colsF rows,
  (forall a b, keqb a b = true <-> a = b) ->
  fit_rows keqb h X base cap [] = (colsF, rows) ->
  rows = map (lz_transform_row keqb h colsF base cap) X /\
  lz_transform keqb h colsF base cap X = (Z.of_nat (length X), Z.of_nat (length colsF), rows) /\
  cols_ok K colsF /\ NoDup (keys colsF).
Proof.
  intros K keqb h base cap X colsF rows Hk Hfit.
  destruct (fit_rows_spec K keqb Hk h base cap X [] colsF rows Hfit) as (_ & Hrows & Hok & Hnd & _).
  split; [exact Hrows|]. split; [unfold lz_transform; rewrite Hrows; reflexivity|].
  split; [apply Hok; intros i k j Hi; destruct i; discriminate | apply Hnd; constructor].
Qed.
Print Assumptions C16_same_column.

Theorem C16_row_local : forall (K : Type) (keqb : K -> K -> bool) (h : list Z -> K) cols base cap X1 s X2,
  nth_error (snd (lz_transform keqb h cols base cap (X1 ++ s :: X2))) (length X1)
  = Some (lz_transform_row keqb h cols base cap s).
Proof.
  intros. unfold lz_transform. simpl snd. rewrite map_app. rewrite nth_error_app2 by (rewrite map_length; lia).
  rewrite map_length, Nat.sub_diag. reflexivity.
Qed.
Print Assumptions C16_row_local.

(* COUNTS: the value of a row at the column of phrase label g is the count of g in the parse of the row's string;
   a column of no label holds 0; every stored column index is inside the matrix *)
Theorem C16_row_counts : forall (K : Type) (keqb : K -> K -> bool) (h : list Z -> K) cols base cap s,
  (forall a b, keqb a b = true <-> a = b) -> cols_ok K cols ->
  (forall g j, dget keqb cols g = Some j ->
     rcell (lz_transform_row keqb h cols base cap s) j
     = match dget keqb (lz_encode keqb h s (input_dict keqb base) cap) g with Some v => v | None => 0 end) /\
  (forall j, (forall g, dget keqb cols g <> Some j) -> rcell (lz_transform_row keqb h cols base cap s) j = 0) /\
  Forall (fun e => 0 <= fst e < Z.of_nat (length cols)) (lz_transform_row keqb h cols base cap s).
Proof.
  intros K keqb h cols base cap s Hk Hok.
  split; [intros g j Hg; apply (transform_row_cell K keqb Hk h); assumption|].
  split; [intros j Hno; apply transform_row_other; assumption | apply (transform_row_in_range K keqb Hk h); assumption].
Qed.
Print Assumptions C16_row_counts.

(* HASH RELABEL, one string: if the labelling h is injective on the phrases the un-hashed parse queries and on the
   keys of the base dictionary, the hashed parse dictionary is the un-hashed one with its keys relabelled *)
Theorem C16_hash_relabel : forall (K : Type) (keqb : K -> K -> bool) (h : list Z -> K) (Q : list (list Z)) s d cap,
  (forall a b, keqb a b = true <-> a = b) ->
  (forall x y, In x Q -> In y Q -> h x = h y -> x = y) ->
  incl (keys d) Q -> incl (lz_queries s [] d (Z.of_nat (length d)) cap) Q ->
  lz_encode keqb h s (map_keys h d) cap = map_keys h (lz_encode list_eqb idh s d cap).
Proof.
  intros K keqb h Q s d cap Hk Hinj Hd Hq. exact (proj1 (lz_encode_relabel K keqb Hk h Q Hinj s d cap Hd Hq)).
Qed.
Print Assumptions C16_hash_relabel.

(* HASH RELABEL, whole corpus: when no two phrases of the corpus (queried phrases, base keys) share a hash value, the
   hashed fit_transform produces the SAME rows as the un-hashed one and its column dictionary is the un-hashed one
   with the phrases replaced by their hashes *)
Theorem C16_hash_relabel_fit : forall (K : Type) (keqb : K -> K -> bool) (h : list Z -> K) (Q : list (list Z)) base cap X,
  (forall a b, keqb a b = true <-> a = b) ->
  (forall x y, In x Q -> In y Q -> h x = h y -> x = y) ->
  incl (keys base) Q ->
  (forall s, In s X ->
     incl (lz_queries s [] (input_dict list_eqb base) (Z.of_nat (length (input_dict list_eqb base))) cap) Q) ->
  fit_rows keqb h X (map_keys h base) cap []
  = (map_keys h (fst (fit_rows list_eqb idh X base cap [])), snd (fit_rows list_eqb idh X base cap [])).
Proof.
  intros K keqb h Q base cap X Hk Hinj Hb HX.
  exact (fit_rows_relabel K keqb Hk h Q Hinj base cap X [] Hb (fun x H => match H with end) HX).
Qed.
Print Assumptions C16_hash_relabel_fit.

(* MAX COLUMNS: labels in [0, m) (the murmur hash modulo m is, see C16_hash_range) => at most m columns *)
Theorem C16_max_columns : forall (hz : list Z -> Z) m base cap X colsF rows,
  0 <= m -> (forall q, 0 <= hz q < m) -> Forall (fun k => 0 <= k < m) (keys base) ->
  fit_rows Z.eqb hz X base cap [] = (colsF, rows) ->
  Z.of_nat (length colsF) <= m /\ Forall (fun k => 0 <= k < m) (keys colsF) /\ cols_ok Z colsF.
Proof. exact fit_rows_max_columns. Qed.
Print Assumptions C16_max_columns.

Theorem C16_hash_range : forall m seed p, 0 < m -> 0 <= lz_hash m seed p < m.
Proof. exact lz_hash_range. Qed.
Print Assumptions C16_hash_range.

(* the estimator with max_columns = m: at most m columns *)
Theorem C16_max_columns_estimator : forall cap m seed base X cols n w rows,
  Forall (fun k => 0 <= k < m) (keys base) ->
  lz_fit_transform_hashed cap m seed base X = LzOk (cols, (n, w, rows)) ->
  w = Z.of_nat (length cols) /\ w <= m /\ n = Z.of_nat (length X) /\
  rows = map (lz_transform_row Z.eqb (lz_hash m seed) cols base cap) X.
Proof.
  intros cap m seed base X cols n w rows Hb H. unfold lz_fit_transform_hashed in H.
  destruct (cap <=? 1); [discriminate|]. destruct (m <=? 1) eqn:Em; [discriminate|]. apply Z.leb_gt in Em.
  destruct (fit_rows Z.eqb (lz_hash m seed) X base cap []) as [c r] eqn:Ef. inversion H; subst.
  destruct (fit_rows_max_columns (lz_hash m seed) m base cap X cols rows ltac:(lia)
              (fun q => lz_hash_range m seed q ltac:(lia)) Hb Ef) as (H1 & _ & _).
  destruct (fit_rows_spec Z Z.eqb Z.eqb_eq (lz_hash m seed) base cap X [] cols rows Ef) as (_ & Hrows & _).
  auto.
Qed.
Print Assumptions C16_max_columns_estimator.

(* ---------------------------------------------------------------- non-vacuity *)
Example ex_strings : list (list Z) := [[97; 98; 97; 98; 97; 98; 97; 98]; [97; 98; 99; 97; 98; 99]; []; [97]].

(* un-hashed fit_transform; row totals = string lengths 8, 6, 0, 1 *)
Example ex_plain :
  lz_fit_transform_plain 65536 [] ex_strings
  = LzOk ([([], 0); ([97], 1); ([98], 2); ([97; 98], 3); ([97; 98; 97], 4); ([99], 5)],
          (4, 6, [[(0, 1); (1, 3); (2, 1); (3, 2); (4, 1)]; [(0, 1); (1, 2); (2, 1); (3, 1); (5, 1)]; []; [(0, 1)]])).
Proof. vm_compute. reflexivity. Qed.

(* the cap is hit (max_dict_size = 2): totals fall short, C16_total's hypothesis fails, C16_total_le holds *)
Example ex_cap :
  let d := lz_encode list_eqb idh [97; 98; 97; 98; 97; 98; 97; 98] [] 2 in
  d = [([], 1); ([97], 4)] /\ total d = 5 /\ Z.of_nat (length d) = 2.
Proof. vm_compute. repeat split. Qed.

(* hashing with 8 columns and the seed numpy draws for random_state=3: "", "a", "b" collide (label 1), the rows are
   NOT a relabelling; with 65536 columns the labelling is injective on the phrases and the rows coincide *)
Example ex_hashed_collide :
  lz_fit_transform_hashed 65536 8 218175338 [] ex_strings
  = LzOk ([(1, 0); (3, 1); (6, 2); (0, 3); (2, 4)],
          (4, 5, [[(0, 4); (1, 2); (2, 1); (3, 1)]; [(0, 3); (1, 2); (4, 1)]; []; [(0, 1)]])).
Proof. vm_compute. reflexivity. Qed.

Example ex_hashed_injective :
  match lz_fit_transform_hashed 65536 65536 218175338 [] ex_strings, lz_fit_transform_plain 65536 [] ex_strings with
  | LzOk (ch, mh), LzOk (cp, mp) => mh = mp /\ ch = map_keys (lz_hash 65536 218175338) cp
  | _, _ => False
  end.
Proof. vm_compute. split; reflexivity. Qed.

(* an unseen phrase at transform is dropped, the row keeps the fitted width *)
Example ex_transform_unseen :
  lz_transform list_eqb idh [([], 0); ([97], 1); ([98], 2); ([97; 98], 3)] [] 65536 [[120; 121; 120]; [97; 98; 97]]
  = (2, 4, [[(0, 1)]; [(0, 1); (1, 1); (2, 1)]]).
Proof. vm_compute. reflexivity. Qed.
