(* C01 (continued) — the numeric estimators: KDEVectorizer, DistributionVectorizer, WassersteinVectorizer (LOT_exact for
   'spmatrix' / 'lil' / 'generator' input, LOT_sinkhorn, HeuristicLinearAlgebra), SinkhornVectorizer,
   ApproximateWassersteinVectorizer.  The modelled transform skeletons (Model/C01_NumericRows.v, built on the loops,
   blocks and chunks of Model/K19_RowWise.v that C12 ties to the code) return exactly length X' rows, in input order, of
   the fitted width, for EVERY block size and chunk size >= 1.  The per-item numerics are parameters: KernelDensity,
   GaussianMixture, the transport plan / Sinkhorn iteration and the SVD stay oracles (C07 / C08 / C12 / C20).
   Statements only; where a theorem exists (C12, C08, C20) it is restated with `exact`. *)
From Coq Require Import QArith List Arith Bool.
From VZ Require Import Model.K19_RowWise Model.K15_HistKDE Model.K15_KDEexec Model.C01_NumericRows.
From VZ Require Import Proofs.K19_RowWise_proofs Proofs.C01_NumericRows_proofs.
From VZ Require Model.K17_LOTglue Properties.C12 Properties.C08 Proofs.K15_KDEgrid_proofs.
Import ListNotations.
Open Scope nat_scope.

(* rows_ok row w X R : R has one row per item of X, row i is `row` of item i, every row has width w *)
Theorem C01_rows_ok_spec : forall (A C : Type) (row : A -> list C) w X R,
  rows_ok row w X R <->
  (length R = length X /\ (forall i d, i < length X -> nth i R [] = row (nth i X d)) /\ Forall (fun r => length r = w) R).
Proof. intros. reflexivity. Qed.
Print Assumptions C01_rows_ok_spec.

(* ================= the partition facts everything rests on (restated from C12) ================= *)
Theorem C01_blocks_partition : forall b n, 0 < b -> concat (map range (blocks b n)) = seq 0 n.
Proof. exact C12.C12_blocks_partition. Qed.
Print Assumptions C01_blocks_partition.

Theorem C01_chunks_partition : forall c bs be, 0 < c -> bs <= be -> concat (map range (chunks c bs be)) = seq bs (be - bs).
Proof. exact C12.C12_chunks_partition. Qed.
Print Assumptions C01_chunks_partition.

Theorem C01_kernel_chunks_partition : forall c n, 0 < c -> concat (map range (kernel_chunks c n)) = seq 0 n.
Proof. exact C12.C12_kernel_chunks_partition. Qed.
Print Assumptions C01_kernel_chunks_partition.

Theorem C01_block_chunk_pieces : forall (A : Type) (X : list A) b c, 0 < b -> 0 < c ->
  concat (map (fun blk => concat (map (rows_of X) (chunks c (fst blk) (snd blk)))) (blocks b (length X))) = X.
Proof. exact C12.C12_block_chunk_pieces. Qed.
Print Assumptions C01_block_chunk_pieces.

(* the block size derived from memory_size is >= 1, the LOT chunk size max(256, block_size // 64) too *)
Theorem C01_block_and_chunk_sizes_valid : forall memory_size lot_dimension,
  0 < K17_LOTglue.block_size_of memory_size lot_dimension /\
  0 < Nat.max 256 (K17_LOTglue.block_size_of memory_size lot_dimension / 64).
Proof. intros m l. split; [apply C08.C08_block_size_valid|apply Nat.lt_le_trans with 256; [apply Nat.lt_0_succ|apply Nat.le_max_l]]. Qed.
Print Assumptions C01_block_and_chunk_sizes_valid.

(* ================= KDEVectorizer ================= *)
(* np.empty((len(X), n_components)) filled row by row: whatever the uninitialised contents, the result is one density
   row per sequence, in order, of width n_components = the size of the fitted grid *)
Theorem C01_kde_rows : forall (T : Type) add div zero of_nat kern (h : T) grid n garbage (X : list (list T)),
  length garbage = length X -> length grid = n ->
  kde_loop (kde_row T add div zero of_nat kern h grid) n garbage X = Some (kde_transform T add div zero of_nat kern h grid X) /\
  rows_ok (kde_row T add div zero of_nat kern h grid) n X (kde_transform T add div zero of_nat kern h grid X).
Proof.
  intros T add div zero of_nat kern h grid n garbage X Hg Hn.
  assert (Hw : forall xs, length (kde_row T add div zero of_nat kern h grid xs) = n)
    by (intro xs; unfold kde_row; now rewrite map_length).
  split; [now apply kde_loop_rows|now apply map_rows_ok].
Qed.
Print Assumptions C01_kde_rows.

(* the grid fitted by either strategy has exactly n_components points (the lemma behind C20_kde_grid_length; not taken
   from Properties/C20_kde.v only to keep the real-number library out of this file) *)
Theorem C01_kde_fitted_width : forall density flat n, length (kde_fit_grid density flat n) = n.
Proof. exact K15_KDEgrid_proofs.kde_fit_grid_length. Qed.
Print Assumptions C01_kde_fitted_width.

(* the width test of `result[i] = row` is what the hypothesis length grid = n_components is for *)
Theorem C01_kde_width_mismatch_raises : forall (T : Type) add div zero of_nat kern (h : T) grid n garbage (X : list (list T)),
  length garbage = length X -> X <> [] -> length grid <> n ->
  kde_loop (kde_row T add div zero of_nat kern h grid) n garbage X = None.
Proof.
  intros T add div zero of_nat kern h grid n garbage X Hg Hne Hn. destruct X as [|x X]; [congruence|].
  apply kde_loop_width_mismatch with (x := x); [exact Hg|now left|]. unfold kde_row. now rewrite map_length.
Qed.
Print Assumptions C01_kde_width_mismatch_raises.

(* ================= DistributionVectorizer ================= *)
(* np.vstack of one vectorize_diagram per item: len(X') rows in order, one column per mixture component - for every
   diagram, the empty one included (its row is all zero) *)
Theorem C01_distribution_rows : forall (T P Comp : Type) add div abs zero one eqz (lik : Comp -> P -> T) comps X,
  X <> [] ->
  exists R, distribution_transform T P Comp add div abs zero one eqz lik comps X = Some R /\
            rows_ok (vectorize_diagram T P Comp add div abs zero one eqz lik comps) (length comps) X R.
Proof.
  intros T P Comp add div abs zero one eqz lik comps X Hne. eexists. split; [now apply distribution_transform_rows|].
  apply map_rows_ok. intro x. apply vectorize_diagram_length.
Qed.
Print Assumptions C01_distribution_rows.

(* ================= WassersteinVectorizer, method LOT_exact ================= *)
(* 'spmatrix' and 'lil' input: block loop around the chunked kernel, block @ components_.T, np.vstack(result_blocks) *)
Theorem C01_wasserstein_rows : forall (T A : Type) dot (lotrow : A -> list T) d zero_row comps b c X,
  0 < b -> 0 < c ->
  exists R, wasserstein_transform T A dot lotrow d zero_row comps b c X = Some R /\
            R = map (fun x => project T dot comps (lotrow x)) X /\
            rows_ok (fun x => project T dot comps (lotrow x)) (length comps) X R.
Proof.
  intros T A dot lotrow d zero_row comps b c X Hb Hc. eexists. split; [now apply wasserstein_transform_rows|].
  split; [reflexivity|]. apply map_rows_ok. intro x. apply project_length.
Qed.
Print Assumptions C01_wasserstein_rows.

(* ... in particular for the block / chunk sizes transform derives from memory_size *)
Theorem C01_wasserstein_rows_memory_size : forall (T A : Type) dot (lotrow : A -> list T) d zero_row comps memory_size lot_dimension X,
  let b := K17_LOTglue.block_size_of memory_size lot_dimension in
  wasserstein_transform T A dot lotrow d zero_row comps b (Nat.max 256 (b / 64)) X
  = Some (map (fun x => project T dot comps (lotrow x)) X).
Proof.
  intros T A dot lotrow d zero_row comps m l X b.
  destruct (C01_block_and_chunk_sizes_valid m l) as [Hb Hc]. now apply wasserstein_transform_rows.
Qed.
Print Assumptions C01_wasserstein_rows_memory_size.

(* 'generator' input delivering generator_n_distributions = n >= 1 items: the stream is consumed chunk by chunk, empty
   blocks and chunks are skipped, and the result is again one projected LOT row per item, in stream order *)
Theorem C01_wasserstein_generator_rows : forall (T A : Type) dot (lotrow : A -> list T) d zero_row comps b c stream,
  0 < b -> 0 < c -> stream <> [] ->
  exists R, generator_transform T A dot lotrow d zero_row comps b c (length stream) stream = Some R /\
            rows_ok (fun x => project T dot comps (lotrow x)) (length comps) stream R.
Proof.
  intros T A dot lotrow d zero_row comps b c stream Hb Hc Hne. eexists. split; [now apply generator_transform_rows|].
  apply map_rows_ok. intro x. apply project_length.
Qed.
Print Assumptions C01_wasserstein_generator_rows.

(* ================= SinkhornVectorizer / WassersteinVectorizer(method='LOT_sinkhorn') ================= *)
(* blocks of chunks, one batch call per chunk.  The batch kernel is NOT row-wise (C12_sinkhorn_batch_refuted), so the
   statement is: if the kernel returns one row per chunk item, the transform returns length X' rows of width n_components ... *)
Theorem C01_sinkhorn_shape : forall (T A : Type) dot (batch : list A -> list (list T)) comps b c X,
  0 < b -> 0 < c -> (forall Y, length (batch Y) = length Y) ->
  length (sinkhorn_transform T A dot batch comps b c X) = length X /\
  Forall (fun r => length r = length comps) (sinkhorn_transform T A dot batch comps b c X).
Proof. exact sinkhorn_transform_shape. Qed.
Print Assumptions C01_sinkhorn_shape.

(* ... and in input order: any relation R the kernel guarantees between each chunk item and its own output row holds
   between item i of X' and (the pre-image under the projection of) row i of the result *)
Theorem C01_sinkhorn_rows_in_order : forall (T A : Type) dot (batch : list A -> list (list T)) (R : A -> list T -> Prop) comps b c X,
  0 < b -> 0 < c -> (forall Y, Forall2 R Y (batch Y)) ->
  Forall2 (fun x r => exists r0, R x r0 /\ r = project T dot comps r0) X (sinkhorn_transform T A dot batch comps b c X).
Proof. exact sinkhorn_transform_rows. Qed.
Print Assumptions C01_sinkhorn_rows_in_order.

(* for the batched Sinkhorn iteration of K19 (shared stopping time): row i is the projection of the read-out of an
   iterate of item i itself *)
Theorem C01_sinkhorn_batch_rows : forall (T Item St : Type) dot init step nonfinite converged max_iter
    (readout : Item -> St -> list T) comps b c X,
  0 < b -> 0 < c ->
  Forall2 (fun x r => exists n, r = project T dot comps (readout x (iter n (step x) (init x)))) X
          (sinkhorn_transform T Item dot (sink_batch T Item St init step nonfinite converged max_iter readout) comps b c X).
Proof. exact sinkhorn_batch_transform_rows. Qed.
Print Assumptions C01_sinkhorn_batch_rows.

(* a row-wise kernel gives the per-item map (restating C12_block_chunkwise through the projection) *)
Theorem C01_sinkhorn_rowwise : forall (T A : Type) dot (batch : list A -> list (list T)) (row : A -> list T) comps b c X,
  0 < b -> 0 < c -> (forall Y, batch Y = map row Y) ->
  sinkhorn_transform T A dot batch comps b c X = map (fun x => project T dot comps (row x)) X.
Proof. exact sinkhorn_transform_rowwise. Qed.
Print Assumptions C01_sinkhorn_rowwise.

(* ================= ApproximateWassersteinVectorizer / HeuristicLinearAlgebra ================= *)
(* ((X @ vectors_) / rowsum^p) @ components_.T / sqrt(singular_values_): one row per row of X', in order, one column per
   fitted component (components_ and singular_values_ come from the same randomized_svd call: equally many) *)
Theorem C01_approx_rows : forall (T : Type) div sqrt zero add dot pow vectors_cols comps (sv : list T) p X,
  length sv = length comps ->
  rows_ok (approx_row T div sqrt zero add dot pow vectors_cols comps sv p) (length comps) X
          (approx_transform T div sqrt zero add dot pow vectors_cols comps sv p X).
Proof. exact approx_transform_rows. Qed.
Print Assumptions C01_approx_rows.

(* ================= non-vacuity: concrete instances (T = nat) ================= *)
Definition ex_dot (r c : list nat) : nat := fold_right Nat.add 0 (map (fun p => fst p * snd p) (combine r c)).
Definition ex_lotrow (x : nat) : list nat := [x; x + 1].
Definition ex_comps : list (list nat) := [[1; 0]; [0; 1]; [1; 1]].

Example C01_ex_wasserstein :
  wasserstein_transform nat nat ex_dot ex_lotrow 0 [0; 0] ex_comps 2 1 [1; 2; 3; 4; 5]
  = Some [[1; 2; 3]; [2; 3; 5]; [3; 4; 7]; [4; 5; 9]; [5; 6; 11]]
  /\ wasserstein_transform nat nat ex_dot ex_lotrow 0 [0; 0] ex_comps 5 256 [1; 2; 3; 4; 5]     (* last block empty *)
  = Some [[1; 2; 3]; [2; 3; 5]; [3; 4; 7]; [4; 5; 9]; [5; 6; 11]].
Proof. split; vm_compute; reflexivity. Qed.

Example C01_ex_generator :
  generator_transform nat nat ex_dot ex_lotrow 0 [0; 0] ex_comps 2 3 5 [1; 2; 3; 4; 5]
  = Some [[1; 2; 3]; [2; 3; 5]; [3; 4; 7]; [4; 5; 9]; [5; 6; 11]]
  /\ generator_transform nat nat ex_dot ex_lotrow 0 [0; 0] ex_comps 2 3 5 [1; 2; 3] = None.   (* stream too short: np.vstack([]) *)
Proof. split; vm_compute; reflexivity. Qed.

(* a batch kernel that is not row-wise (each row also sees the size of its chunk): rows still come out in input order *)
Example C01_ex_sinkhorn :
  sinkhorn_transform nat nat ex_dot (fun Y => map (fun x => [x; length Y]) Y) ex_comps 3 2 [10; 20; 30; 40; 50]
  = [[10; 2; 12]; [20; 2; 22]; [30; 1; 31]; [40; 2; 42]; [50; 2; 52]].
Proof. vm_compute. reflexivity. Qed.

Example C01_ex_kde_loop :
  kde_loop (fun xs : list nat => map (fun g => g + length xs) [10; 20; 30]) 3 [[7]; [8; 9]] [[1; 1]; [5]]
  = Some [[12; 22; 32]; [11; 21; 31]]
  /\ kde_loop (fun xs : list nat => map (fun g => g + length xs) [10; 20; 30]) 4 [[7]; [8; 9]] [[1; 1]; [5]] = None.
Proof. split; vm_compute; reflexivity. Qed.

Example C01_ex_distribution :
  option_map (map (map Qred))
    (distribution_transform Q Q Q Qplus Qdiv Qabs.Qabs 0%Q 1%Q (Qeq_bool 0%Q) Qmult [1; 2; 3]%Q [[6; 12]; []; [6]]%Q)
  = Some [[1 # 3; 2 # 3; 1]; [0; 0; 0]; [1 # 6; 1 # 3; 1 # 2]]%Q.
Proof. vm_compute. reflexivity. Qed.
