(* C03 — Co-occurrence matrices equal the windowed, kernel-weighted count definition.
   Only statements, each closed by `exact <lemma>`, followed by Print Assumptions.
   Model: Model/K02_Windows.v (windows, kernels), Model/K03_Cooc.v (drivers as event-list generators, orientation
   expansion, column dictionary).  Spec: Model/K03_CoocSpec.v (pointwise indicator sums).  The matrix is
   `sumby events` (the accumulator's interface).  K is any carrier whose (add, zero) is a commutative monoid;
   the order/field statements are over the rationals Qc. *)
From Coq Require Import Reals List Arith Bool Lia QArith Qcanon.
From VZ Require Import Model.K02_Windows Model.K03_Cooc Model.K03_CoocSpec Model.K03_Exec
     Proofs.K03_BigSum Proofs.K02_Windows_proofs Proofs.K02_Qc_proofs Proofs.K03_Cooc_proofs
     Proofs.K03_Drivers_proofs Proofs.K03_Blocks_proofs Proofs.K03_Multi_proofs Proofs.K03_Qc_proofs Proofs.K02_Time_proofs
     Proofs.K03_Saturate_proofs.
Import ListNotations.
Open Scope nat_scope.

(* ---------------- K2: windows ---------------- *)

(* the 'after' window of p = the positions p+1 .. p+R that exist, in distance order (R = 0: empty; R >= len: all) *)
Theorem C03_window_after : forall A (d : A) (s : list A) R p, p < length s ->
  window_at_index s R p false = map (fun k => nth (p + k) s d) (seq 1 (Nat.min R (length s - 1 - p))).
Proof. exact window_after_spec. Qed.
Print Assumptions C03_window_after.

(* the 'before' window of p = the positions p-1, p-2 .. p-R that exist, in distance order *)
Theorem C03_window_before : forall A (d : A) (s : list A) R p, p < length s ->
  window_at_index s R p true = map (fun k => nth (p - k) s d) (seq 1 (Nat.min R p)).
Proof. exact window_before_spec. Qed.
Print Assumptions C03_window_before.

(* as a set: exactly the in-range positions within distance R on that side, each once *)
Theorem C03_window_positions : forall reverse R p L q, p < L ->
  (In q (win_positions reverse R p L) <-> q < L /\ in_win reverse R p q = true) /\ NoDup (win_positions reverse R p L).
Proof. intros; split; [apply win_positions_In; assumption | apply win_positions_NoDup]. Qed.
Print Assumptions C03_window_positions.

(* ---------------- K2: kernels ---------------- *)

(* un-normalised kernel: slot j (distance j+1) gets kf (j+1), or 0 within the first `offset` distances / on the mask *)
Theorem C03_kernel_pointwise : forall (K : carrier) (kf : nat -> K) mask off (win : list nat) j, j < length win ->
  nth j (kernel kf mask false off win) zero =
  if (j <? off) || is_mask mask (nth j win 0) then zero else kf (j + 1).
Proof. exact kernel_nth. Qed.
Print Assumptions C03_kernel_pointwise.

Theorem C03_timed_kernel_pointwise : forall (K : carrier) Tm (g : Tm -> K) (t0 : Tm) mask off (win : list nat) (deltas : list Tm) j,
  length win = length deltas -> j < length win ->
  nth j (timed_kernel g mask false off win deltas) zero =
  if (j <? off) || is_mask mask (nth j win 0) then zero else g (nth j deltas t0).
Proof. exact timed_kernel_nth. Qed.
Print Assumptions C03_timed_kernel_pointwise.

(* a normalised kernel of non-negative weights sums to 1, or is all zero *)
Theorem C03_kernel_normalized : forall (kf : nat -> Qc) mask off (win : list nat),
  (forall k, (0 <= kf k)%Qc) ->
  qsum (@kernel QcK kf mask true off win) = 1%Qc \/ Forall (fun x => x = 0%Qc) (@kernel QcK kf mask true off win).
Proof. exact kernel_normalized_sum. Qed.
Print Assumptions C03_kernel_normalized.

(* ---------------- K3: the token driver ---------------- *)

Theorem C03_token : forall (K : carrier), carrier_laws K ->
  forall (blocks : list (block K)) nw n docs r c i,
  Forall (Forall (fun t => t < n)) docs -> c < n ->
  sumby (token_events blocks nw n docs) r (c + i * n) = token_spec blocks nw docs r c i.
Proof. intros K HK. exact (token_cooc HK). Qed.
Print Assumptions C03_token.

(* with non-negative mix weights and kernel functions the positivity filter of the drivers drops nothing *)
Theorem C03_token_nonneg : forall (blocks : list (block QcK)) nw (d : list nat) r p i c,
  Forall (fun b : block QcK => (0 <= (b_mix b : Qc))%Qc /\ forall k, (0 <= (b_kf b k : Qc))%Qc) blocks -> p < length d ->
  p_cell (length d) (fun q => nth q d 0) nw (token_pblocks blocks r p) i c =
  match nth_error (token_pblocks blocks r p) i with
  | Some b => @isum QcK (length d) (fun q => if p_in b q && Nat.eqb (nth q d 0) c
                then (p_weight (length d) (fun q => nth q d 0%nat) b q / p_total (length d) (fun q => nth q d 0%nat) nw (token_pblocks blocks r p))%Qc
                else 0%Qc)
  | None => 0%Qc
  end.
Proof. exact token_cell_nonneg. Qed.
Print Assumptions C03_token_nonneg.

Theorem C03_no_cross_boundary : forall (K : carrier) (blocks : list (block K)) nw n docs1 docs2,
  token_events blocks nw n (docs1 ++ docs2) = token_events blocks nw n docs1 ++ token_events blocks nw n docs2.
Proof. intros K. exact token_events_app. Qed.
Print Assumptions C03_no_cross_boundary.

(* every event of accumulator i lies in the column block [i*n, (i+1)*n), in a vocabulary row, with a positive value *)
Theorem C03_block_columns : forall (K : carrier) (blocks : list (block K)) nw n docs e,
  Forall (Forall (fun t => t < n)) docs -> In e (token_events blocks nw n docs) ->
  e_blk e < length blocks /\ e_blk e * n <= e_col e < (e_blk e + 1) * n /\ e_row e < n /\ gtb0 (e_val e) = true.
Proof. exact token_events_block_columns. Qed.
Print Assumptions C03_block_columns.

(* declared order: the k-th (window, orientation) pair of the expansion (directional = [before, after]) is block k,
   and _set_column_dicts names its columns pre_/post_<window>_<token> at token + k*n — and nothing else *)
Theorem C03_blocks : forall n os k pre w,
  nth_error (block_tags os) k = Some (pre, w) ->
  nth_error (reversals os) k = Some pre /\
  forall t, t < n -> In (pre, w, t, t + k * n) (column_dict n os).
Proof. exact column_dict_blocks. Qed.
Print Assumptions C03_blocks.

Theorem C03_blocks_complete : forall n os pre w t col, In (pre, w, t, col) (column_dict n os) ->
  exists k, nth_error (block_tags os) k = Some (pre, w) /\ t < n /\ col = t + k * n.
Proof. exact column_dict_complete. Qed.
Print Assumptions C03_blocks_complete.

(* fixed radii, no window normalisation, kernel depending on the distance only (no mask, no kernel normalisation):
   the 'before' block is the transpose of the 'after' block *)
Theorem C03_before_transpose : forall (K : carrier), carrier_laws K ->
  forall (blocks : list (block K)) docs n R i j bi bj r c,
  nth_error blocks i = Some bi -> nth_error blocks j = Some bj ->
  b_rev bi = true -> b_rev bj = false ->
  b_kf bi = b_kf bj -> b_off bi = b_off bj -> b_mix bi = b_mix bj ->
  b_mask bi = None -> b_mask bj = None -> b_norm bi = false -> b_norm bj = false ->
  (forall x, x < n -> nth x (b_radii bi) 0 = R) -> (forall x, x < n -> nth x (b_radii bj) 0 = R) ->
  Forall (Forall (fun t => t < n)) docs -> r < n -> c < n ->
  sumby (token_events blocks false n docs) r (c + i * n) = sumby (token_events blocks false n docs) c (r + j * n).
Proof.
  intros K HK blocks docs n R i j bi bj r c Hi Hj ? ? ? ? ? ? ? ? ? ? ? Hdocs Hr Hc.
  rewrite !(token_cooc HK) by assumption.
  exact (token_before_transpose HK blocks docs n R i j bi bj r c Hi Hj H H0 H1 H2 H3 H4 H5 H6 H7 H8 H9 Hr Hc).
Qed.
Print Assumptions C03_before_transpose.

(* ---------------- K3: the n-gram driver ---------------- *)
(* row = the n-gram occupying positions [a, a+size) if it is in the dictionary; 'after' window anchored at its last
   token, 'before' window at its first token; radius looked up by n-gram id; columns are single tokens *)
Theorem C03_ngram : forall (K : carrier), carrier_laws K ->
  forall (blocks : list (block K)) nw n dict size docs r c i,
  1 <= size -> Forall (Forall (fun t => t < n)) docs -> c < n ->
  sumby (ngram_events blocks nw n dict size docs) r (c + i * n) = ngram_spec blocks nw dict size docs r c i.
Proof. intros K HK. exact (ngram_cooc HK). Qed.
Print Assumptions C03_ngram.

Theorem C03_ngram_no_cross_boundary : forall (K : carrier) (blocks : list (block K)) nw n dict size docs1 docs2,
  ngram_events blocks nw n dict size (docs1 ++ docs2)
  = ngram_events blocks nw n dict size docs1 ++ ngram_events blocks nw n dict size docs2.
Proof. intros K. exact ngram_events_app. Qed.
Print Assumptions C03_ngram_no_cross_boundary.

(* ---------------- K3: the timed driver ---------------- *)
(* base weight of a context = g(|t_q - t_p|) for an arbitrary g (flat: 1; geometric: power^(delta/mean gap)) *)
Theorem C03_timed : forall (K : carrier), carrier_laws K ->
  forall Tm (absdiff : Tm -> Tm -> Tm) (t0 : Tm) (blocks : list (tblock K Tm)) nw n docs r c i,
  Forall (Forall (fun it => fst it < n)) docs -> c < n ->
  sumby (timed_events absdiff t0 blocks nw n docs) r (c + i * n) = timed_spec absdiff t0 blocks nw docs r c i.
Proof. intros K HK. exact (timed_cooc HK). Qed.
Print Assumptions C03_timed.

(* the weights depend only on timestamp differences: any re-timing f that preserves |t1 - t2| (a shift by 1.6e9,
   say) leaves the whole event list unchanged *)
Theorem C03_timed_shift : forall (K : carrier) Tm (absdiff : Tm -> Tm -> Tm) (t0 t0' : Tm) (f : Tm -> Tm)
    (blocks : list (tblock K Tm)) nw n docs,
  (forall a b, absdiff (f a) (f b) = absdiff a b) ->
  timed_events absdiff t0' blocks nw n (map (map (fun it => (fst it, f (snd it)))) docs)
  = timed_events absdiff t0 blocks nw n docs.
Proof. intros K. exact timed_events_shift. Qed.
Print Assumptions C03_timed_shift.

Theorem C03_timed_shift_Z : forall (blocks : list (tblock QcK Z)) nw n docs (s : Z),
  timed_events zabsdiff 0%Z blocks nw n (map (map (fun it => (fst it, (snd it + s)%Z))) docs)
  = timed_events zabsdiff 0%Z blocks nw n docs.
Proof.
  intros. apply (timed_events_shift (K:=QcK) Z zabsdiff 0%Z 0%Z (fun t => (t + s)%Z)).
  intros a b. unfold zabsdiff. f_equal. lia.
Qed.
Print Assumptions C03_timed_shift_Z.

(* time axis (Flocq, binary64 = FLT(-1074, 53), round to nearest even): the difference of two stored timestamps within a
   factor 2 of each other (any two unix-scale timestamps) is computed exactly, so with float64 storage the timed
   weights are functions of the exact differences whatever the magnitude.  (The float32 storage of the unrepaired
   code is refuted by the corpus case D11 of the check, not in Coq.) *)
Theorem C03_time_exact : forall t1 t2 : R, b64 t1 -> b64 t2 -> (t2 / 2 <= t1 <= 2 * t2)%R ->
  rnd64 (t1 - t2)%R = (t1 - t2)%R /\ rnd64 (Rabs (t1 - t2)) = Rabs (t1 - t2).
Proof. intros; split; [apply time_difference_exact | apply time_absdiff_exact]; assumption. Qed.
Print Assumptions C03_time_exact.

(* ---------------- K3: the multiset driver ---------------- *)
Theorem C03_multiset : forall (K : carrier), carrier_laws K ->
  forall (blocks : list (block K)) nw n docs r c i,
  Forall (Forall (Forall (fun t => t < n))) docs -> c < n ->
  sumby (multi_events blocks nw n docs) r (c + i * n) = multi_spec blocks nw docs r c i.
Proof. exact multi_cooc. Qed.
Print Assumptions C03_multiset.

Theorem C03_multiset_no_cross_boundary : forall (K : carrier) (blocks : list (block K)) nw n docs1 docs2,
  multi_events blocks nw n (docs1 ++ docs2) = multi_events blocks nw n docs1 ++ multi_events blocks nw n docs2.
Proof. exact multi_events_app. Qed.
Print Assumptions C03_multiset_no_cross_boundary.

(* the association-list matrix that the correspondence check prints (Model/K03_Exec.v matrix_of) is sumby *)
Theorem C03_matrix_of : forall (evs : list (event QcK)) r c, matrix_get (matrix_of evs) r c = @sumby QcK evs r c.
Proof. exact matrix_of_sumby. Qed.
Print Assumptions C03_matrix_of.

(* ---------------- radii larger than the sequence ---------------- *)

(* once the radius reaches the length of the sequence the window is the whole side: all such radii (len, len+1,
   32768, 2^31-1, ...) give the same window; same for the windows of multisets *)
Theorem C03_window_radius_saturates : forall A (s : list A) R R' p rev,
  length s <= R -> length s <= R' -> p < length s ->
  window_at_index s R p rev = window_at_index s R' p rev.
Proof. exact window_radius_saturates. Qed.
Print Assumptions C03_window_radius_saturates.

Theorem C03_multi_window_radius_saturates : forall A (doc : list A) R R' m rev,
  length doc <= R -> length doc <= R' -> m < length doc ->
  multi_window doc R m rev = multi_window doc R' m rev.
Proof. exact multi_window_radius_saturates. Qed.
Print Assumptions C03_multi_window_radius_saturates.

(* hence the whole event list (and with it the matrix) is unchanged when every per-row radius r is replaced by
   min L r, L any bound on the sequence lengths: what the drivers do for radii far beyond the int16/int32 range is
   what they do at radius L *)
Theorem C03_token_radius_clamp : forall (K : carrier) (blocks : list (block K)) nw n docs L,
  Forall (fun s => length s <= L) docs ->
  token_events (map (clamp_block L) blocks) nw n docs = token_events blocks nw n docs.
Proof. exact token_events_radius_clamp. Qed.
Print Assumptions C03_token_radius_clamp.

Theorem C03_timed_radius_clamp : forall (K : carrier) Tm (absdiff : Tm -> Tm -> Tm) t0 (blocks : list (tblock K Tm)) nw n docs L,
  Forall (fun s => length s <= L) docs ->
  timed_events absdiff t0 (map (clamp_tblock L) blocks) nw n docs = timed_events absdiff t0 blocks nw n docs.
Proof. exact timed_events_radius_clamp. Qed.
Print Assumptions C03_timed_radius_clamp.

Theorem C03_ngram_radius_clamp : forall (K : carrier) (blocks : list (block K)) nw n dict size docs L,
  Forall (fun s => length s <= L) docs ->
  ngram_events (map (clamp_block L) blocks) nw n dict size docs = ngram_events blocks nw n dict size docs.
Proof. exact ngram_events_radius_clamp. Qed.
Print Assumptions C03_ngram_radius_clamp.

Theorem C03_multiset_radius_clamp : forall (K : carrier) (blocks : list (block K)) nw n docs L,
  Forall (fun doc => length doc <= L) docs ->
  multi_events (map (clamp_block L) blocks) nw n docs = multi_events blocks nw n docs.
Proof. exact multi_events_radius_clamp. Qed.
Print Assumptions C03_multiset_radius_clamp.

(* ---------------- non-vacuity ---------------- *)

Definition ex_before := mkblock true [2; 2; 2] (kf_geometric (qc 1 2)) None false 0 (qc 1 1).
Definition ex_after := mkblock false [2; 2; 2] (kf_geometric (qc 1 2)) None false 0 (qc 1 1).
Definition ex_docs := [[0; 1; 0; 2]; []; [1; 1]].

(* hypotheses of C03_token / C03_before_transpose are met by a concrete corpus, and the cell is not trivial:
   row 0, column 1 of the 'before' block = 1/2 (the 1 at distance 1 before the second 0)  *)
Example C03_token_example :
  Forall (Forall (fun t => t < 3)) ex_docs /\
  show (sumby (token_events [ex_before; ex_after] false 3 ex_docs) 0 (1 + 0 * 3)) = (1%Z, 2%Z) /\
  show (token_spec [ex_before; ex_after] false ex_docs 0 1 0) = (1%Z, 2%Z) /\
  show (sumby (token_events [ex_before; ex_after] false 3 ex_docs) 1 (0 + 1 * 3)) = (1%Z, 2%Z).
Proof. repeat split; try (vm_compute; reflexivity). repeat constructor. Qed.

Example C03_blocks_example :
  reversals [Directional; After; Before] = [true; false; false; true] /\
  block_tags [Directional; After; Before] = [(true, 0); (false, 0); (false, 1); (true, 2)] /\
  In (false, 1, 1, 1 + 2 * 2) (column_dict 2 [Directional; After; Before]).
Proof. vm_compute. repeat split; auto 10. Qed.

Example C03_window_example :
  window_at_index [10; 11; 12; 13; 14] 3 1 false = [12; 13; 14] /\
  window_at_index [10; 11; 12; 13; 14] 3 3 true = [12; 11; 10] /\
  window_at_index [10; 11; 12; 13; 14] 9 2 true = [11; 10] /\
  window_at_index [10; 11; 12; 13; 14] 0 2 false = [].
Proof. repeat split. Qed.

Example C03_ngram_example :
  show (sumby (ngram_events [ex_before; ex_after] false 3 [([0; 1], 0); ([1; 0], 1)] 2 ex_docs) 1 (2 + 1 * 3)) = (1%Z, 2%Z) /\
  show (ngram_spec [ex_before; ex_after] false [([0; 1], 0); ([1; 0], 1)] 2 ex_docs 1 2 1) = (1%Z, 2%Z).
Proof. split; vm_compute; reflexivity. Qed.

Example C03_multiset_example :
  show (sumby (multi_events [ex_after] false 3 [[[0; 1]; [2]; [1; 0]]]) 0 (1 + 0 * 3)) = (9%Z, 4%Z) /\
  show (multi_spec [ex_after] false [[[0; 1]; [2]; [1; 0]]] 0 1 0) = (9%Z, 4%Z).
Proof. split; vm_compute; reflexivity. Qed.

(* radius 40000 (built inside vm_compute) on a 4-token sequence = radius 4 = radius 5 *)
Example C03_radius_example :
  let big := mkblock false (repeat (Z.to_nat 40000) 3) (kf_geometric (qc 1 2)) None false 0 (qc 1 1) in
  let cap := mkblock false [4; 4; 4] (kf_geometric (qc 1 2)) None false 0 (qc 1 1) in
  Forall (fun s : list nat => length s <= 4) ex_docs /\
  show_events (token_events [big] false 3 ex_docs) = show_events (token_events [cap] false 3 ex_docs) /\
  window_at_index [10; 11; 12; 13; 14] (Z.to_nat 32768) 1 false = [12; 13; 14].
Proof. repeat split; try (vm_compute; reflexivity). repeat constructor. Qed.
