(* C20 — Histogram rows conserve the events; KDE rows depend only on the value multiset.
   Only statements, each closed by `exact <lemma>`, followed by Print Assumptions. *)
From Coq Require Import QArith List Bool Arith Sorted Permutation Reals.
From VZ Require Import Model.K15_HistKDE Proofs.K15_HistKDE_proofs Proofs.K15_KDE_proofs.
Import ListNotations.

(* ---- the fitted bins form a chain  l_0 < r_0 = l_1 < ... < r_k  covering exactly the absolute range ---- *)

(* strategy='uniform': for every training collection with two distinct values inside the absolute range,
   every n_components >= 1, every absolute range (finite or infinite), with or without outlier bins *)
Theorem C20_bins_chain_uniform : forall flat n a0 a1 outl,
  (0 < n)%nat ->
  (list_min 0 (fit_filter a0 a1 flat) < list_max 0 (fit_filter a0 a1 flat))%Q ->
  exists bins, hist_fit_uniform flat n a0 a1 outl = Some bins /\ chainb bins = true /\
    lo_of bins = a0 /\ hi_of bins = a1 /\ length bins = (n + (if outl then 2 else 0))%nat.
Proof. exact hist_fit_uniform_facts. Qed.
Print Assumptions C20_bins_chain_uniform.

(* pd.interval_range alone: n right-closed bins from min to max *)
Theorem C20_interval_range : forall lo hi n,
  (0 < n)%nat -> (lo < hi)%Q ->
  let bins := interval_range lo hi n in
  chainb bins = true /\ length bins = n /\ eeqb (lo_of bins) (Fin lo) = true /\ eeqb (hi_of bins) (Fin hi) = true.
Proof. exact interval_range_facts. Qed.
Print Assumptions C20_interval_range.

(* strategy='quantile': whatever the cumulative-sum test (thr, csum are the floating point data of
   find_bin_boundaries), the selected breaks are strictly increasing and are training values ... *)
Theorem C20_quantile_breaks_sorted : forall thr flat csum, StronglySorted Qlt (find_breaks thr flat csum).
Proof. exact find_breaks_sorted. Qed.
Print Assumptions C20_quantile_breaks_sorted.

Theorem C20_quantile_breaks_in : forall thr flat csum x, In x (find_breaks thr flat csum) -> In x flat.
Proof. exact find_breaks_in. Qed.
Print Assumptions C20_quantile_breaks_in.

(* ... hence, as soon as two breaks are found, the fitted bins are a chain over exactly the absolute range *)
Theorem C20_bins_chain_quantile : forall thr flat sorted csum a0 a1 outl,
  (forall x, In x sorted -> In x (fit_filter a0 a1 flat)) ->
  (2 <= length (find_breaks thr sorted csum))%nat ->
  exists bins, hist_fit_breaks (find_breaks thr sorted csum) a0 a1 outl = Some bins /\ chainb bins = true /\
    lo_of bins = a0 /\ hi_of bins = a1 /\
    length bins = (length (find_breaks thr sorted csum) - 1 + (if outl then 2 else 0))%nat.
Proof. exact hist_fit_quantile_facts. Qed.
Print Assumptions C20_bins_chain_quantile.

(* the two post-processing steps preserve any chain, whatever the absolute range *)
Theorem C20_expand_boundaries : forall bins a0 a1,
  chainb bins = true ->
  exists bins', expand_boundaries bins a0 a1 = Some bins' /\ chainb bins' = true /\ length bins' = length bins /\
    lo_of bins' = (if elt a0 (lo_of bins) then a0 else lo_of bins) /\
    hi_of bins' = (if elt (hi_of bins) a1 then a1 else hi_of bins).
Proof. exact expand_boundaries_facts. Qed.
Print Assumptions C20_expand_boundaries.

Theorem C20_add_outlier_bins : forall bins a0 a1,
  chainb bins = true ->
  exists bins', add_outlier_bins bins a0 a1 = Some bins' /\ chainb bins' = true /\
    length bins' = (length bins + (if elt a0 (lo_of bins) then 1 else 0) + (if elt (hi_of bins) a1 then 1 else 0))%nat /\
    lo_of bins' = (if elt a0 (lo_of bins) then a0 else lo_of bins) /\
    hi_of bins' = (if elt (hi_of bins) a1 then a1 else hi_of bins).
Proof. exact add_outlier_bins_facts. Qed.
Print Assumptions C20_add_outlier_bins.

(* ---- chain => partition ---- *)
Theorem C20_partition : forall bins x d,
  chainb bins = true -> in_range bins x = true ->
  exists j, ((j < length bins)%nat /\ in_bin (nth j bins d) x = true) /\
            forall j', (j' < length bins)%nat /\ in_bin (nth j' bins d) x = true -> j = j'.
Proof. exact partition_exists_unique. Qed.
Print Assumptions C20_partition.

Theorem C20_outside : forall bins x b,
  chainb bins = true -> in_range bins x = false -> In b bins -> in_bin b x = false.
Proof. exact outside_no_bin. Qed.
Print Assumptions C20_outside.

(* pd.cut (first containing interval) is the membership relation of the j-th bin *)
Theorem C20_cut_spec : forall bins x j d,
  chainb bins = true -> (j < length bins)%nat ->
  (cut_one bins x = Some j <-> in_bin (nth j bins d) x = true).
Proof. exact cut_one_spec. Qed.
Print Assumptions C20_cut_spec.

(* ---- partition => conservation ---- *)
Theorem C20_row_length : forall bins xs, length (hist_row bins xs) = length bins.
Proof. exact hist_row_length. Qed.
Print Assumptions C20_row_length.

(* cell j = number of values of the sequence with l_j < x <= r_j  (a natural number by typing) *)
Theorem C20_row_cell : forall bins xs j d,
  chainb bins = true -> (j < length bins)%nat ->
  nth j (hist_row bins xs) 0%nat = length (filter (in_bin (nth j bins d)) xs).
Proof. exact hist_row_nth. Qed.
Print Assumptions C20_row_cell.

(* row total = number of values with l_0 < x <= r_k: nothing in range is dropped, nothing is counted twice *)
Theorem C20_conservation : forall bins xs,
  chainb bins = true -> list_sum (hist_row bins xs) = length (filter (in_range bins) xs).
Proof. exact hist_row_sum. Qed.
Print Assumptions C20_conservation.

(* even for arbitrary (possibly overlapping) bins no value is counted twice *)
Theorem C20_no_double_count : forall bins xs, (list_sum (hist_row bins xs) <= length xs)%nat.
Proof. exact hist_row_sum_le. Qed.
Print Assumptions C20_no_double_count.

(* ---- KDE (over R; KernelDensity is an oracle whose contract "mean of kernels" is checked by the harness) ---- *)
Theorem C20_kde_perm : forall (kern : R -> R -> R -> R) h grid xs ys,
  Permutation xs ys -> Rkde_row kern h grid xs = Rkde_row kern h grid ys.
Proof. exact Rkde_row_perm. Qed.
Print Assumptions C20_kde_perm.

Theorem C20_kde_nonneg : forall (kern : R -> R -> R -> R) h grid xs,
  xs <> [] -> (forall g x, In g grid -> In x xs -> (0 <= kern h g x)%R) ->
  Forall (fun v => (0 <= v)%R) (Rkde_row kern h grid xs).
Proof. exact Rkde_row_nonneg. Qed.
Print Assumptions C20_kde_nonneg.

Theorem C20_kde_gauss_nonneg : forall h grid xs,
  (0 < h)%R -> xs <> [] -> Forall (fun v => (0 <= v)%R) (Rkde_row gauss h grid xs).
Proof. exact gauss_kde_row_nonneg. Qed.
Print Assumptions C20_kde_gauss_nonneg.

Theorem C20_kde_cell : forall (kern : R -> R -> R -> R) h grid xs i, (i < length grid)%nat ->
  nth i (Rkde_row kern h grid xs) 0%R = (Rksum kern h (nth i grid 0%R) xs / INR (length xs))%R.
Proof. exact Rkde_row_nth. Qed.
Print Assumptions C20_kde_cell.

(* ---- non-vacuity: concrete instances ---- *)
Open Scope Q_scope.
Example C20_ex_fit_uniform :
  hist_fit_uniform [1; 2; 3; 4; 5; 6; 5 # 2; 3; 3; 7; 0; 11] 3 (Fin 0) (Fin 10) true
  = Some [(Fin 0, Fin (1 + 0 * (7 - 1) / 3)); (Fin (1 + 0 * (7 - 1) / 3), Fin (1 + 1 * (7 - 1) / 3));
          (Fin (1 + 1 * (7 - 1) / 3), Fin (1 + 2 * (7 - 1) / 3)); (Fin (1 + 2 * (7 - 1) / 3), Fin (1 + 3 * (7 - 1) / 3));
          (Fin (1 + 3 * (7 - 1) / 3), Fin 10)].
Proof. reflexivity. Qed.
Example C20_ex_hyp_uniform :
  (list_min 0 (fit_filter (Fin 0) (Fin 10) [1; 2; 3; 4; 5; 6; 5 # 2; 3; 3; 7; 0; 11])
   < list_max 0 (fit_filter (Fin 0) (Fin 10) [1; 2; 3; 4; 5; 6; 5 # 2; 3; 3; 7; 0; 11]))%Q.
Proof. vm_compute. reflexivity. Qed.
Definition ex_bins : list bin := [(NInf, Fin 1); (Fin 1, Fin 3); (Fin 3, Fin 5); (Fin 5, Fin 7); (Fin 7, PInf)].
Example C20_ex_chain : chainb ex_bins = true.
Proof. vm_compute. reflexivity. Qed.
Example C20_ex_row : hist_row ex_bins [5; 5; 5; 1; 7; 1000000000; -1000000000; 0; 10; 3; 2; 13 # 2] = [3; 2; 3; 2; 2]%nat.
Proof. vm_compute. reflexivity. Qed.
Example C20_ex_row_finite_range :
  hist_row [(Fin 0, Fin 3); (Fin 3, Fin 5); (Fin 5, Fin 10)] [5; 5; 5; 1; 7; 1000000000; -1000000000; 0; 10; 3; 2; 13 # 2]
  = [3; 3; 3]%nat.
Proof. vm_compute. reflexivity. Qed.
Example C20_ex_quantile :
  find_breaks (fun k => (73 # 6) * inject_Z (Z.of_nat k)) [1; 2; 5 # 2; 3; 3; 3; 4; 5; 6; 7]
              [1; 3; 11 # 2; 17 # 2; 23 # 2; 29 # 2; 37 # 2; 47 # 2; 59 # 2; 73 # 2] = [1; 3; 6; 7].
Proof. vm_compute. reflexivity. Qed.
