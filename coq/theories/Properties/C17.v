(* C17 — information weights are KL divergences; transform is a fixed column scaling.
   Only statements, each closed by `exact <lemma>` (or a one-line unfolding), followed by Print Assumptions.
   All theorems are over R (stdlib real axioms), for every number of rows / columns; the model is
   Model/K13_InfoWeight.v instantiated with the real operations [R_ops]. *)
From Coq Require Import ZArith Reals List Lra Lia Sorted Permutation PrimFloat Bool.
From VZ Require Import Model.K11_SparseVec Model.K12_Dist Model.K13_InfoWeight
  Proofs.K11_SparseVec_proofs Proofs.K12_RealFacts Proofs.K12_Dist_proofs Proofs.K13_InfoWeight_proofs
  Model.K12_Float Model.K13_Float.
Import ListNotations.
Open Scope R_scope.

(* ---- the binary search inside the kernel: correct on strictly increasing indices (what sort_indices provides) *)
Theorem C17_search_sorted : forall (a : list Z) (v : Z),
  StronglySorted Z.lt a -> In v a -> nth_error a (searchsorted a v) = Some v.
Proof. exact searchsorted_found. Qed.
Print Assumptions C17_search_sorted.

(* ... and it does need them: on an unsorted column the position returned does not hold the row looked for *)
Theorem C17_search_unsorted_refuted : exists (a : list Z) (v : Z), In v a /\ nth_error a (searchsorted a v) <> Some v.
Proof. exists [5; 0; 3]%Z, 0%Z. split; [right; left; reflexivity|]. vm_compute. discriminate. Qed.
Print Assumptions C17_search_unsorted_refuted.

(* ---- the kernel returns the KL sum.  c_i = the column's count in row i (0 if absent), C = sum of the column,
        q_i = (c_i + s b_i) / (C + s);  result = sum_i q_i ln (q_i / b_i) *)
Theorem C17_is_kl : forall eps (inds : list Z) (data b : list R) (s : R),
  StronglySorted Z.lt inds /\ length inds = length data ->
  Forall (fun x => 0 <= x) data -> Forall (fun x => 0 <= x) b -> 0 < s ->
  column_kl_exact R (R_ops eps) inds data b s
  = Some (sumR (map (fun i : nat =>
                       let c := dense R 0 inds data (Z.of_nat i) in
                       let bi := nth i b 0 in
                       let q := (c + s * bi) / (sumR data + s) in
                       q * ln (q / bi))
                    (seq 0 (length b)))).
Proof. exact column_kl_exact_R. Qed.
Print Assumptions C17_is_kl.

(* ---- Gibbs' inequality over finite lists of (q_i, b_i) *)
Theorem C17_gibbs : forall (l : list (R * R)),
  (forall q b, In (q, b) l -> 0 <= q /\ 0 <= b /\ (b = 0 -> q = 0)) ->
  sumR (map fst l) = 1 -> sumR (map snd l) = 1 ->
  0 <= sumR (map (fun p => fst p * ln (fst p / snd p)) l).
Proof. intros l H Hq Hb. pose proof (gibbs_terms l H) as G. rewrite Hq, Hb in G. lra. Qed.
Print Assumptions C17_gibbs.

Theorem C17_column_weight_nonneg : forall eps (inds : list Z) (data b : list R) (s : R),
  StronglySorted Z.lt inds /\ length inds = length data ->
  Forall (fun j => (0 <= j < Z.of_nat (length b))%Z) inds ->
  Forall (fun x => 0 <= x) data -> Forall (fun x => 0 <= x) b -> 0 < s -> sumR b = 1 ->
  (forall k, 0 < dense R 0 inds data (Z.of_nat k) -> 0 < nth k b 0) ->
  exists w, column_kl_exact R (R_ops eps) inds data b s = Some w /\ 0 <= w.
Proof.
  intros eps inds data b s Hok Hr Hd Hb Hs Hb1 Hpos. eexists. split.
  - apply column_kl_exact_R; assumption.
  - apply kl_column_nonneg; assumption.
Qed.
Print Assumptions C17_column_weight_nonneg.

(* ---- finiteness: every logarithm the kernel takes has a positive argument *)
Theorem C17_finite : forall c bi s C, 0 <= c -> 0 <= C -> 0 < s -> 0 <= bi -> (0 < c -> 0 < bi) ->
  0 < s / (C + s) /\
  (0 < (c + s * bi) / (C + s) -> 0 < (c + s * bi) / (C + s) / bi).
Proof. exact ln_args_positive. Qed.
Print Assumptions C17_finite.

(* ---- the whole function on a stored CSC matrix.  A column is its list of stored (row, value) entries in
        storage order; col_ok n c: at most one entry per row, rows in [0, n), values >= 0 (explicit zeros allowed,
        any order).  M i j = the value stored for row i in column j, 0 if none. *)
Theorem C17_is_kl_matrix : forall eps (n : nat) (cols : list (list (Z * R))) (s : R),
  Forall (fun c => NoDup (map fst c) /\ Forall (fun j => (0 <= j < Z.of_nat n)%Z) (map fst c)
                   /\ Forall (fun x => 0 <= x) (map snd c)) cols -> 0 < s ->
  let m := length cols in
  let M := fun i j : nat => lookup R 0 (Z.of_nat i) (nth j cols []) in
  let rowsum := fun i => sumR (map (fun j => M i j) (seq 0 m)) in
  let tot := sumR (map rowsum (seq 0 n)) in
  let colsum := fun j => sumR (map (fun i => M i j) (seq 0 n)) in
  information_weight R (R_ops eps) false n cols s
  = map (fun j => Some (sumR (map (fun i =>
                                     let b := rowsum i / tot in
                                     let q := (M i j + s * b) / (colsum j + s) in
                                     q * ln (q / b))
                                  (seq 0 n))))
        (seq 0 m).
Proof. exact information_weight_R. Qed.
Print Assumptions C17_is_kl_matrix.

Theorem C17_weights_finite_nonneg : forall eps (n : nat) (cols : list (list (Z * R))) (s : R),
  Forall (col_ok n) cols -> 0 < s -> 0 < total (Mx cols) n (length cols) ->
  Forall (fun w => exists x, w = Some x /\ 0 <= x) (information_weight R (R_ops eps) false n cols s).
Proof. exact information_weight_nonneg. Qed.
Print Assumptions C17_weights_finite_nonneg.

(* ---- storage layout: two stored matrices with the same dense meaning get the same weights ... *)
Theorem C17_layout : forall eps n cols cols' s,
  Forall (col_ok n) cols -> Forall (col_ok n) cols' -> length cols = length cols' -> 0 < s ->
  (forall i j, (i < n)%nat -> (j < length cols)%nat -> Mx cols i j = Mx cols' i j) ->
  information_weight R (R_ops eps) false n cols s = information_weight R (R_ops eps) false n cols' s.
Proof. exact information_weight_layout. Qed.
Print Assumptions C17_layout.
(* ... and index order / explicit zeros do not change the dense meaning: *)
Theorem C17_layout_order : forall (c c' : list (Z * R)) k,
  NoDup (map fst c) -> Permutation c c' -> lookup R 0 k c = lookup R 0 k c'.
Proof. exact lookup_perm. Qed.
Print Assumptions C17_layout_order.
Theorem C17_layout_explicit_zero : forall (c : list (Z * R)) i k,
  ~ In i (map fst c) -> lookup R 0 k ((i, 0) :: c) = lookup R 0 k c.
Proof. exact lookup_explicit_zero. Qed.
Print Assumptions C17_layout_explicit_zero.
(* sort_indices establishes the precondition of the binary search without changing the meaning *)
Theorem C17_sort_indices : forall (c : list (Z * R)),
  NoDup (map fst c) ->
  StronglySorted Z.lt (map fst (sort_col R c)) /\ Permutation c (sort_col R c)
  /\ forall k, lookup R 0 k (sort_col R c) = lookup R 0 k c.
Proof. intros c H. split; [apply sort_col_incr; exact H|]. split; [apply sort_col_perm|]. intro k. apply lookup_sort_col. exact H. Qed.
Print Assumptions C17_sort_indices.

(* ---- invariance under row permutation, equivariance under column permutation (of the definition the model
        was proved equal to in C17_is_kl_matrix) *)
Theorem C17_row_perm : forall n m s (M : nat -> nat -> R) (p : nat -> nat) j,
  Permutation (map p (seq 0 n)) (seq 0 n) ->
  iw_spec n m s (fun i k => M (p i) k) j = iw_spec n m s M j.
Proof. exact iw_spec_row_perm. Qed.
Print Assumptions C17_row_perm.
Theorem C17_col_equivariant : forall n m s (M : nat -> nat -> R) (p : nat -> nat) j,
  Permutation (map p (seq 0 m)) (seq 0 m) ->
  iw_spec n m s (fun i k => M i (p k)) j = iw_spec n m s M (p j).
Proof. exact iw_spec_col_perm. Qed.
Print Assumptions C17_col_equivariant.
Theorem C17_weight_nonneg : forall n m s (M : nat -> nat -> R) j,
  (forall i k, (i < n)%nat -> (k < m)%nat -> 0 <= M i k) -> 0 < total M n m -> 0 < s -> (j < m)%nat ->
  0 <= iw_spec n m s M j.
Proof. exact iw_spec_nonneg. Qed.
Print Assumptions C17_weight_nonneg.

(* ---- InformationWeightTransformer: learned weights (mean-normalise, clamp at 0, power) are >= 0; transform is
        X * diag(w): entrywise X_ij * w_j, hence linear in X and zero wherever X is zero.
        (In floats the mean-normalisation needs a non-zero mean: see the known finding on all-zero weights.) *)
(* guard: the mean of the raw weights is not zero (over R division by zero is total, so the unguarded statement would
   hold for the wrong reason; in binary64 a zero mean gives 0/0 = NaN - see C17_weights_zero_mean_float_nan) *)
Theorem C17_weights_nonneg_partial : forall eps (w : list R) (p : R), sumR w <> 0 ->
  finish_weights R (R_ops eps) R_pow w p
  = map (fun x => R_pow (Rmax (x / (sumR w / INR (length w))) 0) p) w
  /\ Forall (fun x => 0 <= x) (finish_weights R (R_ops eps) R_pow w p).
Proof. intros. split; [apply finish_weights_R|apply finish_weights_nonneg]. Qed.
Print Assumptions C17_weights_nonneg_partial.

(* known finding transformer-zero-mean-weights: the binary64 model of the same code returns NaN weights when every raw
   weight is 0 (single column, rank-1 counts): the learned weights are then not non-negative numbers *)
Example C17_weights_zero_mean_float_nan : exists (w : list PrimFloat.float) (p : PrimFloat.float),
  existsb (fun x => negb (PrimFloat.eqb x x)) (finish_weights PrimFloat.float (F_ops PrimFloat.zero) f_pow w p) = true.
Proof. exists [PrimFloat.zero; PrimFloat.zero], PrimFloat.two. vm_compute. reflexivity. Qed.
(* (an Example, not a gated Theorem: it computes with Coq's primitive binary64 operations, which Print Assumptions lists) *)

(* ---- duplicate entries (repaired defect noncanonical-duplicate-entries: information_weight now brings a copy of the
        CSC form to canonical format, sort_indices + sum_duplicates, before the kernels run).
        The search alone still needs UNIQUE indices: on sorted indices with a repeated row it reads one of the stored
        values, not their sum - this is the precondition that sum_duplicates discharges (C17_sum_duplicates). *)
Theorem C17_search_duplicates_refuted : exists (inds : list Z) (data : list Z) (i : Z),
  StronglySorted Z.le inds /\ In i inds /\
  nth_error data (searchsorted inds i) <> Some (fold_right Z.add 0%Z (map snd (filter (fun e => Z.eqb (fst e) i) (combine inds data)))).
Proof.
  exists [0; 0; 2]%Z, [1; 1; 3]%Z, 0%Z. split; [repeat constructor; lia|]. split; [left; reflexivity|]. vm_compute. discriminate.
Qed.
Print Assumptions C17_search_duplicates_refuted.

(* canonicalisation of one stored column (any order, explicit zeros, repeated row indices; NO uniqueness assumed):
   strictly increasing indices - the precondition of C17_search_sorted / C17_is_kl - and every index carries the SUM of
   the values stored for it.  Generalises C17_sort_indices, which it agrees with when there are no duplicates
   (C17_layout_duplicates_nodup below). *)
Theorem C17_sum_duplicates : forall eps (c : list (Z * R)),
  let c' := canon_col R (R_ops eps) c in
  StronglySorted Z.lt (map fst c')
  /\ (forall k, lookup R 0 k c' = sumR (map snd (filter (fun e => (fst e =? k)%Z) c)))
  /\ (forall k, In k (map fst c') -> In k (map fst c))
  /\ (Forall (fun x => 0 <= x) (map snd c) -> Forall (fun x => 0 <= x) (map snd c')).
Proof. exact canon_col_spec. Qed.
Print Assumptions C17_sum_duplicates.

(* the canonical-format test + branch of the code is the same thing as canonicalising every column *)
Theorem C17_canonicalise_branch : forall eps (cols : list (list (Z * R))),
  canonicalise R (R_ops eps) cols = map (canon_col R (R_ops eps)) cols.
Proof. exact canonicalise_map. Qed.
Print Assumptions C17_canonicalise_branch.

(* MAIN: a matrix given by ANY list of (row, column, value) triples with non-negative values - coordinates may repeat,
   the list is in any order (CSR, CSC and COO storage differ in that order only), explicit zeros allowed.  The weights
   computed from the canonicalised storage are the KL sums of the dense matrix the triples denote, D i j = the sum of
   the values given for (i, j). *)
Theorem C17_layout_duplicates : forall eps (n m : nat) (tr : list (Z * Z * R)) (s : R),
  Forall (fun t => (0 <= fst (fst t) < Z.of_nat n)%Z /\ (0 <= snd (fst t) < Z.of_nat m)%Z /\ 0 <= snd t) tr -> 0 < s ->
  let D := fun i j : nat =>
    sumR (map snd (filter (fun t => (fst (fst t) =? Z.of_nat i)%Z && (snd (fst t) =? Z.of_nat j)%Z)%bool tr)) in
  let rowsum := fun i => sumR (map (fun j => D i j) (seq 0 m)) in
  let tot := sumR (map rowsum (seq 0 n)) in
  let colsum := fun j => sumR (map (fun i => D i j) (seq 0 n)) in
  information_weight R (R_ops eps) false n (csc_of_triples m tr) s
  = map (fun j => Some (sumR (map (fun i =>
                                     let b := rowsum i / tot in
                                     let q := (D i j + s * b) / (colsum j + s) in
                                     q * ln (q / b))
                                  (seq 0 n))))
        (seq 0 m).
Proof. exact information_weight_triples. Qed.
Print Assumptions C17_layout_duplicates.

(* ... hence the order of the triples is irrelevant ... *)
Theorem C17_layout_duplicates_order : forall eps n m (tr tr' : list (Z * Z * R)) s,
  triples_ok n m tr -> Permutation tr tr' -> 0 < s ->
  information_weight R (R_ops eps) false n (csc_of_triples m tr) s
  = information_weight R (R_ops eps) false n (csc_of_triples m tr') s.
Proof. exact information_weight_triples_perm. Qed.
Print Assumptions C17_layout_duplicates_order.

(* ... and, at the level of stored columns, C17_layout / C17_is_kl_matrix / C17_weights_finite_nonneg without the
   NoDup hypothesis: col_okd n c = indices in [0, n) and values >= 0; MxS = sum of the stored values by coordinate *)
Theorem C17_is_kl_matrix_duplicates : forall eps (n : nat) (cols : list (list (Z * R))) (s : R),
  Forall (col_okd n) cols -> 0 < s ->
  information_weight R (R_ops eps) false n cols s
  = map (fun j => Some (iw_spec n (length cols) s (MxS cols) j)) (seq 0 (length cols)).
Proof. exact information_weight_R_dup. Qed.
Print Assumptions C17_is_kl_matrix_duplicates.

Theorem C17_layout_any : forall eps n cols cols' s,
  Forall (col_okd n) cols -> Forall (col_okd n) cols' -> length cols = length cols' -> 0 < s ->
  (forall i j, (i < n)%nat -> (j < length cols)%nat -> MxS cols i j = MxS cols' i j) ->
  information_weight R (R_ops eps) false n cols s = information_weight R (R_ops eps) false n cols' s.
Proof. exact information_weight_layout_dup. Qed.
Print Assumptions C17_layout_any.

Theorem C17_weights_finite_nonneg_duplicates : forall eps (n : nat) (cols : list (list (Z * R))) (s : R),
  Forall (col_okd n) cols -> 0 < s -> 0 < total (MxS cols) n (length cols) ->
  Forall (fun w => exists x, w = Some x /\ 0 <= x) (information_weight R (R_ops eps) false n cols s).
Proof. exact information_weight_nonneg_dup. Qed.
Print Assumptions C17_weights_finite_nonneg_duplicates.

(* the sum-by-coordinate meaning: order-independent and blind to explicit zeros with no side condition (compare
   C17_layout_order, C17_layout_explicit_zero), and equal to the plain lookup of the NoDup theorems when no row repeats *)
Theorem C17_layout_duplicates_meaning : forall (c c' : list (Z * R)) (i k : Z),
  (Permutation c c' -> lookup_sum k c = lookup_sum k c')
  /\ lookup_sum k ((i, 0) :: c) = lookup_sum k c
  /\ (NoDup (map fst c) -> lookup_sum k c = lookup R 0 k c).
Proof.
  intros c c' i k. split; [apply lookup_sum_perm|]. split; [apply lookup_sum_explicit_zero|apply lookup_sum_nodup].
Qed.
Print Assumptions C17_layout_duplicates_meaning.

(* without duplicates the canonicalisation is sort_indices: same dense meaning as C17_sort_indices gives *)
Theorem C17_layout_duplicates_nodup : forall eps (c : list (Z * R)) k,
  NoDup (map fst c) -> lookup R 0 k (canon_col R (R_ops eps) c) = lookup R 0 k (sort_col R c).
Proof.
  intros eps c k H. destruct (canon_col_spec eps c) as (_ & Hl & _). rewrite Hl.
  change (lookup_sum k c = lookup R 0 k (sort_col R c)). rewrite lookup_sort_col by exact H. apply lookup_sum_nodup. exact H.
Qed.
Print Assumptions C17_layout_duplicates_nodup.

Theorem C17_transform_is_diag_scaling : forall eps rows w i j, (i < length rows)%nat ->
  (j < length (nth i rows []))%nat -> (j < length w)%nat ->
  nth j (nth i (transform R (R_ops eps) rows w) []) 0 = nth j (nth i rows []) 0 * nth j w 0.
Proof. exact transform_entry. Qed.
Print Assumptions C17_transform_is_diag_scaling.

Theorem C17_transform_support : forall eps rows w i j, (i < length rows)%nat ->
  (j < length (nth i rows []))%nat -> (j < length w)%nat ->
  nth j (nth i rows []) 0 = 0 -> nth j (nth i (transform R (R_ops eps) rows w) []) 0 = 0.
Proof. intros eps rows w i j Hi Hj Hw Hz. rewrite transform_entry by assumption. rewrite Hz. apply Rmult_0_l. Qed.
Print Assumptions C17_transform_support.

Theorem C17_transform_linear : forall eps a b X Y w, length X = length Y ->
  Forall2 (fun r r' => length r = length r') X Y ->
  transform R (R_ops eps) (map2 (fun r r' => map2 (fun x y => a * x + b * y) r r') X Y) w
  = map2 (fun r r' => map2 (fun x y => a * x + b * y) r r') (transform R (R_ops eps) X w) (transform R (R_ops eps) Y w).
Proof. exact transform_linear. Qed.
Print Assumptions C17_transform_linear.

(* ---- non-vacuity *)
Example C17_ex_col_ok : Forall (col_ok 3) [[(2%Z, 1); (0%Z, 2)]; [(1%Z, 0); (0%Z, 3)]].
Proof.
  assert (N1 : NoDup [2; 0]%Z) by (constructor; [simpl; intros [H|[]]; discriminate|constructor; [simpl; tauto|constructor]]).
  assert (N2 : NoDup [1; 0]%Z) by (constructor; [simpl; intros [H|[]]; discriminate|constructor; [simpl; tauto|constructor]]).
  constructor; [|constructor; [|constructor]]; (split; [assumption|split]);
    unfold in_range, nonnegv, keys; simpl; repeat (apply Forall_cons || apply Forall_nil); try lia; try lra.
Qed.
Example C17_ex_perm : Permutation (map (fun i => (2 - i)%nat) (seq 0 3)) (seq 0 3).
Proof. simpl. apply Permutation_rev with (l := [2; 1; 0]%nat). Qed.
Example C17_ex_search : searchsorted [0; 2; 5; 9]%Z 5%Z = 2%nat.
Proof. vm_compute. reflexivity. Qed.
(* duplicates: the failing matrix of the repaired defect, csr_matrix(([1,1,2,3,4,1,1],[0,0,2,0,1,1,2],[0,3,3,5,7])), as
   triples; its CSC storage repeats row 0 in column 0, and the canonical form adds the two entries up *)
Definition C17_ex_triples : list (Z * Z * R) :=
  [(0%Z, 0%Z, 1); (0%Z, 0%Z, 1); (0%Z, 2%Z, 2); (2%Z, 0%Z, 3); (2%Z, 1%Z, 4); (3%Z, 1%Z, 1); (3%Z, 2%Z, 1)].
Example C17_ex_triples_ok : triples_ok 4 3 C17_ex_triples.
Proof. unfold triples_ok, C17_ex_triples, t_row, t_col, t_val. repeat (apply Forall_cons || apply Forall_nil); simpl; repeat split; try lia; try lra. Qed.
Example C17_ex_triples_dup : ~ NoDup (map fst (nth 0 (csc_of_triples 3 C17_ex_triples) [])).
Proof. simpl. intro H. inversion H as [|? ? Hn _]; subst. apply Hn. left. reflexivity. Qed.
Definition C17_ex_Zops : Ops Z :=
  mkOps Z 0%Z 1%Z 0%Z 0%Z Z.add Z.sub Z.mul Z.div Z.opp (fun x => x) Z.abs (fun x => x) (Z.eqb 0) Z.ltb Z.of_nat.
Example C17_ex_sum_dups : map fst (sum_dups Z C17_ex_Zops [(0, 1); (0, 1); (2, 3)]%Z) = [0; 2]%Z
                          /\ map snd (sum_dups Z C17_ex_Zops [(0, 1); (0, 1); (2, 3)]%Z) = [2; 3]%Z.
Proof. vm_compute. split; reflexivity. Qed.

