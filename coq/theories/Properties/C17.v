(* C17 — information weights are KL divergences; transform is a fixed column scaling.
   Only statements, each closed by `exact <lemma>` (or a one-line unfolding), followed by Print Assumptions.
   All theorems are over R (stdlib real axioms), for every number of rows / columns; the model is
   Model/K13_InfoWeight.v instantiated with the real operations [R_ops]. *)
From Coq Require Import ZArith Reals List Lra Lia Sorted Permutation PrimFloat.
From VZ Require Import Model.K11_SparseVec Model.K12_Dist Model.K13_InfoWeight
  Proofs.K11_SparseVec_proofs Proofs.K12_RealFacts Proofs.K12_Dist_proofs Proofs.K13_InfoWeight_proofs
  Model.K12_Float Model.K13_Float.
Import ListNotations.
Open Scope R_scope.

(* ---- the binary search inside the kernel: correct on strictly increasing indices (what sort_indices provides) *)
Theorem C17_search_sorted : forall (a : list Z) (v : Z),
  StronglySorted Z.lt a -> In v a -> nth_error a (searchsorted a v) = Some v.
Proof. exact searchsorted_found. Qed.
Print Assumptions C17_search_sorted.

(* ... and it does need them: on an unsorted column the position returned does not hold the row looked for *)
Theorem C17_search_unsorted_refuted : exists (a : list Z) (v : Z), In v a /\ nth_error a (searchsorted a v) <> Some v.
Proof. exists [5; 0; 3]%Z, 0%Z. split; [right; left; reflexivity|]. vm_compute. discriminate. Qed.
Print Assumptions C17_search_unsorted_refuted.

(* ---- the kernel returns the KL sum.  c_i = the column's count in row i (0 if absent), C = sum of the column,
        q_i = (c_i + s b_i) / (C + s);  result = sum_i q_i ln (q_i / b_i) *)
Theorem C17_is_kl : forall eps (inds : list Z) (data b : list R) (s : R),
  StronglySorted Z.lt inds /\ length inds = length data ->
  Forall (fun x => 0 <= x) data -> Forall (fun x => 0 <= x) b -> 0 < s ->
  column_kl_exact R (R_ops eps) inds data b s
  = Some (sumR (map (fun i : nat =>
                       let c := dense R 0 inds data (Z.of_nat i) in
                       let bi := nth i b 0 in
                       let q := (c + s * bi) / (sumR data + s) in
                       q * ln (q / bi))
                    (seq 0 (length b)))).
Proof. exact column_kl_exact_R. Qed.
Print Assumptions C17_is_kl.

(* ---- Gibbs' inequality over finite lists of (q_i, b_i) *)
Theorem C17_gibbs : forall (l : list (R * R)),
  (forall q b, In (q, b) l -> 0 <= q /\ 0 <= b /\ (b = 0 -> q = 0)) ->
  sumR (map fst l) = 1 -> sumR (map snd l) = 1 ->
  0 <= sumR (map (fun p => fst p * ln (fst p / snd p)) l).
Proof. intros l H Hq Hb. pose proof (gibbs_terms l H) as G. rewrite Hq, Hb in G. lra. Qed.
Print Assumptions C17_gibbs.

Theorem C17_column_weight_nonneg : forall eps (inds : list Z) (data b : list R) (s : R),
  StronglySorted Z.lt inds /\ length inds = length data ->
  Forall (fun j => (0 <= j < Z.of_nat (length b))%Z) inds ->
  Forall (fun x => 0 <= x) data -> Forall (fun x => 0 <= x) b -> 0 < s -> sumR b = 1 ->
  (forall k, 0 < dense R 0 inds data (Z.of_nat k) -> 0 < nth k b 0) ->
  exists w, column_kl_exact R (R_ops eps) inds data b s = Some w /\ 0 <= w.
Proof.
  intros eps inds data b s Hok Hr Hd Hb Hs Hb1 Hpos. eexists. split.
  - apply column_kl_exact_R; assumption.
  - apply kl_column_nonneg; assumption.
Qed.
Print Assumptions C17_column_weight_nonneg.

(* ---- finiteness: every logarithm the kernel takes has a positive argument *)
Theorem C17_finite : forall c bi s C, 0 <= c -> 0 <= C -> 0 < s -> 0 <= bi -> (0 < c -> 0 < bi) ->
  0 < s / (C + s) /\
  (0 < (c + s * bi) / (C + s) -> 0 < (c + s * bi) / (C + s) / bi).
Proof. exact ln_args_positive. Qed.
Print Assumptions C17_finite.

(* ---- the whole function on a stored CSC matrix.  A column is its list of stored (row, value) entries in
        storage order; col_ok n c: at most one entry per row, rows in [0, n), values >= 0 (explicit zeros allowed,
        any order).  M i j = the value stored for row i in column j, 0 if none. *)
Theorem C17_is_kl_matrix : forall eps (n : nat) (cols : list (list (Z * R))) (s : R),
  Forall (fun c => NoDup (map fst c) /\ Forall (fun j => (0 <= j < Z.of_nat n)%Z) (map fst c)
                   /\ Forall (fun x => 0 <= x) (map snd c)) cols -> 0 < s ->
  let m := length cols in
  let M := fun i j : nat => lookup R 0 (Z.of_nat i) (nth j cols []) in
  let rowsum := fun i => sumR (map (fun j => M i j) (seq 0 m)) in
  let tot := sumR (map rowsum (seq 0 n)) in
  let colsum := fun j => sumR (map (fun i => M i j) (seq 0 n)) in
  information_weight R (R_ops eps) false n cols s
  = map (fun j => Some (sumR (map (fun i =>
                                     let b := rowsum i / tot in
                                     let q := (M i j + s * b) / (colsum j + s) in
                                     q * ln (q / b))
                                  (seq 0 n))))
        (seq 0 m).
Proof. exact information_weight_R. Qed.
Print Assumptions C17_is_kl_matrix.

Theorem C17_weights_finite_nonneg : forall eps (n : nat) (cols : list (list (Z * R))) (s : R),
  Forall (col_ok n) cols -> 0 < s -> 0 < total (Mx cols) n (length cols) ->
  Forall (fun w => exists x, w = Some x /\ 0 <= x) (information_weight R (R_ops eps) false n cols s).
Proof. exact information_weight_nonneg. Qed.
Print Assumptions C17_weights_finite_nonneg.

(* ---- storage layout: two stored matrices with the same dense meaning get the same weights ... *)
Theorem C17_layout : forall eps n cols cols' s,
  Forall (col_ok n) cols -> Forall (col_ok n) cols' -> length cols = length cols' -> 0 < s ->
  (forall i j, (i < n)%nat -> (j < length cols)%nat -> Mx cols i j = Mx cols' i j) ->
  information_weight R (R_ops eps) false n cols s = information_weight R (R_ops eps) false n cols' s.
Proof. exact information_weight_layout. Qed.
Print Assumptions C17_layout.
(* ... and index order / explicit zeros do not change the dense meaning: *)
Theorem C17_layout_order : forall (c c' : list (Z * R)) k,
  NoDup (map fst c) -> Permutation c c' -> lookup R 0 k c = lookup R 0 k c'.
Proof. exact lookup_perm. Qed.
Print Assumptions C17_layout_order.
Theorem C17_layout_explicit_zero : forall (c : list (Z * R)) i k,
  ~ In i (map fst c) -> lookup R 0 k ((i, 0) :: c) = lookup R 0 k c.
Proof. exact lookup_explicit_zero. Qed.
Print Assumptions C17_layout_explicit_zero.
(* sort_indices establishes the precondition of the binary search without changing the meaning *)
Theorem C17_sort_indices : forall (c : list (Z * R)),
  NoDup (map fst c) ->
  StronglySorted Z.lt (map fst (sort_col R c)) /\ Permutation c (sort_col R c)
  /\ forall k, lookup R 0 k (sort_col R c) = lookup R 0 k c.
Proof. intros c H. split; [apply sort_col_incr; exact H|]. split; [apply sort_col_perm|]. intro k. apply lookup_sort_col. exact H. Qed.
Print Assumptions C17_sort_indices.

(* ---- invariance under row permutation, equivariance under column permutation (of the definition the model
        was proved equal to in C17_is_kl_matrix) *)
Theorem C17_row_perm : forall n m s (M : nat -> nat -> R) (p : nat -> nat) j,
  Permutation (map p (seq 0 n)) (seq 0 n) ->
  iw_spec n m s (fun i k => M (p i) k) j = iw_spec n m s M j.
Proof. exact iw_spec_row_perm. Qed.
Print Assumptions C17_row_perm.
Theorem C17_col_equivariant : forall n m s (M : nat -> nat -> R) (p : nat -> nat) j,
  Permutation (map p (seq 0 m)) (seq 0 m) ->
  iw_spec n m s (fun i k => M i (p k)) j = iw_spec n m s M (p j).
Proof. exact iw_spec_col_perm. Qed.
Print Assumptions C17_col_equivariant.
Theorem C17_weight_nonneg : forall n m s (M : nat -> nat -> R) j,
  (forall i k, (i < n)%nat -> (k < m)%nat -> 0 <= M i k) -> 0 < total M n m -> 0 < s -> (j < m)%nat ->
  0 <= iw_spec n m s M j.
Proof. exact iw_spec_nonneg. Qed.
Print Assumptions C17_weight_nonneg.

(* ---- InformationWeightTransformer: learned weights (mean-normalise, clamp at 0, power) are >= 0; transform is
        X * diag(w): entrywise X_ij * w_j, hence linear in X and zero wherever X is zero.
        (In floats the mean-normalisation needs a non-zero mean: see the known finding on all-zero weights.) *)
(* guard: the mean of the raw weights is not zero (over R division by zero is total, so the unguarded statement would
   hold for the wrong reason; in binary64 a zero mean gives 0/0 = NaN - see C17_weights_zero_mean_float_nan) *)
Theorem C17_weights_nonneg_partial : forall eps (w : list R) (p : R), sumR w <> 0 ->
  finish_weights R (R_ops eps) R_pow w p
  = map (fun x => R_pow (Rmax (x / (sumR w / INR (length w))) 0) p) w
  /\ Forall (fun x => 0 <= x) (finish_weights R (R_ops eps) R_pow w p).
Proof. intros. split; [apply finish_weights_R|apply finish_weights_nonneg]. Qed.
Print Assumptions C17_weights_nonneg_partial.

(* known finding transformer-zero-mean-weights: the binary64 model of the same code returns NaN weights when every raw
   weight is 0 (single column, rank-1 counts): the learned weights are then not non-negative numbers *)
Example C17_weights_zero_mean_float_nan : exists (w : list PrimFloat.float) (p : PrimFloat.float),
  existsb (fun x => negb (PrimFloat.eqb x x)) (finish_weights PrimFloat.float (F_ops PrimFloat.zero) f_pow w p) = true.
Proof. exists [PrimFloat.zero; PrimFloat.zero], PrimFloat.two. vm_compute. reflexivity. Qed.
(* (an Example, not a gated Theorem: it computes with Coq's primitive binary64 operations, which Print Assumptions lists) *)

(* known finding noncanonical-duplicate-entries: with a row index stored twice the search reads one of the two values,
   not their sum (the theorems above exclude this by NoDup (map fst c)) *)
Theorem C17_duplicates_refuted : exists (inds : list Z) (data : list Z) (i : Z),
  StronglySorted Z.le inds /\ In i inds /\
  nth_error data (searchsorted inds i) <> Some (fold_right Z.add 0%Z (map snd (filter (fun e => Z.eqb (fst e) i) (combine inds data)))).
Proof.
  exists [0; 0; 2]%Z, [1; 1; 3]%Z, 0%Z. split; [repeat constructor; lia|]. split; [left; reflexivity|]. vm_compute. discriminate.
Qed.
Print Assumptions C17_duplicates_refuted.

Theorem C17_transform_is_diag_scaling : forall eps rows w i j, (i < length rows)%nat ->
  (j < length (nth i rows []))%nat -> (j < length w)%nat ->
  nth j (nth i (transform R (R_ops eps) rows w) []) 0 = nth j (nth i rows []) 0 * nth j w 0.
Proof. exact transform_entry. Qed.
Print Assumptions C17_transform_is_diag_scaling.

Theorem C17_transform_support : forall eps rows w i j, (i < length rows)%nat ->
  (j < length (nth i rows []))%nat -> (j < length w)%nat ->
  nth j (nth i rows []) 0 = 0 -> nth j (nth i (transform R (R_ops eps) rows w) []) 0 = 0.
Proof. intros eps rows w i j Hi Hj Hw Hz. rewrite transform_entry by assumption. rewrite Hz. apply Rmult_0_l. Qed.
Print Assumptions C17_transform_support.

Theorem C17_transform_linear : forall eps a b X Y w, length X = length Y ->
  Forall2 (fun r r' => length r = length r') X Y ->
  transform R (R_ops eps) (map2 (fun r r' => map2 (fun x y => a * x + b * y) r r') X Y) w
  = map2 (fun r r' => map2 (fun x y => a * x + b * y) r r') (transform R (R_ops eps) X w) (transform R (R_ops eps) Y w).
Proof. exact transform_linear. Qed.
Print Assumptions C17_transform_linear.

(* ---- non-vacuity *)
Example C17_ex_col_ok : Forall (col_ok 3) [[(2%Z, 1); (0%Z, 2)]; [(1%Z, 0); (0%Z, 3)]].
Proof.
  assert (N1 : NoDup [2; 0]%Z) by (constructor; [simpl; intros [H|[]]; discriminate|constructor; [simpl; tauto|constructor]]).
  assert (N2 : NoDup [1; 0]%Z) by (constructor; [simpl; intros [H|[]]; discriminate|constructor; [simpl; tauto|constructor]]).
  constructor; [|constructor; [|constructor]]; (split; [assumption|split]);
    unfold in_range, nonnegv, keys; simpl; repeat (apply Forall_cons || apply Forall_nil); try lia; try lra.
Qed.
Example C17_ex_perm : Permutation (map (fun i => (2 - i)%nat) (seq 0 3)) (seq 0 3).
Proof. simpl. apply Permutation_rev with (l := [2; 1; 0]%nat). Qed.
Example C17_ex_search : searchsorted [0; 2; 5; 9]%Z 5%Z = 2%nat.
Proof. vm_compute. reflexivity. Qed.
