(* C10 — compiled kernels never access memory outside their arrays: the safety halves of the index-level kernel
   models.  Every model below performs *checked* array accesses (a read or write outside the array, or the use of a
   loop variable that was never assigned, makes the model return an error value); each theorem says that on every
   valid input the model returns a proper result, i.e. no access leaves its array.  The functional halves of the same
   theorems are in the property files of the kernels (C04, C09, C17, C18, C19; C11 and C03 add the EM update and the
   window kernels). *)
From Coq Require Import ZArith List Lia Sorted.
From VZ Require Import Model.K14_Sliding Proofs.K14_Sliding_proofs.
From VZ Require Import Model.K01_CooAcc Proofs.K01_CooAcc_list Proofs.K01_CooAcc_arrays Proofs.K01_CooAcc_proofs.
From VZ Require Import Model.K8_BPE Proofs.K8_BPE_proofs.
From VZ Require Import Model.K11_SparseVec Model.K13_InfoWeight.
From VZ Require Properties.C04 Properties.C09 Properties.C17 Properties.C18.
Import ListNotations.

(* ---- sliding_windows: every element index read for window i, sample position j is inside the (padded) sequence,
        every slice [i*stride, i*stride+width) is complete, so np.empty((n_rows, ..)) is fully overwritten *)
Theorem C10_sliding_reads : forall width stride sample len i j,
  (0 < stride)%nat -> (width <= len)%nat -> Forall (fun j => (j < width)%nat) sample ->
  (i < n_rows len width stride)%nat -> In j sample -> (i * stride + j < len)%nat.
Proof. exact sliding_windows_reads_in_range. Qed.
Print Assumptions C10_sliding_reads.

Theorem C10_sliding_slice_full : forall len width stride i,
  (0 < stride)%nat -> (width <= len)%nat -> (i < n_rows len width stride)%nat -> (i * stride + width <= len)%nat.
Proof. exact n_rows_in_range. Qed.
Print Assumptions C10_sliding_slice_full.

(* ---- the COO accumulator (coo_append, coo_sum_duplicates, merge_sum_duplicates, merge_all_sum_duplicates,
        coo_increase_mem): no out-of-bounds access for every threshold, capacity >= 20, every event list within the
        level-counter bound (see C04_acc_total for the bound and what lies outside it) *)
Theorem C10_coo : forall limit cap mlen (evs : list entry),
  (1 <= limit)%Z -> (20 <= cap)%Z -> Forall (fun e => (0 <= e_key e)%Z) evs ->
  (2 * zlen evs + 2 < 2 ^ (mlen - 1))%Z ->
  exists s, run limit cap mlen evs = K01_CooAcc.Ok s.
Proof.
  intros limit cap mlen evs H1 H2 H3 H4.
  destruct (C04.C04_acc_total limit cap mlen evs H1 H2 H3 H4) as (s & E & _). exists s. exact E.
Qed.
Print Assumptions C10_coo.

(* ---- BPE contraction kernels: contract_pair's array loop (output buffer, skip flag, tail copy) and bpe_encode
        never leave their arrays and never read an unassigned loop variable — for every length, 0 and 1 included *)
Theorem C10_bpe_contract : forall cl a b c, exists r, contract_pair_arr cl a b c = K8_BPE.Ok r.
Proof. intros. eexists. apply C09.C09_contract_refines. Qed.
Print Assumptions C10_bpe_contract.

Theorem C10_bpe_encode : forall ms mcc s, exists r, bpe_encode ms mcc s = K8_BPE.Ok r.
Proof. intros. eexists. apply C09.C09_encode_safe. Qed.
Print Assumptions C10_bpe_encode.

(* ---- sparse vector helpers (merge loop + both tail-copy loops write into buffers of length |union| / |intersect|) *)
Theorem C10_sparse_sum : forall ind1 data1 ind2 data2,
  StronglySorted Z.lt ind1 -> length ind1 = length data1 ->
  StronglySorted Z.lt ind2 -> length ind2 = length data2 ->
  exists r, sparse_sum_Z ind1 data1 ind2 data2 = Some r.
Proof.
  intros ind1 data1 ind2 data2 S1 L1 S2 L2.
  destruct (C18.C18_sparse_sum_Z ind1 data1 ind2 data2 S1 L1 S2 L2) as (ri & rd & E & _). eexists. exact E.
Qed.
Print Assumptions C10_sparse_sum.

Theorem C10_sparse_mul : forall ind1 data1 ind2 data2,
  StronglySorted Z.lt ind1 -> length ind1 = length data1 ->
  StronglySorted Z.lt ind2 -> length ind2 = length data2 ->
  exists r, sparse_mul_Z ind1 data1 ind2 data2 = Some r.
Proof.
  intros ind1 data1 ind2 data2 S1 L1 S2 L2.
  destruct (C18.C18_sparse_mul_Z ind1 data1 ind2 data2 S1 L1 S2 L2) as (ri & rd & E & _). eexists. exact E.
Qed.
Print Assumptions C10_sparse_mul.

(* ---- information weight kernel: the binary search lands on a stored position whenever the row is present and the
        column's indices are sorted (what the conversion step guarantees) *)
Theorem C10_infoweight_search : forall (a : list Z) (v : Z),
  StronglySorted Z.lt a -> In v a -> exists x, nth_error a (searchsorted a v) = Some x.
Proof. intros a v S I. exists v. apply C17.C17_search_sorted; assumption. Qed.
Print Assumptions C10_infoweight_search.
