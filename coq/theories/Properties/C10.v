(* C10 — compiled kernels never access memory outside their arrays: the safety halves of the kernel models.
   Each statement says that every index the modelled kernel reads or writes is inside the array it indexes.
   (Further kernels are added as their index-level models land: accumulator, EM update, BPE contraction,
   sparse-vector merges.) *)
From Coq Require Import ZArith List Lia.
From VZ Require Import Model.K14_Sliding Proofs.K14_Sliding_proofs.
Import ListNotations.

(* sliding_windows: every element index read for window i, sample position j is inside the (padded) sequence,
   and np.empty((n_rows, ...)) is written at exactly the rows 0..n_rows-1 *)
Theorem C10_sliding_reads : forall width stride sample len i j,
  (0 < stride)%nat -> (width <= len)%nat -> Forall (fun j => (j < width)%nat) sample ->
  (i < n_rows len width stride)%nat -> In j sample -> (i * stride + j < len)%nat.
Proof. exact sliding_windows_reads_in_range. Qed.
Print Assumptions C10_sliding_reads.

Theorem C10_sliding_slice_full : forall len width stride i,
  (0 < stride)%nat -> (width <= len)%nat -> (i < n_rows len width stride)%nat -> (i * stride + width <= len)%nat.
Proof. exact n_rows_in_range. Qed.
Print Assumptions C10_sliding_slice_full.
