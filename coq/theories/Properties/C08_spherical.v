(* C08 (continued) — the cosine / spherical branch of the LOT pipeline, the batched Sinkhorn rows and
   ApproximateWassersteinVectorizer: the embedding depends only on the measure, not on its encoding.

   Models: Model/K17_LOTspherical.v (lot_pipeline_sph, sph_block, sinkhorn_row) and Model/K17_ApproxW.v, instantiated
   over Coq's real numbers (sqrt = R_sqrt.sqrt).  In every statement `rnd` — the store of the tangent scale into a
   float32 array — is an ARBITRARY function R -> R, `pw` (x |-> x ** normalization_power) is arbitrary unless said
   otherwise, the transport plan / the Sinkhorn scalings / the SVD factors are inputs (DESIGN §3.5).
   The plan-transfer theorems of Properties/C08.v are about plans, costs and barycentric images over Q; they reach
   the spherical rows through Q2R (C08_spherical_images_Q2R: the model's image loop commutes with Q2R).
   Only statements, each closed by `exact <lemma>`, followed by Print Assumptions (stdlib real-number axioms only). *)
From Coq Require Import Reals QArith Qreals List Arith Permutation Lra.
From VZ Require Import Model.K16_OTcert Model.K17_LOTglue Model.K17_LOTspherical Model.K17_ApproxW Model.K19_RowWise
                       Proofs.K16_OTcert_proofs Proofs.K17_LOTglue_proofs Proofs.K19_RowWise_proofs
                       Proofs.K17_LOTspherical_proofs Proofs.K17_ApproxW_proofs.
Import ListNotations.
Open Scope R_scope.

(* ================================================================ 1. the spherical branch *)

(* block j of the spherical row is sph_block of row j of the image matrix and of reference point j: the spherical
   post-processing reads nothing but the barycentric image and the reference *)
Theorem C08_spherical_blockwise : forall rnd m d img ys j, (j < m)%nat -> (j < length ys)%nat ->
  sph_post_R rnd m d img ys = concat (map2 (sph_block_R rnd) (chunk R m d img) ys) /\
  nth j (map2 (sph_block_R rnd) (chunk R m d img) ys) [] = sph_block_R rnd (firstn d (skipn (j * d) img)) (nth j ys []).
Proof. intros rnd m d img ys j Hm Hy. split; [apply sph_post_unfold | apply sph_post_blockwise; assumption]. Qed.
Print Assumptions C08_spherical_blockwise.

(* exact-rational barycentric images that agree as rationals (what the transfer theorems deliver) give equal rows *)
Theorem C08_spherical_depends_on_image : forall rnd m d q ys, length q = m -> Forall (fun qj => ~ (qj == 0)%Q) q ->
  forall pe pe', Forall (atom_ok m d) pe -> Forall (atom_ok m d) pe' -> Forall2 Qeq (pimage m d q pe') (pimage m d q pe) ->
  lot_row_sph_R rnd m d (map Q2R q) ys (atoms_R m d q pe') = lot_row_sph_R rnd m d (map Q2R q) ys (atoms_R m d q pe).
Proof. exact sph_row_equal_images. Qed.
Print Assumptions C08_spherical_depends_on_image.

(* the model's spherical row IS the post-processing of the (Q2R image of the) pointwise barycentric image pimage *)
Theorem C08_spherical_row_model : forall rnd m d q ys, length q = m -> Forall (fun qj => ~ (qj == 0)%Q) q ->
  forall pe, Forall (atom_ok m d) pe ->
  lot_row_sph_R rnd m d (map Q2R q) ys (atoms_R m d q pe) = sph_post_R rnd m d (map Q2R (pimage m d q pe)) ys.
Proof. exact sph_row_of_pimage. Qed.
Print Assumptions C08_spherical_row_model.

Theorem C08_spherical_images_Q2R : forall m d q atoms, Forall (fun qj => ~ (qj == 0)%Q) q ->
  map Q2R (images_Q m d q atoms) = images_R m d (map Q2R q) (map (fun a => (map Q2R (fst a), map Q2R (snd a))) atoms).
Proof. exact images_Q2R. Qed.
Print Assumptions C08_spherical_images_Q2R.

(* rescaling the row of weights: the whole per-row body (truncation to max_distribution_size, normalisation, the
   plan of the normalised row, image, spherical tail, signed square root) returns the same row *)
Theorem C08_spherical_scale : forall rnd c maxsize m d w xs q ys plan_of, 0 < c ->
  lot_pipeline_sph_R rnd maxsize m d (map (Rmult c) w) xs q ys plan_of = lot_pipeline_sph_R rnd maxsize m d w xs q ys plan_of.
Proof. exact sph_pipeline_scale. Qed.
Print Assumptions C08_spherical_scale.

(* the same for the euclidean branch (Properties/C08.v has the normalisation step only) *)
Theorem C08_euclidean_pipeline_scale : forall c maxsize m d w xs q ys plan_of, 0 < c ->
  lot_pipeline_R maxsize m d (map (Rmult c) w) xs q ys plan_of = lot_pipeline_R maxsize m d w xs q ys plan_of.
Proof. exact lot_pipeline_R_scale. Qed.
Print Assumptions C08_euclidean_pipeline_scale.

Theorem C08_spherical_normalised_is_probability : forall w p, normalise_R w = Some p -> gsum R 0 Rplus p = 1.
Proof. exact normalise_R_sums_to_one. Qed.
Print Assumptions C08_spherical_normalised_is_probability.

(* l2_normalize makes the block blind to a positive factor on its image row (so neither the 1/q_j of the
   barycentric projection nor the total mass of a Sinkhorn coupling matters on this branch) *)
Theorem C08_spherical_block_positive_homogeneous : forall rnd t a y, 0 < t ->
  sph_block_R rnd (map (Rmult t) a) y = sph_block_R rnd a y.
Proof. exact sph_block_pos_homogeneous. Qed.
Print Assumptions C08_spherical_block_positive_homogeneous.

(* hence the whole spherical tail is blind to a positive factor on the whole image matrix *)
Theorem C08_spherical_post_positive_homogeneous : forall rnd t m d img ys, 0 < t ->
  sph_post_R rnd m d (map (Rmult t) img) ys = sph_post_R rnd m d img ys.
Proof. exact sph_post_pos_homogeneous. Qed.
Print Assumptions C08_spherical_post_positive_homogeneous.

(* C08_unique_image carried to the embedding: two encodings E, E' of one measure (plan transfers in both
   directions: C08_transfer_perm / _pad / _split / _transfers_compose), unique optimal image for E; then WHATEVER
   optimal plans the solver returns for E and for E', the spherical LOT rows, signed square root included, are equal *)
Theorem C08_spherical_equal_optimal_images : forall rnd m d q ys dist, length q = m -> Forall (fun qj => ~ (qj == 0)%Q) q ->
  forall E E' pe pe',
  transfers m d q ys dist E' E ->
  (forall p1 p2, poptimal m d q ys dist E p1 -> poptimal m d q ys dist E p2 -> Forall2 Qeq (pimage m d q p1) (pimage m d q p2)) ->
  transfers m d q ys dist E E' -> poptimal m d q ys dist E pe -> poptimal m d q ys dist E' pe' ->
  forall ysR,
  map ssqrt_R (lot_row_sph_R rnd m d (map Q2R q) ysR (atoms_R m d q pe'))
  = map ssqrt_R (lot_row_sph_R rnd m d (map Q2R q) ysR (atoms_R m d q pe)).
Proof. exact sph_unique_image_transfer. Qed.
Print Assumptions C08_spherical_equal_optimal_images.

(* ================================================================ 2. ApproximateWassersteinVectorizer *)
(* a row is its list of stored entries (column, value); atoms_of V row = [(value, V[column])] is the measure it
   encodes.  approx_basis is one row of (X @ vectors) / (X.sum(axis=1) ** normalization_power). *)

Theorem C08_approx_scale : forall c d V row, c <> 0 -> row_sum_R row <> 0 ->
  approx_basis_R (fun x => x) d V (scale_row c row) = approx_basis_R (fun x => x) d V row.
Proof. exact approx_basis_scale. Qed.
Print Assumptions C08_approx_scale.

(* any power whose x ** p is homogeneous of degree 1 at the row's mass; the guard is the real division's *)
Theorem C08_approx_scale_general : forall pw c d V row, c <> 0 -> pw (row_sum_R row) <> 0 ->
  pw (c * row_sum_R row) = c * pw (row_sum_R row) ->
  approx_basis_R pw d V (scale_row c row) = approx_basis_R pw d V row.
Proof. exact approx_basis_scale_gen. Qed.
Print Assumptions C08_approx_scale_general.

(* normalization_power = 0: NOT scale invariant (by design; the harness tests power 1 only for this clause) *)
Theorem C08_approx_scale_power0_refuted :
  approx_basis_R (fun _ => 1) 1 [[1]] (scale_row 2 [(0%nat, 1)]) <> approx_basis_R (fun _ => 1) 1 [[1]] [(0%nat, 1)].
Proof. exact approx_basis_scale_power0_refuted. Qed.
Print Assumptions C08_approx_scale_power0_refuted.

(* permuting support points together with their vectors: any storage order, any renumbering of the columns *)
Theorem C08_approx_perm : forall pw d V V' row row', Permutation (atoms_of V row) (atoms_of V' row') ->
  approx_basis_R pw d V row = approx_basis_R pw d V' row'.
Proof. exact approx_basis_perm. Qed.
Print Assumptions C08_approx_perm.

Theorem C08_approx_renumber : forall pw d V V' (sigma : nat -> nat) row,
  Forall (fun e => nth (sigma (fst e)) V' [] = nth (fst e) V []) row ->
  forall row', Permutation row' (map (fun e => (sigma (fst e), snd e)) row) ->
  approx_basis_R pw d V' row' = approx_basis_R pw d V row.
Proof. exact approx_basis_renumber. Qed.
Print Assumptions C08_approx_renumber.

(* a stored zero anywhere in the row; vectors that no row uses *)
Theorem C08_approx_pad : forall pw d V r1 r2 c, length (nth c V []) = d ->
  approx_basis_R pw d V (r1 ++ (c, 0) :: r2) = approx_basis_R pw d V (r1 ++ r2).
Proof. exact approx_basis_pad. Qed.
Print Assumptions C08_approx_pad.

Theorem C08_approx_pad_columns : forall pw d V extra row, Forall (fun e => (fst e < length V)%nat) row ->
  approx_basis_R pw d (V ++ extra) row = approx_basis_R pw d V row.
Proof. exact approx_basis_more_vectors. Qed.
Print Assumptions C08_approx_pad_columns.

(* splitting column c into itself and a duplicate (new last column) sharing the weight *)
Theorem C08_approx_split : forall pw d V r1 r2 c w w1 w2, w1 + w2 = w ->
  (c < length V)%nat -> Forall (fun e => (fst e < length V)%nat) (r1 ++ r2) ->
  approx_basis_R pw d (V ++ [nth c V []]) (r1 ++ (c, w1) :: r2 ++ [(length V, w2)])
  = approx_basis_R pw d V (r1 ++ (c, w) :: r2).
Proof. exact approx_basis_split. Qed.
Print Assumptions C08_approx_split.

Theorem C08_approx_split_atoms : forall pw d V V' row row' w w1 w2 x rest, w1 + w2 = w ->
  Permutation (atoms_of V row) ((w, x) :: rest) -> Permutation (atoms_of V' row') ((w1, x) :: (w2, x) :: rest) ->
  approx_basis_R pw d V row = approx_basis_R pw d V' row'.
Proof. exact approx_basis_split_atoms. Qed.
Print Assumptions C08_approx_split_atoms.

(* transform: a function of the basis row (so every invariance above holds for the transformed row, for ANY
   components_ / singular_values_), computed row by row *)
Theorem C08_approx_transform_of_basis : forall pw d V V' comps svs row row',
  approx_basis_R pw d V row = approx_basis_R pw d V' row' ->
  approx_row_R pw d V comps svs row = approx_row_R pw d V' comps svs row'.
Proof. exact approx_row_of_basis. Qed.
Print Assumptions C08_approx_transform_of_basis.

Theorem C08_approx_rowwise : forall pw d V comps svs X X' i j, (i < length X)%nat -> (j < length X')%nat ->
  nth i X [] = nth j X' [] ->
  nth i (approx_transform_R pw d V comps svs X) [] = nth j (approx_transform_R pw d V comps svs X') [] /\
  nth i (approx_transform_R pw d V comps svs X) [] = approx_row_R pw d V comps svs (nth i X []) /\
  length (approx_transform_R pw d V comps svs X) = length X.
Proof.
  intros pw d V comps svs X X' i j Hi Hj H. split; [apply approx_transform_row_independent; assumption|].
  split; [apply approx_transform_rowwise; assumption | apply approx_transform_length].
Qed.
Print Assumptions C08_approx_rowwise.

(* ================================================================ 3. batched Sinkhorn rows *)
(* sinkhorn_vectors_sparse_internal on a chunk: the (u, v) columns come out of ONE loop shared by the chunk
   (K19 sinkhorn_batch: per-column updates, but the non-finite break and the joint right-marginal test every 10th
   iteration look at the whole chunk), then each row is post(own column) with post = sinkhorn_transport_images of
   that column followed by the spherical tail (K17_LOTspherical.sinkhorn_row; no signed square root there).
   PARTIAL: a row is a function of its own item and of the shared stopping index T only — it is the image of the
   T-th iterate of its own item — and two chunks that stop at the same T give an item the same row.  Missing for
   the full clause "equal distributions get equal embeddings whatever the chunk": T itself depends on the other
   rows of the chunk (C12_sinkhorn_batch_refuted), so the rows agree only up to the Sinkhorn tolerance, which is a
   numerical statement outside these models (the oracle checks it at 1e-6); likewise the invariance of one
   Sinkhorn iterate under pad / perm / split of the item is not proved here (the image loop skips v[j] == 0, the
   item's re-encodings change K column-wise): oracle only. *)
Theorem C08_sinkhorn_rows_partial : forall (Item St Row : Type) init step nonfinite converged (post : St -> Row) max_iter items,
  sinkhorn_rows Item St Row init step nonfinite converged post max_iter items
  = map (fun x => post (iter (stop_index Item St init step nonfinite converged max_iter items) (step x) (init x))) items.
Proof. exact sinkhorn_rows_spec. Qed.
Print Assumptions C08_sinkhorn_rows_partial.

Theorem C08_sinkhorn_same_stop_partial : forall (Item St Row : Type) init step nonfinite converged (post : St -> Row) max_iter X Y i j d,
  (i < length X)%nat -> (j < length Y)%nat -> nth i X d = nth j Y d ->
  stop_index Item St init step nonfinite converged max_iter X = stop_index Item St init step nonfinite converged max_iter Y ->
  nth i (sinkhorn_rows Item St Row init step nonfinite converged post max_iter X) (post (init d))
  = nth j (sinkhorn_rows Item St Row init step nonfinite converged post max_iter Y) (post (init d)).
Proof. exact sinkhorn_rows_same_stop. Qed.
Print Assumptions C08_sinkhorn_same_stop_partial.

(* with the model's own tail as `post` (state = the column's (u, v)): the row is made of per-reference-point
   blocks of the column's own image, and a positive factor on the column's u (the Sinkhorn scalings are determined
   up to such factors only) does not change it *)
Theorem C08_sinkhorn_row_blockwise_partial : forall rnd m d u K v vectors ys j, (j < m)%nat -> (j < length ys)%nat ->
  sinkhorn_row_R rnd m d u K v vectors ys = concat (map2 (sph_block_R rnd) (chunk R m d (sink_images_R d u K v vectors)) ys) /\
  nth j (map2 (sph_block_R rnd) (chunk R m d (sink_images_R d u K v vectors)) ys) []
  = sph_block_R rnd (firstn d (skipn (j * d) (sink_images_R d u K v vectors))) (nth j ys []).
Proof. intros rnd m d u K v vectors ys j Hm Hy. split; [reflexivity | apply sph_post_blockwise; assumption]. Qed.
Print Assumptions C08_sinkhorn_row_blockwise_partial.

Theorem C08_sinkhorn_row_scale_partial : forall rnd t m d u K v vectors ys, 0 < t ->
  sinkhorn_row_R rnd m d (map (Rmult t) u) K v vectors ys = sinkhorn_row_R rnd m d u K v vectors ys.
Proof. exact sinkhorn_row_u_scale. Qed.
Print Assumptions C08_sinkhorn_row_scale_partial.

(* ================================================================ non-vacuity *)
(* sqrt 4 = 2 etc.: a concrete spherical block.  image row (3, 4) -> (3/5, 4/5); reference (1, 0):
   tangent direction (0, 1), scale = cosine distance 1 - 3/5 = 2/5 *)
Example C08_ex_sph_block : sph_block_R (fun x => x) [3; 4] [1; 0] = [0; 2 / 5].
Proof.
  assert (S25 : sqrt 25 = 5) by (replace 25 with (5 * 5) by lra; apply sqrt_square; lra).
  assert (S1 : sqrt 1 = 1) by apply sqrt_1.
  unfold sph_block_R, sph_block, l2n, cosine, project_tangent, unit_normal, gsumsq, gdot. simpl.
  replace (0 + 3 * 3 + 4 * 4) with 25 by lra. rewrite S25.
  assert (L : Rltb 0 5 = true) by (apply Rltb_spec; lra). rewrite L. simpl.
  replace (0 + 1 * 1 + 0 * 0) with 1 by lra. rewrite S1.
  replace (0 + (3 / 5 - 1) * (1 / 1) + (4 / 5 - 0) * (0 / 1)) with (- (2 / 5)) by lra.
  replace (3 / 5 - 1 - - (2 / 5) * (1 / 1)) with 0 by lra.
  replace (4 / 5 - 0 - - (2 / 5) * (0 / 1)) with (4 / 5) by lra.
  replace (0 + 0 * 0 + 4 / 5 * (4 / 5)) with (4 / 5 * (4 / 5)) by lra.
  rewrite sqrt_square by lra.
  assert (L2 : Rltb 0 (4 / 5) = true) by (apply Rltb_spec; lra). rewrite L2. simpl.
  replace (0 + 3 / 5 * (3 / 5) + 4 / 5 * (4 / 5)) with 1 by lra.
  unfold Reqb. destruct (Req_EM_T 1 0) as [E|_]; [lra|]. simpl.
  replace (1 * 1) with 1 by lra. rewrite S1.
  f_equal; [lra|]. f_equal. lra.
Qed.

(* hypotheses of C08_spherical_equal_optimal_images are met by the instance of Properties/C08.v: the two plans of
   its split example have equal images, hence equal spherical rows *)
Example C08_ex_sph_rows_equal : forall rnd ysR pe',
  Forall (atom_ok 2 1) pe' -> Forall2 Qeq (pimage 2 1 [1#2; 1#2]%Q pe') (pimage 2 1 [1#2; 1#2]%Q
     [mk_atom (1#4) [0%Q] [1#4; 0]%Q; mk_atom (3#4) [2%Q] [1#4; 1#2]%Q]) ->
  lot_row_sph_R rnd 2 1 (map Q2R [1#2; 1#2]%Q) ysR (atoms_R 2 1 [1#2; 1#2]%Q pe')
  = lot_row_sph_R rnd 2 1 (map Q2R [1#2; 1#2]%Q) ysR
      (atoms_R 2 1 [1#2; 1#2]%Q [mk_atom (1#4) [0%Q] [1#4; 0]%Q; mk_atom (3#4) [2%Q] [1#4; 1#2]%Q]).
Proof.
  intros rnd ysR pe' Hok H. apply C08_spherical_depends_on_image; try assumption; try reflexivity.
  - repeat constructor; intros E; discriminate E.
  - repeat constructor; simpl; try reflexivity; try (apply Qle_bool_iff; reflexivity).
Qed.

(* approx: the split [(0, 3)] -> [(0, 1); (1, 2)] over V = [[1; 2]] ++ [[1; 2]], and a scaled row *)
Example C08_ex_approx_split :
  approx_basis_R (fun x => x) 2 ([[1; 2]] ++ [nth 0 [[1; 2]] []]) ([] ++ (0%nat, 1) :: [] ++ [(length [[1; 2]], 2)])
  = approx_basis_R (fun x => x) 2 [[1; 2]] ([] ++ (0%nat, 3) :: []).
Proof. apply C08_approx_split; [lra | simpl; auto | constructor]. Qed.

Example C08_ex_approx_value : approx_basis_R (fun x => x) 2 [[1; 2]; [3; 0]] [(0%nat, 1); (1%nat, 1)] = [2; 1].
Proof.
  unfold approx_basis_R, approx_basis, row_matvec, row_sum, axpy, gsum. simpl. f_equal; [lra|]. f_equal. lra.
Qed.

Example C08_ex_approx_scale_hyp : row_sum_R [(0%nat, 1); (1%nat, 1)] <> 0.
Proof. unfold row_sum_R, row_sum, gsum. simpl. lra. Qed.

(* executable instances (binary64) of the three models *)
From Coq Require Import PrimFloat.
Example C08_ex_models_run :
  lot_pipeline_sph_F 256 1 2 [1; 3]%float [[1; 0]; [0; 1]]%float [1]%float [[1; 0]]%float (fun _ => [[0.25]; [0.75]]%float) <> []
  /\ approx_transform_F pw_one 2 [[1; 2]; [3; 0]]%float [[1; 0]]%float [4]%float [[(0%nat, 1); (1%nat, 1)]]%float = [[1]]%float
  /\ round32_F 0x1.999999999999ap-4%float = 0x1.99999ap-4%float.
Proof. split; [vm_compute; discriminate | split; vm_compute; reflexivity]. Qed.
