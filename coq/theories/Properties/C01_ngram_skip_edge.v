(* C01 (part: NgramVectorizer, SkipgramVectorizer, EdgeListVectorizer, merged unigram models) — transform returns one
   row per item in the fitted column space: exactly len(X') rows (EdgeList: one per fitted row index), exactly the
   fitted number of columns, every stored index inside that shape, no exception, unseen vocabulary ignored
   (transform M X' = transform M (strip_unseen M X')).  The other vectorizers of C01 are in other files.
   Only statements; proofs are in Proofs/K7_Ngrams_proofs.v and Proofs/K10_Assembly_proofs.v.

   "Never raises": the EdgeList and Skipgram models go through the checked constructors of the scipy model
   (coo_matrix with shape= raises ValueError on an index outside the shape, a boolean column mask of the wrong length
   raises IndexError) and the theorems show that they return `Ok`.  The Ngram model is total because the code itself
   catches the only exception of its loop (KeyError, gram dropped) and the CSR constructor performs no index check:
   there the content is that every stored index is inside the declared shape. *)
From Coq Require Import ZArith List Lia Bool Permutation Arith.
From VZ Require Import Model.K10_Assembly Model.K7_Ngrams Proofs.K10_Assembly_proofs Proofs.K7_Ngrams_proofs.
Import ListNotations.
Open Scope Z_scope.

(* ---------------------------------------------------------------- NgramVectorizer *)
(* hypothesis = the column dictionary is an enumeration: its indices are < its size (learned dictionaries are, see
   C01_ngram_learned_wf; a fixed ngram_dictionary with gaps is not a valid input) *)
Theorem C01_ngram : forall M X,
  Forall (fun kv => 0 <= snd kv < Z.of_nat (length (ng_cold M))) (ng_cold M) ->
  nrows (ng_transform M X) = Z.of_nat (length X) /\
  ncols (ng_transform M X) = Z.of_nat (length (ng_cold M)) /\
  (forall t, In t (entries (ng_transform M X)) ->
     0 <= trow t < nrows (ng_transform M X) /\ 0 <= tcol t < ncols (ng_transform M X)) /\
  ng_transform M (map (filter (tok_known (ng_tokdict M))) X) = ng_transform M X.
Proof.
  intros M X W. split; [reflexivity|]. split; [reflexivity|]. split.
  - intros t Ht. apply ng_transform_in_range; assumption.
  - apply ng_transform_strip.
Qed.
Print Assumptions C01_ngram.

(* each column keeps the meaning recorded in the fitted column dictionary *)
Theorem C01_ngram_label_stable : forall M X i G0 c0,
  ng_wf M -> (i < length X)%nat -> glookup (gram_key G0) (ng_cold M) = Some c0 ->
  cell (entries (ng_transform M X)) (Z.of_nat i) c0
  = Z.of_nat (count_occ gram_dec (ngrams_of (known (ng_tokdict M) (nth i X [])) (ng_n M) (ng_beh M)) G0).
Proof. exact ng_cell. Qed.
Print Assumptions C01_ngram_label_stable.

Theorem C01_ngram_learned_wf : forall n b docs, ng_wf (fst (ng_fit None None n b docs)).
Proof. exact ng_fit_learned_wf. Qed.
Print Assumptions C01_ngram_learned_wf.

(* fitted or merged ('+') unigram models with columns ls *)
Theorem C01_unigram_merged : forall m ls b X,
  uni_wf m ls ->
  nrows (ng_transform (uni_as_ng m b) X) = Z.of_nat (length X) /\
  ncols (ng_transform (uni_as_ng m b) X) = Z.of_nat (length ls) /\
  (forall t, In t (entries (ng_transform (uni_as_ng m b) X)) ->
             0 <= trow t < Z.of_nat (length X) /\ 0 <= tcol t < Z.of_nat (length ls)).
Proof. exact uni_transform_shape. Qed.
Print Assumptions C01_unigram_merged.

(* ---------------------------------------------------------------- SkipgramVectorizer *)
Theorem C01_skipgram : forall M w X,
  sg_wf (sg_tokdict M) (sg_radii M) ->
  exists m, sg_transform M w X = Ok m /\
    nrows m = Z.of_nat (length X) /\
    ncols m = Z.of_nat (length (sg_labels M)) /\
    (forall t, In t (entries m) -> 0 <= trow t < nrows m /\ 0 <= tcol t < ncols m) /\
    sg_transform M w (map (filter (tok_known (sg_tokdict M))) X) = Ok m.
Proof.
  intros M w X W. destruct (sg_transform_ok M w X W) as [m [H [Hr [Hc [Hin _]]]]].
  exists m. split; [exact H|]. split; [exact Hr|]. split; [|split; [exact Hin|]].
  - rewrite Hc. unfold sg_labels. rewrite map_length. reflexivity.
  - rewrite sg_transform_strip. exact H.
Qed.
Print Assumptions C01_skipgram.

(* the width of transform is the width fixed at fit time *)
Theorem C01_skipgram_fitted_width : forall tokdict Rs w docs M tr X,
  sg_wf tokdict Rs -> sg_fit tokdict Rs w docs = Ok (M, tr) ->
  exists m, sg_transform M w X = Ok m /\ ncols m = ncols tr /\ nrows m = Z.of_nat (length X).
Proof.
  intros tokdict Rs w docs M tr X W Hfit. pose proof (sg_fit_inv _ _ _ _ _ _ Hfit) as [Ht [Hr [_ [_ [Hc _]]]]].
  rewrite <- Ht, <- Hr in W. destruct (sg_transform_ok M w X W) as [m [H [Hn [Hm _]]]].
  exists m. split; [exact H|]. split; [rewrite Hm, Hc; reflexivity|exact Hn].
Qed.
Print Assumptions C01_skipgram_fitted_width.

(* REFUTED for the code before the repair of D3: the fit-time mask does not fit the width inferred from X' *)
Theorem C01_skipgram_unrepaired_refuted : exists tokdict Rs docs X,
  match sg_fit tokdict Rs w_flat docs with
  | Ok (M, tr) => sg_wf tokdict Rs /\ sg_transform_unrepaired M w_flat X = Raise IndexError /\
                  sg_transform M w_flat X = Ok (1, 6, [(0, 0, 1)])
  | Raise _ => False
  end.
Proof.
  exists [(1, 0); (3, 1); (5, 2)], [2; 2; 2; 0], [[1; 3; 5; 1; 3]; [5; 3; 1]], [[1; 3]].
  vm_compute. split; [|split; reflexivity]. split; [reflexivity|]. split; [reflexivity|].
  repeat constructor; cbn; discriminate.
Qed.
Print Assumptions C01_skipgram_unrepaired_refuted.

(* ---------------------------------------------------------------- EdgeListVectorizer *)
(* rows = fitted row indices (max index + 1), columns = fitted column indices; X' may lack any of them *)
Theorem C01_edgelist : forall M X,
  el_wf M ->
  exists m, el_transform M X = Ok m /\ nrows m = dict_dim (fst M) /\ ncols m = dict_dim (snd M) /\
            (forall t, In t (entries m) -> 0 <= trow t < nrows m /\ 0 <= tcol t < ncols m) /\
            el_transform M (filter (el_known M) X) = Ok m.
Proof. exact el_transform_C01. Qed.
Print Assumptions C01_edgelist.

(* transform has the shape of the training matrix *)
Theorem C01_edgelist_fitted_shape : forall rd cd joint edges M tr X,
  el_fit rd cd joint edges = Ok (M, tr) -> el_wf M ->
  exists m, el_transform M X = Ok m /\ nrows m = nrows tr /\ ncols m = ncols tr.
Proof.
  intros rd cd joint edges M tr X Hfit W. apply el_fit_inv in Hfit. destruct Hfit as [_ Ht].
  rewrite (el_transform_ok M edges W) in Ht. injection Ht as <-.
  exists (dict_dim (fst M), dict_dim (snd M), el_indexed M X). split; [apply el_transform_ok; exact W|].
  split; reflexivity.
Qed.
Print Assumptions C01_edgelist_fitted_shape.

(* REFUTED for the code before the repair of D2: the shape follows X', and an X' without known edge raises *)
Theorem C01_edgelist_unrepaired_refuted : exists edges X X',
  match el_fit None None false edges with
  | Ok (M, tr) => nrows tr = 3 /\ ncols tr = 3 /\
                  el_transform_unrepaired M X = Ok (1, 1, [(0, 0, 1)]) /\
                  el_transform_unrepaired M X' = Raise ValueError /\
                  el_transform M X = Ok (3, 3, [(0, 0, 1)]) /\ el_transform M X' = Ok (3, 3, [])
  | Raise _ => False
  end.
Proof.
  exists [(1, 11, 1); (2, 12, 2); (3, 13, 3)], [(1, 11, 1)], [(9, 11, 1)]. vm_compute. repeat split.
Qed.
Print Assumptions C01_edgelist_unrepaired_refuted.

(* ---------------------------------------------------------------- non-vacuity *)
Example C01_ex_ngram :
  let M := fst (ng_fit None None 2 Exact [[7; 9; 7; 9]; [9]]) in
  Forall (fun kv => 0 <= snd kv < Z.of_nat (length (ng_cold M))) (ng_cold M)
  /\ ng_transform M [[9; 7; 8; 9]; []; [8]] = (3, 2, [(0, 1, 1); (0, 0, 1)]).
Proof.
  cbv zeta. split; [|vm_compute; reflexivity]. apply Forall_forall. intros kv H. vm_compute in H.
  destruct H as [<-|[<-|[]]]; vm_compute; split; discriminate || reflexivity.
Qed.

Example C01_ex_edge : el_wf ([(1, 0); (2, 1)], [(11, 0); (12, 2)])
  /\ el_transform ([(1, 0); (2, 1)], [(11, 0); (12, 2)]) [(1, 11, 5); (7, 11, 1); (1, 11, 2)] = Ok (2, 3, [(0, 0, 5); (0, 0, 2)]).
Proof. split; [split; repeat constructor; cbn; lia|vm_compute; reflexivity]. Qed.
