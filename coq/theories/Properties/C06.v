(* C06 — N-gram, skip-gram and edge-list matrices hold exact counts; '+' merges models.
   Only statements, each closed by `exact <lemma>` (or a two-line composition of lemmas), followed by Print Assumptions.
   Models: Model/K7_Ngrams.v, Model/K10_Assembly.v.  The SPEC side is pointwise:
     run d s i n      = [s[i], ..., s[i+n-1]]                                   (nth, element by element)
     occurrences s g  = #{ p | p + |g| <= |s| /\ forall j < |g|, s[p+j] = g[j] }
     skip_spec        = sum over all positions p, q of indicator * weight (q - p)
     cell edges r c   = sum of the values of the triples labelled (r, c)
   whereas the MODEL side follows the code (slices, python dict counters, CSR / COO assembly with duplicate summing,
   sort + run-summing loop of sum_coo_entries, column codes head * n + tail). *)
From Coq Require Import ZArith List Lia Bool Permutation Arith.
From VZ Require Import Model.K10_Assembly Model.K7_Ngrams Model.K7_AddHistory
                       Proofs.K10_Assembly_proofs Proofs.K7_Ngrams_proofs Proofs.K7_AddHistory_proofs.
Import ListNotations.
Open Scope Z_scope.

(* ---------------------------------------------------------------- ngrams_of *)
(* 'exact': all runs of length n, in order of their start position *)
Theorem C06_ngrams_spec : forall (A : Type) (d : A) (s : list A) (n : nat),
  (1 <= n)%nat -> ngrams_of s n Exact = map (fun i => run d s i n) (seq 0 (length s + 1 - n)).
Proof. exact @ngrams_exact_spec. Qed.
Print Assumptions C06_ngrams_spec.

(* 'subgrams': at every start position i the runs of length 1 .. min(n, |s| - i) *)
Theorem C06_ngrams_subgrams_spec : forall (A : Type) (d : A) (s : list A) (n : nat),
  ngrams_of s n Subgrams
  = flat_map (fun i => map (fun j => run d s i j) (seq 1 (Nat.min n (length s - i)))) (seq 0 (length s)).
Proof. exact @ngrams_subgrams_spec. Qed.
Print Assumptions C06_ngrams_subgrams_spec.

(* the multiplicity of a gram among the n-grams = the number of positions at which it occurs *)
Theorem C06_ngram_count_exact : forall s n g,
  (1 <= n)%nat ->
  count_occ gram_dec (ngrams_of s n Exact) g = if (length g =? n)%nat then occurrences s g else 0%nat.
Proof. exact count_occ_ngrams_exact. Qed.
Print Assumptions C06_ngram_count_exact.

Theorem C06_ngram_count_subgrams : forall s n g,
  count_occ gram_dec (ngrams_of s n Subgrams) g
  = if ((1 <=? length g) && (length g <=? n))%nat then occurrences s g else 0%nat.
Proof. exact count_occ_ngrams_subgrams. Qed.
Print Assumptions C06_ngram_count_subgrams.

(* ---------------------------------------------------------------- NgramVectorizer matrices *)
(* any fitted dictionaries (learned, fixed, pruned), both behaviours, fit and transform alike (fit's matrix is
   ng_transform on the training documents): the entry in the column that the dictionary gives to the label gram G0 is
   the number of occurrences of G0 among the n-grams of the kept tokens of document i *)
Theorem C06_ngram_cell : forall M docs i G0 c0,
  ng_wf M -> (i < length docs)%nat -> glookup (gram_key G0) (ng_cold M) = Some c0 ->
  cell (entries (ng_transform M docs)) (Z.of_nat i) c0
  = Z.of_nat (count_occ gram_dec (ngrams_of (known (ng_tokdict M) (nth i docs [])) (ng_n M) (ng_beh M)) G0).
Proof. exact ng_cell. Qed.
Print Assumptions C06_ngram_cell.

(* 'exact', dictionaries learned from the corpus without pruning: every n-gram G0 of the corpus has a column, and the
   training matrix holds at (i, that column) the number of positions of document i at which G0 occurs *)
Theorem C06_ngram_exact : forall docs n d G0 i,
  (1 <= n)%nat -> In d docs -> In G0 (ngrams_of d n Exact) -> (i < length docs)%nat ->
  exists c0, glookup (gram_key G0) (ng_cold (fst (ng_fit None None n Exact docs))) = Some c0 /\
             cell (entries (snd (ng_fit None None n Exact docs))) (Z.of_nat i) c0
             = Z.of_nat (occurrences (nth i docs []) G0).
Proof.
  intros docs n d G0 i Hn Hd HG Hi.
  assert (HL : length G0 = n) by (eapply ngrams_exact_length; exact HG).
  destruct (ng_fit_learned_cell docs n Exact d G0 i Hd HG) as [c0 [H0 Hc]]; [lia|exact Hi|].
  exists c0. split; [exact H0|]. rewrite Hc, count_occ_ngrams_exact by exact Hn.
  rewrite HL, Nat.eqb_refl. reflexivity.
Qed.
Print Assumptions C06_ngram_exact.

(* 'subgrams' — PARTIAL: only the grams of length 2 .. n (and everything when n = 1).  Missing: the unigram columns
   for n >= 2, which the code never increments (known finding ngram-subgrams-unigram-dropped, C06_subgrams_refuted) *)
Theorem C06_subgrams_partial : forall docs n d G0 i,
  In d docs -> In G0 (ngrams_of d n Subgrams) -> (n = 1%nat \/ (2 <= length G0)%nat) -> (i < length docs)%nat ->
  exists c0, glookup (gram_key G0) (ng_cold (fst (ng_fit None None n Subgrams docs))) = Some c0 /\
             cell (entries (snd (ng_fit None None n Subgrams docs))) (Z.of_nat i) c0
             = Z.of_nat (occurrences (nth i docs []) G0).
Proof.
  intros docs n d G0 i Hd HG Hlen Hi.
  pose proof (ngrams_subgrams_length _ _ _ HG) as HL.
  destruct (ng_fit_learned_cell docs n Subgrams d G0 i Hd HG) as [c0 [H0 Hc]]; [lia|exact Hi|].
  exists c0. split; [exact H0|]. rewrite Hc, count_occ_ngrams_subgrams.
  replace ((1 <=? length G0) && (length G0 <=? n))%nat with true; [reflexivity|].
  symmetry. apply andb_true_iff. split; apply Nat.leb_le; lia.
Qed.
Print Assumptions C06_subgrams_partial.

(* a column keyed by a 1-tuple stays empty whatever the documents are *)
Theorem C06_subgrams_unigram_column_empty : forall M docs i l c0,
  ng_wf M -> (i < length docs)%nat -> glookup (Tup [l]) (ng_cold M) = Some c0 ->
  cell (entries (ng_transform M docs)) (Z.of_nat i) c0 = 0.
Proof. exact ng_cell_tuple1. Qed.
Print Assumptions C06_subgrams_unigram_column_empty.

(* REFUTED (faithful model of the unrepaired code): in 'subgrams' mode with ngram_size 2 the corpus [[1;3;1;3]] gets a
   column for the unigram (1,) whose entry is 0 although 1 occurs twice *)
Theorem C06_subgrams_refuted : exists docs n l c0,
  (2 <= n)%nat /\ In [l] (ngrams_of (nth 0 docs []) n Subgrams) /\
  glookup (Tup [l]) (ng_cold (fst (ng_fit None None n Subgrams docs))) = Some c0 /\
  cell (entries (snd (ng_fit None None n Subgrams docs))) 0 c0 = 0 /\
  occurrences (nth 0 docs []) [l] = 2%nat.
Proof. exists [[1; 3; 1; 3]], 2%nat, 1, 0. vm_compute. repeat split; try lia. left. reflexivity. Qed.
Print Assumptions C06_subgrams_refuted.

(* ---------------------------------------------------------------- sum_coo_entries *)
(* sort + run-summing loop: per coordinate the sum of the values, for every input list *)
Theorem C06_sum_coo_entries : forall l i j, cell (sum_coo_entries l) i j = cell l i j.
Proof. exact sum_coo_entries_cell. Qed.
Print Assumptions C06_sum_coo_entries.

(* ---------------------------------------------------------------- SkipgramVectorizer *)
(* the per-document skip-gram list: entry (a, b) = sum over the positions p of a and the positions q in the window
   after p (p < q <= p + radius a, inside the document) holding b of the kernel weight of the distance q - p *)
Theorem C06_skipgram_document : forall Rs w s a b,
  cell (build_skip_grams Rs w s) a b = skip_spec Rs w s a b.
Proof. exact build_skip_grams_cell. Qed.
Print Assumptions C06_skipgram_document.

Theorem C06_colcode_roundtrip : forall n a b, 0 <= b < n -> decode n (colcode n a b) = (a, b).
Proof. exact colcode_roundtrip. Qed.
Print Assumptions C06_colcode_roundtrip.

Theorem C06_colcode_injective : forall n a b a' b',
  0 <= b < n -> 0 <= b' < n -> colcode n a b = colcode n a' b' -> a = a' /\ b = b'.
Proof. exact colcode_inj. Qed.
Print Assumptions C06_colcode_injective.

(* the training matrix: the k-th fitted column is labelled (a, b) (token indices) and holds the windowed weight sum *)
Theorem C06_skipgram : forall tokdict Rs w docs M tr i k a b,
  sg_wf tokdict Rs -> sg_fit tokdict Rs w docs = Ok (M, tr) ->
  (i < length docs)%nat -> nth_error (sg_labels M) k = Some (a, b) ->
  ncols tr = Z.of_nat (length (sg_labels M)) /\
  cell (entries tr) (Z.of_nat i) (Z.of_nat k) = skip_spec Rs w (kept tokdict (nth i docs [])) a b.
Proof. exact sg_fit_cell'. Qed.
Print Assumptions C06_skipgram.

(* transform of any collection by any well-formed fitted model: same definition, in the fitted columns *)
Theorem C06_skipgram_transform : forall M w docs,
  sg_wf (sg_tokdict M) (sg_radii M) ->
  exists m, sg_transform M w docs = Ok m /\
    forall i k a b, (i < length docs)%nat -> nth_error (sg_labels M) k = Some (a, b) ->
      cell (entries m) (Z.of_nat i) (Z.of_nat k)
      = skip_spec (sg_radii M) w (kept (sg_tokdict M) (nth i docs [])) a b.
Proof.
  intros M w docs W. destruct (sg_transform_ok M w docs W) as [m [H [_ [_ [_ Hc]]]]]. exists m. split; assumption.
Qed.
Print Assumptions C06_skipgram_transform.

(* ---------------------------------------------------------------- EdgeListVectorizer *)
Definition edge_sum (edges : list triple) (r c : Z) : Z :=
  sumZ (map (fun e => if (trow e =? r) && (tcol e =? c) then tval e else 0) edges).

(* fit (any dictionaries, joint or not): entry (index of r, index of c) = sum of the values of all edges labelled (r, c);
   duplicate edges are summed, edges with an unknown label are ignored *)
Theorem C06_edgelist : forall rd cd joint edges M tr r c i j,
  el_fit rd cd joint edges = Ok (M, tr) -> dict_inj (fst M) -> dict_inj (snd M) ->
  lookup r (fst M) = Some i -> lookup c (snd M) = Some j ->
  cell (entries tr) i j = edge_sum edges r c.
Proof.
  intros rd cd joint edges M tr r c i j H Hr Hc Li Lj.
  rewrite (el_fit_cell rd cd joint edges M tr r c i j H Hr Hc Li Lj). apply cell_sum.
Qed.
Print Assumptions C06_edgelist.

Theorem C06_edgelist_transform : forall M X tr r c i j,
  el_transform M X = Ok tr -> dict_inj (fst M) -> dict_inj (snd M) ->
  lookup r (fst M) = Some i -> lookup c (snd M) = Some j ->
  cell (entries tr) i j = edge_sum X r c.
Proof.
  intros M X tr r c i j H Hr Hc Li Lj. rewrite (el_transform_cell M X tr r c i j H Hr Hc Li Lj). apply cell_sum.
Qed.
Print Assumptions C06_edgelist_transform.

(* dictionaries learned from the edge list: fit succeeds, the dictionaries are injective and know every label *)
Theorem C06_edgelist_learned : forall joint edges,
  exists M tr, el_fit None None joint edges = Ok (M, tr) /\ dict_inj (fst M) /\ dict_inj (snd M) /\ el_wf M /\
    forall e, In e edges -> exists i j, lookup (trow e) (fst M) = Some i /\ lookup (tcol e) (snd M) = Some j.
Proof. exact el_fit_learned. Qed.
Print Assumptions C06_edgelist_learned.

(* ---------------------------------------------------------------- '+' *)
(* `ord` is the iteration order of the python set of the right model's new tokens: any permutation of it *)
Theorem C06_add_ok : forall ord a la Xa b lb Xb,
  counts_ok a la Xa -> counts_ok b lb Xb -> Permutation ord (disjoint_vocab a b) ->
  exists c, ng_add ord a b = Ok c /\ counts_ok c (la ++ ord) (Xa ++ Xb).
Proof. exact ng_add_counts_ok. Qed.
Print Assumptions C06_add_ok.

(* a model fitted without pruning is such a model (so that sums can be summed again) *)
Theorem C06_add_fitted : forall X, counts_ok (uni_fit X) (sort_uniq (concat X)) X.
Proof. exact uni_fit_counts_ok. Qed.
Print Assumptions C06_add_fitted.

(* the sum of two unpruned unigram models vs. one model fitted on the concatenation: same set of columns (the union),
   same shape, and the same training matrix up to the column permutation given by the labels *)
Theorem C06_add : forall Xa Xb ord c,
  Permutation ord (disjoint_vocab (uni_fit Xa) (uni_fit Xb)) ->
  ng_add ord (uni_fit Xa) (uni_fit Xb) = Ok c ->
  let la := sort_uniq (concat Xa) in let lb := sort_uniq (concat Xb) in
  let lc := la ++ ord in let lf := sort_uniq (concat (Xa ++ Xb)) in
  let f := uni_fit (Xa ++ Xb) in
  counts_ok c lc (Xa ++ Xb) /\
  (forall l, In l lc <-> In l la \/ In l lb) /\
  (forall l, In l lc <-> In l lf) /\
  nrows (u_train c) = nrows (u_train f) /\ ncols (u_train c) = ncols (u_train f) /\
  (forall i l jc jf, (i < length (Xa ++ Xb))%nat -> index_of l lc = Some jc -> index_of l lf = Some jf ->
     cell (entries (u_train c)) (Z.of_nat i) jc = cell (entries (u_train f)) (Z.of_nat i) jf).
Proof. exact add_vs_concat. Qed.
Print Assumptions C06_add.

(* transform of a fitted or merged unigram model counts the tokens of all its columns (both vocabularies) *)
Theorem C06_add_transform : forall m ls b X i l j,
  uni_wf m ls -> (i < length X)%nat -> index_of l ls = Some j ->
  cell (entries (ng_transform (uni_as_ng m b) X)) (Z.of_nat i) j = Z.of_nat (count_occ Z.eq_dec (nth i X []) l).
Proof. exact uni_transform_cell. Qed.
Print Assumptions C06_add_transform.

(* D13 (before the repair the merged model's inverse dictionary was its label dictionary): every token index is looked
   up among the labels, fails (labels and indices are disjoint here, as strings and ints are in python) and is dropped *)
Theorem C06_add_unrepaired_refuted : exists Xa Xb ord X,
  match ng_add ord (uni_fit Xa) (uni_fit Xb) with
  | Ok c => entries (ng_transform (uni_as_ng_unrepaired c Exact) X) = [] /\
            entries (ng_transform (uni_as_ng c Exact) X) = [(0, 0, 1); (0, 3, 2)]
  | Raise _ => False
  end.
Proof. exists [[11; 12]; [12; 13]], [[13; 14]], [14], [[11; 14; 14]]. vm_compute. split; reflexivity. Qed.
Print Assumptions C06_add_unrepaired_refuted.

(* ---------------------------------------------------------------- histories of '+' on shared models *)
(* A session keeps its vectorizers in a store; Merge i j ord appends store[i] + store[j] (Model/K7_AddHistory.v).
   history_ok: every step names two entries of the current store (any two: the same one twice, an operand of an
   earlier merge, an earlier result) and `ord` is some iteration order of that call's python set.
   For every pool of models fitted without pruning and every such history: no merge raises; the pool models are still
   the fitted models (operands unchanged); and EVERY entry of the final store is, up to the column permutation given by
   the labels, the model fitted on the concatenation named by its history (hist_corpora: rows of the left operand
   first) — same set of columns, same shape, same training cells, and a transform that counts the tokens of all its
   columns in any X'. *)
Theorem C06_add_history : forall pool ops,
  history_ok (map uni_fit pool) ops ->
  exists st', run_history (map uni_fit pool) ops = Ok st' /\
    length st' = (length pool + length ops)%nat /\
    (forall k X, nth_error pool k = Some X -> nth_error st' k = Some (uni_fit X)) /\
    (forall k m, nth_error st' k = Some m ->
       let X := nth k (hist_corpora pool ops) [] in
       let f := uni_fit X in let lf := sort_uniq (concat X) in
       exists ls, counts_ok m ls X /\
         (forall l, In l ls <-> In l lf) /\
         nrows (u_train m) = nrows (u_train f) /\ ncols (u_train m) = ncols (u_train f) /\
         (forall i l j jf, (i < length X)%nat -> index_of l ls = Some j -> index_of l lf = Some jf ->
            cell (entries (u_train m)) (Z.of_nat i) j = cell (entries (u_train f)) (Z.of_nat i) jf) /\
         (forall b X' i l j, (i < length X')%nat -> index_of l ls = Some j ->
            cell (entries (ng_transform (uni_as_ng m b) X')) (Z.of_nat i) j
            = Z.of_nat (count_occ Z.eq_dec (nth i X' []) l))).
Proof. exact add_history. Qed.
Print Assumptions C06_add_history.

(* the same from any store whose entries stand for corpora (e.g. results of earlier sessions) *)
Theorem C06_add_history_any_store : forall ops st cs,
  Forall2 stands_for st cs -> history_ok st ops ->
  exists st', run_history st ops = Ok st' /\ (exists ext, st' = st ++ ext) /\
              Forall2 stands_for st' (hist_corpora cs ops).
Proof. exact add_history_inv. Qed.
Print Assumptions C06_add_history_any_store.

(* whatever the store holds and whatever the steps are: a history that completes has left every entry in place *)
Theorem C06_add_operands_unchanged : forall ops st st',
  run_history st ops = Ok st' -> forall k m, nth_error st k = Some m -> nth_error st' k = Some m.
Proof. exact run_history_extends. Qed.
Print Assumptions C06_add_operands_unchanged.

(* (a + b) + c and a + (b + c): same columns, same shape, same cells label by label *)
Theorem C06_add_assoc : forall a la Xa b lb Xb c lc Xc o1 o2 o3 o4 ab abc bc abc',
  fits a la Xa -> fits b lb Xb -> fits c lc Xc ->
  Permutation o1 (disjoint_vocab a b) -> ng_add o1 a b = Ok ab ->
  Permutation o2 (disjoint_vocab ab c) -> ng_add o2 ab c = Ok abc ->
  Permutation o3 (disjoint_vocab b c) -> ng_add o3 b c = Ok bc ->
  Permutation o4 (disjoint_vocab a bc) -> ng_add o4 a bc = Ok abc' ->
  let l1 := (la ++ o1) ++ o2 in let l2 := la ++ o4 in
  (forall l, In l l1 <-> In l l2) /\
  nrows (u_train abc) = nrows (u_train abc') /\ ncols (u_train abc) = ncols (u_train abc') /\
  (forall i l j1 j2, (i < length (Xa ++ Xb ++ Xc))%nat -> index_of l l1 = Some j1 -> index_of l l2 = Some j2 ->
     cell (entries (u_train abc)) (Z.of_nat i) j1 = cell (entries (u_train abc')) (Z.of_nat i) j2).
Proof. exact add_assoc. Qed.
Print Assumptions C06_add_assoc.

(* a + b and b + a: same columns and shape, same cells label by label with the two row blocks swapped *)
Theorem C06_add_comm : forall a la Xa b lb Xb o1 o2 ab ba,
  fits a la Xa -> fits b lb Xb ->
  Permutation o1 (disjoint_vocab a b) -> ng_add o1 a b = Ok ab ->
  Permutation o2 (disjoint_vocab b a) -> ng_add o2 b a = Ok ba ->
  let l1 := la ++ o1 in let l2 := lb ++ o2 in
  (forall l, In l l1 <-> In l l2) /\
  nrows (u_train ab) = nrows (u_train ba) /\ ncols (u_train ab) = ncols (u_train ba) /\
  (forall i l j1 j2, index_of l l1 = Some j1 -> index_of l l2 = Some j2 ->
     ((i < length Xa)%nat ->
        cell (entries (u_train ab)) (Z.of_nat i) j1 = cell (entries (u_train ba)) (Z.of_nat (length Xb + i)) j2) /\
     ((i < length Xb)%nat ->
        cell (entries (u_train ab)) (Z.of_nat (length Xa + i)) j1 = cell (entries (u_train ba)) (Z.of_nat i) j2)).
Proof. exact add_comm. Qed.
Print Assumptions C06_add_comm.

(* `fits` is met by every model fitted without pruning (and, by C06_add_history_any_store, by every sum of such) *)
Theorem C06_add_fitted_fits : forall X, fits (uni_fit X) (sort_uniq (concat X)) X.
Proof. exact fits_fit. Qed.
Print Assumptions C06_add_fitted_fits.

(* ---------------------------------------------------------------- non-vacuity *)
Example C06_ex_ngrams : ngrams_of [1; 2; 3] 2 Exact = [[1; 2]; [2; 3]] /\ ngrams_of [1; 2] 2 Exact = [[1; 2]]
  /\ ngrams_of [1] 2 Exact = [] /\ ngrams_of [1; 2; 3] 2 Subgrams = [[1]; [1; 2]; [2]; [2; 3]; [3]].
Proof. vm_compute. repeat split. Qed.

Example C06_ex_ngram_fit :
  snd (ng_fit None None 2 Exact [[7; 9; 7; 9]; [9]; []]) = (3, 2, [(0, 0, 2); (0, 1, 1)])
  /\ ng_wf (fst (ng_fit None None 2 Exact [[7; 9; 7; 9]; [9]; []])).
Proof. split; [vm_compute; reflexivity|apply ng_fit_learned_wf]. Qed.

Example C06_ex_skip : exists M tr,
  sg_fit [(5, 0); (6, 1); (7, 2)] [2; 2; 2; 0] w_flat [[5; 6; 5; 7]; [6]; []] = Ok (M, tr)
  /\ sg_wf [(5, 0); (6, 1); (7, 2)] [2; 2; 2; 0]
  /\ sg_labels M = [(0, 0); (0, 1); (0, 2); (1, 0); (1, 2)]
  /\ tr = (3, 5, [(0, 0, 1); (0, 1, 1); (0, 2, 1); (0, 3, 1); (0, 4, 1)]).
Proof.
  eexists. eexists. split; [vm_compute; reflexivity|]. split; [|split; reflexivity].
  unfold sg_wf. cbn [length]. split; [reflexivity|]. split; [lia|]. repeat constructor; cbn; lia.
Qed.

Example C06_ex_edge : exists M,
  el_fit None None false [(1, 11, 1); (2, 12, 2); (3, 13, 3); (1, 11, 4)] = Ok (M, (3, 3, [(0, 0, 1); (1, 1, 2); (2, 2, 3); (0, 0, 4)]))
  /\ cell [(0, 0, 1); (1, 1, 2); (2, 2, 3); (0, 0, 4)] 0 0 = 5.
Proof. eexists. split; vm_compute; reflexivity. Qed.

Example C06_ex_add : exists c,
  ng_add [4] (uni_fit [[1; 2]; [2; 3]]) (uni_fit [[3; 4]]) = Ok c
  /\ Permutation [4] (disjoint_vocab (uni_fit [[1; 2]; [2; 3]]) (uni_fit [[3; 4]]))
  /\ ng_transform (uni_as_ng c Exact) [[1; 4; 4; 9]] = (1, 4, [(0, 0, 1); (0, 3, 2)]).
Proof. eexists. split; [vm_compute; reflexivity|]. split; [vm_compute; apply Permutation_refl|vm_compute; reflexivity]. Qed.

(* a history on shared models: store 0:a 1:b 2:c, then 3:a+b 4:a+c 5:b+a 6:(a+b)+c 7:b+c 8:a+(b+c) 9:a+a; the set of the
   merge b+c is iterated as [5; 1] *)
Example C06_ex_history :
  let pool := [[[1; 2]; [2; 3]]; [[3; 4]]; [[5]; [1]]] in
  let ops := [Merge 0 1 [4]; Merge 0 2 [5]; Merge 1 0 [1; 2]; Merge 3 2 [5]; Merge 1 2 [5; 1]; Merge 0 7 [4; 5];
              Merge 0 0 []] in
  history_ok (map uni_fit pool) ops /\
  exists st', run_history (map uni_fit pool) ops = Ok st' /\
    nth_error st' 0 = Some (uni_fit [[1; 2]; [2; 3]]) /\
    option_map u_idx (nth_error st' 4) = Some [(0, 1); (1, 2); (2, 3); (3, 5)] /\
    option_map u_train (nth_error st' 6)
      = Some (5, 5, [(0, 0, 1); (0, 1, 1); (1, 1, 1); (1, 2, 1); (2, 2, 1); (2, 3, 1); (3, 4, 1); (4, 0, 1)]) /\
    option_map u_idx (nth_error st' 8) = Some [(0, 1); (1, 2); (2, 3); (3, 4); (4, 5)] /\
    option_map u_train (nth_error st' 8)
      = Some (5, 5, [(0, 0, 1); (0, 1, 1); (1, 1, 1); (1, 2, 1); (2, 2, 1); (2, 3, 1); (3, 4, 1); (4, 0, 1)]).
Proof.
  cbv zeta. split.
  - repeat (cbn [history_ok]; eexists; eexists; split; [vm_compute; reflexivity|]; split; [vm_compute; reflexivity|];
            split; [vm_compute; first [apply Permutation_refl|apply perm_swap]|];
            let c := fresh "c" in let Hc := fresh "Hc" in intros c Hc; vm_compute in Hc; injection Hc as <-).
    exact I.
  - eexists. split; [vm_compute; reflexivity|]. vm_compute. repeat split.
Qed.
