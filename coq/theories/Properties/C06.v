(* C06 — N-gram, skip-gram and edge-list matrices hold exact counts; '+' merges models.
   Only statements, each closed by `exact <lemma>` (or a two-line composition of lemmas), followed by Print Assumptions.
   Models: Model/K7_Ngrams.v, Model/K10_Assembly.v.  The SPEC side is pointwise:
     run d s i n      = [s[i], ..., s[i+n-1]]                                   (nth, element by element)
     occurrences s g  = #{ p | p + |g| <= |s| /\ forall j < |g|, s[p+j] = g[j] }
     skip_spec        = sum over all positions p, q of indicator * weight (q - p)
     cell edges r c   = sum of the values of the triples labelled (r, c)
   whereas the MODEL side follows the code (slices, python dict counters, CSR / COO assembly with duplicate summing,
   sort + run-summing loop of sum_coo_entries, column codes head * n + tail). *)
From Coq Require Import ZArith List Lia Bool Permutation Arith.
From VZ Require Import Model.K10_Assembly Model.K7_Ngrams Proofs.K10_Assembly_proofs Proofs.K7_Ngrams_proofs.
Import ListNotations.
Open Scope Z_scope.

(* ---------------------------------------------------------------- ngrams_of *)
(* 'exact': all runs of length n, in order of their start position *)
Theorem C06_ngrams_spec : forall (A : Type) (d : A) (s : list A) (n : nat),
  (1 <= n)%nat -> ngrams_of s n Exact = map (fun i => run d s i n) (seq 0 (length s + 1 - n)).
Proof. exact @ngrams_exact_spec. Qed.
Print Assumptions C06_ngrams_spec.

(* 'subgrams': at every start position i the runs of length 1 .. min(n, |s| - i) *)
Theorem C06_ngrams_subgrams_spec : forall (A : Type) (d : A) (s : list A) (n : nat),
  ngrams_of s n Subgrams
  = flat_map (fun i => map (fun j => run d s i j) (seq 1 (Nat.min n (length s - i)))) (seq 0 (length s)).
Proof. exact @ngrams_subgrams_spec. Qed.
Print Assumptions C06_ngrams_subgrams_spec.

(* the multiplicity of a gram among the n-grams = the number of positions at which it occurs *)
Theorem C06_ngram_count_exact : forall s n g,
  (1 <= n)%nat ->
  count_occ gram_dec (ngrams_of s n Exact) g = if (length g =? n)%nat then occurrences s g else 0%nat.
Proof. exact count_occ_ngrams_exact. Qed.
Print Assumptions C06_ngram_count_exact.

Theorem C06_ngram_count_subgrams : forall s n g,
  count_occ gram_dec (ngrams_of s n Subgrams) g
  = if ((1 <=? length g) && (length g <=? n))%nat then occurrences s g else 0%nat.
Proof. exact count_occ_ngrams_subgrams. Qed.
Print Assumptions C06_ngram_count_subgrams.

(* ---------------------------------------------------------------- NgramVectorizer matrices *)
(* any fitted dictionaries (learned, fixed, pruned), both behaviours, fit and transform alike (fit's matrix is
   ng_transform on the training documents): the entry in the column that the dictionary gives to the label gram G0 is
   the number of occurrences of G0 among the n-grams of the kept tokens of document i *)
Theorem C06_ngram_cell : forall M docs i G0 c0,
  ng_wf M -> (i < length docs)%nat -> glookup (gram_key G0) (ng_cold M) = Some c0 ->
  cell (entries (ng_transform M docs)) (Z.of_nat i) c0
  = Z.of_nat (count_occ gram_dec (ngrams_of (known (ng_tokdict M) (nth i docs [])) (ng_n M) (ng_beh M)) G0).
Proof. exact ng_cell. Qed.
Print Assumptions C06_ngram_cell.

(* 'exact', dictionaries learned from the corpus without pruning: every n-gram G0 of the corpus has a column, and the
   training matrix holds at (i, that column) the number of positions of document i at which G0 occurs *)
Theorem C06_ngram_exact : forall docs n d G0 i,
  (1 <= n)%nat -> In d docs -> In G0 (ngrams_of d n Exact) -> (i < length docs)%nat ->
  exists c0, glookup (gram_key G0) (ng_cold (fst (ng_fit None None n Exact docs))) = Some c0 /\
             cell (entries (snd (ng_fit None None n Exact docs))) (Z.of_nat i) c0
             = Z.of_nat (occurrences (nth i docs []) G0).
Proof.
  intros docs n d G0 i Hn Hd HG Hi.
  assert (HL : length G0 = n) by (eapply ngrams_exact_length; exact HG).
  destruct (ng_fit_learned_cell docs n Exact d G0 i Hd HG) as [c0 [H0 Hc]]; [lia|exact Hi|].
  exists c0. split; [exact H0|]. rewrite Hc, count_occ_ngrams_exact by exact Hn.
  rewrite HL, Nat.eqb_refl. reflexivity.
Qed.
Print Assumptions C06_ngram_exact.

(* 'subgrams' — PARTIAL: only the grams of length 2 .. n (and everything when n = 1).  Missing: the unigram columns
   for n >= 2, which the code never increments (known finding ngram-subgrams-unigram-dropped, C06_subgrams_refuted) *)
Theorem C06_subgrams_partial : forall docs n d G0 i,
  In d docs -> In G0 (ngrams_of d n Subgrams) -> (n = 1%nat \/ (2 <= length G0)%nat) -> (i < length docs)%nat ->
  exists c0, glookup (gram_key G0) (ng_cold (fst (ng_fit None None n Subgrams docs))) = Some c0 /\
             cell (entries (snd (ng_fit None None n Subgrams docs))) (Z.of_nat i) c0
             = Z.of_nat (occurrences (nth i docs []) G0).
Proof.
  intros docs n d G0 i Hd HG Hlen Hi.
  pose proof (ngrams_subgrams_length _ _ _ HG) as HL.
  destruct (ng_fit_learned_cell docs n Subgrams d G0 i Hd HG) as [c0 [H0 Hc]]; [lia|exact Hi|].
  exists c0. split; [exact H0|]. rewrite Hc, count_occ_ngrams_subgrams.
  replace ((1 <=? length G0) && (length G0 <=? n))%nat with true; [reflexivity|].
  symmetry. apply andb_true_iff. split; apply Nat.leb_le; lia.
Qed.
Print Assumptions C06_subgrams_partial.

(* a column keyed by a 1-tuple stays empty whatever the documents are *)
Theorem C06_subgrams_unigram_column_empty : forall M docs i l c0,
  ng_wf M -> (i < length docs)%nat -> glookup (Tup [l]) (ng_cold M) = Some c0 ->
  cell (entries (ng_transform M docs)) (Z.of_nat i) c0 = 0.
Proof. exact ng_cell_tuple1. Qed.
Print Assumptions C06_subgrams_unigram_column_empty.

(* REFUTED (faithful model of the unrepaired code): in 'subgrams' mode with ngram_size 2 the corpus [[1;3;1;3]] gets a
   column for the unigram (1,) whose entry is 0 although 1 occurs twice *)
Theorem C06_subgrams_refuted : exists docs n l c0,
  (2 <= n)%nat /\ In [l] (ngrams_of (nth 0 docs []) n Subgrams) /\
  glookup (Tup [l]) (ng_cold (fst (ng_fit None None n Subgrams docs))) = Some c0 /\
  cell (entries (snd (ng_fit None None n Subgrams docs))) 0 c0 = 0 /\
  occurrences (nth 0 docs []) [l] = 2%nat.
Proof. exists [[1; 3; 1; 3]], 2%nat, 1, 0. vm_compute. repeat split; try lia. left. reflexivity. Qed.
Print Assumptions C06_subgrams_refuted.

(* ---------------------------------------------------------------- sum_coo_entries *)
(* sort + run-summing loop: per coordinate the sum of the values, for every input list *)
Theorem C06_sum_coo_entries : forall l i j, cell (sum_coo_entries l) i j = cell l i j.
Proof. exact sum_coo_entries_cell. Qed.
Print Assumptions C06_sum_coo_entries.

(* ---------------------------------------------------------------- SkipgramVectorizer *)
(* the per-document skip-gram list: entry (a, b) = sum over the positions p of a and the positions q in the window
   after p (p < q <= p + radius a, inside the document) holding b of the kernel weight of the distance q - p *)
Theorem C06_skipgram_document : forall Rs w s a b,
  cell (build_skip_grams Rs w s) a b = skip_spec Rs w s a b.
Proof. exact build_skip_grams_cell. Qed.
Print Assumptions C06_skipgram_document.

Theorem C06_colcode_roundtrip : forall n a b, 0 <= b < n -> decode n (colcode n a b) = (a, b).
Proof. exact colcode_roundtrip. Qed.
Print Assumptions C06_colcode_roundtrip.

Theorem C06_colcode_injective : forall n a b a' b',
  0 <= b < n -> 0 <= b' < n -> colcode n a b = colcode n a' b' -> a = a' /\ b = b'.
Proof. exact colcode_inj. Qed.
Print Assumptions C06_colcode_injective.

(* the training matrix: the k-th fitted column is labelled (a, b) (token indices) and holds the windowed weight sum *)
Theorem C06_skipgram : forall tokdict Rs w docs M tr i k a b,
  sg_wf tokdict Rs -> sg_fit tokdict Rs w docs = Ok (M, tr) ->
  (i < length docs)%nat -> nth_error (sg_labels M) k = Some (a, b) ->
  ncols tr = Z.of_nat (length (sg_labels M)) /\
  cell (entries tr) (Z.of_nat i) (Z.of_nat k) = skip_spec Rs w (kept tokdict (nth i docs [])) a b.
Proof. exact sg_fit_cell'. Qed.
Print Assumptions C06_skipgram.

(* transform of any collection by any well-formed fitted model: same definition, in the fitted columns *)
Theorem C06_skipgram_transform : forall M w docs,
  sg_wf (sg_tokdict M) (sg_radii M) ->
  exists m, sg_transform M w docs = Ok m /\
    forall i k a b, (i < length docs)%nat -> nth_error (sg_labels M) k = Some (a, b) ->
      cell (entries m) (Z.of_nat i) (Z.of_nat k)
      = skip_spec (sg_radii M) w (kept (sg_tokdict M) (nth i docs [])) a b.
Proof.
  intros M w docs W. destruct (sg_transform_ok M w docs W) as [m [H [_ [_ [_ Hc]]]]]. exists m. split; assumption.
Qed.
Print Assumptions C06_skipgram_transform.

(* ---------------------------------------------------------------- EdgeListVectorizer *)
Definition edge_sum (edges : list triple) (r c : Z) : Z :=
  sumZ (map (fun e => if (trow e =? r) && (tcol e =? c) then tval e else 0) edges).

(* fit (any dictionaries, joint or not): entry (index of r, index of c) = sum of the values of all edges labelled (r, c);
   duplicate edges are summed, edges with an unknown label are ignored *)
Theorem C06_edgelist : forall rd cd joint edges M tr r c i j,
  el_fit rd cd joint edges = Ok (M, tr) -> dict_inj (fst M) -> dict_inj (snd M) ->
  lookup r (fst M) = Some i -> lookup c (snd M) = Some j ->
  cell (entries tr) i j = edge_sum edges r c.
Proof.
  intros rd cd joint edges M tr r c i j H Hr Hc Li Lj.
  rewrite (el_fit_cell rd cd joint edges M tr r c i j H Hr Hc Li Lj). apply cell_sum.
Qed.
Print Assumptions C06_edgelist.

Theorem C06_edgelist_transform : forall M X tr r c i j,
  el_transform M X = Ok tr -> dict_inj (fst M) -> dict_inj (snd M) ->
  lookup r (fst M) = Some i -> lookup c (snd M) = Some j ->
  cell (entries tr) i j = edge_sum X r c.
Proof.
  intros M X tr r c i j H Hr Hc Li Lj. rewrite (el_transform_cell M X tr r c i j H Hr Hc Li Lj). apply cell_sum.
Qed.
Print Assumptions C06_edgelist_transform.

(* dictionaries learned from the edge list: fit succeeds, the dictionaries are injective and know every label *)
Theorem C06_edgelist_learned : forall joint edges,
  exists M tr, el_fit None None joint edges = Ok (M, tr) /\ dict_inj (fst M) /\ dict_inj (snd M) /\ el_wf M /\
    forall e, In e edges -> exists i j, lookup (trow e) (fst M) = Some i /\ lookup (tcol e) (snd M) = Some j.
Proof. exact el_fit_learned. Qed.
Print Assumptions C06_edgelist_learned.

(* ---------------------------------------------------------------- '+' *)
(* `ord` is the iteration order of the python set of the right model's new tokens: any permutation of it *)
Theorem C06_add_ok : forall ord a la Xa b lb Xb,
  counts_ok a la Xa -> counts_ok b lb Xb -> Permutation ord (disjoint_vocab a b) ->
  exists c, ng_add ord a b = Ok c /\ counts_ok c (la ++ ord) (Xa ++ Xb).
Proof. exact ng_add_counts_ok. Qed.
Print Assumptions C06_add_ok.

(* a model fitted without pruning is such a model (so that sums can be summed again) *)
Theorem C06_add_fitted : forall X, counts_ok (uni_fit X) (sort_uniq (concat X)) X.
Proof. exact uni_fit_counts_ok. Qed.
Print Assumptions C06_add_fitted.

(* the sum of two unpruned unigram models vs. one model fitted on the concatenation: same set of columns (the union),
   same shape, and the same training matrix up to the column permutation given by the labels *)
Theorem C06_add : forall Xa Xb ord c,
  Permutation ord (disjoint_vocab (uni_fit Xa) (uni_fit Xb)) ->
  ng_add ord (uni_fit Xa) (uni_fit Xb) = Ok c ->
  let la := sort_uniq (concat Xa) in let lb := sort_uniq (concat Xb) in
  let lc := la ++ ord in let lf := sort_uniq (concat (Xa ++ Xb)) in
  let f := uni_fit (Xa ++ Xb) in
  counts_ok c lc (Xa ++ Xb) /\
  (forall l, In l lc <-> In l la \/ In l lb) /\
  (forall l, In l lc <-> In l lf) /\
  nrows (u_train c) = nrows (u_train f) /\ ncols (u_train c) = ncols (u_train f) /\
  (forall i l jc jf, (i < length (Xa ++ Xb))%nat -> index_of l lc = Some jc -> index_of l lf = Some jf ->
     cell (entries (u_train c)) (Z.of_nat i) jc = cell (entries (u_train f)) (Z.of_nat i) jf).
Proof. exact add_vs_concat. Qed.
Print Assumptions C06_add.

(* transform of a fitted or merged unigram model counts the tokens of all its columns (both vocabularies) *)
Theorem C06_add_transform : forall m ls b X i l j,
  uni_wf m ls -> (i < length X)%nat -> index_of l ls = Some j ->
  cell (entries (ng_transform (uni_as_ng m b) X)) (Z.of_nat i) j = Z.of_nat (count_occ Z.eq_dec (nth i X []) l).
Proof. exact uni_transform_cell. Qed.
Print Assumptions C06_add_transform.

(* D13 (before the repair the merged model's inverse dictionary was its label dictionary): every token index is looked
   up among the labels, fails (labels and indices are disjoint here, as strings and ints are in python) and is dropped *)
Theorem C06_add_unrepaired_refuted : exists Xa Xb ord X,
  match ng_add ord (uni_fit Xa) (uni_fit Xb) with
  | Ok c => entries (ng_transform (uni_as_ng_unrepaired c Exact) X) = [] /\
            entries (ng_transform (uni_as_ng c Exact) X) = [(0, 0, 1); (0, 3, 2)]
  | Raise _ => False
  end.
Proof. exists [[11; 12]; [12; 13]], [[13; 14]], [14], [[11; 14; 14]]. vm_compute. split; reflexivity. Qed.
Print Assumptions C06_add_unrepaired_refuted.

(* ---------------------------------------------------------------- non-vacuity *)
Example C06_ex_ngrams : ngrams_of [1; 2; 3] 2 Exact = [[1; 2]; [2; 3]] /\ ngrams_of [1; 2] 2 Exact = [[1; 2]]
  /\ ngrams_of [1] 2 Exact = [] /\ ngrams_of [1; 2; 3] 2 Subgrams = [[1]; [1; 2]; [2]; [2; 3]; [3]].
Proof. vm_compute. repeat split. Qed.

Example C06_ex_ngram_fit :
  snd (ng_fit None None 2 Exact [[7; 9; 7; 9]; [9]; []]) = (3, 2, [(0, 0, 2); (0, 1, 1)])
  /\ ng_wf (fst (ng_fit None None 2 Exact [[7; 9; 7; 9]; [9]; []])).
Proof. split; [vm_compute; reflexivity|apply ng_fit_learned_wf]. Qed.

Example C06_ex_skip : exists M tr,
  sg_fit [(5, 0); (6, 1); (7, 2)] [2; 2; 2; 0] w_flat [[5; 6; 5; 7]; [6]; []] = Ok (M, tr)
  /\ sg_wf [(5, 0); (6, 1); (7, 2)] [2; 2; 2; 0]
  /\ sg_labels M = [(0, 0); (0, 1); (0, 2); (1, 0); (1, 2)]
  /\ tr = (3, 5, [(0, 0, 1); (0, 1, 1); (0, 2, 1); (0, 3, 1); (0, 4, 1)]).
Proof.
  eexists. eexists. split; [vm_compute; reflexivity|]. split; [|split; reflexivity].
  unfold sg_wf. cbn [length]. split; [reflexivity|]. split; [lia|]. repeat constructor; cbn; lia.
Qed.

Example C06_ex_edge : exists M,
  el_fit None None false [(1, 11, 1); (2, 12, 2); (3, 13, 3); (1, 11, 4)] = Ok (M, (3, 3, [(0, 0, 1); (1, 1, 2); (2, 2, 3); (0, 0, 4)]))
  /\ cell [(0, 0, 1); (1, 1, 2); (2, 2, 3); (0, 0, 4)] 0 0 = 5.
Proof. eexists. split; vm_compute; reflexivity. Qed.

Example C06_ex_add : exists c,
  ng_add [4] (uni_fit [[1; 2]; [2; 3]]) (uni_fit [[3; 4]]) = Ok c
  /\ Permutation [4] (disjoint_vocab (uni_fit [[1; 2]; [2; 3]]) (uni_fit [[3; 4]]))
  /\ ng_transform (uni_as_ng c Exact) [[1; 4; 4; 9]] = (1, 4, [(0, 0, 1); (0, 3, 2)]).
Proof. eexists. split; [vm_compute; reflexivity|]. split; [vm_compute; apply Permutation_refl|vm_compute; reflexivity]. Qed.
