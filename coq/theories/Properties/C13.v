(* C13 — Calls are free of side effects, repeatable, and leave nothing behind.
   Statements about Model/K20_History.v, a model of which objects are shared and which operations mutate
   (rep = true: the repaired code; rep = false: the code as found).  What an estimator computes is abstract
   (fitf, outf, norm, cachef are arbitrary functions), so every theorem holds for every estimator shape that fits
   the state machine.  The tie to the real code is the before/after differential check of harness/c13.py. *)
From Coq Require Import List Arith Bool Lia.
From VZ Require Import Model.K20_History Proofs.K20_History_proofs.
Import ListNotations.

Section C13.
  Variables data model out : Type.
  Variable fitf : dict -> data -> model.
  Variable outf : model -> dict -> data -> out.
  Variable norm : data -> data.
  Variable cachef : data -> nat.

  (* transform - original or repaired, returning or raising in any block - preserves the observational state
     (fitted model and the dictionary as a later call will see it); private caches may change (D16) *)
  Theorem C13_transform_obs : forall rep mask x n k (w : world model),
    obs model mask (snd (transform data model out outf norm cachef rep mask x n k w)) = obs model mask w.
  Proof. exact (transform_obs data model out outf norm cachef). Qed.

  (* hence, for ANY history of transform calls (any inputs, any block counts, any fault points), every call
     returns exactly what a single call on the initial fitted state returns (an output, or the exception) *)
  Theorem C13_history : forall rep mask (cs : list (call data)) (w : world model),
    map snd (run_history data model out outf norm cachef rep mask w cs)
    = map (single data model out outf norm cachef rep mask w) cs.
  Proof. exact (history data model out outf norm cachef). Qed.

  Theorem C13_history_states : forall rep mask (cs : list (call data)) (w : world model),
    Forall (fun p => obs model mask (fst p) = obs model mask w)
           (run_history data model out outf norm cachef rep mask w cs).
  Proof. exact (history_worlds data model out outf norm cachef). Qed.

  (* repaired code: the caller's input object and the caller's dictionary are unchanged by every fit (returning
     or raising at any block), and the estimator does not hold the caller's dictionary object *)
  Theorem C13_caller_objects_fit : forall mask x n k (w : world model),
    let '(_, xa, w') := fit data model fitf norm cachef true mask x n k w in
    xa = x /\ w_param model w' = w_param model w /\ exists d, e_dict model (w_est model w') = Own d.
  Proof. exact (fit_caller_unchanged data model fitf norm cachef). Qed.

  Theorem C13_caller_objects_transform : forall mask x n k (w : world model),
    let '(_, xa, w') := transform data model out outf norm cachef true mask x n k w in
    xa = x /\ w_param model w' = w_param model w /\ e_dict model (w_est model w') = e_dict model (w_est model w).
  Proof. exact (transform_caller_unchanged data model out outf norm cachef). Qed.

  (* repaired code: for every number of blocks n and every fault point k the set of temporary paths at return
     (or at the raise) is the set before the call; the call raises iff k < n *)
  Theorem C13_tempfiles : forall mask x n k (w : world model),
    fresh_ok (w_fs model w) (w_next model w) ->
    let '(r, _, w') := fit data model fitf norm cachef true mask x n k w in
    w_fs model w' = w_fs model w /\ fresh_ok (w_fs model w') (w_next model w') /\
    (k < n -> r = Exn) /\ (n <= k -> r = Ok tt).
  Proof. exact (fit_tempfiles data model fitf norm cachef). Qed.

  Theorem C13_tempfiles_transform : forall rep mask x n k (w : world model),
    w_fs model (snd (transform data model out outf norm cachef rep mask x n k w)) = w_fs model w.
  Proof. exact (transform_tempfiles data model out outf norm cachef). Qed.
End C13.

Print Assumptions C13_transform_obs.
Print Assumptions C13_history.
Print Assumptions C13_history_states.
Print Assumptions C13_caller_objects_fit.
Print Assumptions C13_caller_objects_transform.
Print Assumptions C13_tempfiles.
Print Assumptions C13_tempfiles_transform.

(* the mask edit of the four preprocess_* functions is idempotent; a dictionary ending in its only mask entry is a
   fixed point - the reason the in-place edit during transform was invisible while the one during fit was not *)
Theorem C13_mask_edit : forall mask d, mask_edit mask (mask_edit mask d) = mask_edit mask d.
Proof. exact mask_edit_idem. Qed.
Print Assumptions C13_mask_edit.

Theorem C13_mask_edit_fixed : forall m d, ~ In m d -> mask_edit (Some m) (d ++ [m]) = d ++ [m].
Proof. exact mask_edit_fixed. Qed.
Print Assumptions C13_mask_edit_fixed.

(* ---------- the code as found violates the property (witnesses; data = nat, norm = S) ---------- *)
Definition w0 : world nat :=
  {| w_est := {| e_dict := Own []; e_model := None; e_cache := 0 |}; w_param := [1; 2]; w_fs := []; w_next := 0 |}.
Definition fit0 rep n k := fit nat nat (fun d x => length d + x) S (fun x => x) rep (Some 9) 5 n k w0.

(* D15: the caller's dictionary gains the mask entry and the estimator holds the caller's object *)
Theorem C13_caller_dictionary_refuted :
  let '(_, _, w') := fit0 false 1 1 in
  w_param nat w' <> w_param nat w0 /\ e_dict nat (w_est nat w') = Shared.
Proof. vm_compute. split; [discriminate|reflexivity]. Qed.
Print Assumptions C13_caller_dictionary_refuted.

(* D17: the caller's input object is changed in place *)
Theorem C13_caller_input_refuted : let '(_, xa, _) := fit0 false 1 1 in xa <> 5.
Proof. vm_compute. discriminate. Qed.
Print Assumptions C13_caller_input_refuted.

(* D18: the scratch directory survives a successful blockwise fit, directory and file survive a raising one *)
Theorem C13_tempfiles_refuted :
  (let '(r, _, w') := fit0 false 3 3 in r = Ok tt /\ w_fs nat w' = [0]) /\
  (let '(r, _, w') := fit0 false 3 1 in r = Exn /\ w_fs nat w' = [1; 0]).
Proof. vm_compute. repeat split. Qed.
Print Assumptions C13_tempfiles_refuted.

(* ---------- non-vacuity ---------- *)
Example C13_ex_repaired :
  (let '(r, xa, w') := fit0 true 3 1 in r = Exn /\ xa = 5 /\ w_param nat w' = [1; 2] /\ w_fs nat w' = []) /\
  (let '(r, xa, w') := fit0 true 3 3 in
     r = Ok tt /\ xa = 5 /\ w_param nat w' = [1; 2] /\ w_fs nat w' = [] /\
     e_model nat (w_est nat w') = Some 9 /\ e_dict nat (w_est nat w') = Own [1; 2; 9]).
Proof. vm_compute. repeat split. Qed.

Example C13_ex_history :
  let '(_, _, w1) := fit0 true 3 3 in
  map snd (run_history nat nat nat (fun m d x => m + length d + x) S (fun x => x) true (Some 9) w1
                       [(1, 2, 2); (7, 3, 1); (1, 1, 1)])
  = [Ok 14; Exn; Ok 14]
  /\ fresh_ok (w_fs nat w0) (w_next nat w0).
Proof. vm_compute. split; [reflexivity|constructor]. Qed.

(* ---------- a private cache that transform consults, keyed by an auxiliary argument (K20c) ----------
   transform(X, aux) may keep a value computed from (fitted model, aux) on the estimator and use it again.
   The estimator's cache is part of the state; the reference `single_c` is one call on the same fitted state with an
   EMPTY cache (what the harness does: an untouched copy taken right after fit). *)
Section C13c.
  Variables data model out aux cost : Type.
  Variable fitf : dict -> data -> model.
  Variable costf : model -> aux -> cost.
  Variable outc : model -> dict -> data -> aux -> cost -> out.
  Variable norm : data -> data.
  Variable cachef : data -> nat.
  Variable valid : aux -> aux -> bool.

  (* a cache validated by EQUALITY of the key: for any history of transform calls - any inputs, any auxiliary
     arguments (equal or different ones of the same shape), any block counts and fault points - starting from any
     state whose cache is consistent, every call returns what a single call with an empty cache returns *)
  Theorem C13_cache_history_eq : (forall a0 a, valid a0 a = true -> a0 = a) ->
    forall rep mask (cs : list (ccall data aux)) (cw : cworld model aux cost),
    cache_ok model aux cost costf cw ->
    map snd (run_history_c data model out aux cost costf outc norm cachef valid rep mask cw cs)
    = map (single_c data model out aux cost costf outc norm cachef valid rep mask cw) cs.
  Proof.
    intros H rep mask cs cw Hc.
    apply (history_c data model out aux cost costf outc norm cachef valid rep mask
                     (valid_eq_sound model aux cost costf valid H) cs cw Hc).
  Qed.

  (* more generally: any validity test under which an accepted cached value is the value that would be computed *)
  Theorem C13_cache_history : sound model aux cost costf valid ->
    forall rep mask (cs : list (ccall data aux)) (cw : cworld model aux cost),
    cache_ok model aux cost costf cw ->
    map snd (run_history_c data model out aux cost costf outc norm cachef valid rep mask cw cs)
    = map (single_c data model out aux cost costf outc norm cachef valid rep mask cw) cs.
  Proof. intros Hs rep mask. exact (history_c data model out aux cost costf outc norm cachef valid rep mask Hs). Qed.

  (* refits: a fit that drops the cache (returning or raising, from ANY earlier state, stale cache included) is
     followed by histories that agree with single calls *)
  Theorem C13_cache_refit : sound model aux cost costf valid ->
    forall rep mask x n k (cw : cworld model aux cost) (cs : list (ccall data aux)),
    let cw1 := snd (fit_c data model aux cost fitf norm cachef true rep mask x n k cw) in
    map snd (run_history_c data model out aux cost costf outc norm cachef valid rep mask cw1 cs)
    = map (single_c data model out aux cost costf outc norm cachef valid rep mask cw1) cs.
  Proof.
    intros Hs rep mask x n k cw cs cw1.
    apply (history_c data model out aux cost costf outc norm cachef valid rep mask Hs cs cw1).
    apply (fit_c_reset data model aux cost fitf costf norm cachef).
  Qed.
End C13c.

Print Assumptions C13_cache_history_eq.
Print Assumptions C13_cache_history.
Print Assumptions C13_cache_refit.

(* witnesses: data = nat, model = nat, aux = list nat (the rows of `vectors`), cost = nat *)
Definition sumn (l : list nat) : nat := fold_right Nat.add 0 l.
Definition cw0 : cworld nat (list nat) nat := {| c_w := w0; c_kc := None |}.
Definition by_eq (a0 a : list nat) : bool := if list_eq_dec Nat.eq_dec a0 a then true else false.
Definition by_len (a0 a : list nat) : bool := length a0 =? length a.
Definition fitc reset x cw :=
  snd (fit_c nat nat (list nat) nat (fun d x => length d + x) S (fun x => x) reset true (Some 9) x 1 1 cw).
Definition histc valid cw cs :=
  map snd (run_history_c nat nat nat (list nat) nat (fun m a => m + sumn a) (fun m d y a v => v + y) S (fun x => x)
                         valid true (Some 9) cw cs).
Definition singlesc valid cw cs :=
  map (single_c nat nat nat (list nat) nat (fun m a => m + sumn a) (fun m d y a v => v + y) S (fun x => x)
                valid true (Some 9) cw) cs.

Lemma by_eq_eq a0 a : by_eq a0 a = true -> a0 = a.
Proof. unfold by_eq. destruct (list_eq_dec Nat.eq_dec a0 a); [auto|discriminate]. Qed.

(* a cache validated by a WEAKER key (the number of rows): transform(X1, V1); transform(X2, V2) with a different V2
   of the same length returns something else than a single call; the key-by-equality cache does not *)
Theorem C13_cache_weak_key_refuted :
  exists cs, histc by_len (fitc true 5 cw0) cs <> singlesc by_len (fitc true 5 cw0) cs.
Proof. exists [(1, [1; 2], 1, 1); (1, [3; 4], 1, 1)]. vm_compute. discriminate. Qed.
Print Assumptions C13_cache_weak_key_refuted.

(* the same through a call that RAISES in block 0 of 2: it has already replaced the cache *)
Theorem C13_cache_weak_key_raise_refuted :
  histc by_len (fitc true 5 cw0) [(1, [3; 4], 1, 1); (1, [1; 2], 2, 0); (1, [3; 4], 1, 1)]
  <> singlesc by_len (fitc true 5 cw0) [(1, [3; 4], 1, 1); (1, [1; 2], 2, 0); (1, [3; 4], 1, 1)]
  \/ histc by_len (fitc true 5 cw0) [(1, [1; 2], 2, 0); (1, [3; 4], 1, 1)]
  <> singlesc by_len (fitc true 5 cw0) [(1, [1; 2], 2, 0); (1, [3; 4], 1, 1)].
Proof. right. vm_compute. discriminate. Qed.
Print Assumptions C13_cache_weak_key_raise_refuted.

(* a cache keyed by equality that fit does NOT drop: fit(5); transform(V); fit(7); transform(V) uses the cost of the
   first model *)
Theorem C13_cache_no_reset_refuted :
  let cw1 := fitc true 5 cw0 in
  let cw2 := match run_history_c nat nat nat (list nat) nat (fun m a => m + sumn a) (fun m d y a v => v + y) S
                                  (fun x => x) by_eq true (Some 9) cw1 [(1, [1; 2], 1, 1)] with
             | (cw', _) :: _ => cw' | [] => cw1 end in
  histc by_eq (fitc false 7 cw2) [(1, [1; 2], 1, 1)] <> singlesc by_eq (fitc false 7 cw2) [(1, [1; 2], 1, 1)]
  /\ histc by_eq (fitc true 7 cw2) [(1, [1; 2], 1, 1)] = singlesc by_eq (fitc true 7 cw2) [(1, [1; 2], 1, 1)].
Proof. vm_compute. split; [discriminate|reflexivity]. Qed.
Print Assumptions C13_cache_no_reset_refuted.

(* non-vacuity: the equality-keyed cache meets the hypothesis, is really consulted (second and fourth call hit),
   and the history - with a raising call and two different keys of the same length - equals the single calls *)
Example C13_ex_cache :
  (forall a0 a, by_eq a0 a = true -> a0 = a) /\
  cache_ok nat (list nat) nat (fun m a => m + sumn a) (fitc true 5 cw0) /\
  histc by_eq (fitc true 5 cw0) [(1, [1; 2], 1, 1); (1, [1; 2], 1, 1); (1, [3; 4], 2, 0); (1, [3; 4], 1, 1); (2, [1; 2], 1, 1)]
  = [Ok 14; Ok 14; Exn; Ok 18; Ok 15] /\
  singlesc by_eq (fitc true 5 cw0) [(1, [1; 2], 1, 1); (1, [1; 2], 1, 1); (1, [3; 4], 2, 0); (1, [3; 4], 1, 1); (2, [1; 2], 1, 1)]
  = [Ok 14; Ok 14; Exn; Ok 18; Ok 15] /\
  histc by_len (fitc true 5 cw0) [(1, [1; 2], 1, 1); (1, [3; 4], 1, 1)] = [Ok 14; Ok 14].
Proof. split; [exact by_eq_eq|]. vm_compute. repeat split. Qed.
