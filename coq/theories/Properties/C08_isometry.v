(* C08 (isometry clause) — with V *m V^T = 1 (orthonormal rows of the SVD components) the projection x |-> x *m V^T
   preserves squared euclidean distances between points of the row space of V; for every commutative ring, all sizes.
   In the vectorizers: transform returns block @ components_.T; with full-rank n_components every raw LOT vector
   lies in the row space of components_ (the SVD contract, checked on every run by the harness). *)
From mathcomp Require Import all_ssreflect all_algebra.
From VZ Require Import Proofs.K17_isometry.
Import GRing.Theory.
Local Open Scope ring_scope.

Theorem C08_isometry : forall (R : comRingType) (k D : nat) (V : 'M[R]_(k, D)),
  V *m V^T = 1%:M ->
  forall a b : 'rV[R]_k,
  let x := a *m V in
  let y := b *m V in
  sqdist (x *m V^T) (y *m V^T) = sqdist x y.
Proof. exact: isometry_on_row_space. Qed.
Print Assumptions C08_isometry.

Theorem C08_projection_of_row_space : forall (R : comRingType) (k D : nat) (V : 'M[R]_(k, D)),
  V *m V^T = 1%:M -> forall a : 'rV[R]_k, (a *m V) *m V^T = a.
Proof. exact: project_row_space. Qed.
Print Assumptions C08_projection_of_row_space.

(* non-vacuity: the 2 x 3 matrix (I | 0) has orthonormal rows *)
Example C08_ex_orthonormal :
  let V : 'M[int]_(2, 2 + 1) := row_mx 1%:M 0 in V *m V^T = 1%:M.
Proof. by move=> V; rewrite /V tr_row_mx mul_row_col trmx1 mulmx1 trmx0 mulmx0 addr0. Qed.
