(* C08 — Wasserstein embeddings depend only on the measure, not on its encoding.
   Theorems about the glue model (Model/K17_LOTglue.v) over exact rationals.  The transport plan comes from a
   third-party solver (validated per call under C07) and the SVD from sklearn: they are inputs / contracts here
   (DESIGN §3.5), so the statements are: the set of feasible plans, their costs and their barycentric images are
   the same for two encodings of one measure (hence the same optimal value and the same optimal images; the same
   LOT row whenever the optimal image is unique), the row normalisation is scale invariant, the block / chunk
   loops visit every row exactly once for every block size >= 1, and an orthonormal-row projection is an isometry
   on its row space.  Only statements, each closed by `exact <lemma>`, followed by Print Assumptions. *)
From Coq Require Import QArith List ZArith Arith Permutation.
From VZ Require Import Model.K16_OTcert Model.K17_LOTglue Proofs.K16_OTcert_proofs Proofs.K17_LOTglue_proofs.
Import ListNotations.
Open Scope Q_scope.

(* ---- rescaling the row of weights ---- *)
Theorem C08_scale : forall (c : Q) (w : list Q), 0 < c ->
  match normalise_Q (map (Qmult c) w), normalise_Q w with
  | Some a, Some b => Forall2 Qeq a b
  | None, None => True
  | _, _ => False
  end.
Proof. exact normalise_scale. Qed.
Print Assumptions C08_scale.

Theorem C08_normalised_is_probability : forall w p, normalise_Q w = Some p -> qsum p == 1.
Proof. exact normalise_sums_to_one. Qed.
Print Assumptions C08_normalised_is_probability.

(* ---- plan transfer.  An encoding is a list of (weight, vector); a plan over it gives each support point its
   row (atom = weight, vector, row); `pfeasible` = coupling with the reference q; `pcost` for an ARBITRARY ground
   cost `dist`; `pimage` = flattened barycentric image matrix.  `transfers E E'` : every feasible plan over E has a
   feasible plan over E' with the same cost and the same image. ---- *)
Theorem C08_transfer_perm : forall m d q ys dist (E E' : list (Q * list Q)),
  Permutation E E' -> transfers m d q ys dist E E'.
Proof. exact transfer_perm. Qed.
Print Assumptions C08_transfer_perm.

Theorem C08_transfer_pad : forall m d q ys dist, length q = m -> forall E1 E2 x, length x = d ->
  transfers m d q ys dist (E1 ++ E2) (E1 ++ (0, x) :: E2) /\
  transfers m d q ys dist (E1 ++ (0, x) :: E2) (E1 ++ E2).
Proof. exact transfer_pad. Qed.
Print Assumptions C08_transfer_pad.

Theorem C08_transfer_split : forall m d q ys dist, length q = m -> forall E w x w1 w2,
  0 <= w1 -> 0 <= w2 -> w1 + w2 == w ->
  transfers m d q ys dist ((w, x) :: E) ((w1, x) :: (w2, x) :: E) /\
  transfers m d q ys dist ((w1, x) :: (w2, x) :: E) ((w1 + w2, x) :: E).
Proof. exact transfer_split_front. Qed.
Print Assumptions C08_transfer_split.

Theorem C08_transfers_compose : forall m d q ys dist E1 E2 E3,
  transfers m d q ys dist E1 E2 -> transfers m d q ys dist E2 E3 -> transfers m d q ys dist E1 E3.
Proof. exact transfers_trans. Qed.
Print Assumptions C08_transfers_compose.

(* ---- consequences of a transfer in both directions ---- *)
Theorem C08_equal_optimum : forall m d q ys dist E E' opt,
  transfers m d q ys dist E E' -> transfers m d q ys dist E' E ->
  popt m d q ys dist E opt -> popt m d q ys dist E' opt.
Proof. exact equal_optimum. Qed.
Print Assumptions C08_equal_optimum.

Theorem C08_equal_optimal_images : forall m d q ys dist E E' img,
  transfers m d q ys dist E E' -> transfers m d q ys dist E' E ->
  opt_image m d q ys dist E img -> opt_image m d q ys dist E' img.
Proof. exact equal_optimal_images. Qed.
Print Assumptions C08_equal_optimal_images.

Theorem C08_unique_image : forall m d q ys dist E E' pe pe',
  transfers m d q ys dist E' E ->
  (forall p1 p2, poptimal m d q ys dist E p1 -> poptimal m d q ys dist E p2 ->
                 Forall2 Qeq (pimage m d q p1) (pimage m d q p2)) ->
  transfers m d q ys dist E E' ->
  poptimal m d q ys dist E pe -> poptimal m d q ys dist E' pe' ->
  Forall2 Qeq (pimage m d q pe') (pimage m d q pe).
Proof. exact unique_image_transfer. Qed.
Print Assumptions C08_unique_image.

(* ---- the model's loops compute these quantities ---- *)
Theorem C08_images_model : forall m d q, length q = m -> forall pe, Forall (atom_ok m d) pe ->
  Forall2 Qeq (images_Q m d q (map (fun a => (a_x a, a_r a)) pe)) (pimage m d q pe).
Proof. exact images_model. Qed.
Print Assumptions C08_images_model.

Theorem C08_lot_row_model : forall m d q ys, length q = m -> forall pe pe',
  Forall (atom_ok m d) pe -> Forall (atom_ok m d) pe' -> Forall2 Qeq (pimage m d q pe') (pimage m d q pe) ->
  Forall2 Qeq (lot_row_Q m d q ys (map (fun a => (a_x a, a_r a)) pe'))
              (lot_row_Q m d q ys (map (fun a => (a_x a, a_r a)) pe)).
Proof. exact lot_row_model. Qed.
Print Assumptions C08_lot_row_model.

(* the couplings of C08 are the couplings of C07 *)
Theorem C08_feasible_is_C07_feasible : forall m d q, length q = m -> forall pe,
  pfeasible m d q pe -> feasible (map a_w pe) q (map a_r pe).
Proof. exact pfeasible_is_feasible. Qed.
Print Assumptions C08_feasible_is_C07_feasible.

(* ---- block and chunk loops: every row index exactly once, in order, for every block size >= 1 ---- *)
Theorem C08_blocks_partition : forall n_rows block_size : nat, (1 <= block_size)%nat ->
  concat (map range_rows (blocks n_rows block_size)) = seq 0 n_rows.
Proof. exact blocks_partition. Qed.
Print Assumptions C08_blocks_partition.

Theorem C08_ranges_partition : forall lo hi step : nat, (1 <= step)%nat -> (lo <= hi)%nat ->
  concat (map range_rows (ranges lo hi step)) = seq lo (hi - lo).
Proof. exact ranges_partition. Qed.
Print Assumptions C08_ranges_partition.

Theorem C08_block_chunk_partition : forall n_rows block_size chunk_size : nat,
  (1 <= block_size)%nat -> (1 <= chunk_size)%nat ->
  block_chunk_rows n_rows block_size chunk_size = seq 0 n_rows.
Proof. exact block_chunk_partition. Qed.
Print Assumptions C08_block_chunk_partition.

Theorem C08_generator_chunks_partition : forall block_start block_end chunk_size : nat,
  (1 <= chunk_size)%nat -> (block_start <= block_end)%nat ->
  concat (map range_rows (gen_block_chunks block_start block_end chunk_size)) = seq block_start (block_end - block_start).
Proof. exact gen_block_chunks_partition. Qed.
Print Assumptions C08_generator_chunks_partition.

(* the memory_size-derived block size max(1, memory_size // (8 * lot_dimension)) is always a valid block size;
   without the max it is 0 for a small memory_size (the guard the lil / generator transform needed) *)
Theorem C08_block_size_valid : forall memory_size lot_dimension : nat, (1 <= block_size_of memory_size lot_dimension)%nat.
Proof. exact block_size_of_pos. Qed.
Print Assumptions C08_block_size_valid.

Theorem C08_unguarded_block_size_refuted : forall memory_size lot_dimension : nat,
  (memory_size < lot_dimension * 8)%nat -> (memory_size / (lot_dimension * 8) = 0)%nat.
Proof. exact unguarded_block_size_zero. Qed.
Print Assumptions C08_unguarded_block_size_refuted.

(* the isometry theorem (mathcomp style) is in Properties/C08_isometry.v *)

(* ---- non-vacuity ---- *)
Definition ex_q : list Q := [1#2; 1#2].
Definition ex_ys : list (list Q) := [[0]; [1]].
Definition ex_dist (x y : list Q) : Q := Qabs.Qabs (nth 0 x 0 - nth 0 y 0).
Definition ex_pe : list (atom) := [mk_atom (1#4) [0] [1#4; 0]; mk_atom (3#4) [2] [1#4; 1#2]].

Example C08_ex_feasible : pfeasible 2 1 ex_q ex_pe.
Proof.
  split.
  - repeat constructor; simpl; try reflexivity; try (apply Qle_bool_iff; reflexivity).
  - repeat constructor; vm_compute; reflexivity.
Qed.

(* the split and padded encodings of that measure admit plans with the same cost and image *)
Example C08_ex_split : exists pe', enc_of pe' = [(1#4, [0]); (1#4, [2]); (1#2, [2])] /\ pfeasible 2 1 ex_q pe' /\
                                   same_obs 2 1 ex_q ex_ys ex_dist ex_pe pe'.
Proof.
  assert (T : transfers 2 1 ex_q ex_ys ex_dist [(1#4, [0]); (3#4, [2])] [(1#4, [0]); (1#4, [2]); (1#2, [2])]).
  { apply transfers_trans with ([(3#4, [2]); (1#4, [0])]); [apply transfer_perm, perm_swap|].
    apply transfers_trans with ([(1#4, [2]); (1#2, [2]); (1#4, [0])]).
    - apply (transfer_split_front 2 1 ex_q ex_ys ex_dist eq_refl [(1#4, [0])] (3#4) [2] (1#4) (1#2));
        try (apply Qle_bool_iff; reflexivity). reflexivity.
    - apply transfer_perm.
      apply Permutation_trans with ([(1#4, [2]); (1#4, [0]); (1#2, [2])]); [apply perm_skip, perm_swap | apply perm_swap]. }
  exact (T ex_pe eq_refl C08_ex_feasible).
Qed.

Example C08_ex_pipeline :
  map Qred (lot_pipeline_Q 256 2 1 [1; 3] [[0]; [2]] ex_q ex_ys (fun p => [[1#4; 0]; [1#4; 1#2]])) = [1; 1]
  /\ normalise_Q [1; 3] = Some [1#4; 3#4].
Proof. split; vm_compute; reflexivity. Qed.

Example C08_ex_blocks : blocks 10 4 = [(0, 4); (4, 8); (8, 10)]%nat /\ blocks 8 4 = [(0, 4); (4, 8); (8, 8)]%nat
  /\ gen_block_chunks 3 10 4 = [(3, 7); (7, 10)]%nat /\ block_size_of 1024 200 = 1%nat.
Proof. repeat split; vm_compute; reflexivity. Qed.
