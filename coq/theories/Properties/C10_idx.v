(* C10 (index level) — the EM update, the window function, the kernel functions and the radius tables with CHECKED
   array accesses (Model/K04_EM_idx.v, Model/K02_Windows_idx.v): every read / write of the Python source is a checked
   get / set that returns `OOB site` when the index is outside the array (or outside the view it is applied to).
   Each theorem says: on every valid input the model returns `Ok` — no access leaves its array — and the value is the
   one of the list-level model (Model/K04_EM.v, Model/K02_Windows.v), whose functional theorems are C11 / C03.
   The correspondence of these models with the code is harness/c10_idx.py (direct calls of em_update_matrix,
   window_at_index, the kernels and the radius functions in the three execution modes). *)
From Coq Require Import List Arith Bool Lia ZArith QArith Qcanon.
From VZ Require Import Model.K02_Windows Model.K03_Cooc Model.K03_Exec Model.K04_EM.
From VZ Require Model.K04_EM_idx Model.K02_Windows_idx Proofs.K04_EM_idx_proofs Proofs.K02_Windows_idx_proofs.
From VZ Require Model.K03_Driver_idx Proofs.K03_Driver_idx_proofs.
Import ListNotations.

(* ================================================================== em_update_matrix *)
Module EM.
Import Model.K04_EM_idx Proofs.K04_EM_idx_proofs.
Open Scope nat_scope.

(* For every CSR structure with non-decreasing indptr, last(indptr) <= |indices|, |data| = |indices| (csr_ok), a
   posterior array of the same length, a target row below n_rows, windows and kernels of equal shapes — and whatever
   the column ids, the contexts, the kernel values and n_unique_tokens are (columns absent from the row, columns larger
   than every stored column, empty rows, empty windows included) — the checked model returns Ok, and the result is
   the list-level em_update. *)
Theorem C10_em_update_idx_refines :
  forall (post prior : list Qc) indices indptr n tgt windows (kernels : list (list Qc)),
  csr_ok indices indptr (length prior) -> length post = length prior -> tgt + 1 < length indptr ->
  @same_shapes QcK windows kernels ->
  @em_update_idx QcK post indices indptr prior n tgt windows kernels
  = Ok (@em_update QcK post indices indptr prior n (tgt, combine windows kernels)).
Proof. exact em_update_idx_refines. Qed.
Print Assumptions C10_em_update_idx_refines.

(* np.searchsorted through the row's view: every probe col_ind[mid] is inside the view, whatever the key *)
Theorem C10_em_searchsorted_idx : forall (indices : list nat) lo hi x,
  searchsorted_idx indices (slice_view lo hi (length indices)) x = Ok (searchsorted (slice lo hi indices) x).
Proof. exact searchsorted_idx_ok. Qed.
Print Assumptions C10_em_searchsorted_idx.

(* The pre-repair body (no `context_ind[..] < len(col_ind)` test) is NOT safe on the same inputs: a cell whose column
   is larger than every stored column of the row makes it read col_ind[len(col_ind)]. *)
Theorem C10_em_update_unguarded_refuted :
  exists (post prior : list Qc) indices indptr n tgt windows (kernels : list (list Qc)),
    csr_ok indices indptr (length prior) /\ length post = length prior /\ tgt + 1 < length indptr /\
    @same_shapes QcK windows kernels /\
    @em_update_idx_unguarded QcK post indices indptr prior n tgt windows kernels = OOB E_col_ind /\
    exists r, @em_update_idx QcK post indices indptr prior n tgt windows kernels = Ok r.
Proof. exact em_update_idx_unguarded_oob. Qed.
Print Assumptions C10_em_update_unguarded_refuted.

(* non-vacuity: two rows {0,2} and {1}, two blocks (n = 3 -> columns 0..5), a hit, a miss below, a miss above every
   column (searchsorted = len(col_ind)), a zero kernel weight, an empty window *)
Definition q (a : Z) (b : positive) : Qc := qc a b.
Example C10_em_instance :
  let post := [q 0 1; q 1 4; q 0 1] in let prior := [q 1 2; q 1 4; q 1 1] in
  let indices := [0; 2; 1] in let indptr := [0; 2; 3] in
  csr_ok indices indptr (length prior) /\ length post = length prior /\ 0 + 1 < length indptr /\
  @same_shapes QcK [[0; 1; 2; 2]; []] [[q 1 1; q 1 1; q 1 2; q 0 1]; []] /\
  @show_res QcK _ show (@em_update_idx QcK post indices indptr prior 3 0 [[0; 1; 2; 2]; []] [[q 1 1; q 1 1; q 1 2; q 0 1]; []])
  = (Some [(4, 5); (9, 20); (0, 1)]%Z, None) /\
  @show_res QcK _ show (@em_update_idx QcK post indices indptr prior 3 1 [[]; [2; 1]] [[]; [q 1 1; q 1 1]])
  = (Some [(0, 1); (1, 4); (0, 1)]%Z, None).
Proof.
  cbv zeta. split; [|split; [reflexivity|split; [simpl; lia|split; [repeat constructor|split; vm_compute; reflexivity]]]].
  repeat split; simpl; try lia. intros r Hr. destruct r as [|[|r]]; simpl; lia.
Qed.
End EM.

(* ================================================================== windows, kernels, radius tables *)
Module WIN.
Import Model.K02_Windows_idx Proofs.K02_Windows_idx_proofs.
Open Scope Z_scope.

(* window_at_index, both orientations, every radius (0, larger than the sequence, ...), every position of the
   sequence: iterating the returned view reads only elements of token_sequence, and yields the list-level window *)
Theorem C10_window_at_index_idx : forall (s : list nat) R p reverse, (p < length s)%nat ->
  window_at_index_idx s (Z.of_nat R) (Z.of_nat p) reverse = Ok (window_at_index s R p reverse).
Proof. exact window_at_index_idx_refines. Qed.
Print Assumptions C10_window_at_index_idx.

(* the same pointwise: slot j of the window is token_sequence[p - (j+1)] (before) / [p + (j+1)] (after), inside *)
Theorem C10_window_slot_index : forall n R p reverse j, (p < n)%nat ->
  let v := window_view (Z.of_nat n) (Z.of_nat R) (Z.of_nat p) reverse in
  0 <= j < v_len v ->
  v_start v + j * v_step v = (if reverse then Z.of_nat p - (j + 1) else Z.of_nat p + (j + 1)) /\
  0 <= v_start v + j * v_step v < Z.of_nat n.
Proof. exact window_view_index. Qed.
Print Assumptions C10_window_slot_index.

(* flat / harmonic / geometric kernel (kf = weight of distance k) applied to the window view, for every carrier of
   values, mask on/off, normalize on/off, every offset >= 0 (offset >= len(window) included): the comparison
   window == mask_index reads inside token_sequence, the boolean index has the length of result, the masked writes
   and the writes of result[0:min(offset, len)] = 0 are inside result; the value is the list-level kernel *)
Theorem C10_window_kernel_idx : forall (K : carrier) (kf : nat -> K) mask normalize off (s : list nat) R p reverse,
  (p < length s)%nat ->
  window_kernel_idx kf mask normalize (Z.of_nat off) s (Z.of_nat R) (Z.of_nat p) reverse
  = Ok (window_at_index s R p reverse, kernel kf mask normalize off (window_at_index s R p reverse)).
Proof. exact @window_kernel_idx_refines. Qed.
Print Assumptions C10_window_kernel_idx.

(* ... and applied to a window held as an array of its own (the direct calls of the harness) *)
Theorem C10_kernel_idx : forall (K : carrier) (kf : nat -> K) mask normalize off (win : list nat),
  kernel_idx kf mask normalize (Z.of_nat off) win (whole win) = Ok (kernel kf mask normalize off win).
Proof. exact @kernel_idx_whole. Qed.
Print Assumptions C10_kernel_idx.

(* fixed_window_radii: the table has len(token_frequency)+1 entries and the write radii[mask_index] = 0 is inside it
   exactly when 0 <= mask_index <= len(token_frequency) (the library sets mask_index = len(token_frequency)) *)
Theorem C10_fixed_radii_mask_write : forall R n_freq m,
  (exists t, fixed_window_radii_idx R n_freq (Some m) = Ok t) <-> 0 <= m <= Z.of_nat n_freq.
Proof. exact fixed_radii_idx_ok_iff. Qed.
Print Assumptions C10_fixed_radii_mask_write.

Theorem C10_fixed_radii_idx : forall R n_freq (mask : option nat),
  match mask with Some m => (m <= n_freq)%nat | None => True end ->
  fixed_window_radii_idx R n_freq (option_map Z.of_nat mask) = Ok (fixed_window_radii R n_freq mask).
Proof. exact fixed_radii_idx_refines. Qed.
Print Assumptions C10_fixed_radii_idx.

(* variable_window_radii: min(radii) needs a non-empty frequency table; the table again has one more entry *)
Theorem C10_variable_radii_mask_write : forall vals m,
  (exists t, variable_window_radii_idx vals (Some m) = Ok t) <-> vals <> [] /\ 0 <= m <= zlen vals.
Proof. exact variable_radii_idx_ok_iff. Qed.
Print Assumptions C10_variable_radii_mask_write.

Theorem C10_variable_radii_length : forall vals mask t, variable_window_radii_idx vals mask = Ok t ->
  length t = (length vals + 1)%nat.
Proof. exact variable_radii_idx_length. Qed.
Print Assumptions C10_variable_radii_length.

(* window_size_array[i, target_word] is inside the table exactly when 0 <= i < n_windows and 0 <= id < row length *)
Theorem C10_radii_lookup_iff : forall (tbl : list (list nat)) i t,
  (exists r, lookup2 tbl i t = Ok r) <-> 0 <= i < zlen tbl /\ 0 <= t < zlen (nth (Z.to_nat i) tbl []).
Proof. exact lookup2_ok_iff. Qed.
Print Assumptions C10_radii_lookup_iff.

(* With a frequency table that has one entry per vocabulary entry (n_unique = len(token_frequency): fix 71b1ed7, D31), the
   table has n_unique + 1 columns: every vocabulary id, and the mask id n_unique when masking is on, is a valid
   column; the value is the radius, 0 for the mask id. *)
Theorem C10_radii_lookup_safe : forall (Rs : list nat) n_unique (masking : bool) i t,
  let mask := if masking then Some n_unique else None in
  let tbl := map (fun R => fixed_window_radii R n_unique mask) Rs in
  (i < length Rs)%nat -> (t < n_unique \/ (masking = true /\ t = n_unique))%nat ->
  lookup2 tbl (Z.of_nat i) (Z.of_nat t) = Ok (if masking && Nat.eqb t n_unique then 0%nat else nth i Rs 0%nat).
Proof. exact radii_lookup_safe. Qed.
Print Assumptions C10_radii_lookup_safe.

(* A table with fewer columns is not enough: id = number of columns is outside ("tokens beyond the fitted frequency
   table": the mask id when the frequency table is one entry short of the vocabulary, an unseen id otherwise). *)
Theorem C10_radii_lookup_short_table_refuted : forall R n_freq,
  lookup2 [repeat R (n_freq + 1)] 0 (Z.of_nat (n_freq + 1)) = OOB W_radii_col.
Proof. exact radii_lookup_short_table_oob. Qed.
Print Assumptions C10_radii_lookup_short_table_refuted.

(* non-vacuity *)
Example C10_window_instances :
  show_res id (window_at_index_idx [10; 11; 12; 13; 14]%nat 2 3 true) = (Some [12; 11]%nat, None) /\
  show_res id (window_at_index_idx [10; 11; 12; 13; 14]%nat 7 3 true) = (Some [12; 11; 10]%nat, None) /\
  show_res id (window_at_index_idx [10; 11; 12; 13; 14]%nat 7 1 false) = (Some [12; 13; 14]%nat, None) /\
  show_res id (window_at_index_idx [10; 11; 12; 13; 14]%nat 0 1 false) = (Some [], None) /\
  show_res id (window_at_index_idx [10]%nat 3 0 true) = (Some [], None) /\
  (* without the max(., 0) the negative bound wraps: seq[-2:1] is empty and the window [10] is lost *)
  show_res id (read_all W_window_read [10; 11; 12; 13; 14]%nat (window_view_nomax 5 3 1)) = (Some [], None) /\
  show_res id (window_at_index_idx [10; 11; 12; 13; 14]%nat 3 1 true) = (Some [10]%nat, None).
Proof. vm_compute. repeat split. Qed.

Example C10_kernel_instance :
  show_res (fun wk : list nat * list QcK => (fst wk, map show (snd wk)))
           (@window_kernel_idx QcK kf_harmonic (Some 12%nat) true 1 [10; 11; 12; 13; 14]%nat 7 0 false)
  = (Some ([11; 12; 13; 14]%nat, [(0, 1); (0, 1); (4, 7); (3, 7)]), None) /\
  show_res (map show) (@kernel_idx QcK (kf_geometric (qc 1 2)) None false 9 [1; 2]%nat (whole [1; 2]%nat))
  = (Some [(0, 1); (0, 1)], None).
Proof. vm_compute. split; reflexivity. Qed.

Example C10_radii_instances :
  show_res id (fixed_window_radii_idx 3 4 (Some 4)) = (Some [3; 3; 3; 3; 0]%nat, None) /\
  show_res id (fixed_window_radii_idx 3 4 (Some 5)) = (None, Some W_radii_mask) /\
  show_res id (variable_window_radii_idx [3; 1; 2]%nat (Some 3)) = (Some [3; 1; 2; 0]%nat, None) /\
  show_res id (variable_window_radii_idx [] (Some 0)) = (None, Some W_radii_min) /\
  show_res id (lookup2 [[3; 3; 0]; [2; 2; 0]]%nat 1 2) = (Some 0%nat, None) /\
  show_res id (lookup2 [[3; 3; 0]; [2; 2; 0]]%nat 1 3) = (None, Some W_radii_col).
Proof. vm_compute. repeat split. Qed.
End WIN.

(* ================================================================== the token driver loop *)
Module DRV.
Import Model.K02_Windows_idx Model.K03_Driver_idx Proofs.K03_Driver_idx_proofs.
Open Scope nat_scope.

(* numba_build_skip_grams at index level (Model/K03_Driver_idx.v): for every list of window/kernel blocks whose radius
   rows have n_unique + 1 entries, every array_lengths with one entry per block, every corpus whose token ids are
   <= n_unique (vocabulary ids and the mask id) — documents of length 0 / 1, radii 0 or beyond the document,
   offsets beyond the window included — every look-up of the loop (window_size_array[i, target_word],
   window_reversals[i], kernel_functions[i], kernel_args[i], mix_weights[i], windows[i], kernels[i], this_ker[j],
   coo_data[i], array_lengths[i], every element of every window view, every access of the kernel functions) is in
   range, and the appended tuples are, in order, those of the list-level driver token_events, each with
   key = col + array_mul * row. *)
Theorem C10_build_skip_grams_idx :
  forall (K : carrier) (blocks : list (block K)) nw n array_lengths docs,
  Forall (fun b : block K => length (b_radii b) = n + 1) blocks ->
  length blocks <= length array_lengths ->
  Forall (Forall (fun t => t <= n)) docs ->
  build_skip_grams_idx (tables_of blocks) nw n array_lengths docs
  = DOk (map (keyed (length blocks * n + 1)) (token_events blocks nw n docs)).
Proof. exact @build_skip_grams_idx_refines. Qed.
Print Assumptions C10_build_skip_grams_idx.

(* every appended tuple goes to an existing accumulator, and its key decodes back to (row, col):
   0 <= col < array_mul (the `+ 1` of array_mul is what makes room for the mask id in the last block) *)
Theorem C10_skip_gram_keys : forall (K : carrier) (blocks : list (block K)) nw n docs,
  Forall (Forall (fun t => t <= n)) docs ->
  let am := length blocks * n + 1 in
  Forall (fun e : event K => e_blk e < length blocks /\ e_row e <= n /\ e_col e < am /\
                             key_of am e / am = e_row e /\ key_of am e mod am = e_col e)
         (token_events blocks nw n docs).
Proof. exact @token_event_keys. Qed.
Print Assumptions C10_skip_gram_keys.

(* non-vacuity, and the two ways out of the tables: a token id beyond the radius table, a short array_lengths *)
Definition ex_blocks : list (block QcK) :=
  [mkblock false [2; 2; 2; 0] kf_harmonic (Some 3) false 0 (qc 1 1); mkblock true [1; 1; 1; 0] kf_flat (Some 3) true 0 (qc 1 2)].
Definition sh (l : list (event QcK * nat)) := map (fun ek : event QcK * nat => (show_events [fst ek], snd ek)) l.

Example C10_driver_instance :
  Forall (fun b : block QcK => length (b_radii b) = 3 + 1) ex_blocks /\
  Forall (Forall (fun t => t <= 3)) [[0; 1; 3; 2]; [1]; []] /\
  show_dres sh (build_skip_grams_idx (tables_of ex_blocks) true 3 [5; 5] [[0; 1; 3; 2]; [1]; []])
  = (Some [([(0, 0, 1, (1, 1)%Z)], 1); ([(0, 1, 2, (1, 2)%Z)], 9); ([(1, 1, 3, (1, 2)%Z)], 10)], None) /\
  show_dres sh (build_skip_grams_idx (tables_of ex_blocks) true 3 [5; 5] [[0; 4]]) = (None, Some (D_win W_radii_col)) /\
  show_dres sh (build_skip_grams_idx (tables_of ex_blocks) true 3 [5] [[0; 1]]) = (None, Some D_array_lengths).
Proof.
  split; [repeat constructor|]. split; [repeat constructor|]. vm_compute. repeat split.
Qed.
End DRV.
