(* C14 — Masking keeps positions; nullifying the mask removes its contribution.
   Only statements, each closed by `exact <lemma>`, followed by Print Assumptions.

   Models: Model/K6_Reindex.v (the re-indexing half of the preprocess_* functions, ngrams_of) and
   Model/C14_MaskKernel.v (mask handling of _window_kernels.py, the inner loop of numba_build_skip_grams for one
   window function, the diagonal projector of tree_token_cooccurrence.py).  A python dict is an association list in
   insertion order; [lookup d t] is d[t]; tokens are any type with a boolean equality reflecting equality.
   The matrix-level clause for the whole co-occurrence pipeline (all window functions, accumulation, EM) is checked
   on the implementation by the property oracle of harness/c14.py, not proved here: the pipeline is modelled under C03.

   Spec vocabulary (Proofs/K6_Reindex_proofs.v): in_dict d t = t is a key of d; idx d t = d[t];
   code d t = d[t] if t is a key, else len(d). *)
From Coq Require Import QArith List Bool Arith Lia.
From VZ Require Import Model.K5_Vocab Model.K6_Reindex Model.C14_MaskKernel.
From VZ Require Import Proofs.K5_Vocab_proofs Proofs.K6_Reindex_proofs Proofs.C14_MaskKernel_proofs.
From VZ Require Model.K02_Windows Model.K03_Exec Proofs.C14_MultiMask_proofs.
Import ListNotations.
Close Scope Z_scope.
Open Scope nat_scope.

(* (1) mask_string unset: tokens outside the vocabulary are deleted, the others mapped to their index, in order *)
Theorem C14_delete : forall (T : Type) (eqb : T -> T -> bool) (d : dict T) (docs : list (list T)),
  reindex T eqb None d docs = (map (fun s => map (idx T eqb d) (filter (in_dict T eqb d) s)) docs, d).
Proof. exact delete_mode. Qed.
Print Assumptions C14_delete.

(* (2) mask_string set: every document keeps its length, position p holds the index of s[p] if it is in the
   dictionary (without the mask key) and the mask index otherwise *)
Theorem C14_mask_positions : forall (T : Type) (eqb : T -> T -> bool) (m : T) (d : dict T) (docs : list (list T)) k s,
  nth_error docs k = Some s ->
  let out := nth k (fst (reindex T eqb (Some m) d docs)) [] in
  let d' := remove_key T eqb m d in
  length out = length s /\
  forall p t, nth_error s p = Some t ->
    nth_error out p = Some (match lookup T eqb d' t with Some i => i | None => length d' end).
Proof. exact mask_positions. Qed.
Print Assumptions C14_mask_positions.

(* (3) the mask is exactly one extra entry, the last one, with index = size of the dictionary without it *)
Theorem C14_mask_last : forall (T : Type) (eqb : T -> T -> bool) (eqb_eq : forall a b, eqb a b = true <-> a = b)
  (m : T) (d : dict T) (docs : list (list T)),
  let d' := snd (reindex T eqb (Some m) d docs) in
  last d' (m, 0) = (m, length (remove_key T eqb m d)) /\
  lookup T eqb d' m = Some (length (remove_key T eqb m d)) /\
  length d' = S (length (remove_key T eqb m d)) /\
  count_occ (fun a b => K5_Vocab_proofs.eq_dec T eqb eqb_eq a b) (map fst d') m = 1.
Proof. exact mask_last. Qed.
Print Assumptions C14_mask_last.

(* every other token keeps its index; when the mask string is not a token of the vocabulary and the indices are
   contiguous (C05_sorted_indices: a learned vocabulary) the mask index is larger than every other index *)
Theorem C14_mask_other_entries : forall (T : Type) (eqb : T -> T -> bool), (forall a b, eqb a b = true <-> a = b) ->
  forall (m : T) (d : dict T) (docs : list (list T)) t, t <> m ->
  lookup T eqb (snd (reindex T eqb (Some m) d docs)) t = lookup T eqb d t.
Proof. exact mask_other_entries. Qed.
Print Assumptions C14_mask_other_entries.

Theorem C14_mask_index_last : forall (T : Type) (eqb : T -> T -> bool), (forall a b, eqb a b = true <-> a = b) ->
  forall (m : T) (d : dict T) (docs : list (list T)) t i,
  ~ In m (map fst d) -> map snd d = seq 0 (length d) ->
  lookup T eqb (snd (reindex T eqb (Some m) d docs)) t = Some i -> t <> m -> i < length d.
Proof. exact mask_index_fresh. Qed.
Print Assumptions C14_mask_index_last.

(* (4) transform: feeding the fitted dictionary (vocabulary + mask last) back leaves it unchanged and produces the
   codes fit produced (what NgramVectorizer.transform lacked before the D10 repair) *)
Theorem C14_refit_stable : forall (T : Type) (eqb : T -> T -> bool), (forall a b, eqb a b = true <-> a = b) ->
  forall (m : T) (d0 : dict T) (docs : list (list T)), ~ In m (map fst d0) ->
  reindex T eqb (Some m) (add_mask T m d0) docs = (map (reindex_mask T eqb d0) docs, add_mask T m d0).
Proof. exact mask_refit_stable. Qed.
Print Assumptions C14_refit_stable.

(* (5) NgramVectorizer, mask mode: a document of length L yields L+1-n n-grams (as many as the raw document), the
   i-th being the codes of s[i : i+n] — pruned tokens do not make their neighbours adjacent *)
Theorem C14_ngram_positions : forall (T : Type) (eqb : T -> T -> bool) (d : dict T) (n : nat) (s : list T), 1 <= n ->
  ngrams_exact n (reindex_mask T eqb d s)
  = map (fun i => map (code T eqb d) (firstn n (skipn i s))) (seq 0 (length s + 1 - n)).
Proof. exact ngram_positions. Qed.
Print Assumptions C14_ngram_positions.

(* tree vectorizer: labels keep their positions (the adjacency matrices are untouched) *)
Theorem C14_tree_labels : forall (T : Type) (eqb : T -> T -> bool) (m : T) (d : dict T) labels p t,
  nth_error labels p = Some t ->
  length (relabel_mask T eqb m d labels) = length labels /\
  nth_error (relabel_mask T eqb m d labels) p = Some (if in_dict T eqb d t then t else m).
Proof. exact relabel_positions. Qed.
Print Assumptions C14_tree_labels.

(* (6) nullify_mask, window weights: a context equal to the mask index has weight 0 for every kernel, offset and
   normalisation *)
Theorem C14_kernel_mask_zero : forall k w m norm off j, nth_error w j = Some m ->
  exists y, nth_error (kernel k w (Some m) norm off) j = Some y /\ y == 0.
Proof. exact kernel_mask_zero. Qed.
Print Assumptions C14_kernel_mask_zero.

(* (7) ... and all other weights are those of the masked computation with the mask's weights zeroed BEFORE the
   normalisation: kernel(mask_index=m) = normalise (zero-the-mask (kernel(mask_index=None, normalize=False))) *)
Theorem C14_nullify_rest : forall k w m norm off,
  kernel k w (Some m) norm off = normalize norm (mask_zero (Some m) w (kernel k w None false off)).
Proof. exact kernel_nullify_structure. Qed.
Print Assumptions C14_nullify_rest.

Theorem C14_kernel_pointwise : forall k w mask off j t, nth_error w j = Some t ->
  nth_error (kernel k w mask false off) j
  = Some (if j <? off then 0%Q
          else match mask with Some m => if Nat.eqb t m then 0%Q else base_weight k j | None => base_weight k j end).
Proof. exact kernel_unnormalised_nth. Qed.
Print Assumptions C14_kernel_pointwise.

Theorem C14_kernel_normalised : forall k w mask off j x, nth_error (kernel k w mask false off) j = Some x ->
  (0 < qsum (kernel k w mask false off))%Q ->
  nth_error (kernel k w mask true off) j = Some (x / qsum (kernel k w mask false off))%Q.
Proof. exact kernel_normalised_nth. Qed.
Print Assumptions C14_kernel_normalised.

(* (8) the mask's own radius is 0 (every other token keeps the configured radius) and a radius-0 window is empty *)
Theorem C14_mask_radius : forall size ntok m, m <= ntok ->
  nth m (fixed_radii size ntok (Some m)) 0 = 0 /\
  forall t, t <= ntok -> t <> m -> nth t (fixed_radii size ntok (Some m)) 0 = size.
Proof. exact mask_radius_zero. Qed.
Print Assumptions C14_mask_radius.

Theorem C14_window_empty : forall (A : Type) (s : list A) ind reverse, window_at_index s 0 ind reverse = [].
Proof. exact window_radius_zero_empty. Qed.
Print Assumptions C14_window_empty.

(* (9) hence no (row, col, val) triple produced for any position refers to the mask: its row and the columns
   referring to it stay zero (one window function; the blocks of the others are the same loop body) *)
Theorem C14_nullify_row_col : forall k radii reverse m norm off mix nw s ind r c v,
  nth m radii 0 = 0 ->
  In (r, c, v) (position_events k radii reverse (Some m) norm off mix nw s ind) -> r <> m /\ c <> m.
Proof. exact events_avoid_mask. Qed.
Print Assumptions C14_nullify_row_col.

(* (10) tree vectorizer: (M . G) . M with M = identity whose mask entry is zeroed; for any semiring of entries *)
Theorem C14_tree_projector : forall (R : Type) (rzero rone : R) (radd rmul : R -> R -> R),
  (forall x, radd rzero x = x) -> (forall x, radd x rzero = x) ->
  (forall x, rmul rzero x = rzero) -> (forall x, rmul x rzero = rzero) ->
  (forall x, rmul rone x = x) -> (forall x, rmul x rone = x) ->
  forall n m (G : list (list R)) r c, length G = n -> r < n -> c < n ->
  nth c (nth r (project R rzero rone radd rmul n m G) []) rzero
  = if Nat.eqb r m || Nat.eqb c m then rzero else nth c (nth r G []) rzero.
Proof. exact project_entries. Qed.
Print Assumptions C14_tree_projector.

(* (11) multiset vectorizer (Model/K02_Windows.v multi_kernel, after the D31 repair): the window of a target always
   starts with its own multiset (distance 0), so radius 0 does not empty it; a target that is the nullified mask gets
   an all-zero kernel whatever the window, offset and normalisation -- no triple is produced for the mask's row;
   any other target keeps the plain kernel (own slot and masked contexts zeroed) *)
Theorem C14_multiset_masked_target : forall (kf : nat -> K02_Windows.T K03_Exec.QcK) m norm off (window : list (list nat)) s,
  nth s (hd [] window) 0 = m ->
  Forall (fun x : Qcanon.Qc => x = Qcanon.Q2Qc 0) (@K02_Windows.multi_kernel K03_Exec.QcK kf (Some m) norm off window s).
Proof. exact C14_MultiMask_proofs.multi_kernel_masked_target. Qed.
Print Assumptions C14_multiset_masked_target.

Theorem C14_multiset_other_target : forall (K : K02_Windows.carrier) (kf : nat -> K02_Windows.T K) m off (window : list (list nat)) s,
  nth s (hd [] window) 0 <> m ->
  K02_Windows.multi_raw kf (Some m) off window s
  = K02_Windows.upd (K02_Windows.multi_fill kf (Some m) off 0 window) s (@K02_Windows.zero K).
Proof. exact C14_MultiMask_proofs.multi_raw_other_target. Qed.
Print Assumptions C14_multiset_other_target.

(* ---- non-vacuity ---- *)
Example C14_ex_reindex :
  reindex nat Nat.eqb (Some 9) [(1, 0); (2, 1)] [[1; 5; 2; 5; 5]; []; [7]]
  = ([[0; 2; 1; 2; 2]; []; [2]], [(1, 0); (2, 1); (9, 2)])
  /\ reindex nat Nat.eqb None [(1, 0); (2, 1)] [[1; 5; 2; 5; 5]; []; [7]] = ([[0; 1]; []; []], [(1, 0); (2, 1)]).
Proof. split; reflexivity. Qed.
Example C14_ex_refit :
  reindex nat Nat.eqb (Some 9) [(1, 0); (2, 1); (9, 2)] [[1; 5; 2]] = ([[0; 2; 1]], [(1, 0); (2, 1); (9, 2)]).
Proof. reflexivity. Qed.
Example C14_ex_ngrams : ngrams_exact 2 (reindex_mask nat Nat.eqb [(1, 0); (2, 1)] [1; 5; 2]) = [[0; 2]; [2; 1]].
Proof. reflexivity. Qed.
Example C14_ex_kernel :
  map Qred (kernel Harmonic [3; 7; 4] (Some 7) true 0) = [(3 # 4)%Q; 0%Q; (1 # 4)%Q]
  /\ map Qred (kernel Harmonic [3; 7; 4] None true 0) = [(6 # 11)%Q; (3 # 11)%Q; (2 # 11)%Q].
Proof. split; vm_compute; reflexivity. Qed.
Example C14_ex_events :
  map (fun e => (fst e, Qred (snd e)))
      (doc_events Flat (fixed_radii 2 2 (Some 2)) false (Some 2) false 0 1%Q false [0; 2; 1; 0])
  = [(0, 1, 1%Q); (1, 0, 1%Q)]
  /\ nth 2 (fixed_radii 2 2 (Some 2)) 0 = 0.
Proof. split; vm_compute; reflexivity. Qed.
Example C14_ex_projector :
  project Z 0%Z 1%Z Z.add Z.mul 3 1 [[1; 2; 3]; [4; 5; 6]; [7; 8; 9]]%Z = [[1; 0; 3]; [0; 0; 0]; [7; 0; 9]]%Z.
Proof. vm_compute. reflexivity. Qed.
Example C14_ex_multiset :
  (* window = own multiset [0; 2] then [1]; mask = 2: the mask (slot 1) sees nothing, token 0 (slot 0) sees [1] only *)
  map K03_Exec.show (@K02_Windows.multi_kernel K03_Exec.QcK K03_Exec.kf_flat (Some 2) false 0 [[0; 2]; [1]] 1)
  = [(0, 1); (0, 1); (0, 1)]%Z
  /\ map K03_Exec.show (@K02_Windows.multi_kernel K03_Exec.QcK K03_Exec.kf_flat (Some 2) false 0 [[0; 2]; [1]] 0)
  = [(0, 1); (0, 1); (1, 1)]%Z.
Proof. split; vm_compute; reflexivity. Qed.
