(* C01 (co-occurrence family, token driver) — transform(M, X') lives in the fitted space whatever X' is: no exception,
   one row per fitted dictionary entry (the vocabulary, +1 for the mask entry), n_blocks * n columns, and the tokens
   of X' outside the vocabulary are deleted (delete mode) or coded as the mask (mask mode) BEFORE any event is
   generated, so transform M X' = transform M (X' with those tokens removed / replaced by the mask string).
   Only statements, each closed by `exact <lemma>`, followed by Print Assumptions; Examples at the end.
   Model: Model/K02_TwoPaths.v (base_transform over K5/K6/K03/K04).  Proofs: Proofs/K02_TwoPaths_proofs.v.

   fitted_dict_wf masking d  (Proofs/K02_TwoPaths_proofs.v) = every index stored in d is below len(d), and in mask mode
   d is a dictionary without the mask key followed by the mask entry.  Models fitted on a learned vocabulary satisfy
   it (C01_cooc_fitted_wf); a supplied token_dictionary that is not an enumeration is not a valid input. *)
From Coq Require Import ZArith List Bool Arith Lia QArith Qcanon.
From VZ Require Import Model.K5_Vocab Model.K5_Float Model.K6_Reindex Model.K02_Windows Model.K03_Cooc
     Model.K03_Exec Model.K04_EM Model.K02_TwoPaths.
From VZ Require Import Proofs.K5_Vocab_proofs Proofs.K6_Reindex_proofs Proofs.K02_TwoPaths_proofs.
From VZ Require Import Model.K03_CoocSpec Proofs.K03_BigSum Proofs.K03_Drivers_proofs Proofs.K02_Qc_proofs.
From VZ Require Properties.C02_cooc.
Import ListNotations.
Close Scope Z_scope.
Open Scope nat_scope.

(* the model written out: transform never raises and is the fitted blocks / fitted width applied to the re-indexed X' *)
Theorem C01_cooc_transform_total :
  forall (T : Type) (eqb ltb : T -> T -> bool) (matches : T -> bool)
         (f32div f64div : Z -> Z -> Z) (f64to32 : Z -> Z) (one64 : Z) (K : carrier) (A : Type) (cfg : cooc_cfg K)
         (post : list (block K) -> nat -> list (list nat) -> list (event K) -> A)
         (masking : option T) (M : fitted T (list (block K)) A) (X' : list (list T)),
  token_transform T eqb ltb matches f32div f64div f64to32 one64 K A cfg post masking M X'
  = Ok (post (ft_state M) (length (ft_dict M)) (fst (reindex T eqb masking (ft_dict M) X'))
             (token_events (ft_state M) (cc_nw cfg) (length (ft_dict M)) (fst (reindex T eqb masking (ft_dict M) X')))).
Proof. exact token_transform_unfold. Qed.
Print Assumptions C01_cooc_transform_total.

(* event level: every (block, row, col, val) appended by transform has its row among the dictionary entries and its
   column in the column range of its block, hence inside the declared shape (n, n_blocks * n) *)
Theorem C01_cooc_shape :
  forall (T : Type) (eqb ltb : T -> T -> bool) (matches : T -> bool)
         (f32div f64div : Z -> Z -> Z) (f64to32 : Z -> Z) (one64 : Z),
  (forall a b, eqb a b = true <-> a = b) ->
  forall (K : carrier) (cfg : cooc_cfg K) (masking : option T) (M : fitted T (list (block K)) (list (event K)))
         (X' : list (list T)),
  fitted_dict_wf T masking (ft_dict M) ->
  exists evs,
    token_transform T eqb ltb matches f32div f64div f64to32 one64 K (list (event K)) cfg ev_post masking M X' = Ok evs /\
    forall e, In e evs ->
      e_blk e < length (ft_state M) /\
      e_blk e * length (ft_dict M) <= e_col e < (e_blk e + 1) * length (ft_dict M) /\
      e_row e < length (ft_dict M) /\ e_col e < length (ft_state M) * length (ft_dict M).
Proof. exact token_transform_events_shape. Qed.
Print Assumptions C01_cooc_shape.

(* matrix level (K04 rows, any n_iter / epsilon): exactly len(dictionary) rows, every stored column < n_blocks * n *)
Theorem C01_cooc_rows_shape :
  forall (T : Type) (eqb ltb : T -> T -> bool) (matches : T -> bool)
         (f32div f64div : Z -> Z -> Z) (f64to32 : Z -> Z) (one64 : Z),
  (forall a b, eqb a b = true <-> a = b) ->
  forall (cfg : cooc_cfg QcK) (n_iter : nat) (eps : Qc) (masking : option T) (M : fitted T (list (block QcK)) rows)
         (X' : list (list T)),
  fitted_dict_wf T masking (ft_dict M) ->
  exists R,
    token_transform T eqb ltb matches f32div f64div f64to32 one64 QcK rows cfg (em_post n_iter eps) masking M X' = Ok R /\
    length R = length (ft_dict M) /\
    Forall (fun row : list (nat * Qc) => Forall (fun c => c < length (ft_state M) * length (ft_dict M)) (map fst row)) R.
Proof. exact token_transform_rows_shape. Qed.
Print Assumptions C01_cooc_rows_shape.

(* each column keeps the meaning recorded at fit: cell (r, c + i*n) of transform M X' is the windowed, kernel-weighted
   count (the pointwise specification of C03, Model/K03_CoocSpec.v) of token c around token r for block i, computed
   with the FITTED blocks on the re-indexed X' *)
Theorem C01_cooc_cells :
  forall (T : Type) (eqb ltb : T -> T -> bool) (matches : T -> bool)
         (f32div f64div : Z -> Z -> Z) (f64to32 : Z -> Z) (one64 : Z),
  (forall a b, eqb a b = true <-> a = b) ->
  forall (K : carrier), carrier_laws K ->
  forall (cfg : cooc_cfg K) (masking : option T) (M : fitted T (list (block K)) (list (event K)))
         (X' : list (list T)) r c i,
  fitted_dict_wf T masking (ft_dict M) -> c < length (ft_dict M) ->
  exists evs,
    token_transform T eqb ltb matches f32div f64div f64to32 one64 K (list (event K)) cfg ev_post masking M X' = Ok evs /\
    sumby evs r (c + i * length (ft_dict M))
    = token_spec (ft_state M) (cc_nw cfg) (fst (reindex T eqb masking (ft_dict M) X')) r c i.
Proof.
  intros T eqb ltb matches f32div f64div f64to32 one64 E K HK cfg masking M X' r c i W Hc.
  rewrite (token_transform_unfold T eqb ltb matches f32div f64div f64to32 one64). eexists. split; [reflexivity|].
  unfold ev_post. apply (token_cooc HK); [|exact Hc]. apply (reindex_in_range T eqb E). exact W.
Qed.
Print Assumptions C01_cooc_cells.

(* a model fitted on a learned vocabulary is well formed; with a mask the dictionary is the vocabulary + 1 entry *)
Theorem C01_cooc_fitted_wf :
  forall (T : Type) (eqb ltb : T -> T -> bool) (matches : T -> bool)
         (f32div f64div : Z -> Z -> Z) (f64to32 : Z -> Z) (one64 : Z),
  (forall a b, eqb a b = true <-> a = b) -> (forall a, ltb a a = false) ->
  (forall a b c, ltb a b = true -> ltb b c = true -> ltb a c = true) ->
  (forall a b, a = b \/ ltb a b = true \/ ltb b a = true) ->
  forall (K : carrier) (A : Type) (cfg : cooc_cfg K) post c masking X M,
  token_fit T eqb ltb matches f32div f64div f64to32 one64 K A cfg post c masking None X = Ok M ->
  fitted_dict_wf T masking (ft_dict M).
Proof. exact token_fit_wf. Qed.
Print Assumptions C01_cooc_fitted_wf.

Theorem C01_cooc_mask_row : forall (T : Type) (eqb : T -> T -> bool), (forall a b, eqb a b = true <-> a = b) ->
  forall (m : T) (d : dict T), fitted_dict_wf T (Some m) d ->
  length d = S (length (remove_key T eqb m d)) /\ lookup T eqb d m = Some (length (remove_key T eqb m d)) /\
  ~ In m (map fst (remove_key T eqb m d)).
Proof.
  intros T eqb E m d [_ [d' [Hm Hd]]]. subst d. rewrite (remove_add_mask T eqb E m d' Hm).
  split; [apply add_mask_length|]. split; [|exact Hm].
  unfold add_mask. rewrite (lookup_app T eqb), (lookup_not_In T eqb E d' m Hm). simpl.
  rewrite (eqb_refl' T eqb E). reflexivity.
Qed.
Print Assumptions C01_cooc_mask_row.

(* unseen tokens, delete mode: transform M X' = transform M (strip_unseen M X') for every post-processing *)
Theorem C01_cooc_strip_unseen :
  forall (T : Type) (eqb ltb : T -> T -> bool) (matches : T -> bool)
         (f32div f64div : Z -> Z -> Z) (f64to32 : Z -> Z) (one64 : Z) (K : carrier) (cfg : cooc_cfg K) (A : Type)
         (post : list (block K) -> nat -> list (list nat) -> list (event K) -> A)
         (M : fitted T (list (block K)) A) (X' : list (list T)),
  token_transform T eqb ltb matches f32div f64div f64to32 one64 K A cfg post None M (strip_unseen eqb (ft_dict M) X')
  = token_transform T eqb ltb matches f32div f64div f64to32 one64 K A cfg post None M X'.
Proof. exact token_transform_strip. Qed.
Print Assumptions C01_cooc_strip_unseen.

(* ... and if X' holds unseen tokens only, no event is generated at all *)
Theorem C01_cooc_all_unseen :
  forall (T : Type) (eqb ltb : T -> T -> bool) (matches : T -> bool)
         (f32div f64div : Z -> Z -> Z) (f64to32 : Z -> Z) (one64 : Z) (K : carrier) (cfg : cooc_cfg K)
         (M : fitted T (list (block K)) (list (event K))) (X' : list (list T)),
  Forall (Forall (fun t => lookup T eqb (ft_dict M) t = None)) X' ->
  token_transform T eqb ltb matches f32div f64div f64to32 one64 K (list (event K)) cfg ev_post None M X' = Ok [].
Proof. exact token_transform_all_unseen. Qed.
Print Assumptions C01_cooc_all_unseen.

(* unseen tokens, mask mode: they are indistinguishable from the mask string itself (they keep their positions) *)
Theorem C01_cooc_mask_unseen :
  forall (T : Type) (eqb ltb : T -> T -> bool) (matches : T -> bool)
         (f32div f64div : Z -> Z -> Z) (f64to32 : Z -> Z) (one64 : Z),
  (forall a b, eqb a b = true <-> a = b) ->
  forall (K : carrier) (cfg : cooc_cfg K) (A : Type)
         (post : list (block K) -> nat -> list (list nat) -> list (event K) -> A)
         (m : T) (M : fitted T (list (block K)) A) (X' : list (list T)),
  token_transform T eqb ltb matches f32div f64div f64to32 one64 K A cfg post (Some m) M (mask_unseen eqb m (ft_dict M) X')
  = token_transform T eqb ltb matches f32div f64div f64to32 one64 K A cfg post (Some m) M X'.
Proof. exact token_transform_mask_unseen. Qed.
Print Assumptions C01_cooc_mask_unseen.

(* ---------------- non-vacuity (the fitted models of Properties/C02_cooc.v) ---------------- *)
Import C02_cooc.

Definition ex_X' : list (list Z) := [[2; 8; 1; 8; 8; 2]; [8]; []; [1; 3; 2]]%Z.     (* 8 unseen, 3 pruned at fit *)

Example C01_ex_delete :
  match ex_fit ev_post ex_cfg_prune None None ex_X with
  | Ok M => fitted_dict_wf Z None (ft_dict M) /\
            strip_unseen Z.eqb (ft_dict M) ex_X' = [[2; 1; 2]; []; []; [1; 2]]%Z /\
            (match ex_transform ev_post None M ex_X', ex_transform ev_post None M [[2; 1; 2]; []; []; [1; 2]]%Z with
             | Ok A, Ok B => show_events A = show_events B /\ length A = 8
             | _, _ => False end) /\
            ex_transform ev_post None M [[8; 3]; [8]]%Z = Ok []
  | Err _ => False
  end.
Proof.
  vm_compute. split; [|repeat split; reflexivity].
  split; [repeat constructor | exact I].
Qed.

Example C01_ex_mask :
  match ex_fit (em_post 0 (qc 0 1)) ex_cfg_prune (Some 99%Z) None ex_X with
  | Ok M => mask_unseen Z.eqb 99%Z (ft_dict M) ex_X' = [[2; 99; 1; 99; 99; 2]; [99]; []; [1; 99; 2]]%Z /\
            (match ex_transform (em_post 0 (qc 0 1)) (Some 99%Z) M ex_X' with
             | Ok R => length R = 3 /\ nth 2 R [(0, qc 1 1)] = [] /\ R <> [[]; []; []]
             | Err _ => False end)
  | Err _ => False
  end.
Proof. vm_compute. repeat split; try reflexivity. discriminate. Qed.

(* C01_cooc_cells on the same model: the rationals satisfy the carrier laws, and the cell (row 1's token "1", column of
   token "2", 'before' block) of transform M X' is 1/2 on both sides *)
Example C01_ex_cells :
  carrier_laws QcK /\
  match ex_fit ev_post ex_cfg_prune None None ex_X with
  | Ok M => match ex_transform ev_post None M ex_X' with
            | Ok evs => show (@sumby QcK evs 0 (1 + 0 * 2)) = (1%Z, 2%Z) /\
                        show (token_spec (ft_state M) true (fst (reindex Z Z.eqb None (ft_dict M) ex_X')) 0 1 0) = (1%Z, 2%Z)
            | Err _ => False end
  | Err _ => False
  end.
Proof. split; [exact K02_Qc_proofs.QcK_laws|]. vm_compute. split; reflexivity. Qed.
