(* C01 — transform returns one row per input item in the fitted column space.
   The assembly step shared by the row-producing vectorizers: rows are produced by mapping a per-item function over
   the input, and the matrix is built with the width fixed at fit time.  Vectorizer-specific statements
   (what each column counts, unseen tokens ignored) are in Properties/C01_*.v and with the kernels (C06, C09, C16, C20). *)
From Coq Require Import ZArith List Lia.
From VZ Require Import Model.K00_RowAssembly Proofs.K00_RowAssembly_proofs.
Import ListNotations.


Theorem C01_shape : forall (item model : Type) (row : model -> item -> list (nat * nat)) (width : model -> nat) M X,
  let '(nr, nc, rows) := transform item model row width M X in
  nr = length X /\ nc = width M /\ length rows = length X.
Proof. exact transform_shape. Qed.
Print Assumptions C01_shape.

Theorem C01_columns_in_range : forall (item model : Type) (row : model -> item -> list (nat * nat)) (width : model -> nat) M X,
  wf item model row width M ->
  let '(_, nc, rows) := transform item model row width M X in Forall (Forall (fun e => fst e < nc)) rows.
Proof. exact transform_cols_in_range. Qed.
Print Assumptions C01_columns_in_range.

Theorem C01_row_order : forall (item model : Type) (row : model -> item -> list (nat * nat)) (width : model -> nat) M X i d,
  i < length X ->
  let '(_, _, rows) := transform item model row width M X in nth i rows [] = row M (nth i X d).
Proof. exact transform_row_i. Qed.
Print Assumptions C01_row_order.
