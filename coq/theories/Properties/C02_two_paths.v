(* C02 — the estimators whose fit_transform and transform are DIFFERENT code: the equality of the two paths is a
   theorem of the kernel model (re-stated here from the kernel's own property file so that C02's obligations are
   visible in one place). *)
From Coq Require Import ZArith List.
From VZ Require Import Model.K8_BPE Proofs.K8_BPE_proofs Proofs.K8_BPE_train_proofs Model.K9_LZ.
From VZ Require Properties.C09 Properties.C16.
Import ListNotations.

(* BytePairEncodingVectorizer: incremental training (contract the chosen pair in every string while counting) and
   transform (replay the learned merge list on a string) give the same encodings on the training strings —
   for EVERY pair-selection rule *)
Theorem C02_bpe : forall (OS : Type) sel_init sel_step X v mcc0 t,
  bpe_train OS sel_init sel_step X v mcc0 = Ok t -> transform_sequences t X = Ok (t_enc t).
Proof. exact C09.C09_transform_train. Qed.
Print Assumptions C02_bpe.

(* LZCompressionVectorizer: the rows fit_transform builds while it is still assigning columns are exactly
   transform's rows under the final column dictionary *)
Theorem C02_lz : forall (K : Type) (keqb : K -> K -> bool) (h : list Z -> K) base cap X colsF rows,
  (forall a b, keqb a b = true <-> a = b) ->
  fit_rows keqb h X base cap [] = (colsF, rows) ->
  lz_transform keqb h colsF base cap X = (Z.of_nat (length X), Z.of_nat (length colsF), rows).
Proof.
  intros K keqb h base cap X colsF rows Hk Hfit.
  exact (proj1 (proj2 (C16.C16_same_column K keqb h base cap X colsF rows Hk Hfit))).
Qed.
Print Assumptions C02_lz.
