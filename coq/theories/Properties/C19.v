(* C19 — Sliding windows contain exactly the documented in-range elements.
   Only statements, each closed by `exact <lemma>`, followed by Print Assumptions. *)
From Coq Require Import ZArith List Lia Arith Sorted.
From VZ Require Import Model.K14_Sliding Proofs.K14_Sliding_proofs.
Import ListNotations.
Open Scope Z_scope.

(* number of windows = ceil((L' - width + 1)/stride), characterised without division *)
Theorem C19_count : forall len width stride : nat,
  (0 < stride)%nat -> (width <= len)%nat ->
  let n := Z.of_nat (n_rows len width stride) in
  (n - 1) * Z.of_nat stride < Z.of_nat len - Z.of_nat width + 1 <= n * Z.of_nat stride.
Proof. exact n_rows_spec. Qed.
Print Assumptions C19_count.

Theorem C19_rows : forall K width stride sample pw pv s,
  length (sliding_windows K width stride sample pw pv s) = n_rows (length (pad pw pv s)) width stride.
Proof. exact sliding_windows_length. Qed.
Print Assumptions C19_rows.

(* every window lies inside the (padded) sequence; the one after the last would not *)
Theorem C19_in_range : forall len width stride i : nat,
  (0 < stride)%nat -> (width <= len)%nat -> (i < n_rows len width stride)%nat ->
  (i * stride + width <= len)%nat.
Proof. exact n_rows_in_range. Qed.
Print Assumptions C19_in_range.

Theorem C19_maximal : forall len width stride : nat,
  (0 < stride)%nat -> (width <= len)%nat -> (len < n_rows len width stride * stride + width)%nat.
Proof. exact n_rows_maximal. Qed.
Print Assumptions C19_maximal.

Theorem C19_reads_in_range : forall width stride sample len i j,
  (0 < stride)%nat -> (width <= len)%nat -> Forall (fun j => (j < width)%nat) sample ->
  (i < n_rows len width stride)%nat -> In j sample -> (i * stride + j < len)%nat.
Proof. exact sliding_windows_reads_in_range. Qed.
Print Assumptions C19_reads_in_range.

(* the i-th window is the kernel applied to the sampled entries of elements [i*stride, i*stride+width) *)
Theorem C19_window_i : forall K width stride sample pw pv s i,
  (0 < stride)%nat -> (width <= length (pad pw pv s))%nat ->
  Forall (fun j => (j < width)%nat) sample ->
  (i < n_rows (length (pad pw pv s)) width stride)%nat ->
  nth i (sliding_windows K width stride sample pw pv s) []
  = apply_kernel K (map (fun j => nth (i * stride + j) (pad pw pv s) []) sample).
Proof. exact sliding_windows_nth. Qed.
Print Assumptions C19_window_i.

Theorem C19_padding : forall (pw : nat) (pv d : list Z) (s : list (list Z)) (k : nat),
  nth k (pad pw pv s) d =
  if (k <? pw)%nat then pv
  else if (k <? pw + length s)%nat then nth (k - pw) s d
  else if (k <? pw + length s + pw)%nat then pv else d.
Proof. exact (@pad_nth (list Z)). Qed.
Print Assumptions C19_padding.

(* window_sample forms select exactly the documented positions *)
Theorem C19_sample_arange : forall start stop step j : nat,
  (0 < step)%nat ->
  In j (arange start stop step) <-> (start <= j < stop)%nat /\ exists k, (j = start + k * step)%nat.
Proof. exact arange_spec. Qed.
Print Assumptions C19_sample_arange.

Theorem C19_sample_sorted : forall start stop step : nat,
  (0 < step)%nat -> StronglySorted lt (arange start stop step).
Proof. exact arange_sorted. Qed.
Print Assumptions C19_sample_sorted.

Theorem C19_sample_none : forall w, sample_of_form w SNone = seq 0 w.
Proof. exact arange_identity. Qed.
Print Assumptions C19_sample_none.

Theorem C19_sample_forms_in_window : forall width f,
  match f with SNone => True | SStride n => (0 < n)%nat | SStartStride _ n => (0 < n)%nat
             | SIndex l => Forall (fun j => (j < width)%nat) l end ->
  Forall (fun j => (j < width)%nat) (sample_of_form width f).
Proof. exact sample_in_window. Qed.
Print Assumptions C19_sample_forms_in_window.

(* SequentialDifferenceTransformer: x[i+t] - x[i] for every valid i, every stride t >= 1 *)
Theorem C19_difference : forall t d (s : list (list Z)),
  (0 < t)%nat -> (t < length s)%nat -> Forall (fun v => length v = d) s ->
  sequential_difference t s
  = map (fun i => vsub d (nth (i + t) s []) (nth i s [])) (seq 0 (length s - t)).
Proof. exact sequential_difference_spec. Qed.
Print Assumptions C19_difference.

(* non-vacuity: concrete instances meeting the hypotheses *)
Example C19_ex_windows :
  sliding_windows None 3 2 (sample_of_form 3 (SStride 2)) 1 [0] [[1];[2];[3];[4];[5];[6]]
  = [[0;2];[2;4];[4;6]].
Proof. vm_compute. reflexivity. Qed.
Example C19_ex_diff : sequential_difference 2 [[1];[4];[9];[16];[25]] = [[8];[12];[16]].
Proof. vm_compute. reflexivity. Qed.
Example C19_ex_hyps : (0 < 2)%nat /\ (3 <= length (pad 1 [0] [[1];[2];[3];[4];[5];[6]]))%nat
  /\ Forall (fun j => (j < 3)%nat) (sample_of_form 3 (SStride 2)).
Proof. repeat split; cbn; try lia. repeat constructor. Qed.
