(* C02 — fit_transform(X) equals fit(X).transform(X).  Statements only.
   The estimator-specific halves of this property live with their kernels and are re-stated here as they land:
   BPE (training encodings = replay of the learned merge list: Properties/C09.v C09_train_replay),
   LZ (same phrase => same column in fit_transform and transform: Properties/C16.v),
   vocabulary used as given at transform time (Properties/C05.v), sliding windows share one code path (C19). *)
From mathcomp Require Import all_ssreflect all_algebra.
From Coq Require Import Reals.
From VZ Require Import Proofs.K02_SVD Proofs.K02_CFC.
Import GRing.Theory.
Local Open Scope ring_scope.

(* SVD-compressed outputs: u.s at fit = projection at transform whenever the decomposition is exact
   (requested dimension >= rank) and the learned components are orthonormal *)
Theorem C02_svd_roundtrip : forall (F : fieldType) (n m k : nat)
  (X : 'M[F]_(n, m)) (U : 'M[F]_(n, k)) (S : 'rV[F]_k) (V : 'M[F]_(k, m)),
  X = U *m diag_mx S *m V -> V *m V^T = 1%:M -> X *m V^T = U *m diag_mx S.
Proof. exact svd_roundtrip. Qed.
Print Assumptions C02_svd_roundtrip.

Theorem C02_projection_rowwise : forall (F : fieldType) (n m k : nat)
  (X : 'M[F]_(n, m)) (V : 'M[F]_(k, m)) (i : 'I_n), row i (X *m V^T) = row i X *m V^T.
Proof. exact projection_rowwise. Qed.
Print Assumptions C02_projection_rowwise.

Theorem C02_projection_isometry : forall (F : fieldType) (m k : nat)
  (x y : 'rV[F]_m) (a b : 'rV[F]_k) (V : 'M[F]_(k, m)),
  x = a *m V -> y = b *m V -> V *m V^T = 1%:M ->
  (x *m V^T - y *m V^T) *m (x *m V^T - y *m V^T)^T = (x - y) *m (x - y)^T.
Proof. exact projection_isometry. Qed.
Print Assumptions C02_projection_isometry.

(* CountFeatureCompression's sqrt(s) split *)
Theorem C02_cfc_scaling : forall u s : R, (0 < s)%R -> ((u * s) / sqrt s = u * sqrt s)%R.
Proof. exact cfc_scaling. Qed.
Print Assumptions C02_cfc_scaling.

Example C02_ex_cfc : ((3 * 4) / sqrt 4 = 3 * sqrt 4)%R.
Proof. apply cfc_scaling. Lra.lra. Qed.
