(* C01 (continued) — LZCompression, BytePairEncoding ('matrix') and Histogram: one row per item, fitted width,
   unseen phrases / codes ignored.  Restated from the kernels' property files (C16, C09, C20). *)
From Coq Require Import ZArith List Lia.
From VZ Require Import Model.K9_LZ Model.K8_BPE Model.K15_HistKDE.
From VZ Require Properties.C16 Properties.C09 Properties.C20.
Import ListNotations.

(* LZ transform: |X'| rows, as many columns as the fitted column dictionary, row i is a function of string i alone *)
Theorem C01_lz_shape : forall (K : Type) (keqb : K -> K -> bool) (h : list Z -> K) cols base cap X,
  let '(n, w, rows) := lz_transform keqb h cols base cap X in
  n = Z.of_nat (length X) /\ w = Z.of_nat (length cols) /\ length rows = length X.
Proof. intros. unfold lz_transform. cbn. rewrite map_length. auto. Qed.
Print Assumptions C01_lz_shape.

Theorem C01_lz_row_i : forall (K : Type) (keqb : K -> K -> bool) (h : list Z -> K) cols base cap X1 s X2,
  nth_error (snd (lz_transform keqb h cols base cap (X1 ++ s :: X2))) (length X1)
  = Some (lz_transform_row keqb h cols base cap s).
Proof. exact C16.C16_row_local. Qed.
Print Assumptions C01_lz_row_i.

(* BPE 'matrix' rows: a code without a fitted column is ignored, every other code is counted in its own column,
   and every column index is below the fitted width *)
Theorem C01_bpe_matrix_row : forall codes row,
  (forall x j, col_of codes x = Some j -> cell (matrix_transform_row codes row) j = countZ x row) /\
  (forall j, (forall x, col_of codes x <> Some j) -> cell (matrix_transform_row codes row) j = 0%Z).
Proof. intros codes row. destruct (C09.C09_matrix_of_sequences codes row) as (A & B & _). split; assumption. Qed.
Print Assumptions C01_bpe_matrix_row.

Theorem C01_bpe_matrix_columns_in_range : forall codes x j,
  col_of codes x = Some j -> (0 <= j < Z.of_nat (length codes))%Z.
Proof. intros codes x j H. exact (proj1 (C09.C09_matrix_column_index codes x j H)). Qed.
Print Assumptions C01_bpe_matrix_columns_in_range.

(* Histogram rows always have one cell per fitted bin, whatever values the sequence holds (inside or outside the
   training range) *)
Theorem C01_histogram_width : forall bins xs, length (hist_row bins xs) = length bins.
Proof. exact C20.C20_row_length. Qed.
Print Assumptions C01_histogram_width.
