(* C20 (KDE half) — placeholder, filled below *)
From Coq Require Import List.
From VZ Require Import Model.K15_KDEexec.
Theorem C20_kde_stub : finite_support Tophat = true.
Proof. reflexivity. Qed.
Print Assumptions C20_kde_stub.
