(* C20 (KDE half) — KDEVectorizer rows are non-negative density values on the fitted evaluation grid that depend only on
   the multiset of the sequence's values and the fitted bandwidth.
   Theorems about Model/K15_KDEexec.v (the model that the harness EXECUTES over binary64 against kde_vectorizer.py on every
   run), instantiated with the real numbers for the kernels / rows and with exact rationals for the evaluation grid.
   Only statements, each closed by `exact <lemma>`, followed by Print Assumptions.
   Oracles (not modelled): KernelDensity's tree traversal (its result = the mean of kernels is checked on every run),
   the jack-knife likelihood search of fit (the candidates it chooses among are modelled, the choice is data). *)
From Coq Require Import QArith Reals List Bool Arith Permutation Lra.
From VZ Require Import Model.K12_Dist Model.K15_HistKDE Model.K15_KDEexec.
From VZ Require Import Proofs.K15_KDE_proofs Proofs.K15_KDEexec_R_proofs Proofs.K15_KDEgrid_proofs.
Import ListNotations.

(* ================= kernels (R) ================= *)
Open Scope R_scope.

(* each of the six kernels is non-negative at every distance, for every positive bandwidth *)
Theorem C20_kde_kernel_nonneg : forall k d h, 0 < h -> 0 <= d -> 0 <= Rkval k d h.
Proof. exact Rkval_nonneg. Qed.
Print Assumptions C20_kde_kernel_nonneg.

(* ... at most 1, and non-increasing in the distance: a value farther from the grid point contributes less *)
Theorem C20_kde_kernel_le_1 : forall k d h, 0 < h -> 0 <= d -> Rkval k d h <= 1.
Proof. exact Rkval_le_1. Qed.
Print Assumptions C20_kde_kernel_le_1.

Theorem C20_kde_kernel_decreasing : forall k d1 d2 h, 0 < h -> 0 <= d1 -> d1 <= d2 -> Rkval k d2 h <= Rkval k d1 h.
Proof. exact Rkval_decreasing. Qed.
Print Assumptions C20_kde_kernel_decreasing.

(* the finite-support kernels (tophat, epanechnikov, linear, cosine) vanish at and beyond distance h *)
Theorem C20_kde_kernel_support : forall k d h, finite_support k = true -> h <= d -> Rkval k d h = 0.
Proof. exact Rkval_outside. Qed.
Print Assumptions C20_kde_kernel_support.

(* what the model's branches compute inside the support (pointwise reading of kval) *)
Theorem C20_kde_kernel_values : forall d h, 0 <= d -> d < h ->
  Rkval Gaussian d h = exp (- (1 / 2) * (d * d) / (h * h)) /\ Rkval Tophat d h = 1 /\
  Rkval Epanechnikov d h = 1 - (d * d) / (h * h) /\ Rkval Exponential d h = exp (- d / h) /\
  Rkval Linear d h = 1 - d / h /\ Rkval Cosine d h = cos (1 / 2 * PI * d / h).
Proof.
  intros d h _ H.
  split; [apply Rkval_gaussian|]. split; [now apply Rkval_tophat|]. split; [now apply Rkval_epanechnikov|].
  split; [apply Rkval_exponential|]. split; [now apply Rkval_linear|now apply Rkval_cosine].
Qed.
Print Assumptions C20_kde_kernel_values.

(* the 1-dimensional normalisation constants are positive *)
Theorem C20_kde_norm_pos : forall k, 0 < Rknorm k.
Proof. exact Rknorm_pos. Qed.
Print Assumptions C20_kde_norm_pos.

Theorem C20_kde_norm_values :
  Rknorm Gaussian = 1 / sqrt (2 * PI) /\ Rknorm Tophat = 1 / 2 /\ Rknorm Epanechnikov = 3 / 4 /\
  Rknorm Exponential = 1 / 2 /\ Rknorm Linear = 1 /\ Rknorm Cosine = PI / 4.
Proof. exact Rknorm_values. Qed.
Print Assumptions C20_kde_norm_values.

(* the Gaussian instance of the executable model is the density of C20_kde_gauss_nonneg *)
Theorem C20_kde_gaussian_is_gauss : forall h g x, 0 < h -> Rkern Gaussian h g x = gauss h g x.
Proof. exact Rkern_gaussian. Qed.
Print Assumptions C20_kde_gaussian_is_gauss.

(* ================= rows of the modelled transform (R) ================= *)

(* one row per sequence, in input order, one cell per grid point *)
Theorem C20_kde_rows : forall k h grid X,
  length (Rkde_transform_k k h grid X) = length X /\
  forall i d, (i < length X)%nat -> nth i (Rkde_transform_k k h grid X) [] = Rkde_row_k k h grid (nth i X d).
Proof. exact Rkde_transform_k_rows. Qed.
Print Assumptions C20_kde_rows.

Theorem C20_kde_row_length : forall k h grid xs, length (Rkde_row_k k h grid xs) = length grid.
Proof. exact Rkde_row_k_length. Qed.
Print Assumptions C20_kde_row_length.

(* cell i is the mean over the sequence of knorm * K(|g_i - x| / h) / h *)
Theorem C20_kde_row_cell : forall k h grid xs i, (i < length grid)%nat ->
  nth i (Rkde_row_k k h grid xs) 0
  = fold_right (fun x s => Rknorm k * Rkval k (Rabs (nth i grid 0 - x)) h / h + s) 0 xs / INR (length xs).
Proof. intros k h grid xs i Hi. rewrite Rkde_row_k_cell by exact Hi. reflexivity. Qed.
Print Assumptions C20_kde_row_cell.

(* non-negative for every kernel, every positive bandwidth, every non-empty sequence, every grid *)
Theorem C20_kde_row_nonneg : forall k h grid xs, 0 < h -> xs <> [] -> Forall (fun v => 0 <= v) (Rkde_row_k k h grid xs).
Proof. exact Rkde_row_k_nonneg. Qed.
Print Assumptions C20_kde_row_nonneg.

(* the row depends only on the multiset of the values: invariant under permutation ... *)
Theorem C20_kde_row_perm : forall k h grid xs ys, Permutation xs ys -> Rkde_row_k k h grid xs = Rkde_row_k k h grid ys.
Proof. intros k h grid xs ys P. rewrite !Rkde_row_k_eq. now apply Rkde_row_perm. Qed.
Print Assumptions C20_kde_row_perm.

(* ... stated with value counts: two sequences in which every value occurs equally often give the same row *)
Theorem C20_kde_row_multiset : forall k h grid xs ys,
  (forall v, count_occ Req_EM_T xs v = count_occ Req_EM_T ys v) -> Rkde_row_k k h grid xs = Rkde_row_k k h grid ys.
Proof. intros k h grid xs ys H. rewrite !Rkde_row_k_eq. now apply Rkde_row_count_occ. Qed.
Print Assumptions C20_kde_row_multiset.

(* ... and is a mean: repeating the whole sequence m + 1 times gives the same row *)
Theorem C20_kde_row_repeat : forall k h grid xs m, xs <> [] ->
  Rkde_row_k k h grid (concat (repeat xs (S m))) = Rkde_row_k k h grid xs.
Proof. intros k h grid xs m Hne. rewrite !Rkde_row_k_eq. now apply Rkde_row_repeat. Qed.
Print Assumptions C20_kde_row_repeat.

(* values far outside the grid: a finite-support kernel gives exactly 0 at a grid point no value is within h of ... *)
Theorem C20_kde_far_zero : forall k h g xs, 0 < h -> finite_support k = true ->
  (forall x, In x xs -> h <= Rabs (g - x)) -> Rkde_at (Rkern k) h xs g = 0.
Proof. exact Rkde_far_zero. Qed.
Print Assumptions C20_kde_far_zero.

(* ... and every kernel is bounded by its value at the distance D of the nearest value (for the Gaussian
   exp(-D^2 / 2h^2) / (h sqrt(2 pi)), which underflows to 0 in binary64 once D > ~39 h) *)
Theorem C20_kde_far_bound : forall k h g xs D, 0 < h -> xs <> [] -> 0 <= D ->
  (forall x, In x xs -> D <= Rabs (g - x)) -> Rkde_at (Rkern k) h xs g <= Rknorm k * Rkval k D h / h.
Proof. exact Rkde_far_bound. Qed.
Print Assumptions C20_kde_far_bound.

(* ================= bandwidth candidates of fit (R) ================= *)
(* 10 ** linspace(log10 a, log10 b, num): num positive candidates, the first is a, the last is b *)
Theorem C20_kde_bandwidth_candidates : forall a b num, 0 < a -> 0 < b -> (2 <= num)%nat ->
  length (Rbw_grid a b num) = num /\ Forall (fun c => 0 < c) (Rbw_grid a b num) /\
  nth 0 (Rbw_grid a b num) 0 = a /\ last (Rbw_grid a b num) 0 = b.
Proof.
  intros a b num Ha Hb Hn. split; [apply Rbw_grid_length|]. split; [apply Rbw_grid_pos|]. now apply Rbw_grid_ends.
Qed.
Print Assumptions C20_kde_bandwidth_candidates.

Close Scope R_scope.

(* ================= the evaluation grid chosen by fit (exact rationals) ================= *)
Open Scope Q_scope.

(* both strategies: n_components points, non-decreasing, inside [min, max] of the training values, and for
   n_components >= 2 starting at the minimum and ending at the maximum *)
Theorem C20_kde_grid_length : forall density flat n, length (kde_fit_grid density flat n) = n.
Proof. exact kde_fit_grid_length. Qed.
Print Assumptions C20_kde_grid_length.

Theorem C20_kde_grid_within : forall density flat n g, flat <> [] -> In g (kde_fit_grid density flat n) ->
  list_min 0 flat <= g /\ g <= list_max 0 flat.
Proof. exact kde_fit_grid_bounds. Qed.
Print Assumptions C20_kde_grid_within.

Theorem C20_kde_grid_increasing : forall density flat n i j, flat <> [] -> (i <= j)%nat -> (j < n)%nat ->
  nth i (kde_fit_grid density flat n) 0 <= nth j (kde_fit_grid density flat n) 0.
Proof. exact kde_fit_grid_mono. Qed.
Print Assumptions C20_kde_grid_increasing.

Theorem C20_kde_grid_ends : forall density flat n, flat <> [] -> (2 <= n)%nat ->
  nth 0 (kde_fit_grid density flat n) 0 == list_min 0 flat /\ nth (n - 1) (kde_fit_grid density flat n) 0 == list_max 0 flat.
Proof. exact kde_fit_grid_ends. Qed.
Print Assumptions C20_kde_grid_ends.

(* list_min / list_max are the extreme training values *)
Theorem C20_kde_grid_min_max : forall flat x, In x flat ->
  list_min 0 flat <= x /\ x <= list_max 0 flat /\ In (list_min 0 flat) flat /\ In (list_max 0 flat) flat.
Proof. exact list_min_max_facts. Qed.
Print Assumptions C20_kde_grid_min_max.

(* 'uniform': equally spaced, g_i = min + i (max - min) / (n - 1), strictly increasing when min < max *)
Theorem C20_kde_grid_uniform_points : forall lo hi n i, (2 <= n)%nat -> (i < n)%nat ->
  nth i (kde_grid_uniform lo hi n) 0 = lo + inject_Z (Z.of_nat i) * (hi - lo) / inject_Z (Z.of_nat (n - 1)).
Proof. exact kde_grid_uniform_nth. Qed.
Print Assumptions C20_kde_grid_uniform_points.

Theorem C20_kde_grid_uniform_strict : forall lo hi n i j, lo < hi -> (i < j)%nat -> (j < n)%nat ->
  nth i (kde_grid_uniform lo hi n) 0 < nth j (kde_grid_uniform lo hi n) 0.
Proof. exact kde_grid_uniform_strict. Qed.
Print Assumptions C20_kde_grid_uniform_strict.

(* 'density': quantile based.  Every grid point lies between two training values, and g_i is an i/(n-1) quantile of
   the training values: with k = floor(i (N - 1) / (n - 1)) at least k + 1 of the N training values are <= g_i and at
   least N - min(k + 1, N - 1) are >= g_i *)
Theorem C20_kde_grid_density_between : forall flat n g, flat <> [] -> In g (kde_grid_density flat n) ->
  exists a b, In a flat /\ In b flat /\ a <= g /\ g <= b.
Proof. exact kde_grid_density_between. Qed.
Print Assumptions C20_kde_grid_density_between.

Theorem C20_kde_grid_density_quantile : forall flat n i, flat <> [] -> (2 <= n)%nat -> (i < n)%nat ->
  let g := nth i (kde_grid_density flat n) 0 in
  let k := ((i * (length flat - 1)) / (n - 1))%nat in
  (k + 1 <= length (filter (fun x => Qle_bool x g) flat))%nat /\
  (length flat - Nat.min (k + 1) (length flat - 1) <= length (filter (fun x => Qle_bool g x) flat))%nat.
Proof. exact kde_grid_density_counts. Qed.
Print Assumptions C20_kde_grid_density_quantile.

(* n_components = 1: the single grid point is the training minimum for both strategies *)
Theorem C20_kde_grid_one : forall density flat, flat <> [] ->
  exists g, kde_fit_grid density flat 1 = [g] /\ g == list_min 0 flat.
Proof. exact kde_fit_grid_one. Qed.
Print Assumptions C20_kde_grid_one.

(* ================= non-vacuity: concrete instances ================= *)
Example C20_kde_ex_grid_uniform : kde_fit_grid false [1; 3; 2; 5 # 2; 1] 5 = map (fun i => 1 + inject_Z i * (3 - 1) / 4) [0; 1; 2; 3; 4]%Z.
Proof. reflexivity. Qed.
Example C20_kde_ex_grid_density : map Qred (kde_fit_grid true [1; 2; 4; 4; 3 # 2; 3] 4) = [1; 11 # 6; 10 # 3; 4].
Proof. vm_compute. reflexivity. Qed.
Example C20_kde_ex_grid_density_counts :
  let g := nth 1 (kde_grid_density [1; 2; 4; 4; 3 # 2; 3] 4) 0 in
  length (filter (fun x => Qle_bool x g) [1; 2; 4; 4; 3 # 2; 3]) = 2%nat /\
  length (filter (fun x => Qle_bool g x) [1; 2; 4; 4; 3 # 2; 3]) = 4%nat.
Proof. vm_compute. split; reflexivity. Qed.
Close Scope Q_scope.

Open Scope R_scope.
(* a tophat row: values 1.5 and 2.5 are exactly at distance h = 0.5 of the grid point 2 and contribute nothing there *)
Example C20_kde_ex_support : Rkval Tophat (Rabs (2 - 5 / 2)) (1 / 2) = 0 /\ Rkval Tophat (Rabs (2 - 2)) (1 / 2) = 1.
Proof.
  split.
  - apply Rkval_outside; [reflexivity|]. replace (2 - 5 / 2) with (- (1 / 2)) by lra. rewrite Rabs_Ropp, Rabs_right; lra.
  - apply Rkval_tophat. replace (2 - 2) with 0 by lra. rewrite Rabs_R0. lra.
Qed.
Example C20_kde_ex_perm : Rkde_row_k Epanechnikov (1 / 2) [1; 2; 3] [100; 9 / 4; - 75 / 2; 2]
                        = Rkde_row_k Epanechnikov (1 / 2) [1; 2; 3] [9 / 4; 100; 2; - 75 / 2].
Proof.
  apply C20_kde_row_perm.
  apply Permutation_trans with (9 / 4 :: 100 :: - 75 / 2 :: 2 :: nil); [apply perm_swap|].
  do 2 apply perm_skip. apply perm_swap.
Qed.
