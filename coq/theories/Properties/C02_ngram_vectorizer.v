(* C02 (NgramVectorizer) — fit(X).transform(X) is _train_matrix = fit_transform(X), with pruning, mask_string and
   nullify_mask.  Only statements + Print Assumptions; Examples at the end.
   Model: Model/K02_TwoPathsNgram.v (preprocessing = K5/K6, n-grams and counting loop = K7 with the nullify test);
   proofs: Proofs/K02_TwoPathsNgram_proofs.v.  The defect D10 (transform did not pass masking=self.mask_string) was a
   violation of exactly this: C02_ngram_vectorizer_unrepaired_refuted. *)
From Coq Require Import ZArith List Bool Arith Lia.
From VZ Require Import Model.K5_Vocab Model.K5_Float Model.K6_Reindex Model.K02_TwoPaths Model.K02_TwoPathsNgram.
From VZ Require Import Proofs.K02_TwoPathsNgram_proofs.
Import ListNotations.
Open Scope Z_scope.

(* any regex engine and float operations, any pruning configuration c, supplied or learned token dictionary, supplied
   n-gram dictionary or ngram_size = 1 or any second-stage learner [learn_cold] (it may raise), any ngram_size /
   behaviour / mask_string / nullify_mask *)
Theorem C02_ngram_vectorizer :
  forall (matches : Z -> bool) (f32div f64div : Z -> Z -> Z) (f64to32 : Z -> Z) (one64 : Z) (prm : ngv_params)
         (learn_cold : KA.dict -> KA.dict -> list (list (list Z)) -> res KN.gdict)
         (c : config Z) (td : option (dict Z)) (nd : option KN.gdict) (X : list (list Z)) M train,
  ngv_fit matches f32div f64div f64to32 one64 prm learn_cold c td nd X = Ok (M, train) ->
  ngv_fit_transform matches f32div f64div f64to32 one64 prm learn_cold c td nd X = Ok train /\
  ngv_transform matches f32div f64div f64to32 one64 prm M X = Ok train.
Proof. exact ngv_two_paths. Qed.
Print Assumptions C02_ngram_vectorizer.

(* without a mask and with nullify_mask off the model is Model/K7_Ngrams.v's ng_transform (to which C06 / C01_ngram apply
   and which is tied to the code by the correspondence of harness/c06.py) *)
Theorem C02_ngram_vectorizer_K7 :
  forall (matches : Z -> bool) (f32div f64div : Z -> Z -> Z) (f64to32 : Z -> Z) (one64 : Z) (prm : ngv_params) M X,
  np_mask prm = None -> nv_mask_col M = None ->
  ngv_transform matches f32div f64div f64to32 one64 prm M X = Ok (KN.ng_transform (to_K7 prm M) X).
Proof. exact ngv_transform_is_K7. Qed.
Print Assumptions C02_ngram_vectorizer_K7.

(* ---------------- instances: integer tokens, IEEE floats ---------------- *)
Definition ngx_cfg : config Z :=
  {| ignored := []; use_regex := false; max_unique := None; min_occ := Some 2; max_occ := None;
     min_freq := None; max_freq := None; min_dococc := None; max_dococc := None;
     min_docfreq := None; max_docfreq := None |}.
Definition ngx_X : list (list Z) := [[1; 1; 2; 1]; [3; 1; 1]; []; [2]].      (* counts 1:5 2:2 3:1 -> 3 pruned *)
Definition ngx_prm (n : nat) (nullify : bool) : ngv_params :=
  {| np_size := n; np_beh := KN.Exact; np_mask := Some 99; np_nullify := nullify |}.
(* second stage without pruning: Model/K7_Ngrams.v learn_coldict *)
Definition ngx_learn (n : nat) (tokdict inv : KA.dict) (grams : list (list (list Z))) : res KN.gdict :=
  Ok (let uniq := KA.isort_by KN.lex_leb (nodup (list_eq_dec Z.eq_dec) (concat grams)) in
      combine (map (fun g => KN.Tup (map (KN.label_of inv) g)) uniq) (map Z.of_nat (seq 0 (length uniq)))).
Notation ngx_fit n nullify :=
  (ngv_fit (fun _ => false) f32div_fl f64div_fl f64to32_fl one64_fl (ngx_prm n nullify) (ngx_learn n) ngx_cfg None None ngx_X).

(* the code before the repair of D10 (masking not passed to transform's preprocessing): the mask column is lost *)
Theorem C02_ngram_vectorizer_unrepaired_refuted :
  exists (prm : ngv_params) learn_cold c X M train,
    ngv_fit (fun _ => false) f32div_fl f64div_fl f64to32_fl one64_fl prm learn_cold c None None X = Ok (M, train) /\
    ngv_transform_unrepaired (fun _ => false) f32div_fl f64div_fl f64to32_fl one64_fl prm M X <> Ok train.
Proof.
  destruct (ngx_fit 1%nat false) as [[M train]|e] eqn:E; [|vm_compute in E; discriminate].
  exists (ngx_prm 1 false), (ngx_learn 1), ngx_cfg, ngx_X, M, train. split; [exact E|].
  vm_compute in E. inversion E; subst M train. vm_compute. discriminate.
Qed.
Print Assumptions C02_ngram_vectorizer_unrepaired_refuted.

(* unigrams with a mask: dictionary {1: 0, 2: 1, MASK: 2}; row 1 = [3; 1; 1] counts the mask once *)
Example C02_ex_ngram_mask_unigram :
  match ngx_fit 1%nat false with
  | Ok (M, train) =>
      nv_dict M = [(1, 0%nat); (2, 1%nat); (99, 2%nat)] /\
      train = (4, 3, [(0, 0, 3); (0, 1, 1); (1, 2, 1); (1, 0, 2); (3, 1, 1)]) /\
      ngv_transform (fun _ => false) f32div_fl f64div_fl f64to32_fl one64_fl (ngx_prm 1 false) M ngx_X = Ok train /\
      ngv_transform_unrepaired (fun _ => false) f32div_fl f64div_fl f64to32_fl one64_fl (ngx_prm 1 false) M ngx_X
      = Ok (4, 3, [(0, 0, 3); (0, 1, 1); (1, 0, 2); (3, 1, 1)])
  | Err _ => False
  end.
Proof. vm_compute. repeat split; reflexivity. Qed.

(* bigrams with a mask: the masked position keeps its place, (MASK, 1) is a column of its own *)
Example C02_ex_ngram_mask_bigram :
  match ngx_fit 2%nat false with
  | Ok (M, train) =>
      nv_cold M = [(KN.Tup [1; 1], 0); (KN.Tup [1; 2], 1); (KN.Tup [2; 1], 2); (KN.Tup [99; 1], 3)] /\
      train = (4, 4, [(0, 0, 1); (0, 1, 1); (0, 2, 1); (1, 3, 1); (1, 0, 1)]) /\
      ngv_transform (fun _ => false) f32div_fl f64div_fl f64to32_fl one64_fl (ngx_prm 2 false) M ngx_X = Ok train
  | Err _ => False
  end.
Proof. vm_compute. repeat split; reflexivity. Qed.

(* nullify_mask with integer labels: the mask index is 2 and the label bigram (2, 2) is looked up as the "mask n-gram"
   (the code compares index tuples with label tuples); whatever it finds, both paths skip the same column *)
Example C02_ex_ngram_nullify :
  match ngv_fit (fun _ => false) f32div_fl f64div_fl f64to32_fl one64_fl (ngx_prm 2 true) (ngx_learn 2) ngx_cfg None None
                [[1; 2; 2; 1]; [2; 2; 3; 1; 1; 2; 2]] with
  | Ok (M, train) =>
      nv_mask_col M = Some 3 /\ KN.glookup (KN.Tup [2; 2]) (nv_cold M) = Some 3 /\
      KA.cell (KA.entries train) 0 3 = 0 /\ KA.cell (KA.entries train) 0 1 = 1 /\
      ngv_transform (fun _ => false) f32div_fl f64div_fl f64to32_fl one64_fl (ngx_prm 2 true) M
                    [[1; 2; 2; 1]; [2; 2; 3; 1; 1; 2; 2]] = Ok train
  | Err _ => False
  end.
Proof. vm_compute. repeat split; reflexivity. Qed.
