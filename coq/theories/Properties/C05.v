(* C05 — The learned vocabulary is exactly the tokens meeting every pruning constraint.
   Only statements, each closed by `exact <lemma>`, followed by Print Assumptions.

   Model: Model/K5_Vocab.v (construct_token_dictionary_and_frequency, construct_document_frequency,
   prune_token_dictionary, preprocess_token_sequences' vocabulary half, the n-gram second stage), generic in the
   token type (boolean equality [eqb], boolean strict total order [ltb] = python's ==, <), in the regex engine
   [matches : T -> bool] and in the four float operations, which Model/K5_Float.v instantiates with Flocq's IEEE-754
   binary32/binary64 (round to nearest even).  Float values are integers: a float32 x is x*2^149, a float64 x*2^1074.

   Spec vocabulary (Proofs/K5_Vocab_proofs.v, Proofs/C05_proofs.v), all pointwise:
     cnt t s        = number of positions of s holding t          dcnt t docs = number of documents containing t
     freqF docs t   = f32div (cnt t flat) |flat|                  (the float32 frequency the code computes)
     dfreqG docs t  = f64div (dcnt t docs) |docs|                 (the float64 document frequency)
     candidate .. t = t occurs /\ t not excluded /\ (regex set -> not matched) /\ not (freq < lo) /\ not (hi < freq)
                      /\ (document frequencies computed -> not (dfreq < dlo) /\ not (dhi < dfreq))
                      with lo hi dlo dhi the bounds as resolved at preprocessing.py:212-249 (resolve_min/max)
                      and the token comparisons made in float32 (f64to32 lo, f64to32 hi), the document ones in float64
     in_topk .. t   = max_unique_tokens unset, or at most k distinct candidates are at least as frequent as t
     candidate_counts / in_topk_counts = the same with the integer comparisons  min_occ <= cnt t <= max_occ, ... *)
From Coq Require Import ZArith Reals List Bool Lia Sorted Permutation.
From VZ Require Import Model.K5_Vocab Model.K5_Float Model.K6_Reindex Model.C05_Instance Model.K5_History.
From VZ Require Import Proofs.K5_Vocab_proofs Proofs.K5_Float_proofs Proofs.C05_proofs Proofs.K5_History_proofs.
Import ListNotations.
Open Scope Z_scope.

(* (1) kept set = {tokens meeting every constraint}, comparisons exactly as the code makes them; any token type,
   any float operations, any regex engine; [need] = whether document frequencies are computed
   (need_doc c for the token stage, need_doc2 c for the n-gram stage). *)
Theorem C05_kept_iff :
  forall (T : Type) (eqb ltb : T -> T -> bool) (matches : T -> bool)
         (f32div f64div : Z -> Z -> Z) (f64to32 : Z -> Z) (one64 : Z),
  (forall a b, eqb a b = true <-> a = b) -> (forall a, ltb a a = false) ->
  (forall a b c, ltb a b = true -> ltb b c = true -> ltb a c = true) ->
  (forall a b, a = b \/ ltb a b = true \/ ltb b a = true) ->
  forall (c : config T) (need : bool) (docs : list (list T)) (lo hi dlo dhi : Z),
  resolve_min f64div (min_occ c) (min_freq c) (Z.of_nat (length (concat docs))) = Ok lo ->
  resolve_max f64div one64 (max_occ c) (max_freq c) (Z.of_nat (length (concat docs))) = Ok hi ->
  resolve_min f64div (min_dococc c) (min_docfreq c) (Z.of_nat (length docs)) = Ok dlo ->
  resolve_max f64div one64 (max_dococc c) (max_docfreq c) (Z.of_nat (length docs)) = Ok dhi ->
  exists d fr, learn_gen T eqb ltb matches f32div f64div f64to32 one64 need c docs None = Ok (d, fr) /\
    (forall t, In t (map fst d) <->
       (In t (concat docs) /\ ~ In t (ignored c) /\ (use_regex c = true -> matches t = false)
        /\ (freqF T eqb f32div docs t <? f64to32 lo) = false /\ (f64to32 hi <? freqF T eqb f32div docs t) = false
        /\ (need = true -> (dfreqG T eqb f64div docs t <? dlo) = false /\ (dhi <? dfreqG T eqb f64div docs t) = false))
       /\ in_topk T eqb matches f32div f64div f64to32 c need docs lo hi dlo dhi t) /\
    fr = map (freqF T eqb f32div docs) (map fst d).
Proof. exact vocab_kept_iff. Qed.
Print Assumptions C05_kept_iff.

(* (2) the same in the property's own integer terms, for the IEEE instance: occurrence bounds, fewer than 2^24
   tokens and 2^53 documents (hypotheses visible).  A token is kept iff it occurs, is not excluded, does not match,
   min_occ <= count <= max_occ, min_dococc <= doccount <= max_dococc, and it is in the top k. *)
Theorem C05_kept_iff_counts :
  forall (T : Type) (eqb ltb : T -> T -> bool) (matches : T -> bool),
  (forall a b, eqb a b = true <-> a = b) -> (forall a, ltb a a = false) ->
  (forall a b c, ltb a b = true -> ltb b c = true -> ltb a c = true) ->
  (forall a b, a = b \/ ltb a b = true \/ ltb b a = true) ->
  forall (c : config T) (docs : list (list T)),
  let n := Z.of_nat (length (concat docs)) in
  let nd := Z.of_nat (length docs) in
  occurrence_only T c -> 0 < n < 2 ^ 24 -> nd < 2 ^ 53 ->
  bound_ok (min_occ c) n -> bound_ok (max_occ c) n -> bound_ok (min_dococc c) nd -> bound_ok (max_dococc c) nd ->
  exists d fr, learn_vocab T eqb ltb matches f32div_fl f64div_fl f64to32_fl one64_fl c docs None = Ok (d, fr) /\
    forall t, In t (map fst d) <->
      (In t (concat docs) /\ ~ In t (ignored c) /\ (use_regex c = true -> matches t = false)
       /\ ge_opt (min_occ c) (cnt T eqb t (concat docs)) /\ le_opt (max_occ c) (cnt T eqb t (concat docs))
       /\ ge_opt (min_dococc c) (dcnt T eqb t docs) /\ le_opt (max_dococc c) (dcnt T eqb t docs))
      /\ in_topk_counts T eqb matches c docs t.
Proof. exact kept_iff_counts. Qed.
Print Assumptions C05_kept_iff_counts.

(* (3) a count equal to min_occurrences / max_occurrences is neither < nor > its bound in float32,
   for every total up to 2^24 (uses rnd32 (rnd64 (c/n)) = rnd32 (c/n)) *)
Theorem C05_equal_bound_kept : forall c n, 0 < n <= 2 ^ 24 -> 0 <= c <= n ->
  exists lo hi, resolve_min f64div_fl (Some c) None n = Ok lo /\ resolve_max f64div_fl one64_fl (Some c) None n = Ok hi /\
    (f32div_fl c n <? f64to32_fl lo) = false /\ (f64to32_fl hi <? f32div_fl c n) = false.
Proof. exact equal_bound_kept. Qed.
Print Assumptions C05_equal_bound_kept.

(* the underlying rounding fact, on the reals (ported from design_spikes/flocq_double_rounding.v) *)
Theorem C05_double_rounding : forall c n : Z, 0 < n <= 2 ^ 24 -> 0 <= c <= 2 ^ 24 ->
  rnd32 (rnd64 (IZR c / IZR n)) = rnd32 (IZR c / IZR n).
Proof. exact freq_double_round. Qed.
Print Assumptions C05_double_rounding.

(* the model's float operations are the correctly rounded IEEE ones *)
Theorem C05_float_ops_correct : forall c n, 0 <= c <= 2 ^ 24 -> 0 < n <= 2 ^ 24 ->
  R32 (f32div_fl c n) = rnd32 (IZR c / IZR n) /\ R64 (f64div_fl c n) = rnd64 (IZR c / IZR n) /\
  R32 (f64to32_fl (f64div_fl c n)) = rnd32 (R64 (f64div_fl c n)).
Proof.
  intros c n Hc Hn. split; [apply f32div_fl_correct; assumption|]. split; [apply f64div_fl_correct; lia|].
  destruct (f64div_fl_bounds c n Hc Hn). apply f64to32_fl_correct; assumption.
Qed.
Print Assumptions C05_float_ops_correct.

(* (3') below 2^24 tokens an occurrence bound prunes exactly the counts < min_occurrences and > max_occurrences *)
Theorem C05_occurrence_bounds_exact : forall n kmin kmax, 0 < n < 2 ^ 24 -> 0 <= kmin <= n -> 0 <= kmax <= n ->
  exists lo hi, resolve_min f64div_fl (Some kmin) None n = Ok lo /\ resolve_max f64div_fl one64_fl (Some kmax) None n = Ok hi /\
  forall c, 0 <= c <= n ->
    (f32div_fl c n <? f64to32_fl lo) = (c <? kmin) /\ (f64to32_fl hi <? f32div_fl c n) = (kmax <? c).
Proof. exact occurrence_bounds_exact. Qed.
Print Assumptions C05_occurrence_bounds_exact.

(* (3'') beyond 2^24 tokens the claim fails: with 2^24+1 tokens a token occurring exactly max_occurrences = 1 times
   is above the bound and pruned (known finding C05-equal-bound-above-2p24) *)
Theorem C05_equal_bound_refuted_above_2p24 : exists c n, 2 ^ 24 < n /\ 0 < c <= n /\
  exists hi, resolve_max f64div_fl one64_fl (Some c) None n = Ok hi /\ (f64to32_fl hi <? f32div_fl c n) = true.
Proof. exact equal_bound_refuted_above_2p24. Qed.
Print Assumptions C05_equal_bound_refuted_above_2p24.

(* (4) document bounds: the same float64 quotient on both sides *)
Theorem C05_doc_bound_kept : forall c n, 0 < n <= 2 ^ 53 -> 0 <= c <= n ->
  exists lo hi, resolve_min f64div_fl (Some c) None n = Ok lo /\ resolve_max f64div_fl one64_fl (Some c) None n = Ok hi /\
    (f64div_fl c n <? lo) = false /\ (hi <? f64div_fl c n) = false.
Proof. exact doc_bound_kept. Qed.
Print Assumptions C05_doc_bound_kept.

Theorem C05_doc_bounds_exact : forall n kmin kmax, 0 < n < 2 ^ 53 -> 0 <= kmin <= n -> 0 <= kmax <= n ->
  exists lo hi, resolve_min f64div_fl (Some kmin) None n = Ok lo /\ resolve_max f64div_fl one64_fl (Some kmax) None n = Ok hi /\
  forall c, 0 <= c <= n -> (f64div_fl c n <? lo) = (c <? kmin) /\ (hi <? f64div_fl c n) = (kmax <? c).
Proof. exact doc_bounds_exact. Qed.
Print Assumptions C05_doc_bounds_exact.

(* (5) top-k: at most k tokens are kept and every kept token is strictly more frequent than every dropped candidate *)
Theorem C05_topk :
  forall (T : Type) (eqb ltb : T -> T -> bool) (matches : T -> bool)
         (f32div f64div : Z -> Z -> Z) (f64to32 : Z -> Z) (one64 : Z),
  (forall a b, eqb a b = true <-> a = b) -> (forall a, ltb a a = false) ->
  (forall a b c, ltb a b = true -> ltb b c = true -> ltb a c = true) ->
  (forall a b, a = b \/ ltb a b = true \/ ltb b a = true) ->
  forall (c : config T) need docs d fr k,
  learn_gen T eqb ltb matches f32div f64div f64to32 one64 need c docs None = Ok (d, fr) -> max_unique c = Some k ->
  (length d <= k)%nat /\
  exists lo hi dlo dhi, forall t t', In t (map fst d) ->
    candidate T eqb matches f32div f64div f64to32 c need docs lo hi dlo dhi t' -> ~ In t' (map fst d) ->
    freqF T eqb f32div docs t' < freqF T eqb f32div docs t.
Proof. exact vocab_topk. Qed.
Print Assumptions C05_topk.

(* count order = float32 frequency order below 2^24 tokens *)
Theorem C05_freq_monotone : forall c1 c2 n, 0 < n < 2 ^ 24 -> 0 <= c1 <= n -> 0 <= c2 <= n ->
  (f32div_fl c1 n <? f32div_fl c2 n) = (c1 <? c2).
Proof. exact freq_monotone. Qed.
Print Assumptions C05_freq_monotone.

(* hence, in counts: none of the kept tokens occurs less often than (or as often as) a dropped candidate *)
Theorem C05_topk_counts :
  forall (T : Type) (eqb ltb : T -> T -> bool) (matches : T -> bool),
  (forall a b, eqb a b = true <-> a = b) -> (forall a, ltb a a = false) ->
  (forall a b c, ltb a b = true -> ltb b c = true -> ltb a c = true) ->
  (forall a b, a = b \/ ltb a b = true \/ ltb b a = true) ->
  forall (c : config T) need docs d fr k,
  Z.of_nat (length (concat docs)) <= 2 ^ 24 ->
  learn_gen T eqb ltb matches f32div_fl f64div_fl f64to32_fl one64_fl need c docs None = Ok (d, fr) ->
  max_unique c = Some k ->
  (length d <= k)%nat /\
  exists lo hi dlo dhi, forall t t', In t (map fst d) ->
    candidate T eqb matches f32div_fl f64div_fl f64to32_fl c need docs lo hi dlo dhi t' -> ~ In t' (map fst d) ->
    cnt T eqb t' (concat docs) < cnt T eqb t (concat docs).
Proof. exact topk_counts. Qed.
Print Assumptions C05_topk_counts.

(* (6) indices are 0..n-1 in sorted token order: index t = number of kept tokens smaller than t *)
Theorem C05_sorted_indices :
  forall (T : Type) (eqb ltb : T -> T -> bool) (matches : T -> bool)
         (f32div f64div : Z -> Z -> Z) (f64to32 : Z -> Z) (one64 : Z),
  (forall a b, eqb a b = true <-> a = b) -> (forall a, ltb a a = false) ->
  (forall a b c, ltb a b = true -> ltb b c = true -> ltb a c = true) ->
  (forall a b, a = b \/ ltb a b = true \/ ltb b a = true) ->
  forall (c : config T) need docs d fr,
  learn_gen T eqb ltb matches f32div f64div f64to32 one64 need c docs None = Ok (d, fr) ->
  StronglySorted (fun a b => ltb a b = true) (map fst d) /\ map snd d = seq 0 (length d) /\
  forall t i, lookup T eqb d t = Some i -> i = length (filter (fun t' => ltb t' t) (map fst d)).
Proof. exact vocab_sorted_indices. Qed.
Print Assumptions C05_sorted_indices.

(* (7) the dictionary (and the frequencies) depend neither on the order of the documents nor on the order of the
   tokens within them *)
Theorem C05_perm :
  forall (T : Type) (eqb ltb : T -> T -> bool) (matches : T -> bool)
         (f32div f64div : Z -> Z -> Z) (f64to32 : Z -> Z) (one64 : Z),
  (forall a b, eqb a b = true <-> a = b) -> (forall a, ltb a a = false) ->
  (forall a b c, ltb a b = true -> ltb b c = true -> ltb a c = true) ->
  (forall a b, a = b \/ ltb a b = true \/ ltb b a = true) ->
  forall (c : config T) need docs docs1 docs',
  Permutation docs docs1 -> Forall2 (@Permutation T) docs1 docs' ->
  learn_gen T eqb ltb matches f32div f64div f64to32 one64 need c docs None
  = learn_gen T eqb ltb matches f32div f64div f64to32 one64 need c docs' None.
Proof. exact vocab_perm_invariant. Qed.
Print Assumptions C05_perm.

(* (8) a supplied dictionary is used as given (the mask entry added by the re-indexing half is C14_mask_last) *)
Theorem C05_given_dict :
  forall (T : Type) (eqb ltb : T -> T -> bool) (matches : T -> bool)
         (f32div f64div : Z -> Z -> Z) (f64to32 : Z -> Z) (one64 : Z)
         (c : config T) need docs d,
  exists fr, learn_gen T eqb ltb matches f32div f64div f64to32 one64 need c docs (Some d) = Ok (d, fr).
Proof. exact vocab_given_dict. Qed.
Print Assumptions C05_given_dict.

(* the frequency table (_token_frequencies_, whose length is the mask index of C14) has one entry per dictionary entry,
   learned or supplied (supplied: indices below the dictionary size) *)
Theorem C05_frequency_table_length :
  forall (T : Type) (eqb ltb : T -> T -> bool) (matches : T -> bool)
         (f32div f64div : Z -> Z -> Z) (f64to32 : Z -> Z) (one64 : Z),
  (forall a b, eqb a b = true <-> a = b) -> (forall a, ltb a a = false) ->
  (forall a b c, ltb a b = true -> ltb b c = true -> ltb a c = true) ->
  (forall a b, a = b \/ ltb a b = true \/ ltb b a = true) ->
  forall (c : config T) need docs d0 d fr,
  learn_gen T eqb ltb matches f32div f64div f64to32 one64 need c docs d0 = Ok (d, fr) ->
  (forall d1, d0 = Some d1 -> Forall (fun i => (i < length d1)%nat) (map snd d1)) ->
  length fr = length d.
Proof. exact freq_table_length. Qed.
Print Assumptions C05_frequency_table_length.

(* (9) the second stage (n-grams of token indices, python tuple order) is the same construction: every theorem above
   applies to it with T := list Z; here (1) instantiated *)
Theorem C05_ngram_kept_iff :
  forall (c : config (list Z)) (gram_docs : list (list (list Z))) (lo hi dlo dhi : Z),
  let c2 := stage2_config (list Z) c in
  resolve_min f64div_fl (min_occ c2) (min_freq c2) (Z.of_nat (length (concat gram_docs))) = Ok lo ->
  resolve_max f64div_fl one64_fl (max_occ c2) (max_freq c2) (Z.of_nat (length (concat gram_docs))) = Ok hi ->
  resolve_min f64div_fl (min_dococc c2) (min_docfreq c2) (Z.of_nat (length gram_docs)) = Ok dlo ->
  resolve_max f64div_fl one64_fl (max_dococc c2) (max_docfreq c2) (Z.of_nat (length gram_docs)) = Ok dhi ->
  exists d fr, learn_ngram_vocab_fl c gram_docs = Ok (d, fr) /\
    (forall g, In g (map fst d) <->
       candidate (list Z) lex_eqb (fun _ => false) f32div_fl f64div_fl f64to32_fl c2 (need_doc2 (list Z) c) gram_docs lo hi dlo dhi g
       /\ in_topk (list Z) lex_eqb (fun _ => false) f32div_fl f64div_fl f64to32_fl c2 (need_doc2 (list Z) c) gram_docs lo hi dlo dhi g) /\
    fr = map (freqF (list Z) lex_eqb f32div_fl gram_docs) (map fst d).
Proof.
  intros c gram_docs lo hi dlo dhi c2.
  exact (vocab_kept_iff (list Z) lex_eqb lex_ltb (fun _ => false) f32div_fl f64div_fl f64to32_fl one64_fl
           lex_eqb_eq lex_ltb_irrefl lex_ltb_trans lex_ltb_total c2 (need_doc2 (list Z) c) gram_docs lo hi dlo dhi).
Qed.
Print Assumptions C05_ngram_kept_iff.

(* (10) histories: successive fits that share their parameter objects (Model/K5_History.v).  The model is a function
   of (configuration, corpus) — Gallina takes the excluded set by value — so what is worth stating is how a history
   reads under that by-value semantics: the configuration the caller holds after a call is the one it passed ... *)
Theorem C05_excluded_unchanged :
  forall (T : Type) (eqb ltb : T -> T -> bool) (matches : T -> bool)
         (f32div f64div : Z -> Z -> Z) (f64to32 : Z -> Z) (one64 : Z) (c : config T) (docs : list (list T)),
  fst (fit_step T eqb ltb matches f32div f64div f64to32 one64 c docs) = c.
Proof. exact excluded_unchanged. Qed.
Print Assumptions C05_excluded_unchanged.

(* ... hence the i-th fit of a history returns the vocabulary of the i-th corpus under the ORIGINAL configuration,
   whatever was fitted before (to which C05_kept_iff etc. apply). *)
Theorem C05_history_pointwise :
  forall (T : Type) (eqb ltb : T -> T -> bool) (matches : T -> bool)
         (f32div f64div : Z -> Z -> Z) (f64to32 : Z -> Z) (one64 : Z)
         (corpora : list (list (list T))) (c : config T) (i : nat) (docs : list (list T)),
  nth_error corpora i = Some docs ->
  nth_error (fit_history T (fit_step T eqb ltb matches f32div f64div f64to32 one64) c corpora) i
  = Some (learn_vocab T eqb ltb matches f32div f64div f64to32 one64 c docs None).
Proof. exact history_pointwise. Qed.
Print Assumptions C05_history_pointwise.

(* the excluded collection matters only as a set: a list, a set or a frozenset with the same elements, in any order,
   with or without repetitions, give the same dictionary and frequencies *)
Theorem C05_excluded_extensional :
  forall (T : Type) (eqb ltb : T -> T -> bool) (matches : T -> bool)
         (f32div f64div : Z -> Z -> Z) (f64to32 : Z -> Z) (one64 : Z),
  (forall a b, eqb a b = true <-> a = b) ->
  forall (c : config T) (need : bool) (ig1 ig2 : list T) (docs : list (list T)) (d0 : option (dict T)),
  (forall t, In t ig1 <-> In t ig2) ->
  learn_gen T eqb ltb matches f32div f64div f64to32 one64 need (set_ignored c ig1) docs d0
  = learn_gen T eqb ltb matches f32div f64div f64to32 one64 need (set_ignored c ig2) docs d0.
Proof. exact learn_excluded_ext. Qed.
Print Assumptions C05_excluded_extensional.

(* what the by-value reading excludes: if the callee worked on the caller's excluded set itself
   (fit_step_aliased: the set comes back extended by the tokens the call pruned), a later fit of the same history
   would drop a token that meets every constraint on its own corpus.  The tie between the code and [fit_step] rather
   than [fit_step_aliased] is the before/after comparison of the parameter objects in harness/impl/c05.py. *)
Definition hist_cfg : config Z :=
  {| ignored := [9]; use_regex := false; max_unique := None; min_occ := Some 2; max_occ := None;
     min_freq := None; max_freq := None; min_dococc := None; max_dococc := None;
     min_docfreq := None; max_docfreq := None |}.
Definition hist_corpora : list (list (list Z)) := [[[1; 1; 2; 9; 9]]; [[2; 2; 1; 9]; [2; 9]]].
Notation step_fl := (fit_step Z Z.eqb Z.ltb (fun _ => false) f32div_fl f64div_fl f64to32_fl one64_fl).
Notation step_aliased_fl := (fit_step_aliased Z Z.eqb Z.ltb (fun _ => false) f32div_fl f64div_fl f64to32_fl one64_fl).

Theorem C05_aliased_history_refuted : exists (c : config Z) (corpora : list (list (list Z))) (i : nat),
  nth_error (fit_history Z step_aliased_fl c corpora) i <> nth_error (fit_history Z step_fl c corpora) i.
Proof. exists hist_cfg, hist_corpora, 1%nat. vm_compute. discriminate. Qed.
Print Assumptions C05_aliased_history_refuted.

(* ---- non-vacuity: concrete instances (integer tokens, IEEE floats) ---- *)
Definition ex_cfg : config Z :=
  {| ignored := [5]; use_regex := true; max_unique := Some 2%nat; min_occ := Some 2; max_occ := None;
     min_freq := None; max_freq := None; min_dococc := None; max_dococc := Some 2;
     min_docfreq := None; max_docfreq := None |}.
Definition ex_docs : list (list Z) := [[1;2;3;1;5;5;7;7];[2;2;3;9];[1;3;3;3;4;4]].
(* counts 1:3 2:3 3:5 4:2 5:2 7:2 9:1; 5 excluded, 7 matches, 9 below min, 3 in 3 documents > 2; top 2 of {1,2,4} *)
Example C05_ex_vocab :
  match learn_vocab_fl (fun t => t =? 7) ex_cfg ex_docs None with
  | Ok (d, _) => d = [(1, 0%nat); (2, 1%nat)]
  | Err _ => False
  end.
Proof. vm_compute. reflexivity. Qed.
Example C05_ex_hyps : occurrence_only Z ex_cfg /\ 0 < Z.of_nat (length (concat ex_docs)) < 2 ^ 24
  /\ bound_ok (min_occ ex_cfg) 18 /\ bound_ok (max_dococc ex_cfg) 3.
Proof. unfold occurrence_only, bound_ok; simpl. repeat split; lia. Qed.
Example C05_ex_resolved :
  resolve_min f64div_fl (min_occ ex_cfg) (min_freq ex_cfg) 18 = Ok (f64div_fl 2 18) /\
  resolve_max f64div_fl one64_fl (max_dococc ex_cfg) (max_docfreq ex_cfg) 3 = Ok (Z.min one64_fl (f64div_fl 2 3)).
Proof. split; reflexivity. Qed.
(* the equal-bound case on a concrete pair whose quotient is not representable: 1/3 *)
Example C05_ex_equal_bound : f32div_fl 1 3 = f64to32_fl (f64div_fl 1 3) /\ f64div_fl 1 3 <> Z.shiftl (f32div_fl 1 3) (1074 - 149).
Proof. split; vm_compute; [reflexivity | discriminate]. Qed.
Example C05_ex_perm : learn_vocab_fl (fun t => t =? 7) ex_cfg [[4;3;3;1;4;3];[7;5;1;3;2;1;7;5];[9;2;3;2]] None
                      = learn_vocab_fl (fun t => t =? 7) ex_cfg ex_docs None.
Proof. vm_compute. reflexivity. Qed.
Example C05_ex_ngram :
  match ngram_vocab_fl (fun _ => false) {| ignored := []; use_regex := false; max_unique := None; min_occ := Some 2;
          max_occ := None; min_freq := None; max_freq := None; min_dococc := None; max_dococc := None;
          min_docfreq := None; max_docfreq := None |} [[1;2;1;2;3];[2;1;2]] None false 2 with
  | Ok (d, gd) => d = [(1, 0%nat); (2, 1%nat)] /\ map fst gd = [[0; 1]; [1; 0]]
  | Err _ => False
  end.
Proof. vm_compute. split; reflexivity. Qed.
(* non-vacuity: the second fit keeps token 2 (three occurrences; pruned by the first fit, where it occurs once);
   the aliased reading loses it *)
Example C05_ex_history :
  map (fun r => match r with Ok (d, _) => map fst d | Err _ => [(-1)] end) (fit_history Z step_fl hist_cfg hist_corpora)
  = [[1]; [2]] /\
  map (fun r => match r with Ok (d, _) => map fst d | Err _ => [(-1)] end) (fit_history Z step_aliased_fl hist_cfg hist_corpora)
  = [[1]; []].
Proof. vm_compute. split; reflexivity. Qed.
Example C05_ex_extensional :
  learn_vocab_fl (fun _ => false) (set_ignored hist_cfg [9; 1; 9]) [[1; 1; 2; 2; 9; 9]] None
  = learn_vocab_fl (fun _ => false) (set_ignored hist_cfg [1; 9]) [[1; 1; 2; 2; 9; 9]] None.
Proof. vm_compute. reflexivity. Qed.
