(* C02 (co-occurrence family) — fit_transform(X), fit(X).cooccurrences_ and fit(X).transform(X) are the same matrix.
   Only statements, each closed by `exact <lemma>`, followed by Print Assumptions; Examples at the end.

   Model: Model/K02_TwoPaths.v — the three pipelines of BaseCooccurrenceVectorizer written out as the code writes them
   (fit_transform and fit: preprocessing with the user's pruning parameters, empty-dictionary check, _set_* calls,
   matrix; transform: preprocessing with token_dictionary=self.token_label_dictionary_, masking=self.mask_string and
   every other argument at its default, matrix built with the FITTED attributes), over the existing models of the
   vocabulary (K5), of the re-indexing (K6) and of the drivers as event lists (K03), with the K04 post-processing
   (normalise / threshold / EM) as a function argument.  Proofs: Proofs/K02_TwoPaths_proofs.v.

   Not covered here: the accumulation of the event list into the float32 CSR matrix (K01, C04), the chunking by
   n_threads (C03 no_cross_boundary), and that python's `fit` really returns `self` (observed by the oracle of
   harness/c02.py; in the functional model "fit returns the estimator" holds by construction: base_fit returns the
   record that base_fit_transform builds — C02_cooc_errors). *)
From Coq Require Import ZArith List Bool Arith Lia QArith Qcanon.
From VZ Require Import Model.K5_Vocab Model.K5_Float Model.K6_Reindex Model.C05_Instance Model.K02_Windows Model.K03_Cooc
     Model.K03_Exec Model.K04_EM Model.K02_TwoPaths.
From VZ Require Import Proofs.K5_Vocab_proofs Proofs.K6_Reindex_proofs Proofs.K02_TwoPaths_proofs.
Import ListNotations.
Close Scope Z_scope.
Open Scope nat_scope.

(* ---------------- (1) re-indexing the training corpus with the dictionary learned from it ---------------- *)

(* preprocess_token_sequences: whatever the pruning configuration c of the first call (and whatever configuration c'
   the second call is given — transform passes none), whether the first dictionary was learned (d0 = None) or
   supplied, in delete mode (masking = None) and in mask mode: the second call returns the same index sequences and
   the same dictionary.  Only the frequency table differs (C02_ex_frequencies_differ). *)
Theorem C02_reindex_idem :
  forall (T : Type) (eqb ltb : T -> T -> bool) (matches : T -> bool)
         (f32div f64div : Z -> Z -> Z) (f64to32 : Z -> Z) (one64 : Z),
  (forall a b, eqb a b = true <-> a = b) ->
  forall (c c' : config T) (docs : list (list T)) (d0 : option (dict T)) (masking : option T) seqs d fr,
  preprocess T eqb ltb matches f32div f64div f64to32 one64 c docs d0 masking = Ok (seqs, d, fr) ->
  exists fr', preprocess T eqb ltb matches f32div f64div f64to32 one64 c' docs (Some d) masking = Ok (seqs, d, fr').
Proof. exact tok_reindex_idem. Qed.
Print Assumptions C02_reindex_idem.

(* ... and what these sequences are: delete mode = the indices of the tokens that are in the dictionary, in order;
   mask mode = the dictionary is a mask-free dictionary d' plus the mask entry (appended at fit, found again, removed
   and re-appended at transform), every position kept, coded d'[t] or len(d') *)
Theorem C02_reindex_pointwise :
  forall (T : Type) (eqb ltb : T -> T -> bool) (matches : T -> bool)
         (f32div f64div : Z -> Z -> Z) (f64to32 : Z -> Z) (one64 : Z),
  (forall a b, eqb a b = true <-> a = b) ->
  forall c docs d0 masking seqs d fr,
  preprocess T eqb ltb matches f32div f64div f64to32 one64 c docs d0 masking = Ok (seqs, d, fr) ->
  match masking with
  | None => seqs = map (fun s => map (idx T eqb d) (filter (in_dict T eqb d) s)) docs
  | Some m => exists d', ~ In m (map fst d') /\ d = add_mask T m d' /\ seqs = map (map (code T eqb d')) docs
  end.
Proof. exact tok_preprocess_pointwise. Qed.
Print Assumptions C02_reindex_pointwise.

(* preprocess_timed_token_sequences ((token, time) pairs) *)
Theorem C02_reindex_idem_timed :
  forall (T : Type) (eqb ltb : T -> T -> bool) (matches : T -> bool)
         (f32div f64div : Z -> Z -> Z) (f64to32 : Z -> Z) (one64 : Z) (U : Type),
  (forall a b, eqb a b = true <-> a = b) ->
  forall (c c' : config T) (docs : list (list (T * U))) d0 masking seqs d fr,
  timed_preprocess T eqb ltb matches f32div f64div f64to32 one64 U c docs d0 masking = Ok (seqs, d, fr) ->
  exists fr', timed_preprocess T eqb ltb matches f32div f64div f64to32 one64 U c' docs (Some d) masking = Ok (seqs, d, fr').
Proof. exact timed_reindex_idem. Qed.
Print Assumptions C02_reindex_idem_timed.

(* every copy of that shape (in particular preprocess_multi_token_sequences: del = multi_del, msk = multi_msk, whose
   vocabulary half is not modelled): all that is used of the vocabulary half is that a supplied dictionary comes back
   as it is *)
Theorem C02_reindex_idem_any_copy :
  forall (T : Type) (eqb : T -> T -> bool), (forall a b, eqb a b = true <-> a = b) ->
  forall (Doc IDoc : Type) (learn : config T -> list Doc -> option (dict T) -> res (dict T * list Z))
         (del : (T -> option nat) -> Doc -> IDoc) (msk : (T -> nat) -> Doc -> IDoc),
  (forall c docs d, exists fr, learn c docs (Some d) = Ok (d, fr)) ->
  forall c c' docs d0 masking seqs d fr,
  preprocess_g T eqb Doc IDoc learn del msk c docs d0 masking = Ok (seqs, d, fr) ->
  exists fr', preprocess_g T eqb Doc IDoc learn del msk c' docs (Some d) masking = Ok (seqs, d, fr').
Proof. exact preprocess_g_idem. Qed.
Print Assumptions C02_reindex_idem_any_copy.

(* ---------------- (2) the three pipelines, token driver ---------------- *)

(* any token type, float operations, regex engine, pruning configuration c, supplied or learned dictionary, mask
   setting; any window / kernel configuration [cfg] (nullify_mask, normalize_windows, blocks as a function of the
   fitted frequencies and mask index); any post-processing [post] of (fitted blocks, n, re-indexed corpus, events) *)
Theorem C02_cooc :
  forall (T : Type) (eqb ltb : T -> T -> bool) (matches : T -> bool)
         (f32div f64div : Z -> Z -> Z) (f64to32 : Z -> Z) (one64 : Z),
  (forall a b, eqb a b = true <-> a = b) ->
  forall (K : carrier) (A : Type) (cfg : cooc_cfg K)
         (post : list (block K) -> nat -> list (list nat) -> list (event K) -> A)
         (c : config T) (masking : option T) (d0 : option (dict T)) (X : list (list T)) M,
  token_fit T eqb ltb matches f32div f64div f64to32 one64 K A cfg post c masking d0 X = Ok M ->
  token_fit_transform T eqb ltb matches f32div f64div f64to32 one64 K A cfg post c masking d0 X = Ok (M, ft_cooc M) /\
  token_transform T eqb ltb matches f32div f64div f64to32 one64 K A cfg post masking M X = Ok (ft_cooc M).
Proof. exact token_three_paths. Qed.
Print Assumptions C02_cooc.

(* fit_transform raises exactly when fit raises, with the same error, and otherwise leaves the estimator fit returns *)
Theorem C02_cooc_errors :
  forall (T : Type) (eqb ltb : T -> T -> bool) (matches : T -> bool)
         (f32div f64div : Z -> Z -> Z) (f64to32 : Z -> Z) (one64 : Z)
         (K : carrier) (A : Type) (cfg : cooc_cfg K)
         (post : list (block K) -> nat -> list (list nat) -> list (event K) -> A) c masking d0 X,
  token_fit_transform T eqb ltb matches f32div f64div f64to32 one64 K A cfg post c masking d0 X
  = match token_fit T eqb ltb matches f32div f64div f64to32 one64 K A cfg post c masking d0 X with
    | Ok M => Ok (M, ft_cooc M)
    | Err e => Err e
    end.
Proof. exact token_fit_transform_is_fit. Qed.
Print Assumptions C02_cooc_errors.

(* the event list itself (n_iter = 0, epsilon = 0 before accumulation) ... *)
Theorem C02_cooc_events :
  forall (T : Type) (eqb ltb : T -> T -> bool) (matches : T -> bool)
         (f32div f64div : Z -> Z -> Z) (f64to32 : Z -> Z) (one64 : Z),
  (forall a b, eqb a b = true <-> a = b) ->
  forall (K : carrier) (cfg : cooc_cfg K) c masking d0 (X : list (list T)) M,
  token_fit T eqb ltb matches f32div f64div f64to32 one64 K (list (event K)) cfg ev_post c masking d0 X = Ok M ->
  token_fit_transform T eqb ltb matches f32div f64div f64to32 one64 K (list (event K)) cfg ev_post c masking d0 X
    = Ok (M, ft_cooc M) /\
  token_transform T eqb ltb matches f32div f64div f64to32 one64 K (list (event K)) cfg ev_post masking M X
    = Ok (ft_cooc M) /\
  exists seqs, preprocess T eqb ltb matches f32div f64div f64to32 one64 c X d0 masking = Ok (seqs, ft_dict M, ft_freqs M) /\
    ft_cooc M = token_events (ft_state M) (cc_nw cfg) (length (ft_dict M)) seqs.
Proof.
  intros T eqb ltb matches f32div f64div f64to32 one64 E K cfg c masking d0 X M H.
  destruct (token_three_paths T eqb ltb matches f32div f64div f64to32 one64 E K _ cfg ev_post c masking d0 X M H) as [H1 H2].
  split; [exact H1|]. split; [exact H2|].
  destruct (token_fit_inv T eqb ltb matches f32div f64div f64to32 one64 K _ cfg ev_post c masking d0 X M H)
    as [seqs [Hp [_ [_ Hc]]]].
  exists seqs. rewrite tok_preprocess_is_K6 in Hp. split; [exact Hp | exact Hc].
Qed.
Print Assumptions C02_cooc_events.

(* ... and the matrix after the K04 pipeline (rows, column normalisation, epsilon threshold, n_iter EM rounds over the
   occurrences of the re-indexed corpus): a function of the event list, the fitted blocks and the re-indexed corpus,
   which are the same on the three paths *)
Theorem C02_cooc_em :
  forall (T : Type) (eqb ltb : T -> T -> bool) (matches : T -> bool)
         (f32div f64div : Z -> Z -> Z) (f64to32 : Z -> Z) (one64 : Z),
  (forall a b, eqb a b = true <-> a = b) ->
  forall (cfg : cooc_cfg QcK) (n_iter : nat) (eps : Qc) c masking d0 (X : list (list T)) M,
  token_fit T eqb ltb matches f32div f64div f64to32 one64 QcK rows cfg (em_post n_iter eps) c masking d0 X = Ok M ->
  token_fit_transform T eqb ltb matches f32div f64div f64to32 one64 QcK rows cfg (em_post n_iter eps) c masking d0 X
    = Ok (M, ft_cooc M) /\
  token_transform T eqb ltb matches f32div f64div f64to32 one64 QcK rows cfg (em_post n_iter eps) masking M X
    = Ok (ft_cooc M).
Proof. intros T eqb ltb matches f32div f64div f64to32 one64 E cfg n_iter eps. apply token_three_paths. exact E. Qed.
Print Assumptions C02_cooc_em.

(* ---------------- (2') the whole family ---------------- *)

(* BaseCooccurrenceVectorizer with any preprocessing copy that is idempotent in the sense of (1), any _set_* step
   (it may raise) and any matrix builder *)
Theorem C02_cooc_family :
  forall (T Doc IDoc : Type)
         (prep : config T -> list Doc -> option (dict T) -> option T -> res (list IDoc * dict T * list Z))
         (S A : Type) (setup : list IDoc -> dict T -> list Z -> res S) (build : S -> nat -> list IDoc -> A),
  (forall c c' X d0 masking seqs d fr,
     prep c X d0 masking = Ok (seqs, d, fr) -> exists fr', prep c' X (Some d) masking = Ok (seqs, d, fr')) ->
  forall c masking d0 X M,
  base_fit T Doc IDoc prep S A setup build c masking d0 X = Ok M ->
  base_fit_transform T Doc IDoc prep S A setup build c masking d0 X = Ok (M, ft_cooc M) /\
  base_transform T Doc IDoc prep S A build masking M X = Ok (ft_cooc M).
Proof. exact three_paths. Qed.
Print Assumptions C02_cooc_family.

(* TimedTokenCooccurrenceVectorizer: blocks also depend on delta_mean_, computed at fit from the re-indexed corpus *)
Theorem C02_cooc_timed :
  forall (T : Type) (eqb ltb : T -> T -> bool) (matches : T -> bool)
         (f32div f64div : Z -> Z -> Z) (f64to32 : Z -> Z) (one64 : Z),
  (forall a b, eqb a b = true <-> a = b) ->
  forall (K : carrier) (A Tm : Type) (absdiff : Tm -> Tm -> Tm) (t0 : Tm) (nullify nw : bool)
         (blocks_of : list (list (nat * Tm)) -> list Z -> option nat -> list (tblock K Tm))
         (post : list (tblock K Tm) -> nat -> list (list (nat * Tm)) -> list (event K) -> A)
         c masking d0 (X : list (list (T * Tm))) M,
  let prep := timed_preprocess T eqb ltb matches f32div f64div f64to32 one64 Tm in
  let setup := timed_setup T K nullify blocks_of in
  let build := timed_build K A absdiff t0 nw post in
  base_fit T _ _ prep _ A setup build c masking d0 X = Ok M ->
  base_fit_transform T _ _ prep _ A setup build c masking d0 X = Ok (M, ft_cooc M) /\
  base_transform T _ _ prep _ A build masking M X = Ok (ft_cooc M).
Proof.
  intros T eqb ltb matches f32div f64div f64to32 one64 E K A Tm absdiff t0 nullify nw blocks_of post c masking d0 X M
         prep setup build.
  apply three_paths. intros c1 c2 X1 d1 m1 seqs d fr. apply timed_reindex_idem. exact E.
Qed.
Print Assumptions C02_cooc_timed.

(* MultiSetCooccurrenceVectorizer: the vocabulary half of preprocess_multi_token_sequences is the function [learn] *)
Theorem C02_cooc_multiset :
  forall (T : Type) (eqb : T -> T -> bool), (forall a b, eqb a b = true <-> a = b) ->
  forall (learn : config T -> list (list (list T)) -> option (dict T) -> res (dict T * list Z)),
  (forall c docs d, exists fr, learn c docs (Some d) = Ok (d, fr)) ->
  forall (K : carrier) (A : Type) (cfg : cooc_cfg K)
         (post : list (block K) -> nat -> list (list (list nat)) -> list (event K) -> A)
         c masking d0 (X : list (list (list T))) M,
  let prep := preprocess_g T eqb _ _ learn multi_del multi_msk in
  let setup := multi_setup T K cfg in
  let build := multi_build K A cfg post in
  base_fit T _ _ prep _ A setup build c masking d0 X = Ok M ->
  base_fit_transform T _ _ prep _ A setup build c masking d0 X = Ok (M, ft_cooc M) /\
  base_transform T _ _ prep _ A build masking M X = Ok (ft_cooc M).
Proof.
  intros T eqb E learn G K A cfg post c masking d0 X M prep setup build.
  apply three_paths. intros c1 c2 X1 d1 m1 seqs d fr. apply (preprocess_g_idem T eqb E). exact G.
Qed.
Print Assumptions C02_cooc_multiset.

(* NgramCooccurrenceVectorizer: fit learns the raw n-gram dictionary (rows) from the re-indexed corpus — any learner,
   it may come out empty (ValueError) — and transform uses the fitted one *)
Theorem C02_cooc_ngram :
  forall (T : Type) (eqb ltb : T -> T -> bool) (matches : T -> bool)
         (f32div f64div : Z -> Z -> Z) (f64to32 : Z -> Z) (one64 : Z),
  (forall a b, eqb a b = true <-> a = b) ->
  forall (K : carrier) (A : Type) (size : nat) (nw : bool)
         (learn_grams : list (list nat) -> option (list (list nat * nat) * list Z))
         (blocks_of : list (list nat * nat) -> list Z -> list Z -> list (block K))
         (post : list (block K) * list (list nat * nat) -> nat -> list (list nat) -> list (event K) -> A)
         c masking d0 (X : list (list T)) M,
  let prep := tok_preprocess T eqb ltb matches f32div f64div f64to32 one64 in
  let setup := ngram_setup T K size learn_grams blocks_of in
  let build := ngram_build K A size nw post in
  base_fit T _ _ prep _ A setup build c masking d0 X = Ok M ->
  base_fit_transform T _ _ prep _ A setup build c masking d0 X = Ok (M, ft_cooc M) /\
  base_transform T _ _ prep _ A build masking M X = Ok (ft_cooc M).
Proof.
  intros T eqb ltb matches f32div f64div f64to32 one64 E K A size nw learn_grams blocks_of post c masking d0 X M
         prep setup build.
  apply three_paths. apply tok_prep_idem. exact E.
Qed.
Print Assumptions C02_cooc_ngram.

(* ---------------- non-vacuity: integer tokens, IEEE floats, rational weights ---------------- *)
Definition ex_cfg_prune : config Z :=
  {| ignored := [7%Z]; use_regex := false; max_unique := None; min_occ := Some 2%Z; max_occ := None;
     min_freq := None; max_freq := None; min_dococc := None; max_dococc := None;
     min_docfreq := None; max_docfreq := None |}.
(* counts 1:3 2:3 3:1 5:1 7:2; 7 excluded, 3 and 5 below min_occurrences -> vocabulary {1, 2} *)
Definition ex_X : list (list Z) := [[1; 2; 1; 3; 7]; [2; 1; 5; 2; 7]; []]%Z.
(* directional window of radius 2 (mask row: radius 0), harmonic kernel, the mask nullified in the kernels *)
Definition ex_cooc : cooc_cfg QcK :=
  {| cc_nullify := true; cc_nw := true;
     cc_blocks := fun fr mi => [mkblock true (fixed_window_radii 2 (length fr) mi) kf_harmonic mi false 0 (qc 1 1);
                                mkblock false (fixed_window_radii 2 (length fr) mi) kf_harmonic mi false 0 (qc 1 1)] |}.
Notation ex_fit post := (token_fit Z Z.eqb Z.ltb (fun _ => false) f32div_fl f64div_fl f64to32_fl one64_fl QcK _ ex_cooc post).
Notation ex_fit_transform post :=
  (token_fit_transform Z Z.eqb Z.ltb (fun _ => false) f32div_fl f64div_fl f64to32_fl one64_fl QcK _ ex_cooc post).
Notation ex_transform post :=
  (token_transform Z Z.eqb Z.ltb (fun _ => false) f32div_fl f64div_fl f64to32_fl one64_fl QcK _ ex_cooc post).

(* mask mode with pruning: the hypothesis of C02_cooc is met, the dictionary is {1: 0, 2: 1, MASK: 2}, the matrix is
   not empty, and the three paths give it *)
Example C02_ex_mask :
  match ex_fit ev_post ex_cfg_prune (Some 99%Z) None ex_X with
  | Ok M => ft_dict M = [(1%Z, 0); (2%Z, 1); (99%Z, 2)] /\
            length (ft_cooc M) = 10 /\
            (match ex_fit_transform ev_post ex_cfg_prune (Some 99%Z) None ex_X with
             | Ok (_, A) => show_events A = show_events (ft_cooc M) | Err _ => False end) /\
            (match ex_transform ev_post (Some 99%Z) M ex_X with
             | Ok A => show_events A = show_events (ft_cooc M) | Err _ => False end)
  | Err _ => False
  end.
Proof. vm_compute. repeat split; reflexivity. Qed.

(* delete mode, and the K04 post-processing with one EM round and epsilon = 1/10 *)
Example C02_ex_delete_em :
  match ex_fit (em_post 1 (qc 1 10)) ex_cfg_prune None None ex_X with
  | Ok M => ft_dict M = [(1%Z, 0); (2%Z, 1)] /\ length (ft_cooc M) = 2 /\ ft_cooc M <> [[]; []] /\
            (match ex_transform (em_post 1 (qc 1 10)) None M ex_X with
             | Ok A => show_rows A = show_rows (ft_cooc M) | Err _ => False end)
  | Err _ => False
  end.
Proof. vm_compute. repeat split; try reflexivity. discriminate. Qed.

(* the error paths: every token pruned -> ValueError on both fit and fit_transform (delete mode) *)
Example C02_ex_empty_dictionary :
  ex_fit ev_post ex_cfg_prune None None [[1; 2; 3]]%Z = Err 3%Z /\
  ex_fit_transform ev_post ex_cfg_prune None None [[1; 2; 3]]%Z = Err 3%Z.
Proof. split; vm_compute; reflexivity. Qed.

(* the statement of C02_reindex_idem cannot say more about the frequency table: the second call computes it over the
   fitted dictionary including the mask entry *)
Example C02_ex_frequencies_differ :
  match preprocess_fl (fun _ => false) ex_cfg_prune ex_X None (Some 99%Z) with
  | Ok (seqs, d, fr) =>
      match preprocess_fl (fun _ => false) (default_config Z) ex_X (Some d) (Some 99%Z) with
      | Ok (seqs', d', fr') => seqs' = seqs /\ d' = d /\ length fr = 2 /\ length fr' = 3
      | Err _ => False
      end
  | Err _ => False
  end.
Proof. vm_compute. repeat split; reflexivity. Qed.
