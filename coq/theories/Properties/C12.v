(* C12 — each output row depends only on its own input item and the fitted model.
   Only statements, each closed by `exact <lemma>`, followed by Print Assumptions. *)
From Coq Require Import ZArith List Arith Bool Permutation QArith.
From VZ Require Import Model.K19_RowWise Proofs.K19_RowWise_proofs Model.K14_Sliding Model.K15_HistKDE.
Import ListNotations.

(* ---- the generic laws: anything that is `map row` satisfies the three clauses of the property ---- *)
Theorem C12_map_concat : forall (A B : Type) (T : list A -> list B) (row : A -> B),
  (forall X, T X = map row X) -> forall X Y, T (X ++ Y) = T X ++ T Y.
Proof. exact law_concat. Qed.
Print Assumptions C12_map_concat.

Theorem C12_map_perm : forall (A B : Type) (T : list A -> list B) (row : A -> B),
  (forall X, T X = map row X) -> forall X Y, Permutation X Y -> Permutation (T X) (T Y).
Proof. exact law_perm. Qed.
Print Assumptions C12_map_perm.

(* equivariance with explicit positions: the batch re-ordered / sub-sampled / duplicated by an index list *)
Theorem C12_map_reindex : forall (A B : Type) (T : list A -> list B) (row : A -> B),
  (forall X, T X = map row X) ->
  forall X d idx, T (map (fun i => nth i X d) idx) = map (fun i => nth i (T X) (row d)) idx.
Proof. exact law_reindex. Qed.
Print Assumptions C12_map_reindex.

Theorem C12_map_duplicates : forall (A B : Type) (T : list A -> list B) (row : A -> B),
  (forall X, T X = map row X) ->
  forall X d i j, nth i X d = nth j X d -> nth i (T X) (row d) = nth j (T X) (row d).
Proof. exact law_duplicates. Qed.
Print Assumptions C12_map_duplicates.

Theorem C12_map_singletons : forall (A B : Type) (T : list A -> list B) (row : A -> B),
  (forall X, T X = map row X) -> forall X, T X = concat (map (fun x => T [x]) X).
Proof. exact law_singletons. Qed.
Print Assumptions C12_map_singletons.

(* ---- the batching skeletons are maps ---- *)
(* result.append loop (SlidingWindowTransformer, BPE tokens, Distribution vstack) *)
Theorem C12_append_loop : forall (A B : Type) (row : A -> B) X, append_loop A B row X = map row X.
Proof. exact append_loop_map. Qed.
Print Assumptions C12_append_loop.

Theorem C12_sliding_window : forall K width stride sample pw pv X,
  append_loop _ _ (sliding_windows K width stride sample pw pv) X = map (sliding_windows K width stride sample pw pv) X.
Proof. intros. apply append_loop_map. Qed.
Print Assumptions C12_sliding_window.

(* np.empty + result[i] = ... (Histogram, KDE): the uninitialised rows never survive *)
Theorem C12_fill_loop : forall (A B : Type) (row : A -> B) garbage X,
  length garbage = length X -> fill_loop A B row garbage X = map row X.
Proof. exact fill_loop_map. Qed.
Print Assumptions C12_fill_loop.

Theorem C12_histogram : forall bins garbage X,
  length garbage = length X -> fill_loop _ _ (hist_row bins) garbage X = hist_transform bins X.
Proof. intros. now apply fill_loop_map. Qed.
Print Assumptions C12_histogram.

Theorem C12_kde : forall (T : Type) add div zero of_nat kern (h : T) grid garbage X,
  length garbage = length X ->
  fill_loop _ _ (kde_row T add div zero of_nat kern h grid) garbage X = kde_transform T add div zero of_nat kern h grid X.
Proof. intros. now apply fill_loop_map. Qed.
Print Assumptions C12_kde.

(* prange loop writing one result per index, for EVERY order in which the iterations are executed *)
Theorem C12_prange_any_schedule : forall (A B : Type) (row : A -> B) d X sched init,
  length init = length X -> Permutation sched (seq 0 (length X)) ->
  prange_fill A B row d init X sched = map row X.
Proof. exact prange_fill_perm. Qed.
Print Assumptions C12_prange_any_schedule.

Theorem C12_bpe_encode_all : forall code_list mcc X sched,
  Permutation sched (seq 0 (length X)) ->
  bpe_encode_all code_list mcc X sched = map (bpe_encode code_list mcc) X.
Proof. exact bpe_encode_all_map. Qed.
Print Assumptions C12_bpe_encode_all.

(* indptr/indices/data assembly (Ngram, LZ, BPE matrix): the rows cut out by the running indptr are the
   per-item rows, provided indptr advances by the number of entries appended for the item *)
Theorem C12_csr_rows : forall (A : Type) (rowf : A -> list (Z * Z)) (advance : A -> nat) X,
  (forall x, In x X -> advance x = length (rowf x)) ->
  csr_rows (csr_loop rowf advance X) = map rowf X.
Proof. exact csr_loop_rows. Qed.
Print Assumptions C12_csr_rows.

(* LZ: the dictionary is rebuilt from base_dictionary for every string, so the row is a function of the string and
   the fitted columns — for EVERY input, including strings whose parse contains phrases without a column (they are
   dropped and indptr advances by the phrases kept) and for every base dictionary / key space (K = phrases or hashes) *)
Theorem C12_lz_reset : forall (K : Type) keqb h (coldict base : dict K) max_size X,
  csr_rows (lz_transform K keqb h coldict base max_size X) = map (lz_row K keqb h coldict base max_size) X.
Proof. exact lz_transform_rows. Qed.
Print Assumptions C12_lz_reset.

(* pointwise content of a row: the (column, count) pairs of the phrases of the string's OWN parse that have a column *)
Theorem C12_lz_row_spec : forall (K : Type) keqb h (coldict base : dict K) max_size s c v,
  In (c, v) (lz_row K keqb h coldict base max_size s) <->
  exists k, In (k, v) (lz_encode K keqb h max_size s base) /\ dfind K keqb k coldict = Some c.
Proof. exact lz_row_spec. Qed.
Print Assumptions C12_lz_row_spec.

(* ... and the reset is what makes it so: the same loop without it is not a map *)
Theorem C12_lz_noreset_refuted :
  lz_transform_noreset (list Z) list_eqb (fun p => p) [([], 0%Z)] [] 10 [[97%Z]; [97%Z]]
  <> map (lz_row (list Z) list_eqb (fun p => p) [([], 0%Z)] [] 10) [[97%Z]; [97%Z]].
Proof. exact lz_noreset_differs. Qed.
Print Assumptions C12_lz_noreset_refuted.

(* InformationWeight: X @ diags(w) scales entry j of each row by w_j *)
Theorem C12_infoweight : forall w X,
  Forall (fun r => length r = length w) X ->
  infoweight_transform w X = map (fun r => map (fun j => (nth j r 0 * nth j w 0)%Z) (seq 0 (length w))) X.
Proof. exact infoweight_transform_spec. Qed.
Print Assumptions C12_infoweight.

(* ---- block / chunk index arithmetic of the LOT family, every block size (b | n, b > n, b = 1 included) ---- *)
Theorem C12_blocks_partition : forall b n, (0 < b)%nat -> concat (map range (blocks b n)) = seq 0 n.
Proof. exact blocks_cover. Qed.
Print Assumptions C12_blocks_partition.

Theorem C12_chunks_partition : forall c bs be,
  (0 < c)%nat -> (bs <= be)%nat -> concat (map range (chunks c bs be)) = seq bs (be - bs).
Proof. exact chunks_cover. Qed.
Print Assumptions C12_chunks_partition.

Theorem C12_blocks_in_range : forall b n p, In p (blocks b n) -> (fst p <= snd p <= n)%nat.
Proof. exact blocks_wf. Qed.
Print Assumptions C12_blocks_in_range.

Theorem C12_blocks_rows : forall (C : Type) (X : list C) b,
  (0 < b)%nat -> concat (map (rows_of X) (blocks b (length X))) = X.
Proof. exact blocks_rows. Qed.
Print Assumptions C12_blocks_rows.

Theorem C12_blocks_larger : forall b n, (n < b)%nat -> blocks b n = [(0, n)]%nat.
Proof. exact blocks_larger. Qed.
Print Assumptions C12_blocks_larger.

(* ---- the chunk loop INSIDE lot_vectors_sparse_internal / lot_vectors_dense_internal (chunk_size = max(256,
   block_size // 64)): for every number of rows and every chunk size >= 1 the chunks [k*c, min(k*c + c, n)),
   k < n // c + 1, visit each row exactly once, so the zero-initialised result ends up as the per-row map ---- *)
Theorem C12_kernel_chunks_partition : forall c n, (0 < c)%nat -> concat (map range (kernel_chunks c n)) = seq 0 n.
Proof. exact kernel_chunks_cover. Qed.
Print Assumptions C12_kernel_chunks_partition.

Theorem C12_kernel_chunks_once : forall c n r, (0 < c)%nat -> (r < n)%nat ->
  (r / c < n / c + 1)%nat /\
  forall k, (k < n / c + 1)%nat -> ((k * c <= r < Nat.min (k * c + c) n)%nat <-> k = (r / c)%nat).
Proof. exact kernel_chunks_once. Qed.
Print Assumptions C12_kernel_chunks_once.

Theorem C12_kernel_chunk_loop : forall (A B : Type) (row : A -> B) d zero c X,
  (0 < c)%nat -> kernel_chunk_fill row d zero (kernel_chunks c (length X)) X = map row X.
Proof. exact kernel_chunk_fill_map. Qed.
Print Assumptions C12_kernel_chunk_loop.

(* a row that no chunk covers keeps its initial zero: the bound of the chunk loop is what the property rests on ... *)
Theorem C12_kernel_unwritten_row_is_zero : forall (A B : Type) (row : A -> B) d zero chunk_list X r,
  (forall i, In i (concat (map range chunk_list)) -> (i < length X)%nat) ->
  ~ In r (concat (map range chunk_list)) ->
  nth r (kernel_chunk_fill row d zero chunk_list X) zero = zero.
Proof. exact kernel_chunk_fill_unwritten. Qed.
Print Assumptions C12_kernel_unwritten_row_is_zero.

(* ... and with the count max(1, n // c) (no trailing chunk) the loop is not the per-row map *)
Theorem C12_kernel_chunks_short_refuted :
  kernel_chunk_fill (fun x : Z => (x + 1)%Z) 0%Z 0%Z (kernel_chunks_short 2 3) [5; 6; 7]%Z
  <> map (fun x : Z => (x + 1)%Z) [5; 6; 7]%Z.
Proof. exact kernel_chunks_short_differs. Qed.
Print Assumptions C12_kernel_chunks_short_refuted.

(* a per-row kernel applied block by block (and chunk by chunk) gives the same matrix for every block/chunk size *)
Theorem C12_blockwise : forall (A B : Type) (f : list A -> list B) (row : A -> B) b X,
  (0 < b)%nat -> (forall Y, f Y = map row Y) -> blockwise f b X = map row X.
Proof. exact blockwise_map. Qed.
Print Assumptions C12_blockwise.

Theorem C12_block_chunkwise : forall (A B : Type) (f : list A -> list B) (row : A -> B) b c X,
  (0 < b)%nat -> (0 < c)%nat -> (forall Y, f Y = map row Y) -> block_chunkwise f b c X = map row X.
Proof. exact block_chunkwise_map. Qed.
Print Assumptions C12_block_chunkwise.

(* for a kernel that is not a map the batches are still consecutive pieces that make up X *)
Theorem C12_block_chunk_pieces : forall (A : Type) (X : list A) b c,
  (0 < b)%nat -> (0 < c)%nat ->
  concat (map (fun blk => concat (map (rows_of X) (chunks c (fst blk) (snd blk)))) (blocks b (length X))) = X.
Proof. exact block_chunk_partition. Qed.
Print Assumptions C12_block_chunk_pieces.

(* ---- batched Sinkhorn.  What is shared across a batch (chunk): the number of updates T performed before the
   loop stops — it stops on max_iter, on the FIRST non-finite candidate of ANY column (nobody is updated), or on the
   joint right-marginal error tested every 10th iteration.  Everything else is column-wise.  Hence `_partial`:
   each row is the T-th iterate of its own item, and two batches that stop at the same T give an item the same
   row; full row independence is false (C12_sinkhorn_batch_refuted; the implementation reproduces it, see
   known_findings.d/C12.json). ---- *)
Theorem C12_sinkhorn_shared_stop_partial : forall (Item St : Type) init step nonfinite converged max_iter items,
  sinkhorn_batch Item St init step nonfinite converged max_iter items
  = map (fun x => iter (stop_index Item St init step nonfinite converged max_iter items) (step x) (init x)) items.
Proof. exact sinkhorn_batch_spec. Qed.
Print Assumptions C12_sinkhorn_shared_stop_partial.

Theorem C12_sinkhorn_same_stop_partial : forall (Item St : Type) init step nonfinite converged max_iter X Y i j d,
  (i < length X)%nat -> (j < length Y)%nat -> nth i X d = nth j Y d ->
  stop_index Item St init step nonfinite converged max_iter X = stop_index Item St init step nonfinite converged max_iter Y ->
  nth i (sinkhorn_batch Item St init step nonfinite converged max_iter X) (init d)
  = nth j (sinkhorn_batch Item St init step nonfinite converged max_iter Y) (init d).
Proof. exact sinkhorn_same_stop_same_row. Qed.
Print Assumptions C12_sinkhorn_same_stop_partial.

Theorem C12_sinkhorn_batch_refuted :
  nth 0 (sinkhorn_batch nat nat (fun _ => 0%nat) (fun _ s => S s) ex_nonfinite ex_converged 1000 [7%nat]) 0%nat
  <> nth 0 (sinkhorn_batch nat nat (fun _ => 0%nat) (fun _ s => S s) ex_nonfinite ex_converged 1000 [7%nat; 0%nat]) 0%nat.
Proof. exact sinkhorn_batch_not_rowwise. Qed.
Print Assumptions C12_sinkhorn_batch_refuted.

(* ---- non-vacuity ---- *)
Example C12_ex_blocks_divides : blocks 2 6 = [(0, 2); (2, 4); (4, 6); (6, 6)]%nat.
Proof. reflexivity. Qed.
Example C12_ex_blocks_larger : blocks 7 6 = [(0, 6)]%nat.
Proof. reflexivity. Qed.
Example C12_ex_blocks_one : blocks 1 3 = [(0, 1); (1, 2); (2, 3); (3, 3)]%nat.
Proof. reflexivity. Qed.
Example C12_ex_chunks : chunks 2 3 8 = [(3, 5); (5, 7); (7, 8)]%nat.
Proof. reflexivity. Qed.
Example C12_ex_kernel_chunks : kernel_chunks 256 300 = [(0, 256); (256, 300)]%nat /\ kernel_chunks 2 4 = [(0, 2); (2, 4); (4, 4)]%nat.
Proof. split; reflexivity. Qed.
Example C12_ex_kernel_fill : kernel_chunk_fill (fun x : Z => (x + 1)%Z) 0%Z 0%Z (kernel_chunks 2 3) [5; 6; 7]%Z = [6; 7; 8]%Z
  /\ kernel_chunk_fill (fun x : Z => (x + 1)%Z) 0%Z 0%Z (kernel_chunks_short 2 3) [5; 6; 7]%Z = [6; 7; 0]%Z.
Proof. vm_compute. split; reflexivity. Qed.
(* base dictionary {a: 5}, columns for "" and "a" only: the phrase "b" of the second string has no column and is dropped *)
Example C12_ex_lz_base_unseen :
  csr_rows (lz_transform (list Z) list_eqb (fun p => p) [([], 0%Z); ([97%Z], 1%Z)] [([97%Z], 5%Z)] 10 [[97; 97]; [98; 98]; [97; 97]]%Z)
  = [[(1, 6); (0, 1)]; [(1, 5); (0, 1)]; [(1, 6); (0, 1)]]%Z.
Proof. vm_compute. reflexivity. Qed.
Example C12_ex_lz : csr_rows (lz_transform (list Z) list_eqb (fun p => p) [([], 0%Z); ([97%Z], 1%Z)] [] 10 [[97; 97; 97]; [97]]%Z)
  = [[(0, 1); (1, 2)]; [(0, 1)]]%Z.
Proof. vm_compute. reflexivity. Qed.
Example C12_ex_bpe : bpe_encode_all [(97, 98); (256, 97)]%Z 255%Z [[97; 98; 97; 98; 97]; [300; 97; 98]]%Z [1; 0]%nat
  = [[256; 257]; [0; 256]]%Z.
Proof. vm_compute. reflexivity. Qed.
Example C12_ex_sinkhorn_T :
  stop_index nat nat (fun _ => 0%nat) (fun _ s => S s) ex_nonfinite ex_converged 1000 [7%nat] = 11%nat /\
  stop_index nat nat (fun _ => 0%nat) (fun _ s => S s) ex_nonfinite ex_converged 1000 [7%nat; 0%nat] = 0%nat.
Proof. vm_compute. split; reflexivity. Qed.
Example C12_ex_infoweight : infoweight_transform [2; 3; 5]%Z [[1; 1; 1]; [0; 4; 2]]%Z = [[2; 3; 5]; [0; 12; 10]]%Z.
Proof. vm_compute. reflexivity. Qed.
