(* C10 (continued) — the EM update and the window slices on the list-level models (which have no checked-access
   error value; the checked-access index-level models of the same kernels and their refinement to these list-level
   models are in Properties/C10_idx.v); here the safety content is stated as index facts:
   - every position window_at_index reads is a position of the sequence (all of them, each once);
   - np.searchsorted returns an index <= the length of the row's column slice, so the repaired guard
     `index < len(col_ind)` protects the read col_ind[index] (D9), and every write of an occurrence stays inside its
     own CSR row range [indptr r, indptr (r+1)). *)
From Coq Require Import List Arith Bool Lia ZArith QArith Qcanon.
From VZ Require Properties.C03 Properties.C11.
From VZ Require Import Model.K02_Windows Model.K03_Cooc Model.K03_Exec Model.K04_EM Proofs.K02_Windows_proofs Proofs.K02_Qc_proofs Proofs.K04_EM_proofs.
Import ListNotations.
Open Scope nat_scope.

Theorem C10_window_reads : forall reverse R p L q, p < L ->
  In q (win_positions reverse R p L) -> q < L.
Proof.
  intros reverse R p L q Hp Hq.
  exact (proj1 (proj1 (proj1 (C03.C03_window_positions reverse R p L q Hp)) Hq)).
Qed.
Print Assumptions C10_window_reads.

Theorem C10_em_search_index : forall a x, searchsorted a x <= length a.
Proof. intros a x. exact (proj1 (C11.C11_searchsorted a x)). Qed.
Print Assumptions C10_em_search_index.

Theorem C10_em_writes_in_row : forall (post : list Qc) indices indptr (prior : list Qc) n (o : occurrence QcK) j d,
  csr_row_ok indices indptr (fst o) ->
  ~ (nth (fst o) indptr 0 <= j < nth (fst o + 1) indptr 0) ->
  nth j (@em_update QcK post indices indptr prior n o) d = nth j post d.
Proof. exact C11.C11_row_local. Qed.
Print Assumptions C10_em_writes_in_row.
