(* C11 — placeholder while the proofs are being written *)
From Coq Require Import List Arith Bool.
From VZ Require Import Model.K04_EM.
