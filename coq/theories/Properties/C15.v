(* C15 — Labelled-tree co-occurrence counts kernel-weighted walks between labels.
   Only statements, each closed by `exact <lemma>`, followed by Print Assumptions.
   MODEL side: Model/K18_Tree.v (matrix products, LabelBinarizer shapes, coo re-indexing, lil row splicing).
   SPEC side (Proofs/K18_Tree_proofs.v, top): `walks` by recursion over successor lists, `tree_spec`,
   `token_after_spec` (pointwise position pairs), `reach` (reflexive-transitive closure of the edge relation). *)
From Coq Require Import ZArith List Lia Arith Bool Relations.
From VZ Require Import Model.K18_Tree Proofs.K18_Tree_proofs.
Import ListNotations.
Open Scope Z_scope.

(* the k-th `walk` matrix of build_tree_skip_grams (A, A@A, (A@A)@A, ...) holds the number of (k+1)-step walks *)
Theorem C15_walks : forall g k, wf_graph g -> forall u v, (u < length g)%nat -> (v < length g)%nat ->
  mget (apow (length g) (adj g) k) u v = walks g (S k) u v.
Proof. exact apow_walks. Qed.
Print Assumptions C15_walks.

(* first-step recursion (the definition of walks) agrees with last-step extension (what `walk @ A` does) *)
Theorem C15_walks_last_step : forall g k, wf_graph g -> forall u v, (u < length g)%nat -> (v < length g)%nat ->
  walks g (S k) u v = sumn (length g) (fun x => walks g k u x * mget (adj g) x v).
Proof. exact walks_right. Qed.
Print Assumptions C15_walks_last_step.

(* count matrix of one tree: sum_{k=1..R} w_k * #walks_k(u,v); the code needs R >= 1 (weights[0]) *)
Theorem C15_weighted_walks : forall g ws, ws <> [] -> wf_graph g ->
  forall u v, (u < length g)%nat -> (v < length g)%nat ->
  mget (count_matrix (length g) (adj g) ws) u v
  = sumn (length ws) (fun i => nth i ws 0 * walks g (S i) u v).
Proof. intros g ws _. exact (count_matrix_spec g ws). Qed.
Print Assumptions C15_weighted_walks.

(* LabelBinarizer + the 1-class / 2-class repair of sparse_collapse = label/class indicator, whatever the shape *)
Theorem C15_binariser : forall labels, labels <> [] ->
  forall u c, (u < length labels)%nat -> (c < length (classes labels))%nat ->
  mget (binarize labels (classes labels)) u c = ind (nth u labels 0%nat =? nth c (classes labels) 0%nat)%nat.
Proof. intros labels H. exact (binarize_spec labels (classes labels) (labels_ok_classes labels H)). Qed.
Print Assumptions C15_binariser.

Theorem C15_classes : forall labels, NoDup (classes labels) /\ forall c, In c (classes labels) <-> In c labels.
Proof. intros labels. split; [apply classes_NoDup|intros c; apply classes_In]. Qed.
Print Assumptions C15_classes.

(* (B^T M B)[i,j] = sum of M[u,v] over the nodes u labelled class i and v labelled class j *)
Theorem C15_collapse : forall M labels, labels <> [] ->
  forall i j, (i < length (classes labels))%nat -> (j < length (classes labels))%nat ->
  mget (collapse M labels) i j =
  sumn (length labels) (fun u => sumn (length labels) (fun v =>
    ind (nth u labels 0%nat =? nth i (classes labels) 0%nat)%nat
    * ind (nth v labels 0%nat =? nth j (classes labels) 0%nat)%nat * mget M u v)).
Proof. exact collapse_spec. Qed.
Print Assumptions C15_collapse.

(* the main claim: entry (a,b) = sum over trees, over node pairs (u labelled a, v labelled b), over k <= R
   of w_k * #walks_k(u,v) *)
Theorem C15_counts : forall ws nt d trees a b,
  ws <> [] -> Forall wf_tree trees -> (a < nt)%nat -> (b < nt)%nat ->
  mget (global_counts ws nt d trees) a b
  = lsum (fun t : tree =>
      let n := length (fst t) in
      sumn n (fun u => sumn n (fun v =>
        ind (opt_eqb (lookup d (nth u (snd t) 0%nat)) a) * ind (opt_eqb (lookup d (nth v (snd t) 0%nat)) b)
        * sumn (length ws) (fun i => nth i ws 0 * walks (fst t) (S i) u v)))) trees.
Proof. intros ws nt d trees a b _. exact (global_counts_spec ws nt d trees a b). Qed.
Print Assumptions C15_counts.

(* the same for the complete pipeline: walks are counted in the pruned / masked trees *)
Theorem C15_vectorize_counts : forall ws nt d mask trees a b,
  ws <> [] -> Forall wf_tree trees -> (a < nt)%nat -> (b < nt)%nat ->
  mget (global_counts ws nt d (map (preprocess mask d) trees)) a b
  = lsum (fun t => tree_spec ws d (preprocess mask d t) a b) trees.
Proof.
  intros ws nt d mask trees a b _ Hwf Ha Hb. rewrite global_counts_spec; auto.
  - induction trees as [|t ts IH]; [reflexivity|]. cbn [map]. rewrite !lsum_cons. f_equal.
    apply IH. inversion Hwf; assumption.
  - rewrite Forall_forall in *. intros t' Ht'. apply in_map_iff in Ht' as [t [<- Ht]].
    apply wf_preprocess. auto.
Qed.
Print Assumptions C15_vectorize_counts.

(* on parent->child forests (masking off) and with the mask in the dictionary (masking on) the lookup
   label_dictionary[unique_labels[x]] never fails: removed nodes are isolated and contribute nothing *)
Theorem C15_no_keyerror : forall ws d mask trees,
  Forall (fun t => wf_tree t /\ (mask = None -> out_forest (fst t))) trees ->
  (forall m, mask = Some m -> in_dict d m = true) ->
  fst (vectorize ws (length d) d mask None After trees) = false.
Proof. intros. cbn [vectorize fst]. apply no_keyerror; auto. Qed.
Print Assumptions C15_no_keyerror.

(* nullify_mask: the diagonal projector zeroes the mask row and column and nothing else *)
Theorem C15_nullify : forall nt m G a b, (a < nt)%nat -> (b < nt)%nat ->
  mget (nullify nt (Some m) G) a b = if (a =? m)%nat || (b =? m)%nat then 0 else mget G a b.
Proof. exact nullify_spec. Qed.
Print Assumptions C15_nullify.

(* orientation algebra *)
Theorem C15_orientation_before : forall nt G a b, (a < nt)%nat -> (b < nt)%nat ->
  mget (orient nt Before G) a b = mget (orient nt After G) b a.
Proof. exact orient_before. Qed.
Print Assumptions C15_orientation_before.

Theorem C15_orientation_symmetric : forall nt G a b, (a < nt)%nat -> (b < nt)%nat ->
  mget (orient nt Symmetric G) a b = mget (orient nt After G) a b + mget (orient nt Before G) a b.
Proof. intros. rewrite orient_symmetric, orient_before by auto. reflexivity. Qed.
Print Assumptions C15_orientation_symmetric.

Theorem C15_orientation_directional : forall nt G a b, (a < nt)%nat -> (b < nt + nt)%nat ->
  mget (orient nt Directional G) a b
  = if (b <? nt)%nat then mget (orient nt Before G) a b else mget (orient nt After G) a (b - nt).
Proof.
  intros nt G a b Ha Hb. rewrite orient_directional by auto.
  destruct (Nat.ltb_spec b nt); [rewrite orient_before by auto|]; reflexivity.
Qed.
Print Assumptions C15_orientation_directional.

(* path graphs: the tree counts are the token co-occurrence 'after' counts with the same weights *)
Theorem C15_path_is_token : forall ws nt d docs a b, ws <> [] -> (a < nt)%nat -> (b < nt)%nat ->
  mget (global_counts ws nt d (map (fun s => (path (length s), s)) docs)) a b
  = lsum (fun s => token_after_spec ws d s a b) docs.
Proof. intros ws nt d docs a b _. exact (path_is_token ws nt d docs a b). Qed.
Print Assumptions C15_path_is_token.

Theorem C15_path_walks : forall L k u v, (u < L)%nat ->
  walks (path L) k u v = if ((u + k =? v)%nat && (v <? L)%nat) then 1 else 0.
Proof. exact walks_path. Qed.
Print Assumptions C15_path_walks.

(* node removal (any digraph, any list of removed nodes): reachability between the remaining nodes is unchanged *)
Theorem C15_remove_node_reach : forall xs g u v, ~ In u xs -> ~ In v xs ->
  (reach (fold_left remove_node xs g) u v <-> reach g u v).
Proof. exact reach_remove_list. Qed.
Print Assumptions C15_remove_node_reach.

(* on forests the result is a forest again, and every removed node has no edge left (no contribution) *)
Theorem C15_remove_node_forest : forall xs g, out_forest g ->
  out_forest (fold_left remove_node xs g) /\
  forall x, In x xs -> succs (fold_left remove_node xs g) x = [] /\ forall a, ~ In x (succs (fold_left remove_node xs g) a).
Proof.
  intros xs g Hf. destruct (remove_list_isolated xs g Hf) as [H1 H2]. split; [exact H1|].
  intros x Hx. apply (H2 x). left. exact Hx.
Qed.
Print Assumptions C15_remove_node_forest.

Theorem C15_isolated_no_contribution : forall ws g u v,
  (succs g u = [] /\ forall a, ~ In u (succs g a)) \/ (succs g v = [] /\ forall a, ~ In v (succs g a)) ->
  sumn (length ws) (fun i => nth i ws 0 * walks g (S i) u v) = 0.
Proof. exact weighted_walks_isolated. Qed.
Print Assumptions C15_isolated_no_contribution.

(* ---------- non-vacuity: concrete instances (vm_compute) ---------- *)
(* a tree 0 -> {1, 2}, 1 -> {3}; labels a=0, b=1: nodes 0,3 are 'a', nodes 1,2 are 'b'; a second, single-label tree *)
Definition ex_g : graph := [[1; 2]; [3]; []; []]%nat.
Definition ex_t : tree := (ex_g, [0; 1; 1; 0]%nat).
Definition ex_t1 : tree := ([[1]; []]%nat, [1; 1]%nat).
Example C15_ex_wf : Forall wf_tree [ex_t; ex_t1] /\ out_forest ex_g.
Proof.
  split.
  - repeat (constructor; [split; [apply wf_graphb_ok; reflexivity|reflexivity]|]). constructor.
  - apply out_forestb_ok. reflexivity.
Qed.
Example C15_ex_counts :
  vectorize [2; 1] 2 [Some 0; Some 1]%nat None None After [ex_t; ex_t1]
  = (false, [[1; 4]; [2; 2]]).
Proof. vm_compute. reflexivity. Qed.
Example C15_ex_directional :
  snd (vectorize [2; 1] 2 [Some 0; Some 1]%nat None None Directional [ex_t; ex_t1])
  = [[1; 2; 1; 4]; [4; 2; 2; 2]].
Proof. vm_compute. reflexivity. Qed.
(* label 1 removed from the vocabulary: node 3 is reattached to node 0 (walk 0 -> 3 of one step) *)
Example C15_ex_removed :
  vectorize [2; 1] 1 [Some 0; None]%nat None None After [ex_t] = (false, [[2]])
  /\ fst (preprocess None [Some 0; None]%nat ex_t) = [[3]; []; []; []]%nat.
Proof. vm_compute. split; reflexivity. Qed.
Example C15_ex_path :
  snd (vectorize [2; 1] 2 [Some 0; Some 1]%nat None None After [(path 4, [0; 1; 0; 1]%nat)])
  = [[1; 4]; [2; 1]]
  /\ token_after_spec [2; 1] [Some 0; Some 1]%nat [0; 1; 0; 1]%nat 0 1 = 4.
Proof. vm_compute. split; reflexivity. Qed.
