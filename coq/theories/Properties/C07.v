(* C07 — the exact transport plan is a feasible, optimal coupling.
   The network simplex (pynndescent) is NOT modelled or proved.  What is proved here, once and for all sizes, is the
   soundness of the certificate checker `check_plan` that the harness runs (vm_compute, exact rationals) on every
   plan the implementation returns: acceptance implies the plan is non-negative, has the marginals to delta, and its
   cost is within the tested bracket of the optimum of the transportation linear program.
   Only statements, each closed by `exact <lemma>`, followed by Print Assumptions. *)
From Coq Require Import QArith Qminmax Qabs List ZArith.
From VZ Require Import Model.K16_OTcert Proofs.K16_OTcert_proofs.
Import ListNotations.
Open Scope Q_scope.

(* weak duality of the transportation LP, every n x m: the dual value of ANY dual-feasible (u, v) is below the cost
   of EVERY exactly feasible plan.  Entries are read pointwise (`entry X i j = nth j (nth i X []) 0`), sums are
   bounded sums over the index ranges; no shape is demanded of X. *)
Theorem C07_weak_duality : forall (p q : list Q) (C X : list (list Q)) (u v : list Q),
  feasible p q X -> dual_feasible (length p) (length q) C u v ->
  dual_val p q u v <= cost (length p) (length q) X C.
Proof. exact weak_duality. Qed.
Print Assumptions C07_weak_duality.

(* the same on index functions (the form the double-sum exchange is proved in) *)
Theorem C07_weak_duality_fun : forall n m (f c : nat -> nat -> Q) (u p v q : nat -> Q),
  (forall i j, (i < n)%nat -> (j < m)%nat -> 0 <= f i j) ->
  (forall i, (i < n)%nat -> bsum m (fun j => f i j) == p i) ->
  (forall j, (j < m)%nat -> bsum n (fun i => f i j) == q j) ->
  (forall i j, (i < n)%nat -> (j < m)%nat -> u i + v j <= c i j) ->
  bsum n (fun i => u i * p i) + bsum m (fun j => v j * q j)
  <= bsum n (fun i => bsum m (fun j => f i j * c i j)).
Proof. exact weak_duality_fun. Qed.
Print Assumptions C07_weak_duality_fun.

Theorem C07_sum_exchange : forall n m (f : nat -> nat -> Q),
  bsum n (fun i => bsum m (fun j => f i j)) == bsum m (fun j => bsum n (fun i => f i j)).
Proof. exact bsum_exchange. Qed.
Print Assumptions C07_sum_exchange.

(* soundness of the checker *)
Theorem C07_checker_sound : forall (p q : list Q) (C X : list (list Q)) (u v : list Q) (X' : list (list Q))
                                   (delta eps unit : Q),
  check_plan p q C X u v X' delta eps unit = true ->
  let n := length p in
  let m := length q in
  let D := dual_val p q u v in
  (forall i j, 0 <= entry X i j) /\
  (forall i, (i < n)%nat -> Qabs (rsum X m i - nth i p 0) <= delta) /\
  (forall j, (j < m)%nat -> Qabs (csum X n j - nth j q 0) <= delta) /\
  feasible p q X' /\
  dual_feasible n m C u v /\
  (forall X'', feasible p q X'' -> D <= cost n m X'' C) /\
  (forall opt, is_opt p q C opt ->
     D <= opt /\ opt <= cost n m X' C /\
     Qabs (cost n m X C - opt) <= eps * Qmax unit D /\
     Qabs (cost n m X C - opt) <= eps * Qmax unit opt).
Proof. exact check_plan_sound. Qed.
Print Assumptions C07_checker_sound.

(* homogeneity: the harness presents every instance scaled to integers (masses times s, costs times k); acceptance of
   the scaled literals (P, Q0, Ci, Xi, U, V, N) implies the statements for the instance that is meant,
   p = P/s, q = Q0/s, C = Ci/k, X = Xi/s, with marginal tolerance delta/s and cost unit  unit/(s*k) *)
Theorem C07_checker_sound_scaled : forall (s k : Q) (P Q0 : list Q) (Ci Xi : list (list Q)) (U V : list Q)
                                          (N : list (list Q)) (delta eps unit : Q),
  0 < s -> 0 < k ->
  check_plan P Q0 Ci Xi U V N delta eps unit = true ->
  let p := vsc (/ s) P in
  let q := vsc (/ s) Q0 in
  let C := msc (/ k) Ci in
  let X := msc (/ s) Xi in
  let u := vsc (/ k) U in
  let v := vsc (/ k) V in
  let X' := msc (/ s) N in
  let n := length P in
  let m := length Q0 in
  let D := dual_val p q u v in
  (forall i j, 0 <= entry X i j) /\
  (forall i, (i < n)%nat -> Qabs (rsum X m i - nth i p 0) <= delta / s) /\
  (forall j, (j < m)%nat -> Qabs (csum X n j - nth j q 0) <= delta / s) /\
  feasible p q X' /\
  dual_feasible n m C u v /\
  (forall X'', feasible p q X'' -> D <= cost n m X'' C) /\
  (forall opt, is_opt p q C opt ->
     D <= opt /\ opt <= cost n m X' C /\
     Qabs (cost n m X C - opt) <= eps * Qmax (unit / (s * k)) opt).
Proof. exact check_plan_scaled_sound. Qed.
Print Assumptions C07_checker_sound_scaled.

(* when a minimiser exists its cost is that optimum, so an accepted plan costs within eps*max(unit, OPT) of it *)
Theorem C07_accepted_plan_near_optimal : forall p q C X u v X' delta eps unit Xo,
  check_plan p q C X u v X' delta eps unit = true -> optimal_plan p q C Xo ->
  Qabs (cost (length p) (length q) X C - cost (length p) (length q) Xo C)
  <= eps * Qmax unit (cost (length p) (length q) Xo C).
Proof.
  intros p q C X u v X' delta eps unit Xo H O.
  destruct (check_plan_sound _ _ _ _ _ _ _ _ _ _ H) as (_ & _ & _ & _ & _ & _ & K).
  exact (proj2 (proj2 (proj2 (K _ (optimal_plan_is_opt _ _ _ _ O))))).
Qed.
Print Assumptions C07_accepted_plan_near_optimal.

(* the index map of get_transport_plan / arc_id (use_arc_mixing = False) / allocate_graph_structures *)
Theorem C07_arc_index : forall n m i j : Z, (0 <= i < n)%Z -> (0 <= j < m)%Z ->
  let a := arc_of m i j in
  (0 <= a < n * m /\ a / m = i /\ a mod m = j)%Z.
Proof. exact arc_index. Qed.
Print Assumptions C07_arc_index.

Theorem C07_arc_slot : forall n m i j : Z, (0 <= i < n)%Z -> (0 <= j < m)%Z ->
  let pos := arc_id (n * m) (arc_of m i j) in
  (0 <= pos < n * m)%Z /\
  stored_arc (n * m) pos = arc_of m i j /\
  src_node n m pos = node_slot n m i /\
  tgt_node n m pos = node_slot n m (n + j).
Proof. exact arc_slot_endpoints. Qed.
Print Assumptions C07_arc_slot.

Theorem C07_arc_slot_injective : forall n m i j i' j' : Z,
  (0 <= i < n)%Z -> (0 <= j < m)%Z -> (0 <= i' < n)%Z -> (0 <= j' < m)%Z ->
  arc_id (n * m) (arc_of m i j) = arc_id (n * m) (arc_of m i' j') -> i = i' /\ j = j'.
Proof. exact arc_slot_injective. Qed.
Print Assumptions C07_arc_slot_injective.

Theorem C07_get_transport_plan : forall (d : Q) flow (n m i j : nat), (i < n)%nat -> (j < m)%nat ->
  nth j (nth i (get_transport_plan d flow n m) []) d
  = getZ d flow (Z.of_nat n * Z.of_nat m - (Z.of_nat i * Z.of_nat m + Z.of_nat j) - 1)%Z.
Proof. exact (@get_transport_plan_entry Q). Qed.
Print Assumptions C07_get_transport_plan.

(* ---- non-vacuity: a 2 x 3 instance the checker accepts (degenerate vertex, a tie, a zero cost), one it rejects
   because the plan is suboptimal, one it rejects because the plan is infeasible *)
Definition ex_p := [1#2; 1#2].
Definition ex_q := [1#4; 1#4; 1#2].
Definition ex_C := [[0; 1; 2]; [2; 1; 1]].
Definition ex_X := [[1#4; 1#4; 0]; [0; 0; 1#2]].
Definition ex_u := [0; 0].
Definition ex_v := [0; 1; 1].
Example C07_ex_accept : check_plan ex_p ex_q ex_C ex_X ex_u ex_v ex_X (1#1000000000) (1#10000000) 1 = true.
Proof. vm_compute. reflexivity. Qed.
Example C07_ex_feasible : feasible ex_p ex_q ex_X.
Proof.
  destruct (check_plan_sound _ _ _ _ _ _ _ _ _ _ C07_ex_accept) as (_ & _ & _ & F & _). exact F.
Qed.
Example C07_ex_reject_suboptimal :
  check_plan ex_p ex_q ex_C [[0; 0; 1#2]; [1#4; 1#4; 0]] ex_u ex_v ex_X (1#1000000000) (1#10000000) 1 = false.
Proof. vm_compute. reflexivity. Qed.
Example C07_ex_reject_marginal :
  check_plan ex_p ex_q ex_C [[1#4; 1#4; 0]; [0; 0; 1#4]] ex_u ex_v ex_X (1#1000000000) (1#10000000) 1 = false.
Proof. vm_compute. reflexivity. Qed.
Example C07_ex_accept_scaled :
  check_plan [2; 2] [1; 1; 2] [[0; 10; 20]; [20; 10; 10]] [[1; 1; 0]; [0; 0; 2]] [0; 0] [0; 10; 10]
             [[1; 1; 0]; [0; 0; 2]] (4#1000000000) (1#10000000) 40 = true
  /\ Forall2 Qeq (vsc (/ 4) [2; 2]) ex_p.
Proof. split; [vm_compute; reflexivity | repeat constructor]. Qed.
Example C07_ex_plan : get_transport_plan 0 [6; 5; 4; 3; 2; 1] 2 3 = [[1; 2; 3]; [4; 5; 6]].
Proof. vm_compute. reflexivity. Qed.
