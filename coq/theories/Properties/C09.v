(* C09 — Byte-pair encodings are lossless, reproducible and within the vocabulary budget.
   Only statements, each closed by `exact <lemma>`, followed by Print Assumptions.
   Strings are lists of code points; the model is Model/K8_BPE.v (the code as repaired for D14, D8, D5). *)
From Coq Require Import ZArith List Bool Lia Sorted.
From VZ Require Import Model.K8_BPE Model.K8_BPE_select Proofs.K8_BPE_proofs Proofs.K8_BPE_train_proofs
  Proofs.K8_BPE_matrix_proofs Proofs.K8_BPE_select_proofs.
Import ListNotations.
Open Scope Z_scope.

(* The array loop of contract_pair (checked reads/writes, output buffer, skip flag, tail copy) never leaves its
   arrays and computes the greedy left-to-right non-overlapping contraction — for every length, 0 and 1 included. *)
Theorem C09_contract_refines : forall cl a b c, contract_pair_arr cl a b c = Ok (contract a b c cl).
Proof. exact contract_pair_refines. Qed.
Print Assumptions C09_contract_refines.

Theorem C09_encode_safe : forall ms mcc s, bpe_encode ms mcc s = Ok (encode ms mcc s).
Proof. exact bpe_encode_ok. Qed.
Print Assumptions C09_encode_safe.

(* one contraction preserves the decoding as soon as the new code reads as the concatenation of its pair *)
Theorem C09_contract_decode : forall tokens mcc a b c l,
  expand tokens mcc c = expand tokens mcc a ++ expand tokens mcc b ->
  flat_map (expand tokens mcc) (contract a b c l) = flat_map (expand tokens mcc) l.
Proof. exact contract_expand. Qed.
Print Assumptions C09_contract_decode.

(* LOSSLESS: every well-formed merge list (each pair refers to characters or to earlier codes), every string of
   code points — [] , one character, strings collapsing to one code, characters above max_char_code included:
   the token table can be built, encoding succeeds, and decoding the encoding gives the string with the characters
   above max_char_code replaced by code 0. *)
Theorem C09_lossless : forall ms mcc s,
  wf_merges mcc ms -> codepoints s ->
  exists toks e, build_tokens mcc ms = Ok toks /\ bpe_encode ms mcc s = Ok e /\
                 bpe_decode toks mcc e = Ok (map (clamp mcc) s).
Proof. exact lossless. Qed.
Print Assumptions C09_lossless.

(* every learned token is the concatenation of the strings of its pair *)
Theorem C09_token_concat : forall mcc ms toks i a b,
  wf_merges mcc ms -> build_tokens mcc ms = Ok toks -> nth_error ms i = Some (a, b) ->
  exists ta tb, to_unicode toks mcc a = Ok ta /\ to_unicode toks mcc b = Ok tb /\ nth_error toks i = Some (ta ++ tb).
Proof. exact token_concat. Qed.
Print Assumptions C09_token_concat.

(* REPRODUCIBLE, for EVERY pair-selection oracle (any state type, any choice function): whenever training returns,
   max_char_code_ is the largest of the given limit and the training code points, the encodings fit_transform
   returns are the replay of the learned merge list on the training strings, there is one token per pair, and at
   most max_vocab_size tokens. *)
Theorem C09_train_replay : forall (OS : Type) sel_init sel_step X v mcc0 t,
  bpe_train OS sel_init sel_step X v mcc0 = Ok t ->
  t_mcc t = fitted_mcc X mcc0 /\
  t_enc t = map (encode (t_merges t) (t_mcc t)) X /\
  length (t_tokens t) = length (t_merges t) /\
  (1 <= v -> Z.of_nat (length (t_tokens t)) <= v).
Proof. exact train_replay_any. Qed.
Print Assumptions C09_train_replay.

(* ... hence transform re-encodes the training strings to exactly the encodings fit_transform returned *)
Theorem C09_transform_train : forall (OS : Type) sel_init sel_step X v mcc0 t,
  bpe_train OS sel_init sel_step X v mcc0 = Ok t -> transform_sequences t X = Ok (t_enc t).
Proof. exact transform_train_any. Qed.
Print Assumptions C09_transform_train.

Theorem C09_budget : forall (OS : Type) sel_init sel_step X v mcc0 t,
  bpe_train OS sel_init sel_step X v mcc0 = Ok t -> 1 <= v -> Z.of_nat (length (t_tokens t)) <= v.
Proof. intros OS si ss X v mcc0 t Ht. exact (proj2 (proj2 (proj2 (train_replay_any OS si ss X v mcc0 t Ht)))). Qed.
Print Assumptions C09_budget.

(* WELL-FORMED: for every oracle that keeps an invariant [Inv] of its own state (relative to the pending pair), does
   not raise under it and only proposes pairs made of codes that exist at that moment, training on strings of code
   points does not raise once a first pair is found, its merge list is well formed and tokens_ is the token table of
   that merge list. *)
Theorem C09_train_wf : forall (OS : Type) sel_init sel_step (Inv : OS -> Z -> nat -> Z * Z -> Prop),
  (forall X mcc st p, Forall (is_char mcc) (concat X) -> sel_init X mcc = Ok (st, Some p) ->
     Inv st mcc 0%nat p /\ is_char mcc (fst p) /\ is_char mcc (snd p)) ->
  (forall st mcc k p enc,
     Inv st mcc k p -> Forall (wf_code mcc k) (concat enc) -> wf_code mcc k (fst p) -> wf_code mcc k (snd p) ->
     exists st' o,
       sel_step st p (mcc + 1 + Z.of_nat k) enc (map (contract (fst p) (snd p) (mcc + 1 + Z.of_nat k)) enc) = Ok (st', o) /\
       forall q, o = Some q -> Inv st' mcc (S k) q /\ wf_code mcc (S k) (fst q) /\ wf_code mcc (S k) (snd q)) ->
  forall X v mcc0 st p,
  Forall codepoints X ->
  sel_init X (fitted_mcc X mcc0) = Ok (st, Some p) ->
  exists t, bpe_train OS sel_init sel_step X v mcc0 = Ok t /\ wf_merges (t_mcc t) (t_merges t) /\
            build_tokens (t_mcc t) (t_merges t) = Ok (t_tokens t).
Proof. exact train_sound. Qed.
Print Assumptions C09_train_wf.

(* instance: any oracle (with any state) that does not raise and whose chosen pair occurs in the current encodings *)
Theorem C09_train_wf_occurs : forall (OS : Type) sel_init sel_step,
  (forall X mcc st a b, sel_init X mcc = Ok (st, Some (a, b)) -> In a (concat X) /\ In b (concat X)) ->
  (forall st p c enc enc', exists st' o, sel_step st p c enc enc' = Ok (st', o)) ->
  (forall st p c enc enc' st' a b,
     sel_step st p c enc enc' = Ok (st', Some (a, b)) -> In a (concat enc') /\ In b (concat enc')) ->
  forall X v mcc0 st p,
  Forall codepoints X ->
  sel_init X (fitted_mcc X mcc0) = Ok (st, Some p) ->
  exists t, bpe_train OS sel_init sel_step X v mcc0 = Ok t /\ wf_merges (t_mcc t) (t_merges t) /\
            build_tokens (t_mcc t) (t_merges t) = Ok (t_tokens t).
Proof. exact train_sound_occurs. Qed.
Print Assumptions C09_train_wf_occurs.

(* LOSSLESS for a fitted model, both ways: the i-th encoding returned by fit_transform decodes to the i-th
   training string exactly, and transform of ANY string decodes to that string with characters above
   max_char_code_ replaced by code 0. *)
Theorem C09_fitted_lossless : forall t X,
  wf_merges (t_mcc t) (t_merges t) -> build_tokens (t_mcc t) (t_merges t) = Ok (t_tokens t) ->
  t_enc t = map (encode (t_merges t) (t_mcc t)) X -> Forall (Forall (fun c => c <= t_mcc t)) X ->
  Forall codepoints X ->
  (forall i s, nth_error X i = Some s ->
     exists e, nth_error (t_enc t) i = Some e /\ bpe_decode (t_tokens t) (t_mcc t) e = Ok s) /\
  (forall s, codepoints s ->
     exists e, bpe_encode (t_merges t) (t_mcc t) s = Ok e /\
               bpe_decode (t_tokens t) (t_mcc t) e = Ok (map (clamp (t_mcc t)) s)).
Proof. exact fitted_lossless. Qed.
Print Assumptions C09_fitted_lossless.

(* end to end: train with an oracle whose choices occur in the encodings, then decode *)
Theorem C09_fit_transform_lossless : forall (OS : Type) sel_init sel_step,
  (forall X mcc st a b, sel_init X mcc = Ok (st, Some (a, b)) -> In a (concat X) /\ In b (concat X)) ->
  (forall st p c enc enc', exists st' o, sel_step st p c enc enc' = Ok (st', o)) ->
  (forall st p c enc enc' st' a b,
     sel_step st p c enc enc' = Ok (st', Some (a, b)) -> In a (concat enc') /\ In b (concat enc')) ->
  forall X v mcc0 t, Forall codepoints X ->
  bpe_train OS sel_init sel_step X v mcc0 = Ok t ->
  (forall i s, nth_error X i = Some s ->
     exists e, nth_error (t_enc t) i = Some e /\ bpe_decode (t_tokens t) (t_mcc t) e = Ok s) /\
  (forall s, codepoints s ->
     exists e, bpe_encode (t_merges t) (t_mcc t) s = Ok e /\
               bpe_decode (t_tokens t) (t_mcc t) e = Ok (map (clamp (t_mcc t)) s)).
Proof.
  intros OS si ss Hi Htot Hs X v mcc0 t HX Ht.
  destruct (train_replay_any OS si ss X v mcc0 t Ht) as (Hmcc & Henc & _).
  assert (Hsel : exists st p, si X (fitted_mcc X mcc0) = Ok (st, Some p)).
  { unfold bpe_train in Ht. fold (fitted_mcc X mcc0) in Ht.
    destruct (si X (fitted_mcc X mcc0)) as [[st [p|]]|]; simpl in Ht; [eauto | discriminate | discriminate]. }
  destruct Hsel as (st & p & Hsel).
  destruct (train_sound_occurs OS si ss Hi Htot Hs X v mcc0 st p HX Hsel) as (t' & Ht' & Hwf & Hb).
  rewrite Ht in Ht'. inversion Ht'; subst t'.
  apply (fitted_lossless t X Hwf Hb Henc); [|exact HX]. rewrite Hmcc. apply fitted_mcc_ge.
Qed.
Print Assumptions C09_fit_transform_lossless.

(* THE REAL SELECTION.  Model/K8_BPE_select.v models count_pairs, contract_and_count_pairs (array and pair_counts),
   pruning_max_freq_pair with its tie-breaking and pruning, the min-count halving / recount and the acceptance test;
   (impl_init min_count, impl_step) is that oracle, so [bpe_train sstate (impl_init mn) impl_step] models the whole
   of bpe_train with nothing supplied by the implementation.
   The array output of contract_and_count_pairs is contract_pair's for every dictionary: *)
Theorem C09_cacp_refines : forall cl a b c d,
  NoDup (pkeys d) -> exists d', cacp cl a b c d = Ok (contract a b c cl, d').
Proof. exact cacp_array. Qed.
Print Assumptions C09_cacp_refines.

(* the selection never raises KeyError / IndexError in reachable states, only proposes existing codes, and training
   with it succeeds with a well-formed merge list as soon as a first pair is found *)
Theorem C09_train_impl_wf : forall mn X v mcc0 st p,
  Forall codepoints X ->
  impl_init mn X (fitted_mcc X mcc0) = Ok (st, Some p) ->
  exists t, bpe_train sstate (impl_init mn) impl_step X v mcc0 = Ok t /\ wf_merges (t_mcc t) (t_merges t) /\
            build_tokens (t_mcc t) (t_merges t) = Ok (t_tokens t).
Proof. exact impl_train_sound. Qed.
Print Assumptions C09_train_impl_wf.

(* LOSSLESS AND REPRODUCIBLE, unconditionally for the modelled bpe_train: every corpus of strings of code points,
   every max_vocab_size, min_token_occurrence, max_char_code *)
Theorem C09_impl_lossless : forall mn X v mcc0 t,
  Forall codepoints X ->
  bpe_train sstate (impl_init mn) impl_step X v mcc0 = Ok t ->
  wf_merges (t_mcc t) (t_merges t) /\ build_tokens (t_mcc t) (t_merges t) = Ok (t_tokens t) /\
  transform_sequences t X = Ok (t_enc t) /\
  (forall i s, nth_error X i = Some s ->
     exists e, nth_error (t_enc t) i = Some e /\ bpe_decode (t_tokens t) (t_mcc t) e = Ok s) /\
  (forall s, codepoints s ->
     exists e, bpe_encode (t_merges t) (t_mcc t) s = Ok e /\
               bpe_decode (t_tokens t) (t_mcc t) e = Ok (map (clamp (t_mcc t)) s)).
Proof. exact impl_lossless. Qed.
Print Assumptions C09_impl_lossless.

(* 'tokens' output = the strings of the codes of the 'sequences' output; bpe_decode = their concatenation *)
Theorem C09_tokens_of_sequences : forall toks mcc codes ts,
  tokens_row toks mcc codes = Ok ts ->
  Forall2 (fun c t => to_unicode toks mcc c = Ok t) codes ts /\ bpe_decode toks mcc codes = Ok (concat ts).
Proof. exact tokens_row_spec. Qed.
Print Assumptions C09_tokens_of_sequences.

(* 'matrix' output = the code counts of the 'sequences' output.
   columns: the distinct codes of the training encodings in increasing order *)
Theorem C09_matrix_columns : forall enc,
  StronglySorted Z.lt (unique_codes enc) /\ forall x, In x (unique_codes enc) <-> In x (concat enc).
Proof. intros enc. split; [apply unique_codes_sorted | intros x; apply unique_codes_In]. Qed.
Print Assumptions C09_matrix_columns.

Theorem C09_matrix_column_index : forall codes x j,
  col_of codes x = Some j -> 0 <= j < Z.of_nat (length codes) /\ nth_error codes (Z.to_nat j) = Some x.
Proof.
  intros codes x j H. destruct (col_of_spec codes x j H) as [H0 H1]. pose proof (col_of_lt codes x j H). auto.
Qed.
Print Assumptions C09_matrix_column_index.

(* a transform row: at the column of code x the number of occurrences of x in the row's encoding; 0 at a column of
   no code; canonical (sorted columns, positive counts); codes without a column are ignored *)
Theorem C09_matrix_of_sequences : forall codes row,
  (forall x j, col_of codes x = Some j -> cell (matrix_transform_row codes row) j = countZ x row) /\
  (forall j, (forall x, col_of codes x <> Some j) -> cell (matrix_transform_row codes row) j = 0) /\
  canonical_row (matrix_transform_row codes row).
Proof.
  intros codes row. split; [intros; apply matrix_transform_row_cell; assumption|].
  split; [intros; apply matrix_transform_row_other; assumption | apply sum_dups_canonical].
Qed.
Print Assumptions C09_matrix_of_sequences.

(* fit_transform's matrix never hits a missing column and is transform's matrix of the training encodings *)
Theorem C09_matrix_fit : forall enc, matrix_fit enc = Ok (matrix_transform (unique_codes enc) enc).
Proof. exact matrix_fit_ok. Qed.
Print Assumptions C09_matrix_fit.

(* ---------------------------------------------------------------- non-vacuity *)
(* a well-formed merge list with a code built from codes; strings: empty, one character, collapsing to one code,
   with a character above max_char_code *)
Example ex_ms : list (Z * Z) := [(97, 98); (99, 99); (100, 100)].
Example ex_wf : wf_merges 98 ex_ms.
Proof.
  split; [lia|]. intros i a b H.
  destruct i as [|[|[|i]]]; simpl in H; try (destruct i; discriminate); inversion H; subst;
    unfold wf_code, is_char, MAXCP; simpl; lia.
Qed.
Example ex_lossless :
  map (fun s => (bpe_encode ex_ms 98 s, bind (bpe_encode ex_ms 98 s) (fun e => bind (build_tokens 98 ex_ms) (fun t => bpe_decode t 98 e))))
      [[]; [97]; [97; 98; 97; 98; 97; 98; 97; 98]; [97; 98; 300; 97]]
  = [(Ok [], Ok []); (Ok [97], Ok [97]); (Ok [101], Ok [97; 98; 97; 98; 97; 98; 97; 98]); (Ok [99; 0; 97], Ok [97; 98; 0; 97])].
Proof. vm_compute. reflexivity. Qed.

(* training with the oracle "replay this list" on a corpus with an empty and a one-character string: the budget
   max_vocab_size = 2 is reached, the pending pair is contracted, transform reproduces the encodings *)
Example ex_train :
  exists t, bpe_train _ (replay_init [(97, 98); (99, 99); (100, 100)]) replay_step
                      [[97; 98; 97; 98; 97; 98; 97; 98]; []; [97]] 2 0 = Ok t /\
            t_merges t = [(97, 98); (99, 99)] /\ t_enc t = [[100; 100]; []; [97]] /\
            t_tokens t = [[97; 98]; [97; 98; 97; 98]] /\ transform_sequences t [[97; 98; 97; 98; 97; 98; 97; 98]; []; [97]] = Ok (t_enc t).
Proof. eexists. vm_compute. repeat split. Qed.

Example ex_matrix :
  matrix_fit [[100; 100]; []; [97]] = Ok (3, 2, [[(1, 2)]; []; [(0, 1)]]) /\
  matrix_transform [97; 100] [[100; 5; 100; 97]; [5]] = (2, 2, [[(0, 1); (1, 2)]; []]).
Proof. vm_compute. split; reflexivity. Qed.

(* the whole training model on a corpus with ties, pruning and several merges *)
Example ex_train_impl :
  exists t, bpe_train sstate (impl_init 1) impl_step
              [[97; 98; 97; 98; 97; 98; 97; 98]; [99; 100; 99; 100; 99; 100]; [97]] 10 0 = Ok t /\
            t_merges t = [(97, 98); (101, 101); (99, 100); (103, 103)] /\ t_enc t = [[102; 102]; [104; 103]; [97]].
Proof. eexists. vm_compute. repeat split. Qed.
